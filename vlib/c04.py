"""C04 — see DESIGN.md section 4. Proof obligations: Properties/C04.v. Tie: K5 on every case, under this property's observation."""
from . import core

PROP_FILE = 'Properties/C04.v'
THEOREMS = ['C04_flat_group_one_line', 'C04_render_refines_layouts', 'C04_optional_paren_sound', 'C04_line_comment_atom']


def run(tier, seed, replay=None):
    return core.run_property('C04', tier, seed, replay, 'c04', PROP_FILE, THEOREMS, 'well-formed input was formatted into text with syntax errors', ["the parser is outside the model: 'output has no syntax errors' is observed with typst_syntax on every case (testing); the theorems cover the renderer and the optional-delimiter mechanism for all documents and widths"])
