"""Case sources shared by the checks: fixtures, random strings, Coq cases.v evaluation."""
import glob
import os
import re

from .common import BUILD, COQ, REPO, SplitMix, sh

WS_CHARS = [" ", "\t", "\n", "\r", "\x0b", "\x0c", "\u0085", " ", " ", " ", " ",
            " ", " ", " ", " ", " ", "　"]
OTHER_CHARS = ["a", "b", "-", "/", "*", "#", "$", "﻿", "​", "é", "中", "😀", "x", "1", "\"", "`"]


def fixtures(limit_bytes=None):
    """All .typ fixture sources of the repository, sorted; (relative path, text)."""
    root = os.path.join(REPO, "tests", "fixtures")
    res = []
    for p in sorted(glob.glob(os.path.join(root, "**", "*.typ"), recursive=True)):
        try:
            t = open(p, encoding="utf-8").read()
        except (OSError, UnicodeDecodeError):
            continue
        if limit_bytes and len(t.encode()) > limit_bytes:
            continue
        res.append((os.path.relpath(p, root), t))
    return res


def random_ws_string(rng, maxlen=40):
    n = rng.below(maxlen + 1)
    out = []
    for _ in range(n):
        r = rng.below(10)
        if r < 3:
            out.append(" ")
        elif r < 5:
            out.append("\n")
        elif r < 7:
            out.append(rng.pick(WS_CHARS))
        else:
            out.append(rng.pick(OTHER_CHARS))
    return "".join(out)


def coq_str(s):
    return "[" + ";".join(str(ord(c)) for c in s) + "]%N"


def coq_eval(name, imports, exprs, timeout=600):
    """Evaluate closed Gallina expressions of type `list N` with vm_compute inside coqc.
    Each expression is printed on its own through a Definition + Eval so results can be parsed
    per line. Returns list of python strings (decoded from the printed list of N)."""
    d = os.path.join(BUILD, "coqcases")
    os.makedirs(d, exist_ok=True)
    path = os.path.join(d, name + ".v")
    lines = ["From Coq Require Import List NArith.", "Import ListNotations.", "Open Scope N_scope.",
             "From TV Require Import %s." % " ".join(imports), "Set Printing Width 1000000.", "Set Printing Depth 1000000."]
    for i, e in enumerate(exprs):
        lines.append("Definition case_%d : list N := %s." % (i, e))
        lines.append("Eval vm_compute in case_%d." % i)
    open(path, "w").write("\n".join(lines) + "\n")
    rc, out = sh(["coqc", "-noglob", "-Q", COQ, "TV", "-o", os.path.join(d, name + ".vo"), path], timeout=timeout)
    if rc != 0:
        raise RuntimeError("coqc cases failed: " + out[-2000:])
    res = []
    for m in re.finditer(r"=\s*\[([^\]]*)\]\s*:\s*list N", out):
        body = m.group(1).strip()
        if not body:
            res.append("")
        else:
            res.append("".join(chr(int(x.strip().replace("%N", ""))) for x in body.split(";")))
    return res
