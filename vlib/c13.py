"""C13 — range formatting. Proof: Properties/C13.v. Tie: K6 (format_source_range vs Partial.format_range on the same
(source, range): class, returned range, bytes). Oracle: catch_unwind; range on node boundaries and covering the trimmed
request; splice, re-parse, no errors, same skeleton."""
import time

from . import build, cases, core, krange, shrink, synth
from .common import SplitMix, hexs, unhex
from .verdict import Check

PROP_FILE = "Properties/C13.v"
THEOREMS = ["C13_range_arithmetic_total", "C13_cover_sound", "C13_indent_lookup_total", "C13_result_is_covering_node",
            "C13_refuses_erroneous", "C13_range_total"]


def run(tier, seed, replay=None):
    ck = Check("C13", tier, seed)
    ck.rule = ("G9: (start, end) byte pairs on char boundaries of fixtures (< 1.5 kB), grammar-directed sources (G3), their G2 perturbations and "
               "damaged (erroneous) sources: whole text, empty, single points, sub-ranges, ends past the text; distinct = distinct "
               "(source, range, width, tab); non-trivial = the source has at least 3 nodes and the call returned text")
    ck.assumptions = ["the spliced-text half (re-parses to an equivalent tree) relies on the parser, which is outside the model: decided by the oracle on every case",
                      "C13_range_total excludes every Panic site for schema-conforming trees (swfc, evaluated on every parsed tree); K6 compares ok / refused / panicked as well"]
    ck.trusted += ["modelled, not verified: typst-syntax (parser, LinkedNode offsets), `pretty` renderer; Rust str slicing semantics restated as split_at_byte/slice"]
    proofs_ok, built = core.prepare(ck, PROP_FILE, THEOREMS)
    if not built:
        ck.violation("broken-obligation", {"failing": ck.failed_obligations()}, no_input=True, tag="build")
        return ck.finish()
    rng = SplitMix(seed * 31 + 5)
    fx = [t for (_, t) in cases.fixtures() if len(t) < 1500]
    nsyn = 250 if tier == "quick" else 6000
    srcs = fx[: (60 if tier == "quick" else len(fx))] + synth.generate(rng, nsyn)
    pert = core.gen_perturbed(seed, 150 if tier == "quick" else 4000, 600, "xd", fx)
    srcs += pert
    srcs += [core.damaged(rng, rng.pick(fx)) for _ in range(60 if tier == "quick" else 1500)]
    srcs += ["#let x = 1\n", "", " \n ", "1. @b[b]$1$\n  \\*\n", "    / T: a\n      b\n", "é中\n",
             # item bodies that span lines, at several depths and marker kinds
             "/ Term: first line\n  second line\n", "  / Key: value\n    continued\n\n    - nested item\n\nafter\n",
             "- first\n  second\n  - inner a\n    inner b\n+ one\n  two\n", "$ vec(mat(1, 2; 3, 4), cases(a; b,)) $\n", "$ vec(mat(x,, y), #g(1, 2)) + sqrt(binom(a, b)) $\n",
             # code after a hash in math: method chains as call arguments and as sub-chains (they must not break)
             "$ mat(#results.filter(r => r.ok).map(r => r.value).sum(), 0; 0, #results.len()) $\n",
             "$ x = #results.filter(r => r.ok).map(r => r.value).sum() + 1 $\n", "$ sin(#a.bb(c).dd(e).ff(g)) + #a.bb(c).dd(e).ff(g) $\n",
             "#f(g(1, 2), (a, b), (c: 1))\n", "#{ let x = f(a.b.c(1), [t]) }\n", "text\n\n  + a *b*\n    c $x$\n    / t: u\n      v\n"]
    cs = []
    for i, s in enumerate(srcs):
        for (a, b) in krange.gen_ranges(rng, s, 3 if tier == "quick" else 8):
            cs.append(([80, 20, 0][i % 3], [2, 4, 1][i % 3], a, b, s))
    # the hashed chains again at narrow widths (a chain that does not fit is where break suppression matters)
    for s in [x for x in srcs if ".filter(r => r.ok)" in x or ".bb(c).dd(e)" in x][:40]:
        for w in (40, 20):
            for (a, b) in krange.gen_ranges(rng, s, 3 if tier == "quick" else 8):
                cs.append((w, 2, a, b, s))
    # regressions of repaired defects run first
    cs = [(80, 2, 3, 16, "$ mat(;,;,11,,) $\n"), (80, 2, 12, 12, "/ a: // c\n\n  \n    b\n"),
          (80, 2, 12, 14, "1. @b[b]$1$\n  \\*\n"), (80, 2, 1, 4, "#(2)w"), (80, 2, 2, 5, "$#(2)w$"),
          (80, 2, 30, 50, "/ 4:\n  // 4\n    / 44: // 44\n          444\n\n    / 5: x\n"),
          (80, 2, 8, 21, "$ sqrt(#text(red)[1], y) $\n"), (20, 4, 3, 12, "$ #f(1, 2)[x] + #[a *b*] $\n"),
          (0, 1, 5, 5, "* /**/#text(fill: red)[5]\naaa\n*\n"), (80, 2, 4, 8, "#[ a *b* ]\n"), (80, 2, 3, 6, "= H /*c*/ x\n")] + cs
    if replay and isinstance(replay.get("input"), dict) and "source" in replay["input"]:
        i = replay["input"]
        cs.insert(0, (i.get("width", 80), i.get("tab", 2), i["start"], i["end"], i["source"]))
    t0 = time.time()
    try:
        res = krange.run_cases(cs, timeout=7200)
    except Exception as e:  # harness crashed or hung
        ck.oblige("evaluation of the range cases completes", False, str(e)[-1500:])
        ck.violation("broken-obligation", {"failing": ck.failed_obligations()}, no_input=True, tag="eval")
        return ck.finish()
    ck.extra["evaluation_s"] = round(time.time() - t0, 1)
    cls = {}
    for d in res:
        cls[d.get("class")] = cls.get(d.get("class"), 0) + 1
        c = d["case"]
        ck.count((c[4], c[2], c[3], c[0], c[1]), d.get("class") == "ok")
    ck.extra["by_class"] = cls
    for d in res[:2] + res[-2:]:
        c = d["case"]
        ck.sample({"source": c[4][:120], "range": [c[2], c[3]], "width": c[0], "tab": c[1], "class": d.get("class"),
                   "returned": [d.get("rs"), d.get("re")]})
    dis = [d for d in res if not d["agree"]]
    dis_range = [d for d in res if not d["range_agree"]]
    ck.extra["k6_compared"] = len(res)
    ck.extra["k6_disagreements"] = len(dis)
    ck.oblige("K6: format_source_range == Partial.format_range (class, returned range, bytes) on %d cases" % len(res), not dis,
              ("first: %r" % (dis[0]["case"][:4] + (dis[0]["case"][4][:200],),))[:600] if dis else "")
    # hypothesis of C13_range_total: the schema clause on every well-formed tree (erroneous sources are refused before it matters)
    # (sources with syntax errors are left out: the parser's error recovery builds nodes outside the schema that hold
    # no Error child themselves, e.g. a Binary without left operand; the theorem claims nothing there and K6 still
    # compares the two sides on them; their number is reported)
    sw = [d for d in res if d.get("model_swfc") is not None and d.get("in_err") == "0"]
    notsw = [d for d in sw if not d["model_swfc"]]
    ck.extra["nodes_outside_schema_in_erroneous_sources"] = sum(
        1 for d in res if d.get("model_swfc") is False and d.get("in_err") != "0")
    ck.oblige("hypothesis of C13_range_total: the extracted schema clause `swfc` holds on the node to format in all %d range cases on sources without syntax errors" % len(sw), not notsw,
              ("first: %r" % (notsw[0]["case"][:4] + (notsw[0]["case"][4][:200],),))[:600] if notsw else "")
    viol = [d for d in res if d.get("c13") == "0" and not shrink.in_known_class(d, "c01")]
    known = [d for d in res if d.get("c13") == "0" and shrink.in_known_class(d, "c01")]
    ck.extra["known_class_instances"] = len(known)
    ck.extra["oracle_failures_outside_known_classes"] = len(viol)
    seen = set()
    for d in viol:
        if len(ck.violations) >= 3:
            break
        c = d["case"]
        key = (c[4], c[2], c[3])
        if key in seen:
            continue
        seen.add(key)
        ck.violation("counterexample", {
            "what": "format_source_range panicked" if d.get("class") == "panic" else "range formatting result is not safe to splice",
            "input": {"width": c[0], "tab": c[1], "start": c[2], "end": c[3], "source": c[4]},
            "returned_range": [d.get("rs"), d.get("re")], "returned_text": unhex(d["out"]) if d.get("out") else None,
            "detail": unhex(d["c13d"]) if d.get("c13d") else (unhex(d["panic"]) if d.get("panic") else None),
            "reproduce": "echo '%d %d %d %d %s' | build/target/debug/tyv range" % (c[0], c[1], c[2], c[3], hexs(c[4]))})
    if not ck.violations and ck.failed_obligations():
        first = dis[0]["case"] if dis else None
        ck.violation("broken-obligation", {"failing": ck.failed_obligations(), "searched": "C13 oracle over %d range cases" % len(res),
                                           "first_disagreement": first}, no_input=True, tag="obl")
    return ck.finish()
