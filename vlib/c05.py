"""C05 — totality. Proof: Properties/C05.v (C05_total: text or refusal, never a panic, for every schema-conforming tree;
SafeBound.v, Total.v). Tie: class correspondence (ok / refusal / panic) between the implementation
and the model on every stream, including damaged sources (G4) and nested families (G5)."""
from . import core, shrink
from .common import hexs, unhex

PROP_FILE = "Properties/C05.v"
THEOREMS = ["C05_total", "C05_no_panic_site", "C05_schema_survives_annotation", "C05_refuses_iff_erroneous", "C05_convenience_returns_input", "C05_renderer_terminates", "C05_never_out_of_fuel",
            "C05_wellformed_total_partial", "C05_comment_sites_unreachable"]


def post(ck, recs):
    # class correspondence and the panic / refusal oracle on every input, well-formed or not
    bad_class = [r for r in recs if r.get("k") and not r["k"].get("class_eq")]
    ck.oblige("K5-class: implementation and model agree on accepted / refused / panicked for %d cases" %
              sum(1 for r in recs if r.get("k")), not bad_class,
              ("first: %r" % (core.case_of(bad_class[0]),))[:500] if bad_class else "")
    # hypothesis of C05_total: the schema clause holds on every well-formed tree the parser hands over
    sw = [r for r in recs if r.get("k") and r["k"].get("model_swfc") is not None and r["o"].get("in_err") != "1"]
    notsw = [r for r in sw if not r["k"]["model_swfc"]]
    ck.oblige("hypothesis of C05_total: the extracted schema clause `swfc` holds on all %d well-formed parsed trees" % len(sw), not notsw,
              ("first: %r" % (core.case_of(notsw[0]),))[:600] if notsw else "")
    fails = [r for r in recs if r["o"].get("c05") == "0"]
    ck.extra["erroneous_inputs"] = sum(1 for r in recs if r["o"].get("in_err") == "1")
    ck.extra["panics"] = sum(1 for r in recs if r["o"].get("class") == "panic")
    seen = set()
    for r in fails:
        if len(ck.violations) >= 3:
            break
        key = "panic" if r["o"].get("class") == "panic" else None
        # a case that killed or hung the harness process is reported as it is: every shrinking step would wait for the
        # same death again
        died = key and unhex(r["o"].get("panic", "-")).startswith("process died")
        small = shrink.shrink(r["w"], r["tab"], r["reorder"], r["src"], "panic") if key and not died else r["src"]
        if small in seen:
            continue
        seen.add(small)
        ck.violation("counterexample", {
            "what": ("format_content did not return (the process aborted or hung)" if died else "format_content panicked") if key else "refusal does not coincide with syntax errors, or format_with_width changed a refused input",
            "input": {"width": r["w"], "tab": r["tab"], "reorder": r["reorder"], "source": small},
            "panic_message": unhex(r["o"].get("panic", "-")) if r["o"].get("panic") else None,
            "reproduce": "echo '%d %d %d %s' | build/target/debug/tyv oracle" % (r["w"], r["tab"], r["reorder"], hexs(small))})


def run(tier, seed, replay=None):
    return core.run_property(
        "C05", tier, seed, replay, "c05", PROP_FILE, THEOREMS,
        "formatting panicked, or refused a well-formed input / accepted an erroneous one",
        ["the parser (typst_syntax::parse) terminates and returns a tree; native stack depth and allocation failure are runtime "
         "behaviour the model cannot exhibit (nested families are run to depth 32 (quick) / 64 (thorough) as a test; a case that does not answer within 60 s counts as a hang and is reported)",
         "C05_total: no Panic site of the model is reachable from a well-formed tree that satisfies the schema clause swfc; swfc is "
         "evaluated on every parsed tree, and the model's ok / refused / panicked class is compared with the implementation's on every case"],
        post=post)
