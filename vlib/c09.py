"""C09 — see DESIGN.md section 4. Proof obligations: Properties/C09.v. Tie: K5 on every case, under this property's observation."""
from . import core

PROP_FILE = 'Properties/C09.v'
THEOREMS = ['C09_math_structure', 'C09_width_independent']


def run(tier, seed, replay=None):
    return core.run_property('C09', tier, seed, replay, 'c09', PROP_FILE, THEOREMS, 'whitespace between math atoms was created, removed or converted', ['proved for Math nodes; MathDelimited edges, equation delimiters and call arguments are decided by K5 and the oracle on every case'])
