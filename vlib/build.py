"""Build steps: generated Coq sources, the proof build, the audit, extraction, the Rust harness."""
import glob
import os
import re
import shutil
import time

from .common import (BUILD, COQ, EXTRACT, REPO, RUST_ENV, TARGET, VERIF, Lock, file_hash, sh,
                     write_if_changed)

FORBIDDEN = re.compile(
    r"\b(Admitted|admit|Axiom|Axioms|Parameter|Parameters|Conjecture|Conjectures|Hypothesis|Hypotheses|Variable|Variables)\b"
    r"|Unset\s+Guard|bypass_check|type-in-type|impredicative-set|Admit\s+Obligations|Unset\s+Universe\s+Checking|Unset\s+Positivity")

# Axioms of the standard library that may appear under Print Assumptions (none expected so far).
ALLOWED_AXIOMS = set()


def coq_files():
    with open(os.path.join(COQ, "_CoqProject")) as f:
        return [l.strip() for l in f if l.strip().endswith(".v")]


def generate():
    """Regenerate coq/gen/*.v from /repo's current sources. Returns list of (file, changed)."""
    res = []
    tools = os.path.join(VERIF, "tools")
    for tool in sorted(glob.glob(os.path.join(tools, "gen_*.py"))):
        rc, out = sh(["python3", tool, REPO, os.path.join(COQ, "gen")], timeout=120)
        res.append((os.path.basename(tool), rc, out.strip()))
    return res


def audit_sources():
    """Grep the development for forbidden declarations. Section-local Variable/Hypothesis are allowed
    only inside a Section; we check that every such line sits between Section and End."""
    bad = []
    for rel in coq_files() + ["Extract.v"]:
        path = os.path.join(COQ, rel)
        depth = 0
        in_comment = 0
        try:
            text = open(path).read()
        except OSError:
            bad.append((rel, 0, "missing file"))
            continue
        # strip comments (nested)
        out = []
        i = 0
        while i < len(text):
            if text.startswith("(*", i):
                in_comment += 1
                i += 2
            elif text.startswith("*)", i) and in_comment:
                in_comment -= 1
                i += 2
            else:
                if not in_comment:
                    out.append(text[i])
                elif text[i] == "\n":
                    out.append("\n")
                i += 1
        for ln, line in enumerate("".join(out).split("\n"), 1):
            if re.match(r"\s*Section\b", line):
                depth += 1
            if re.match(r"\s*End\b", line) and depth > 0:
                depth -= 1
            m = FORBIDDEN.search(line)
            if m:
                word = m.group(0)
                if word in ("Variable", "Variables", "Hypothesis", "Hypotheses") and depth > 0:
                    continue
                bad.append((rel, ln, line.strip()))
    return bad


def coq_make(targets, timeout=1500):
    """Full .vo build of the given targets (relative .vo paths) through coq_makefile's Makefile."""
    with Lock("coq"):
        mk = os.path.join(COQ, "Makefile")
        proj = os.path.join(COQ, "_CoqProject")
        if not os.path.exists(mk) or os.path.getmtime(mk) < os.path.getmtime(proj):
            rc, out = sh(["coq_makefile", "-f", "_CoqProject", "-o", "Makefile"], cwd=COQ, timeout=60)
            if rc != 0:
                return False, out
        rc, out = sh(["make", "-j16", "-k"] + list(targets), cwd=COQ, timeout=timeout)
        return rc == 0, out


def print_assumptions(prop_rel):
    """Re-run coqc on a Properties file (cheap: its dependencies are compiled) and parse what
    `Print Assumptions` printed under each theorem. Returns (ok, [(theorem, axioms)], log)."""
    with Lock("coq"):
        os.makedirs(os.path.join(BUILD, "pa"), exist_ok=True)
        rc, out = sh(["coqc", "-noglob", "-Q", ".", "TV", "-o", os.path.join(BUILD, "pa", os.path.basename(prop_rel) + "o"), prop_rel],
                     cwd=COQ, timeout=600)
    if rc != 0:
        return False, [], out
    src = open(os.path.join(COQ, prop_rel)).read()
    names = re.findall(r"Print Assumptions\s+([A-Za-z0-9_']+)\s*\.", src)
    # Split the output at each assumptions report.
    reports = re.findall(r"(Closed under the global context|Axioms:\n(?:.+\n?)+?(?=\n\S|\Z)|Section Variables:\n(?:.+\n?)+?(?=\n\S|\Z))", out)
    res = []
    ok = len(reports) >= len(names) and len(names) > 0
    for i, n in enumerate(names):
        rep = reports[i] if i < len(reports) else "<missing>"
        if rep.startswith("Closed"):
            res.append((n, []))
        else:
            axs = re.findall(r"^([A-Za-z0-9_.']+)\s*:", rep, re.M)
            res.append((n, axs))
            if not set(axs) <= ALLOWED_AXIOMS:
                ok = False
    return ok, res, out


def build_extract():
    """Extract the model and build the OCaml driver when the Coq sources changed."""
    with Lock("extract"):
        os.makedirs(EXTRACT, exist_ok=True)
        srcs = [os.path.join(COQ, f) for f in coq_files()] + [os.path.join(COQ, "Extract.v")] + \
            glob.glob(os.path.join(VERIF, "extract", "*.ml"))
        h = file_hash(srcs)
        stamp = os.path.join(EXTRACT, "stamp")
        if os.path.exists(stamp) and open(stamp).read() == h and os.path.exists(os.path.join(EXTRACT, "model")):
            return True, "cached"
        # the compiled files Extract.v imports must be those of the current sources (a check builds only the .vo of
        # its own property file, which need not depend on all of them)
        ext_src = open(os.path.join(COQ, "Extract.v")).read()
        mods = []
        for m in re.finditer(r"From TV(?:\.gen)? Require Import ([^.]*)\.", ext_src):
            mods += m.group(1).split()
        targets = [(("gen/" + x) if os.path.exists(os.path.join(COQ, "gen", x + ".v")) else x) + ".vo" for x in mods]
        okm, outm = coq_make(targets)
        note = ""
        src_dir = COQ
        if not okm:
            # The model does not build from the current sources (typically: a translator met a shape it does not know and
            # emitted `Unrecognised`). The verdict is already a violation; to SEARCH for a failing input the check still
            # needs an executable model: build one from the generated files of the unchanged tree (coq/gen_baseline, kept
            # in the repository of this machinery), in a scratch copy of the development.
            base = os.path.join(BUILD, "coq_baseline")
            shutil.rmtree(base, ignore_errors=True)
            os.makedirs(os.path.join(base, "gen"), exist_ok=True)
            for rel in coq_files() + ["Extract.v", "_CoqProject"]:
                dst = os.path.join(base, rel)
                os.makedirs(os.path.dirname(dst), exist_ok=True)
                shutil.copy(os.path.join(COQ, rel), dst)
            for f in glob.glob(os.path.join(COQ, "gen_baseline", "*.v")):
                shutil.copy(f, os.path.join(base, "gen", os.path.basename(f)))
            rc, outb = sh(["coq_makefile", "-f", "_CoqProject", "-o", "Makefile"], cwd=base, timeout=60)
            rc, outb = sh(["make", "-j16", "-k"] + targets, cwd=base, timeout=1500)
            if rc != 0:
                return False, (outm[-1500:] + "\n[baseline model] " + outb[-1500:])
            src_dir = base
            note = "[the model of the unchanged tree's generated files was built for the search] "
        rc, out = sh(["coqc", "-Q", src_dir, "TV", "-o", os.path.join(EXTRACT, "Extract.vo"),
                      os.path.join(src_dir, "Extract.v")], cwd=EXTRACT, timeout=900)
        if rc != 0:
            return False, out
        out = note + out
        for f in glob.glob(os.path.join(VERIF, "extract", "*.ml")):
            shutil.copy(f, EXTRACT)
        rc, out2 = sh("ocamlfind ocamlopt -w -a -package str -linkpkg model.mli model.ml driver.ml -o model",
                      cwd=EXTRACT, timeout=900)
        if rc != 0:
            return False, out + out2
        open(stamp, "w").write(h)
        return True, out + out2


def build_harness():
    """Build the Rust harness against /repo's working tree with the hooks enabled."""
    with Lock("cargo"):
        hdir = os.path.join(VERIF, "harness")
        shutil.copy(os.path.join(REPO, "Cargo.lock"), os.path.join(hdir, "Cargo.lock"))
        rc, out = sh(["cargo", "build", "--offline"], cwd=hdir, env=RUST_ENV, timeout=1800)
        return rc == 0, out


def build_cli():
    """Build the typstyle CLI binary from /repo's working tree."""
    with Lock("cargo-cli"):
        env = dict(RUST_ENV)
        env["CARGO_TARGET_DIR"] = os.path.join(BUILD, "target-cli")
        env.pop("RUSTFLAGS", None)
        rc, out = sh(["cargo", "build", "--offline", "-p", "typstyle"], cwd=REPO, env=env, timeout=1800)
        return rc == 0, out, os.path.join(BUILD, "target-cli", "debug", "typstyle")
