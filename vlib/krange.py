"""K6: format_source_range — implementation (tyv range) vs the extracted model (model range), plus the C13 oracle."""
import re

from .common import MODEL, TYV, hexs, pipe, unhex
from .core import parse_fields
from . import kconv

R_NODE = re.compile(r"\( R (\d+) T:([0-9a-f]+) \)")


def boundaries(src):
    offs = [0]
    o = 0
    for ch in src:
        o += len(ch.encode("utf-8"))
        offs.append(o)
    return offs


def gen_ranges(rng, src, n):
    offs = boundaries(src)
    ln = offs[-1]
    out = [(0, ln), (0, 0), (ln, ln), (0, ln + 100), (ln, ln + 7)]
    for _ in range(n):
        a = rng.pick(offs)
        r = rng.below(10)
        if r < 5:
            b = rng.pick(offs)
            if b < a:
                a, b = b, a
        elif r < 7:
            b = min(ln, a + rng.below(12))
            while b not in offs and b < ln:
                b += 1
            if b not in offs:
                b = ln
        elif r < 8:
            b = a
        else:
            b = ln + rng.below(50)
        out.append((a, b))
    # line-structured requests (what an editor sends): from the first non-blank of a line to the end of the same
    # or a later line, and single points inside lines
    bs = src.encode("utf-8")
    marks = []
    pos = 0
    for line in bs.split(b"\n"):
        first = pos + (len(line) - len(line.lstrip(b" \t")))
        end = pos + len(line)
        if first < end and first in offs_set(offs) and end in offs_set(offs):
            marks.append((first, end))
        pos = end + 1
    if len(bs) <= 120:
        # a short source: many sub-ranges, so that inner nodes get selected
        for _ in range(6 * n):
            a = rng.pick(offs)
            b = rng.pick(offs)
            out.append((min(a, b), max(a, b)))
    k = n if len(bs) > 400 else 4 * n
    for _ in range(min(k, len(marks) * 2)):
        i = rng.below(len(marks))
        j = min(len(marks) - 1, i + rng.below(3))
        a, b = marks[i][0], marks[j][1]
        r = rng.below(4)
        if r == 0:
            out.append((a, b))
        elif r == 1:
            out.append((a, marks[i][1]))
        elif r == 2:
            m = a + rng.below(max(1, marks[i][1] - a))
            while m not in offs_set(offs) and m < marks[i][1]:
                m += 1
            out.append((m, m))
        else:
            out.append((marks[i][0] + 0, marks[j][1]))
    return out


_OFFS_CACHE = {}


def offs_set(offs):
    k = id(offs)
    if k not in _OFFS_CACHE:
        _OFFS_CACHE.clear()
        _OFFS_CACHE[k] = set(offs)
    return _OFFS_CACHE[k]


def run_cases(cases, timeout=3000):
    """cases: list of (w, tab, a, b, src). Returns list of dicts with impl fields, model result and agreement."""
    if not cases:
        return []
    impl = pipe([TYV, "range"], ["%d %d %d %d %s" % (w, t, a, b, hexs(s)) for (w, t, a, b, s) in cases], timeout=timeout)
    # trees and width tables from `full` (one per distinct source)
    srcs = sorted(set(c[4] for c in cases))
    full = pipe([TYV, "full"], ["80 2 0 %s" % hexs(s) for s in srcs], timeout=timeout)
    info = {}
    for s, line in zip(srcs, full):
        parts = line.split("\t")
        widths = []
        seen = set()
        if len(parts) >= 4:
            for m in R_NODE.finditer(parts[1]):
                if m.group(2) not in seen:
                    seen.add(m.group(2))
                    widths.append((m.group(2), m.group(1)))
        info[s] = (parts[0], widths)
    # non-ASCII texts that only appear under another context could be missing from the table: the driver then falls
    # back to the character count; such cases are skipped from the byte comparison when they disagree on layout only
    mlines = []
    cw = kconv.char_widths(srcs, timeout)
    for (w, t, a, b, s) in cases:
        tree, widths = info[s]
        widths = widths + [x for x in cw.get(s, []) if x[0] not in set(y[0] for y in widths)]
        mlines.append("%d %d %d %d %d %s %s" % (w, t, a, b, len(widths), " ".join("%s %s" % x for x in widths), tree))
    model = pipe([MODEL, "range"], mlines, timeout=timeout)
    res = []
    for c, i, m in zip(cases, impl, model):
        d = parse_fields(i)
        d["case"] = c
        if " swfc=" in m:
            m, sw = m.rsplit(" swfc=", 1)
            d["model_swfc"] = (sw.strip() == "1")
        d["model"] = m
        if d.get("class") == "ok":
            exp = "ok %s %s %s" % (d.get("rs"), d.get("re"), d.get("out"))
            d["agree"] = (m == exp)
            d["range_agree"] = m.split()[:3] == exp.split()[:3]
        elif d.get("class") == "err":
            d["agree"] = d["range_agree"] = (m == "err")
        else:
            d["agree"] = d["range_agree"] = m.startswith("panic")
        res.append(d)
    return res
