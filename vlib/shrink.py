"""Delta-debugging shrinker for oracle failures: keeps an input well-formed and failing."""
from .common import TYV, pipe, hexs, unhex


def oracle_many(cases, timeout=600):
    """cases: list of (w, tab, reorder, src) -> list of dict fields."""
    if not cases:
        return []
    out = pipe([TYV, "oracle"], ["%d %d %d %s" % (w, t, r, hexs(s)) for (w, t, r, s) in cases], timeout=timeout)
    res = []
    for o in out:
        d = {}
        for x in o.split("\t"):
            if "=" in x:
                k, v = x.split("=", 1)
                d[k] = v
        res.append(d)
    return res


KNOWN_CLASSES = {"c01": ["kfa", "kfb", "kfc", "kfd", "kfe", "kff", "kfg", "kfi", "f4n", "kfj"], "c04": ["kfa", "kfg", "kfe", "kfj"],
                 "c06": ["kfa", "kfg", "kfc", "kfi"], "c07": [],
                 "c08": ["kfa", "kfb", "kfc", "kfd", "kfe", "kff", "kfg", "kfi", "kfk"],
                 "c09": ["kfa", "kfg"], "c10w": ["kfa", "kfg", "f4n"], "c10": ["f4", "kfa", "kfg"], "c11": [], "c19": [], "c05": []}


def in_known_class(d, key):
    if any(d.get(x) == "1" for x in KNOWN_CLASSES.get(key, [])):
        return True
    # an output with syntax errors that falls into one of C04's known classes (F10, F20) breaks every tree-based
    # observation as a consequence: it is the same finding, not a new one
    if key not in ("c04", "c05", "c11") and d.get("c04") == "0" and any(d.get(x) == "1" for x in KNOWN_CLASSES["c04"]):
        return True
    return False


def fails(d, key, respect_classes=True):
    if key == "panic":
        return d.get("class") == "panic"
    if d.get("in_err") != "0" or d.get(key) != "0":
        return False
    return not (respect_classes and in_known_class(d, key))


def shrink(w, tab, reorder, src, key, max_rounds=40, budget_s=240):
    """ddmin over lines, then over characters. Returns the smallest failing source found (within a time budget)."""
    import time
    cur = src
    t_end = time.time() + budget_s

    def test_many(cands):
        ds = oracle_many([(w, tab, reorder, c) for c in cands])
        return [fails(d, key) for d in ds]

    for unit in ("line", "char"):
        n = 2
        rounds = 0
        while rounds < max_rounds and time.time() < t_end:
            rounds += 1
            parts = cur.split("\n") if unit == "line" else list(cur)
            if unit == "line":
                parts = [p + "\n" for p in parts[:-1]] + ([parts[-1]] if parts[-1] else [])
            if len(parts) < 2:
                break
            n = min(n, len(parts))
            size = (len(parts) + n - 1) // n
            cands = []
            for i in range(0, len(parts), size):
                cands.append("".join(parts[:i] + parts[i + size:]))
            cands = [c for c in cands if c and c != cur]
            if not cands:
                break
            ok = test_many(cands)
            hit = [c for c, f in zip(cands, ok) if f]
            if hit:
                cur = min(hit, key=len)
                n = max(n - 1, 2)
            else:
                if size == 1:
                    break
                n = min(n * 2, len(parts))
    return cur
