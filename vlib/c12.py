"""C12 — indentation by the unit only. Proof: Properties/C12.v (symbolic indentation of the wide renderer).
Tie: K2-scale — the implementation's documents for the units 1,2,3,4,8 are instances of ONE symbolic document
(extracted sym_of / inst / align_ok), K3-wide — its output at a width where nothing wraps equals the model's wide
renderer on that document. Search oracle: the outputs for the units, line by line against the symbolic line table."""
import time

from . import build, cases, core, synth
from .common import MODEL, TYV, SplitMix, hexs, pipe, unhex
from .verdict import Check

PROP_FILE = "Properties/C12.v"
THEOREMS = ["C12_symbolic_indentation", "C12_text_independent_of_unit", "C12_layout_line_is_multiple", "C12_sym_of_sound",
            "C12_wide_enough", "C12_real_renderer_scales", "C12_converter_parametric_in_unit", "C12_indentation_scales"]
UNITS = [1, 2, 3, 4, 8]
WIDE = 1000000


def analyse(lines_field, raws):
    """raws: {u: raw text}. Returns (ok, why, f7) for the line-by-line oracle. A layout line is `L:a:b` when its
    indentation a*unit+b comes from nests alone and `A:a:b` when an `align` (the column of some text, as in the block
    comment layout) contributes; `X` is a line copied from the source."""
    descs = [] if lines_field in ("", "fuel") else lines_field.split(",")
    per_u = {u: r.split("\n") for u, r in raws.items()}
    n = len(descs) + 1
    for u, ls in per_u.items():
        if len(ls) != n:
            return False, "unit %d: %d lines, the layout has %d" % (u, len(ls), n), False
    f7 = False
    for i in range(n):
        d = "L:0:0" if i == 0 else descs[i - 1]
        if d == "X":
            ref = None
            for u, ls in per_u.items():
                if ref is None:
                    ref = ls[i]
                elif ls[i] != ref:
                    return False, "line %d (copied from the source) differs between units" % (i + 1), f7
            continue
        _, a, b = d.split(":")
        a, b = int(a), int(b)
        if b != 0 and d.startswith("L:"):
            # nested by a constant: not a whole multiple of every unit
            nonblank = [u for u, ls in per_u.items() if ls[i].strip(" ") != ""]
            if nonblank:
                return False, "line %d is nested by %d*unit+%d: the constant part is not a multiple of the unit" % (i + 1, a, b), f7
        extra = None
        content = None
        for u, ls in per_u.items():
            line = ls[i]
            body = line.lstrip(" ")
            lead = len(line) - len(body)
            if body == "":
                continue                      # blank line (its indentation is removed by post-processing anyway)
            e = lead - (a * u + b)
            if e < 0:
                return False, "line %d at unit %d is indented by %d, the layout says %d*%d+%d" % (i + 1, u, lead, a, u, b), f7
            if extra is None:
                extra, content = e, body
            elif e != extra or body != content:
                return False, "line %d: indentation is not %d*unit+%d for every unit (unit %d: %d blanks) or its text differs" % (i + 1, a, b, u, lead), f7
        if b == 0 and extra and d.startswith("L:"):
            f7 = True                         # a layout line whose own text starts with a blank (known finding F7)
    return True, "", f7


def run(tier, seed, replay=None):
    ck = Check("C12", tier, seed)
    ck.rule = ("fixtures, grammar-directed sources (G3) and layout perturbations (G2), well-formed only; each formatted with tab_spaces in "
               "{1,2,3,4,8} at width 10^6 (documents and raw rendering dumped through format_source_inspect); distinct = distinct source; "
               "non-trivial = the layout has at least one indented line")
    ck.assumptions = ["'width large enough that no line needs wrapping' is width >= room d (C12_wide_enough: then pretty's renderer IS the wide renderer); the check "
                      "formats at 10^6, evaluates the extracted `room` on every dumped document, and still compares the implementation's rendering with the wide renderer (K3-wide)",
                      "that the converter is parametric in the unit is not proved over the converter model; it is checked per case on the implementation's own "
                      "documents (K2-scale: instances of one symbolic document for the units 1,2,3,4,8)"]
    ck.trusted.append("modelled, not verified: the `pretty` renderer (restated; K3-wide compares it byte for byte on every case)")
    proofs_ok, built = core.prepare(ck, PROP_FILE, THEOREMS)
    if not built:
        ck.violation("broken-obligation", {"failing": ck.failed_obligations()}, no_input=True, tag="build")
        return ck.finish()
    rng = SplitMix(seed * 17 + 3)
    fx = [t for (_, t) in cases.fixtures()]
    srcs = [t for t in fx if len(t) < (20000 if tier == "quick" else 10 ** 7)]
    srcs += synth.generate(rng, 400 if tier == "quick" else 8000)
    srcs += core.gen_perturbed(seed, 300 if tier == "quick" else 8000, 1500, "d", fx)
    srcs += ["/ 2:\n  // 2\n  222\n", "- a\n  - b\n    c\n", "#{\n  [\n    - a\n      b\n  ]\n}\n",
             # triggers of seeded changes (chains that break, multi-line math arguments)
             "#let total = (\n  first // the first operand\n  + second\n  + third\n)\n", "#{ let y = value.pos() // c\n .map(it => it * 2)\n .sum() }\n",
             "$\n  mat(\n    1, 2;\n    3, 4\n  )\n$\n"]
    if replay and isinstance(replay.get("input"), dict) and "source" in replay["input"]:
        srcs.insert(0, replay["input"]["source"])
    t0 = time.time()
    try:
        lines = []
        for s in srcs:
            for u in UNITS:
                lines.append("%d %d 0 %s" % (WIDE, u, hexs(s)))
        outs = pipe([TYV, "docr"], lines, timeout=7200)
        mlines = []
        keep = []
        for i, s in enumerate(srcs):
            chunk = outs[i * len(UNITS):(i + 1) * len(UNITS)]
            if any(c in ("err", "panic") for c in chunk):
                continue
            parts = [c.split("\t") for c in chunk]
            keep.append((s, {u: unhex(p[1]) for u, p in zip(UNITS, parts)}))
            mlines.append("%d %s" % (len(UNITS), " ".join("%d %s %s" % (u, p[0], p[1]) for u, p in zip(UNITS, parts))))
        mres = pipe([MODEL, "sym"], mlines, timeout=7200)
    except Exception as e:
        ck.oblige("evaluation completes", False, str(e)[-1500:])
        ck.violation("broken-obligation", {"failing": ck.failed_obligations()}, no_input=True, tag="eval")
        return ck.finish()
    ck.extra["evaluation_s"] = round(time.time() - t0, 1)
    bad_scale, bad_wide, viol, f7_inst = [], [], [], 0
    bad_room = []
    for (s, raws), m in zip(keep, mres):
        f = dict(x.split("=", 1) for x in m.split() if "=" in x)
        lines_field = f.get("lines", "")
        nontrivial = any(d[:2] in ("L:", "A:") and not d[1:].startswith(":0:") for d in lines_field.split(","))
        ck.count(s, nontrivial)
        if f.get("sym") != "1" or f.get("align") != "1" or set(f.get("inst", "0")) != {"1"}:
            bad_scale.append((s, m[:80]))
        if f.get("sym") == "1" and int(f.get("room", "0")) > WIDE:
            bad_room.append((s, f.get("room")))
        if f.get("sym") == "1" and set(f.get("wide", "0")) != {"1"}:
            bad_wide.append((s, f.get("wide")))
        if f.get("sym") == "1":
            ok, why, f7 = analyse(lines_field, raws)
            if f7:
                f7_inst += 1
            if not ok:
                viol.append((s, why))
        else:
            # no symbolic document: compare the raw outputs of the units directly (lines modulo leading blanks)
            ref = None
            for u, r in raws.items():
                body = [l.lstrip(" ") for l in r.split("\n")]
                if ref is None:
                    ref = body
                elif body != ref:
                    viol.append((s, "outputs for different units differ in more than leading blanks"))
                    break
    ck.extra["cases"] = len(keep)
    ck.extra["units"] = UNITS
    ck.extra["known_class_instances_F7"] = f7_inst
    for (s, raws) in keep[:2]:
        ck.sample({"source": s[:150], "output_unit4_head": raws[4][:150]})
    ck.oblige("K2-scale: the documents for the units %s are instances of one symbolic document (sym_of, inst, align_ok) on %d cases" % (UNITS, len(keep)),
              not bad_scale, ("first: %r" % (bad_scale[0],))[:500] if bad_scale else "")
    ck.oblige("hypothesis of C12_wide_enough: room d <= 10^6 (the width used) for every dumped document, on %d cases" % len(keep),
              not bad_room, ("first: %r" % (bad_room[0],))[:300] if bad_room else "")
    ck.oblige("K3-wide: rendering at width 10^6 == the model's wide renderer on the dumped document, for every unit, on %d cases" % len(keep),
              not bad_wide, ("first: %r" % (bad_wide[0],))[:500] if bad_wide else "")
    # known finding F7: replay
    for fnd in ck.findings:
        w = fnd.get("witness", {})
        if "source" in w:
            raws = {}
            o = pipe([TYV, "docr"], ["%d %d 0 %s" % (WIDE, u, hexs(w["source"])) for u in UNITS])
            still = False
            if all("\t" in x for x in o):
                parts = [x.split("\t") for x in o]
                m = pipe([MODEL, "sym"], ["%d %s" % (len(UNITS), " ".join("%d %s %s" % (u, p[0], p[1]) for u, p in zip(UNITS, parts)))])[0]
                f = dict(x.split("=", 1) for x in m.split() if "=" in x)
                if f.get("sym") == "1":
                    _, _, still = analyse(f.get("lines", ""), {u: unhex(p[1]) for u, p in zip(UNITS, parts)})
            if still:
                ck.known_finding("%s: %s (witness %r)" % (fnd.get("id"), fnd.get("what"), w["source"]))
    seen = set()
    for (s, why) in viol:
        if s in seen or len(ck.violations) >= 3:
            continue
        seen.add(s)
        ck.violation("counterexample", {"what": "indentation is not governed by the unit alone: " + why,
                                        "input": {"source": s, "width": WIDE, "units": UNITS},
                                        "reproduce": "for t in 1 2 3 4 8; do echo \"%d $t 0 %s\" | build/target/debug/tyv fmt; done" % (WIDE, hexs(s))})
    if not ck.violations and ck.failed_obligations():
        ck.violation("broken-obligation", {"failing": ck.failed_obligations(),
                                           "searched": "line-by-line comparison of the outputs for the units %s on %d cases" % (UNITS, len(keep))},
                     no_input=True, tag="obl")
    return ck.finish()
