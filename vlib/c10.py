"""C10 — see DESIGN.md section 4. Proof obligations: Properties/C10.v. Tie: K5 on every case, under this property's observation;
on the range path (format_source_range is formatting too) the literal observation of the spliced text."""
from . import core, krange, shrink, synth
from .c01 import sig_certificate
from .common import SplitMix, hexs, unhex

PROP_FILE = 'Properties/C10.v'
THEOREMS = ['C10_literal_leaf_exact', 'C10_atoms_rendered_verbatim', 'C10_rendered_string_is_atoms', 'C10_refuted',
            'C10_clean_text_survives_postprocessing', 'C10_emitted_text_reaches_output', 'C10_signature_conserved_in_scope']

# literals that span lines, at an indentation, in the constructs range formatting selects
RANGE_SOURCES = [
    '#{\n  let s = "first\nsecond"\n  let t = `x\ny`\n}\n',
    '- item\n  #f("a\n  b", `r\n   s`)\n',
    '#let g = (\n  a: "one\n\ntwo",\n  b: ```py\n  x = 1\n    y\n  ```,\n)\n',
    '  #f(x)[y #g("k\nl")]\n',
    '/ T: #h("m\n n", 1)\n    #i(`o\n p`)\n',
    '#{\n  {\n    f("deep\n line")\n  }\n}\n',
    '$ a + #f("q\nr") $\n',
    '#show: it => {\n  let x = "1\n2"\n  it\n}\n',
]


def range_literals(ck, recs, tier, seed):
    """format_source_range on sources with multi-line literals at an indentation (plus grammar-directed ones): the literals of
    the spliced text are exactly those of the source."""
    rng = SplitMix(seed * 131 + 10)
    srcs = list(RANGE_SOURCES) + synth.generate(rng, 60 if tier == "quick" else 1500)
    cs = []
    for i, s in enumerate(srcs):
        for (a, b) in krange.gen_ranges(rng, s, 4 if tier == "quick" else 8):
            cs.append(([80, 20, 0][i % 3], [2, 4, 1][i % 3], a, b, s))
    try:
        res = krange.run_cases(cs, timeout=7200)
    except Exception as e:
        ck.oblige("evaluation of the range cases (literals) completes", False, str(e)[-800:])
        return
    judged = [d for d in res if d.get("c10r") is not None]
    bad = [d for d in judged if d["c10r"] == "0" and not shrink.in_known_class(d, "c10")]
    ck.extra["range_path"] = {"range_cases": len(res), "spliced_and_judged": len(judged), "literal_mismatches": len(bad),
                              "k6_disagreements": len([d for d in res if not d["agree"]])}
    ck.oblige("range path: the literals of the spliced text equal the source's in %d range cases" % len(judged), not bad,
              ("first: %r" % (bad[0]["case"],))[:500] if bad else "")
    seen = set()
    for d in bad:
        c = d["case"]
        if len([v for v in ck.violations]) >= 3 or (c[4], c[2], c[3]) in seen:
            continue
        seen.add((c[4], c[2], c[3]))
        ck.violation("counterexample", {
            "what": "range formatting changed the content of a literal",
            "input": {"width": c[0], "tab": c[1], "start": c[2], "end": c[3], "source": c[4]},
            "returned_range": [d.get("rs"), d.get("re")], "returned_text": unhex(d["out"]) if d.get("out") else None,
            "detail": unhex(d["c10rd"]) if d.get("c10rd") else None,
            "reproduce": "echo '%d %d %d %d %s' | build/target/debug/tyv range" % (c[0], c[1], c[2], c[3], hexs(c[4]))})


def run(tier, seed, replay=None):
    def post(ck, recs):
        sig_certificate(ck, recs)
        range_literals(ck, recs, tier, seed)
    return core.run_property('C10', tier, seed, replay, 'c10w', PROP_FILE, THEOREMS, 'the content of a literal (string, raw text, number, identifier, label, ...) changed', ['known finding F4 (blanks before a line feed inside a string / raw block are stripped) is a theorem about the model (C10_refuted) and a listed class; literal comparison is exact for every other input', 'range path: judged by the literal oracle on the spliced text (K6, the model/implementation comparison of range formatting, belongs to C13)'], post=post)
