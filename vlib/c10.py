"""C10 — see DESIGN.md section 4. Proof obligations: Properties/C10.v. Tie: K5 on every case, under this property's observation."""
from . import core
from .c01 import sig_certificate

PROP_FILE = 'Properties/C10.v'
THEOREMS = ['C10_literal_leaf_exact', 'C10_atoms_rendered_verbatim', 'C10_rendered_string_is_atoms', 'C10_refuted',
            'C10_clean_text_survives_postprocessing', 'C10_emitted_text_reaches_output', 'C10_signature_conserved_in_scope']


def run(tier, seed, replay=None):
    return core.run_property('C10', tier, seed, replay, 'c10w', PROP_FILE, THEOREMS, 'the content of a literal (string, raw text, number, identifier, label, ...) changed', ['known finding F4 (blanks before a line feed inside a string / raw block are stripped) is a theorem about the model (C10_refuted) and a listed class; literal comparison is exact for every other input'], post=sig_certificate)
