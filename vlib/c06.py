"""C06 — see DESIGN.md section 4. Proof obligations: Properties/C06.v. Tie: K5 on every case, under this property's observation."""
from . import core
from .c01 import sig_certificate

PROP_FILE = 'Properties/C06.v'
THEOREMS = ['C06_block_comment_text', 'C06_line_comment_text', 'C06_comment_total', 'C06_markup_comment_in_place',
            'C06_flow_keeps_comments_in_place', 'C06_list_keeps_comments_in_place', 'C06_no_comment_lost_or_moved_in_scope']


def run(tier, seed, replay=None):
    return core.run_property('C06', tier, seed, replay, 'c06', PROP_FILE, THEOREMS, 'a comment was lost, duplicated, reordered, reworded or moved across a word', ['comment order/neighbourhood over all converters is decided by the oracle and K5 on every case; proved: the comment converter (text preserved up to leading blanks, never fails) and in-place emission in markup'], post=sig_certificate)
