"""C11 — output hygiene. Proof: Properties/C11.v (closed). Tie: K4 (strip on strings), K5-lite (fmt outputs)."""
from . import build, cases
from .common import MODEL, TYV, SplitMix, hexs, pipe, unhex
from .verdict import Check

PROP_FILE = "Properties/C11.v"


def hygiene_py(r):
    """Independent restatement of the property for the search oracle (Unicode White_Space)."""
    ws = set("\t\n\x0b\x0c\r \u0085                 　")
    if not r or not r.endswith("\n"):
        return False
    return all((not l) or (l[-1] not in ws) for l in r.split("\n"))


def run(tier, seed, replay=None):
    ck = Check("C11", tier, seed)
    ck.rule = ("K4: random strings over an alphabet rich in all Unicode White_Space characters, CR, CRLF and lone CR; "
               "distinct = distinct strings, non-trivial = contains a blank before a line end or end of text. "
               "K5: fixtures x widths through format_content; output must be a fixed point of the model's strip and satisfy hygiene_b.")
    ck.assumptions = ["The rendered text handed to post-processing is arbitrary: the theorem quantifies over every string."]
    ck.trusted.append("modelled, not verified: Rust str::lines / str::trim_end (restated in Str.v from the std documentation, compared by K4)")

    # 1. proof obligations
    ok, log = build.coq_make([PROP_FILE + "o"])
    ck.checker_cmds.append("make -C coq -j16 Properties/C11.vo")
    ck.oblige("coq: C11_output_hygiene, C11_strip_idempotent, C11_hygiene_decidable compile (Properties/C11.vo)", ok, log[-1500:] if not ok else "")
    bad = build.audit_sources()
    ck.oblige("audit: no Admitted/Axiom/Parameter/unsafe flags in the development", not bad, str(bad[:5]))
    if ok:
        pa_ok, pa, palog = build.print_assumptions(PROP_FILE)
        ck.checker_cmds.append("coqc -Q coq TV coq/Properties/C11.v (Print Assumptions)")
        ck.oblige("Print Assumptions: closed under the global context for every C11 theorem", pa_ok, str(pa))
        ck.extra["print_assumptions"] = [{"theorem": n, "axioms": a} for (n, a) in pa]
    okx, logx = build.build_extract()
    okh, logh = build.build_harness()
    ck.oblige("build: extracted model + driver", okx, logx[-1500:] if not okx else "")
    ck.oblige("build: harness against /repo working tree (--cfg typstyle_verif)", okh, logh[-1500:] if not okh else "")
    if not (okx and okh):
        ck.violation("broken-obligation", {"failing": ck.failed_obligations()}, no_input=True, tag="build")
        return ck.finish()

    rng = SplitMix(seed)
    # 2. K4: strip on strings
    n = 4000 if tier == "quick" else 200000
    strings = ["", " ", "\n", " \n - \n", " \n - \n ", "a \r\nb\r", "a 　\n", "\r", "a\rb \r", "x\n\n\n", "   y  "]
    if replay and replay.get("input") is not None:
        strings.insert(0, replay["input"])
    for _ in range(n):
        strings.append(cases.random_ws_string(rng, 40 if rng.chance(9, 10) else 400))
    hexes = [hexs(s) for s in strings]
    impl = pipe([TYV, "strip"], hexes)
    model = pipe([MODEL, "strip"], hexes)
    disagreements = []
    hyg_fail = []
    for s, i, m in zip(strings, impl, model):
        mh, mflag = m.split()
        nontrivial = any(a in cases.WS_CHARS and (b == "\n") for a, b in zip(s, s[1:] + "\n"))
        ck.count(("s", s), nontrivial)
        if i != mh:
            disagreements.append(s)
        if not hygiene_py(unhex(i)):
            hyg_fail.append(s)
    ck.sample({"stage": "K4", "input": strings[5], "impl": unhex(impl[5]), "model": unhex(model[5].split()[0])})
    ck.sample({"stage": "K4", "input": strings[-1], "impl": unhex(impl[-1]), "model": unhex(model[-1].split()[0])})
    ck.oblige("K4: utils::strip_trailing_whitespace == Post.strip on %d strings" % len(strings), not disagreements,
              "first disagreement: %r" % disagreements[:1])
    ck.extra["k4_cases"] = len(strings)
    ck.extra["k4_disagreements"] = len(disagreements)

    # 3. kernel cross-check of the extracted code on a sample
    sample = strings[:11] + [strings[11 + rng.below(n)] for _ in range(40 if tier == "quick" else 400)]
    try:
        got = cases.coq_eval("c11_cases", ["Str", "Post"], ["strip " + cases.coq_str(s) for s in sample])
        exp = [unhex(pipe([MODEL, "strip"], [hexs(s)])[0].split()[0]) for s in sample[:0]]  # (same binary; compared below)
        mod = [unhex(x.split()[0]) for x in pipe([MODEL, "strip"], [hexs(s) for s in sample])]
        ck.oblige("vm_compute inside Coq == extracted OCaml on %d sampled cases" % len(sample), got == mod,
                  "mismatch" if got != mod else "")
        ck.checker_cmds.append("coqc build/coqcases/c11_cases.v (Eval vm_compute)")
    except RuntimeError as e:
        ck.oblige("vm_compute cross-check", False, str(e)[-800:])

    # 4. K5-lite: format_content outputs over fixtures: fixed point of strip, hygiene
    widths = [0, 40, 120] if tier == "quick" else [0, 1, 2, 7, 20, 40, 60, 80, 120, 400, 1000000]
    tabs = [2] if tier == "quick" else [0, 1, 2, 4, 8]
    fx = cases.fixtures()
    extra_docs = [("<empty>", ""), ("<blank>", "  \n \n"), ("<comment-end>", "#let x = 1 // c   "), ("<raw>", "```\na  \n```  \n\n\n"),
                  ("<trailing-ws>", "a  \n\nb\t\n"), ("<nbsp>", "a \n= h 　\n")]
    fmt_cases = []
    for (name, text) in extra_docs + fx:
        for w in widths:
            for t in tabs:
                fmt_cases.append((name, w, t, text))
    if replay and replay.get("source") is not None:
        fmt_cases.insert(0, ("<replay>", replay.get("width", 80), replay.get("tab", 2), replay["source"]))
    outs = pipe([TYV, "fmt"], ["%d %d 0 %s" % (w, t, hexs(text)) for (_, w, t, text) in fmt_cases], timeout=3000)
    ok_outs = [(c, unhex(o.split()[1])) for c, o in zip(fmt_cases, outs) if o.startswith("ok ")]
    restrip = pipe([MODEL, "strip"], [hexs(o) for (_, o) in ok_outs])
    fmt_fail = []
    for (c, o), m in zip(ok_outs, restrip):
        mh, mflag = m.split()
        ck.count(("f", c[0], c[1], c[2]), True)
        if mflag != "1" or unhex(mh) != o or not hygiene_py(o):
            fmt_fail.append((c, o))
    ck.extra["k5_formatted_ok"] = len(ok_outs)
    ck.extra["k5_cases"] = len(fmt_cases)
    ck.sample({"stage": "K5", "fixture": ok_outs[0][0][0], "width": ok_outs[0][0][1], "output_tail": ok_outs[0][1][-30:]} if ok_outs else "none")
    ck.oblige("K5: every accepted fixture output satisfies hygiene_b and is a fixed point of Post.strip (%d outputs)" % len(ok_outs),
              not fmt_fail, "first: %r" % (fmt_fail[0][0][:3],) if fmt_fail else "")

    # 5. verdict
    for (c, o) in fmt_fail[:3]:
        ck.violation("counterexample", {"what": "format_content output violates output hygiene", "fixture": c[0], "width": c[1], "tab": c[2],
                                        "source": c[3], "output": o,
                                        "reproduce": "echo '%d %d 0 <hex of source>' | build/target/debug/tyv fmt" % (c[1], c[2])})
    if not fmt_fail:
        for s in hyg_fail[:3]:
            ck.violation("counterexample", {"what": "strip_trailing_whitespace output violates hygiene", "input": s,
                                            "reproduce": "echo <hex> | build/target/debug/tyv strip"})
    if not ck.violations and ck.failed_obligations():
        # proof or correspondence broken, searched fmt outputs and strings above: nothing fails the property itself
        ck.violation("broken-obligation", {"failing": ck.failed_obligations(),
                                           "searched": "K4 strings and K5 fixture outputs against the hygiene oracle",
                                           "first_disagreement": disagreements[:1]}, no_input=True, tag="obl")
    return ck.finish()
