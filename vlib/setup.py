"""setup_cmd: build the Coq development, the extracted driver, the harness and the CLI, offline."""
from . import build


def run():
    rc = 0
    for (tool, trc, out) in build.generate():
        print("gen", tool, trc, out[-300:])
        rc |= trc
    ok, log = build.coq_make([])
    print("coq make:", "ok" if ok else "FAILED")
    if not ok:
        print(log[-3000:])
        rc = 1
    for name, f in (("extract", build.build_extract), ("harness", build.build_harness)):
        ok, log = f()
        print(name + ":", "ok" if ok else "FAILED")
        if not ok:
            print(log[-3000:])
            rc = 1
    ok, log, _ = build.build_cli()
    print("cli:", "ok" if ok else "FAILED")
    if not ok:
        print(log[-3000:])
        rc = 1
    return rc
