"""Accumulates obligations, disagreements, violations and writes evidence + replay files."""
import json
import os
import sys
import time

from .common import TRUSTED_BASE_COMMON, VERIF


class Check:
    def __init__(self, prop, tier, seed):
        self.prop = prop
        self.tier = tier
        self.seed = seed
        self.t0 = time.time()
        self.obligations = []       # (name, discharged: bool, detail)
        self.violations = []        # (replay_path, no_input: bool)
        self.known = []             # strings
        self.samples = []
        self.evaluations = 0
        self.distinct = set()
        self.extra = {}
        self.assumptions = []
        self.trusted = list(TRUSTED_BASE_COMMON)
        self.checker_cmds = []
        self.rule = ""
        self.findings = load_known_findings(prop)

    # --- obligations -------------------------------------------------------
    def oblige(self, name, ok, detail=""):
        self.obligations.append((name, bool(ok), detail))
        return ok

    def failed_obligations(self):
        return [(n, d) for (n, ok, d) in self.obligations if not ok]

    # --- cases ---------------------------------------------------------------
    def count(self, key=None, nontrivial=True):
        self.evaluations += 1
        if key is not None and nontrivial:
            self.distinct.add(key)

    def sample(self, s, limit=6):
        if len(self.samples) < limit:
            self.samples.append(s)

    # --- violations ----------------------------------------------------------
    def replay_path(self, tag):
        d = os.path.join(VERIF, "build", "replay")
        os.makedirs(d, exist_ok=True)
        return os.path.join(d, "%s-%s-%d.json" % (self.prop, tag, len(self.violations)))

    def violation(self, kind, payload, no_input=False, tag="cex"):
        path = self.replay_path(tag)
        payload = dict(payload)
        payload.update({"property": self.prop, "kind": kind, "seed": self.seed, "tier": self.tier})
        with open(path, "w") as f:
            json.dump(payload, f, indent=1, ensure_ascii=True)
        self.violations.append((path, no_input))
        return path

    def known_finding(self, text):
        if text not in self.known:
            self.known.append(text)

    # --- finish --------------------------------------------------------------
    def finish(self, level="proof"):
        wall = time.time() - self.t0
        n_obl = len(self.obligations)
        n_dis = sum(1 for (_, ok, _) in self.obligations if ok)
        cov = {
            "obligations": n_obl,
            "discharged": n_dis,
            "obligation_list": [{"name": n, "discharged": ok, "detail": d} for (n, ok, d) in self.obligations],
            "checker_cmd": " ; ".join(self.checker_cmds) or "make -C coq",
            "trusted_base": self.trusted,
            "evaluations": self.evaluations,
            "distinct_nontrivial": len(self.distinct),
            "rule": self.rule,
            "samples": self.samples or ["<none>"],
        }
        cov.update(self.extra)
        ev = {
            "property_id": self.prop,
            "tier": self.tier,
            "seed": self.seed,
            "level": level,
            "coverage": cov,
            "assumptions": self.assumptions,
            "wall_s": round(wall, 2),
            "violations": len(self.violations),
            "known_findings": self.known,
        }
        os.makedirs(os.path.join(VERIF, "evidence"), exist_ok=True)
        with open(os.path.join(VERIF, "evidence", self.prop + ".json"), "w") as f:
            json.dump(ev, f, indent=1, ensure_ascii=True)
        for k in self.known:
            print("KNOWN-FINDING: property=%s %s" % (self.prop, k))
        for (path, no_input) in self.violations:
            print("VIOLATION property=%s replay=%s%s" % (self.prop, path, " no-failing-input-found" if no_input else ""))
        sys.stdout.flush()
        return 1 if self.violations else 0


def load_known_findings(prop):
    path = os.path.join(VERIF, "known_findings.json")
    try:
        data = json.load(open(path))
    except OSError:
        return []
    return [f for f in data.get("findings", []) if f.get("property") == prop]
