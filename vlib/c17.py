"""C17 — purity and determinism. Proof: Properties/C17.v over gen/StateAudit.v (regenerated from the library's
sources on every run) + history/order independence of the library state machine. Tie/search: K9 — the same
(text, config) set formatted sequentially, from N threads in shuffled orders, and in fresh processes; every result
must be byte-identical (and equal to the model's, K5)."""
import subprocess
import time

from . import build, cases, core, synth
from .common import TYV, SplitMix, hexs, pipe, unhex
from .verdict import Check

PROP_FILE = "Properties/C17.v"
THEOREMS = ["C17_audit_clean", "C17_history_independent", "C17_order_independent"]

EXTRA = [
    (80, 2, 1, '#import "m.typ": helper, helper as h1, helper as h0, z, a\n'),
    (80, 2, 1, '#import "m.typ": b, a, c as a2, c as a1, c\n'),
    (20, 2, 1, '#import "m.typ": x.y as q, x.y as p, x.y\n'),
    (80, 2, 0, '#let f(a: 1, b: 2, ..c) = (a: 1, b: 2, c: 3, d: 4)\n#f(b: 1, a: 2)\n'),
    (0, 4, 0, '#table(columns: 3, [a], [b], [c], [d])\n/* @typstyle off */ #f( 1 )\n'),
]
# documents that use one feature a few hundred times, placed first in every history: state that a call leaves behind
# (a counter, a cache, a budget) would have built up by the time the other documents are formatted
STRESS = [
    (80, 2, 0, "".join("// @typstyle off\n#let v%d  =  ( %d ,  2 )\n" % (i, i) for i in range(300))),
    (80, 2, 1, "".join('#import "m%d.typ": z%d, y, x as w\n' % (i, i) for i in range(200))),
    (40, 2, 0, "".join("#table(columns: 2, [a%d], [b], [c], [d])\n" % i for i in range(120))),
    (60, 4, 0, "#let deep = " + "(" * 90 + "1," + ",)" * 90 + "\n" + "#let chain = a" + ".b(1)" * 120 + "\n"),
    (80, 2, 0, "".join("$ sum_(i=%d)^n (a_i + b_i) / 2 $ /* c%d */ text #strong[x%d]\n\n" % (i, i, i) for i in range(150))),
]


def sched(case_list, threads, rounds, seed, timeout=3000):
    lines = ["%d %d %d %s" % (w, t, r, hexs(s)) for (w, t, r, s) in case_list]
    p = subprocess.run([TYV, "sched", str(threads), str(rounds), str(seed)], input="\n".join(lines) + "\n",
                       stdout=subprocess.PIPE, stderr=subprocess.PIPE, text=True, timeout=timeout)
    if p.returncode != 0:
        raise RuntimeError("tyv sched failed: " + p.stderr[-1500:])
    out = p.stdout.split("\n")
    ref = out[:len(case_list)]
    rest = [l for l in out[len(case_list):] if l]
    mism = int(rest[0].split("=")[1]) if rest and rest[0].startswith("mismatch=") else -1
    diffs = [l.split(" ", 4) for l in rest[1:] if l.startswith("diff ")]
    return ref, mism, diffs


def run(tier, seed, replay=None):
    ck = Check("C17", tier, seed)
    ck.rule = ("K9: fixtures, grammar-directed sources, perturbed sources and import statements (reordering on and off) x widths x tabs; "
               "each case formatted once sequentially (reference), then by every one of N threads in a fresh random order per round, "
               "then again in two fresh processes; distinct = distinct (source, config); non-trivial = well-formed with >= 3 nodes")
    ck.assumptions = ["thread scheduling, the allocator and the globals of dependencies (typst_syntax's FileId interner, hashers' RandomState) are runtime: "
                      "the model cannot exhibit them; K9 exercises them (testing)",
                      "the audit is a regex translator over typstyle-core's sources (tools/gen_audit.py): it lists declarations and uses by shape; "
                      "state hidden behind a macro or a dependency's API is outside its reach"]
    ck.trusted.append("translator tools/gen_audit.py (fails towards reporting: any method on a hash container other than insert/get/entry/contains/len is listed)")
    proofs_ok, built = core.prepare(ck, PROP_FILE, THEOREMS)
    if not built:
        ck.violation("broken-obligation", {"failing": ck.failed_obligations()}, no_input=True, tag="build")
        return ck.finish()
    rng = SplitMix(seed * 13 + 1)
    fx = cases.fixtures()
    cs = list(STRESS) + list(EXTRA)
    if replay and isinstance(replay.get("input"), dict) and "source" in replay["input"]:
        i = replay["input"]
        cs.insert(0, (i.get("width", 80), i.get("tab", 2), int(i.get("reorder", 0)), i["source"]))
    for j, (name, text) in enumerate(fx):
        if len(text) < 6000 or tier == "thorough":
            cs.append(([80, 40, 0, 120][j % 4], 2, 1 if "import" in text else 0, text))
    for j, s in enumerate(synth.generate(rng, 200 if tier == "quick" else 4000)):
        cs.append(([80, 20, 0][j % 3], [2, 4][j % 2], 0, s))
    for j, s in enumerate(core.gen_imports(rng, 60 if tier == "quick" else 1500)):
        cs.append(([80, 20][j % 2], 2, 1, s))
    threads = 16
    rounds = 2 if tier == "quick" else 8
    t0 = time.time()
    try:
        ref, mism, diffs = sched(cs, threads, rounds, seed)
        ref2, _, _ = sched(cs, 1, 0, seed + 1)          # a fresh process
        ref3, _, _ = sched(cs, 1, 0, seed + 2)          # and another one
    except Exception as e:
        ck.oblige("K9 run completes", False, str(e)[-1500:])
        ck.violation("broken-obligation", {"failing": ck.failed_obligations()}, no_input=True, tag="eval")
        return ck.finish()
    # the same cases alone, each in its own process: what a call returns must not depend on the calls before it
    iso_idx = list(range(len(STRESS), min(len(cs), len(STRESS) + 12))) + [rng.below(len(cs)) for _ in range(28 if tier == "quick" else 200)]
    iso_idx = sorted(set(iso_idx))
    iso = {}
    for i in iso_idx:
        c = cs[i]
        o = pipe([TYV, "fmt"], ["%d %d %d %s" % (c[0], c[1], c[2], hexs(c[3]))])[0]
        iso[i] = o
    iso_diff = [i for i in iso_idx if iso[i].split(" ")[0] != ref[i].split(" ")[0] or (iso[i].startswith("ok ") and iso[i] != ref[i])]
    ck.extra["k9_isolated_cases"] = len(iso_idx)
    ck.extra["k9_s"] = round(time.time() - t0, 1)
    ck.extra["k9_cases"] = len(cs)
    ck.extra["k9_threads"] = threads
    ck.extra["k9_rounds"] = rounds
    ck.extra["k9_format_calls"] = len(cs) * (1 + threads * rounds + 2)
    ck.extra["k9_thread_mismatches"] = mism
    proc_diff = [i for i in range(len(cs)) if not (ref[i] == ref2[i] == ref3[i])]
    ck.extra["k9_process_mismatches"] = len(proc_diff)
    for (c, r) in list(zip(cs, ref))[:3]:
        ck.sample({"width": c[0], "tab": c[1], "reorder": c[2], "source": c[3][:120], "result": r[:60]})
    for c, r in zip(cs, ref):
        ck.count((c[3], c[0], c[1], c[2]), r.startswith("ok "))
    ck.oblige("K9: %d calls from %d threads x %d rounds in shuffled orders all equal the sequential result" % (len(cs) * threads * rounds, threads, rounds),
              mism == 0, "mismatches: %d" % mism)
    ck.oblige("K9: three separate processes return byte-identical results on %d cases" % len(cs), not proc_diff, "first index %r" % proc_diff[:1])
    ck.oblige("K9: %d cases formatted alone in a fresh process equal their result inside the history" % len(iso_idx), not iso_diff,
              "first index %r" % iso_diff[:1])
    for i in iso_diff[:3]:
        c = cs[i]
        ck.violation("counterexample", {
            "what": "the same (text, config) returns a different result after other documents were formatted in the same process than alone in a fresh process",
            "input": {"width": c[0], "tab": c[1], "reorder": c[2], "source": c[3]},
            "alone": iso[i][:1500], "in_history": ref[i][:1500],
            "history": "the %d cases before it, starting with the stress documents (vlib/c17.py STRESS)" % i,
            "reproduce": "tyv sched 1 0 1 over the check's case list vs. tyv fmt on this case alone"})
    seen = set()
    for d in diffs:
        i = int(d[1])
        if i in seen or len(ck.violations) >= 3:
            continue
        seen.add(i)
        c = cs[i]
        ck.violation("counterexample", {
            "what": "the same (text, config) formatted concurrently returned a different result than sequentially",
            "input": {"width": c[0], "tab": c[1], "reorder": c[2], "source": c[3]},
            "sequential": ref[i][:2000], "concurrent": d[4][:2000], "thread": int(d[2]), "round": int(d[3]),
            "reproduce": "printf '%d %d %d %s\\n' | build/target/debug/tyv sched 16 8 1  (results vary with scheduling; repeat)" % (c[0], c[1], c[2], hexs(c[3]))})
    for i in proc_diff[:3]:
        if i in seen or len(ck.violations) >= 3:
            continue
        c = cs[i]
        ck.violation("counterexample", {
            "what": "the same (text, config) returned different results in separate processes",
            "input": {"width": c[0], "tab": c[1], "reorder": c[2], "source": c[3]},
            "results": [ref[i][:1500], ref2[i][:1500], ref3[i][:1500]],
            "reproduce": "run `printf '%d %d %d %s\\n' | build/target/debug/tyv fmt` several times" % (c[0], c[1], c[2], hexs(c[3]))})
    if not ck.violations and ck.failed_obligations():
        ck.violation("broken-obligation", {"failing": ck.failed_obligations(),
                                           "searched": "K9 over %d cases, %d threads, %d rounds, 3 processes" % (len(cs), threads, rounds)},
                     no_input=True, tag="obl")
    return ck.finish()
