"""C19 — import reordering. Proof: Properties/C19.v (gate, permutation, sortedness, default off).
Tie: K5 with the flag on and off (G6 generated imports, fixtures with imports); oracle: item sequences input vs
re-parsed output under both settings, and equality of everything outside the item lists between on and off."""
from . import core

PROP_FILE = "Properties/C19.v"
THEOREMS = ["C19_off_keeps_source_order", "C19_on_is_permutation", "C19_on_sorted_or_kept", "C19_comment_keeps_order",
            "C19_duplicate_keeps_order", "C19_default_off", "C19_comment_outside_list_keeps_order",
            "C19_final_is_permutation", "C19_final_off_keeps_source_order"]


def post(ck, recs):
    n_imp = sum(1 for r in recs if int(r["o"].get("imports", "0") or 0) > 0)
    n_on = sum(1 for r in recs if int(r["o"].get("imports", "0") or 0) > 0 and r["reorder"] == 1)
    ck.extra["cases_with_import_items"] = n_imp
    ck.extra["cases_with_import_items_reorder_on"] = n_on


def run(tier, seed, replay=None):
    return core.run_property(
        "C19", tier, seed, replay, "c19", PROP_FILE, THEOREMS,
        "import items were reordered without the option, or not merely permuted with it, or something else changed",
        ["that the flag is consulted nowhere else in the converter is a fact about the model's source (one occurrence, in import_items_order) "
         "and is tied to the code by K5 with the flag on and off on every case",
         "Rust's sort_by_key is a stable sort: the model's insertion sort stands for it (any stable sort gives the same list)"],
        post=post)
