"""K8 — the real `typstyle` binary against the Coq CLI model (Cli.v) on generated file trees.
Shared by C14 (check mode), C15 (in-place modes) and C16 (front-ends agree)."""
import os
import re
import shutil
import subprocess
import tempfile

from . import build
from .common import MODEL, TYV, SplitMix, hexs, pipe, unhex

PAST = 1_000_000_000  # fixed mtime set on every file before each invocation

LOG_PATTERNS = [
    re.compile(r"^Would reformat: .*$"),
    re.compile(r"^Successfully formatted \d+ files? \(\d+ unchanged\) in .*$"),
    re.compile(r"^\d+ files? would be reformatted \(\d+ already formatted\), checked in .*$"),
]

CONTENTS = [
    ("formatted", "#let a = 1\n"),
    ("unformatted", "#let a  =  1"),
    ("no-final-newline", "#let a = 1"),
    ("crlf", "#let a = 1\r\n#let b = 2\r\n"),
    ("erroneous", "#let a = (\n"),
    ("empty", ""),
    ("blank", "  \n\n"),
    ("wide", "#let a = (1111111111 + 2222222222 + 3333333333 + 4444444444 + 5555555555 + 6666666666)\n"),
    ("nested", "#let f(x) = {\nif x {\n1\n}\n}\n"),
    ("imports", "#import \"a.typ\": c, b, a\n"),
    ("prose", "= Title\n\nSome   text here.\n- item\n  - sub\n"),
    ("trailing-ws", "a  \n\nb\t\n"),
    ("unicode", "#let s = \"äöü 中文\"\n= Ünï  \n"),
    ("formatted2", "= T\n\nhello\n"),
    # a source that starts with a byte order mark (U+FEFF is ordinary text to the library; every front-end must keep it)
    ("bom", "\ufeff= Title\n\nsome   text here\n"),
    ("bom-erroneous", "\ufeff#f(\n"),
    # an erroneous source whose last line is long and unterminated (printed unchanged: one write of more than a stdout buffer)
    ("erroneous-long-tail", "= Draft\n\n#let body = [\n" + "word " * 400),
]
BINARY = b"\xff\xfe\x00bad"

# "\udcff" is how Python spells the byte 0xFF in a file name that is not UTF-8 (surrogateescape): a hidden and a visible one
FILE_NAMES = ["a.typ", "b.typ", "c.txt", ".h.typ", "d.TYP", "typ", "x.y.typ", "sp ace.typ", "e.typ", ".\udcffh.typ", "n\udcff.typ"]
DIRS = ["", "x", "x/y", ".hid", ".hid/sub", "dir.typ", "x/.git"]


class Scenario:
    def __init__(self):
        self.files = {}      # relpath -> ('T', text) | ('B', bytes) | ('D',) | ('L', target relpath): a symbolic link
        self.steps = []      # invocations
        self.cwd = ""        # sub-directory of the scratch root the CLI runs in
        self.readonly = []   # files whose mode is 0444 (the checks run as root, for whom that changes nothing)

    def describe(self):
        return {"cwd": self.cwd,
                "files": {p: (v[0], v[1] if v[0] in ("T", "L") else (v[1].hex() if v[0] == "B" else "")) for p, v in sorted(self.files.items())},
                "readonly": self.readonly, "steps": self.steps}


def gen_scenario(rng, shapes):
    sc = Scenario()
    ndirs = 1 + rng.below(4)
    dirs = [""] + [rng.pick(DIRS) for _ in range(ndirs)]
    for d in dirs:
        parts = d.split("/") if d else []
        for i in range(1, len(parts) + 1):
            sc.files["/".join(parts[:i])] = ("D",)
    nfiles = 1 + rng.below(6)
    for _ in range(nfiles):
        d = rng.pick(dirs)
        name = rng.pick(FILE_NAMES)
        p = (d + "/" + name) if d else name
        if p in sc.files:
            continue
        if rng.chance(1, 8):
            sc.files[p] = ("B", BINARY)
        else:
            sc.files[p] = ("T", rng.pick(CONTENTS)[1])
    # symbolic links named *.typ in visible directories: not regular files, so no mode may write through them unless
    # they are named on the command line (the generator never names them); they exist on disk only, not in the model
    if rng.chance(1, 4):
        targets = [p for p, v in sc.files.items() if v[0] in ("T", "B")]
        vis_dirs = [d for d in dirs if not any(c.startswith(".") for c in d.split("/") if c)]
        for _ in range(1 + rng.below(2)):
            if not targets or not vis_dirs:
                break
            d = rng.pick(vis_dirs)
            p = (d + "/" if d else "") + rng.pick(["ln.typ", "lk.typ"])
            if p not in sc.files:
                sc.files[p] = ("L", rng.pick(targets))
    if rng.chance(1, 4):
        texts = sorted(p for p, v in sc.files.items() if v[0] == "T")
        for _ in range(1 + rng.below(2)):
            if texts:
                q = rng.pick(texts)
                if q not in sc.readonly:
                    sc.readonly.append(q)
    if rng.chance(1, 6) and ".hid" in sc.files:
        sc.cwd = ".hid"
    nsteps = 1 if rng.chance(2, 3) else 2 + rng.below(2)
    for i in range(nsteps):
        if i > 0 and rng.chance(1, 2):
            sc.steps.append(dict(sc.steps[-1]))   # repeat the same invocation (second run)
            continue
        sc.steps.append(gen_invocation(rng, sc, rng.pick(shapes)))
    return sc


def rel_to_cwd(sc, p):
    if not sc.cwd:
        return p
    if p.startswith(sc.cwd + "/"):
        return p[len(sc.cwd) + 1:]
    return None


def gen_invocation(rng, sc, shape):
    """shape in: files-plain, files-inplace, files-check, stdin-plain, stdin-check, all, all-check"""
    inv = {"shape": shape}
    if rng.chance(1, 4):
        inv["column"] = None
    else:
        inv["column"] = rng.pick([0, 1, 20, 40, 80, 120, 400, rng.below(401)])
    inv["tab"] = None if rng.chance(1, 4) else rng.pick([0, 1, 2, 3, 4, 8, 16])
    inv["reorder"] = rng.chance(1, 3)
    visible = [rel_to_cwd(sc, p) for p, v in sc.files.items() if v[0] != "L"]
    visible = [p for p in visible if p]
    if shape.startswith("files"):
        n = 1 + rng.below(4)
        ins = []
        for _ in range(n):
            r = rng.below(10)
            if r < 7 and visible:
                ins.append(rng.pick(visible))
            elif r < 9:
                ins.append(rng.pick(["missing.typ", "x/none.typ", "nonexist/a.typ"]))
            else:
                ins.append(rng.pick(visible) if visible else "missing.typ")
        inv["inputs"] = ins
    elif shape.startswith("stdin"):
        inv["stdin"] = None if rng.chance(1, 10) else rng.pick(CONTENTS)[1]
    else:
        r = rng.below(10)
        dirs_here = [p for p in visible if sc.files.get((sc.cwd + "/" + p) if sc.cwd else p, ("",))[0] == "D"]
        if r < 3:
            inv["dir"] = None
        elif r < 4:
            inv["dir"] = "."
        elif r < 8 and dirs_here:
            inv["dir"] = rng.pick(dirs_here)
        elif r < 9:
            inv["dir"] = "nonexist"
        else:
            inv["dir"] = rng.pick(visible) if visible else None
    return inv


def style_of(inv):
    return (80 if inv["column"] is None else inv["column"],
            2 if inv["tab"] is None else inv["tab"],
            bool(inv["reorder"]))


def cli_args(inv):
    args = []
    sh = inv["shape"]
    if sh.startswith("all"):
        args.append("format-all")
        if inv.get("dir") is not None:
            args.append(inv["dir"])
    if sh.endswith("inplace"):
        args.append("-i")
    if sh.endswith("check"):
        args.append("--check")
    if inv["column"] is not None:
        args += ["-c", str(inv["column"])]
    if inv["tab"] is not None:
        args += ["-t", str(inv["tab"])]
    if inv["reorder"]:
        args.append("--reorder-import-items")
    if sh.startswith("files"):
        args += inv["inputs"]
    return args


class LibCache:
    """Library results F cfg content through the harness (format_content)."""

    def __init__(self):
        self.cache = {}

    def get_many(self, cfg, contents):
        need = [c for c in set(contents) if (cfg, c) not in self.cache]
        if need:
            outs = pipe([TYV, "fmt"], ["%d %d %d %s" % (cfg[0], cfg[1], 1 if cfg[2] else 0, hexs(c)) for c in need])
            for c, o in zip(need, outs):
                if o.startswith("ok "):
                    self.cache[(cfg, c)] = unhex(o.split()[1])
                else:
                    self.cache[(cfg, c)] = None
        return {c: self.cache[(cfg, c)] for c in contents}


def ptok(p):
    if p in ("", "."):
        return "P:-"
    p = p[2:] if p.startswith("./") else p
    return "P:" + p.encode(errors="surrogateescape").hex()


def model_run(inv, mfs, lib):
    """mfs: dict relpath(relative to cwd) -> ('T', text)|('B', id)|('D',). Returns parsed model result."""
    cfg = style_of(inv)
    sh = inv["shape"]
    ip = 1 if sh.endswith("inplace") else 0
    ck = 1 if sh.endswith("check") else 0
    head = "%d %d %d %d %d" % (ip, ck, cfg[0], cfg[1], 1 if cfg[2] else 0)
    contents = [v[1] for v in mfs.values() if v[0] == "T"]
    if sh.startswith("files"):
        line = "files %s %d %s" % (head, len(inv["inputs"]), " ".join(ptok(p) for p in inv["inputs"]))
    elif sh.startswith("stdin"):
        line = "stdin %s %s" % (head, "!" if inv["stdin"] is None else hexs(inv["stdin"]))
        if inv["stdin"] is not None:
            contents.append(inv["stdin"])
    else:
        line = "all %s %s" % (head, "none" if inv.get("dir") is None else ptok(inv["dir"]))
    # F table closed under one more application (duplicates in a file list format twice)
    table = lib.get_many(cfg, contents)
    second = [r for r in table.values() if r is not None]
    table.update(lib.get_many(cfg, second))
    third = [r for r in table.values() if r is not None and r not in table]
    table.update(lib.get_many(cfg, third))
    ents = []
    for p, v in sorted(mfs.items()):
        if v[0] == "T":
            ents.append("%s T:%s" % (ptok(p), hexs(v[1])))
        elif v[0] == "B":
            ents.append("%s B:%d" % (ptok(p), v[1]))
        else:
            ents.append("%s D" % ptok(p))
    line += " fs %d %s" % (len(ents), " ".join(ents))
    line += " ft %d %s" % (len(table), " ".join("%s %s" % (hexs(c), "!" if r is None else hexs(r)) for c, r in table.items()))
    out = pipe([MODEL, "cli"], [line])[0]
    parts = [x.strip().split() for x in out.split(";")]
    res = {"exit": int(parts[0][0])}
    res["printed"] = [unhex(h) for h in parts[1][1:]]
    w = parts[2][1:]
    res["writes"] = [(dec_path(w[i]), unhex(w[i + 1]), unhex(w[i + 2])) for i in range(0, len(w), 3)]
    f = parts[3][1:]
    mf = {}
    for i in range(0, len(f), 2):
        p = dec_path(f[i])
        k = f[i + 1]
        mf[p] = ("D",) if k == "D" else (("T", unhex(k[2:])) if k.startswith("T:") else ("B", int(k[2:])))
    res["fs"] = mf
    res["table_complete"] = parts[4][0] == "ok"
    res["table"] = table
    return res


def dec_path(tok):
    h = tok[2:]
    return "" if h == "-" else bytes.fromhex(h).decode(errors="surrogateescape")


def materialise(root, sc):
    for p, v in sorted(sc.files.items()):
        full = os.path.join(root, p)
        if v[0] == "D":
            os.makedirs(full, exist_ok=True)
    for p, v in sorted(sc.files.items()):
        full = os.path.join(root, p)
        if v[0] == "D":
            continue
        os.makedirs(os.path.dirname(full), exist_ok=True)
        if v[0] == "L":
            continue
        with open(full, "wb") as fh:
            fh.write(v[1].encode("utf-8") if v[0] == "T" else v[1])
    for p, v in sorted(sc.files.items()):
        if v[0] == "L":
            full = os.path.join(root, p)
            os.symlink(os.path.relpath(os.path.join(root, v[1]), os.path.dirname(full)), full)
    if os.geteuid() == 0:
        for p in getattr(sc, "readonly", []):
            os.chmod(os.path.join(root, p), 0o444)


def reset_mtimes(root):
    for dp, dn, fn in os.walk(root):
        for n in fn:
            os.utime(os.path.join(dp, n), (PAST, PAST))


def snapshot(root):
    snap = {}
    for dp, dn, fn in os.walk(root):
        for n in dn:
            snap[os.path.relpath(os.path.join(dp, n), root)] = ("D", None, None)
        for n in fn:
            full = os.path.join(dp, n)
            with open(full, "rb") as fh:
                data = fh.read()
            # a symbolic link is kind "L": what it shows (content and modification time of its target)
            snap[os.path.relpath(full, root)] = ("L" if os.path.islink(full) else "F", data, int(os.stat(full).st_mtime) != PAST)
    return snap


def run_scenario(binary, sc, lib):
    """Runs every step on the real binary and on the model. Returns a list of step records:
    {inv, args, actual: {exit, stdout, stderr, fs-diff}, model: {...}, disagreements: [...]}"""
    root = tempfile.mkdtemp(prefix="tyv-k8-", dir="/tmp")
    records = []
    try:
        materialise(root, sc)
        cwd = os.path.join(root, sc.cwd) if sc.cwd else root
        # model file system, relative to cwd
        mfs = {}
        bin_ids = {}
        for p, v in sc.files.items():
            r = rel_to_cwd(sc, p)
            if r is None:
                continue
            if v[0] == "L":
                continue
            if v[0] == "B":
                bin_ids[r] = len(bin_ids) + 1
                mfs[r] = ("B", bin_ids[r])
            else:
                mfs[r] = v
        for inv in sc.steps:
            reset_mtimes(root)
            before = snapshot(cwd)
            args = cli_args(inv)
            stdin_data = None
            if inv["shape"].startswith("stdin"):
                stdin_data = b"\xff\xfe" if inv["stdin"] is None else inv["stdin"].encode()
            p = subprocess.run([binary] + args, cwd=cwd, input=stdin_data if stdin_data is not None else b"",
                               stdout=subprocess.PIPE, stderr=subprocess.PIPE, timeout=120)
            after = snapshot(cwd)
            try:
                stdout = p.stdout.decode("utf-8")
            except UnicodeDecodeError:
                stdout = p.stdout.decode("utf-8", "replace")
            model = model_run(inv, mfs, lib)
            rec = {"inv": inv, "args": args, "exit": p.returncode, "stdout": stdout,
                   "stderr": p.stderr.decode("utf-8", "replace")[-600:], "model_exit": model["exit"],
                   "before": before, "after": after, "model": model, "dis": []}
            dis = rec["dis"]
            if not model["table_complete"]:
                dis.append("harness: formatter table incomplete")
            if p.returncode != model["exit"]:
                dis.append("exit code: binary %d, model %d" % (p.returncode, model["exit"]))
            sh = inv["shape"]
            if sh in ("files-plain", "stdin-plain"):
                if stdout != "".join(model["printed"]):
                    dis.append("stdout differs from the concatenated library outputs")
            else:
                stray = [l for l in stdout.split("\n") if l and not any(r.match(l) for r in LOG_PATTERNS)]
                if stray:
                    dis.append("stdout holds text that is not a log line: %r" % stray[:2])
                if model["printed"]:
                    dis.append("model prints in a non-plain mode")
            written = set(w[0] for w in model["writes"])
            if set(before) != set(after):
                dis.append("directory entries changed: %r" % sorted(set(before) ^ set(after))[:3])
            for path, (kind, data, changed) in after.items():
                if kind == "L":
                    # a symbolic link exists on disk only; writing through it shows on its target, a regular file
                    # of the tree that the model does not write (unless the target is itself eligible)
                    continue
                if kind != "F":
                    continue
                m = model["fs"].get(path)
                if m is None:
                    continue
                if m[0] == "T" and data != m[1].encode("utf-8"):
                    dis.append("content of %s differs from the model" % path)
                if m[0] == "B" and data != before[path][1]:
                    dis.append("binary file %s modified" % path)
                if changed != (path in written):
                    dis.append("mtime of %s %s but model %s" % (path, "changed" if changed else "unchanged",
                                                               "writes it" if path in written else "does not write it"))
            records.append(rec)
            mfs = model["fs"]
    finally:
        shutil.rmtree(root, ignore_errors=True)
    return records


def step_summary(sc, rec):
    return {"scenario": sc.describe(), "args": rec["args"], "exit": rec["exit"], "model_exit": rec["model_exit"],
            "stdout": rec["stdout"][:400], "stderr": rec["stderr"][:400], "disagreements": rec["dis"],
            "model_writes": [(w[0], w[1][:60], w[2][:60]) for w in rec["model"]["writes"]],
            "reproduce": "materialise `files` in a scratch directory, cd <cwd>, run: typstyle " + " ".join(rec["args"])}


# ---------------------------------------------------------------------------------------------
# Property oracles evaluated on the binary's behaviour alone (library results via the harness).

def eligible_all(sc_files_rel, root):
    """Paths format-all visits below `root` (relative path, '' for cwd) per the property's wording."""
    res = []
    for p, v in sc_files_rel.items():
        if v[0] == "D":
            continue
        if root in ("", "."):
            rest = p
        elif p == root:
            rest = ""
        elif p.startswith(root.rstrip("/") + "/"):
            rest = p[len(root.rstrip("/")) + 1:]
        else:
            continue
        comps = [c for c in rest.split("/") if c] if rest else []
        if any(c.startswith(".") for c in comps):
            continue
        name = p.split("/")[-1]
        stem, dot, ext = name.rpartition(".")
        if not (dot and stem and ext == "typ"):
            continue
        res.append(p)
    return res


def oracle(rec, mfs_before, lib):
    """Returns a list of property-level failures [(prop, text)] for one step, from the statement of
    C14/C15/C16 alone (not from the model's run function)."""
    inv = rec["inv"]
    sh = inv["shape"]
    cfg = style_of(inv)
    fails = []
    before, after = rec["before"], rec["after"]
    changed_files = [p for p, (k, d, ch) in after.items() if k == "F" and (ch or before.get(p, (None, None))[1] != d)]
    texts = {p: v[1] for p, v in mfs_before.items() if v[0] == "T"}
    F = lib.get_many(cfg, list(texts.values()) + ([inv["stdin"]] if sh.startswith("stdin") and inv.get("stdin") is not None else []))
    if sh.startswith("files"):
        inputs = [p[2:] if p.startswith("./") else p for p in inv["inputs"]]
    elif sh.startswith("all"):
        d = inv.get("dir")
        root = "" if d in (None, ".") else d
        inputs = eligible_all(mfs_before, root)
        root_missing = root != "" and root not in mfs_before
    else:
        inputs = []
    def differs(p):
        return p in texts and F[texts[p]] is not None and F[texts[p]] != texts[p]
    def io_error(p):
        return p not in texts
    if sh.endswith("check"):
        if changed_files:
            fails.append(("C14", "check mode modified %r" % changed_files[:3]))
        stray = [l for l in rec["stdout"].split("\n") if l and not any(r.match(l) for r in LOG_PATTERNS)]
        if stray:
            fails.append(("C14", "check mode printed %r" % stray[:2]))
        if sh.startswith("stdin"):
            c = inv["stdin"]
            want = 1 if (c is None or (F[c] is not None and F[c] != c)) else 0
        else:
            want = 1 if any(differs(p) or io_error(p) for p in inputs) else 0
            if sh.startswith("all") and root_missing:
                want = 1
        if rec["exit"] != want:
            fails.append(("C14", "check exit status %d, truthful status %d" % (rec["exit"], want)))
    elif sh.endswith("inplace") or sh.startswith("all"):
        # sequential expectation (a file named twice is formatted twice)
        cur = dict(texts)
        writes = set()
        failed = False
        for p in inputs:
            if p not in cur:
                failed = True
                continue
            r = lib.get_many(cfg, [cur[p]])[cur[p]]
            if r is not None and r != cur[p]:
                cur[p] = r
                writes.add(p)
        if sh.startswith("all") and root_missing:
            failed = True
        for p, (k, d, ch) in after.items():
            if k != "F":
                continue
            if p in cur:
                if d != cur[p].encode("utf-8"):
                    fails.append(("C15", "%s does not hold the expected text after the run" % p))
                    # the same observation read as C16: this front-end did not produce the library's text for these options
                    fails.append(("C16", "%s: the text written in place differs from the library's text for the same options" % p))
                if ch != (p in writes):
                    fails.append(("C15", "%s: modification time %s although it %s" % (
                        p, "changed" if ch else "kept", "should be rewritten" if p in writes else "should be left alone")))
            elif before[p][1] != d or ch:
                fails.append(("C15", "unreadable file %s was touched" % p))
        if failed and rec["exit"] == 0:
            fails.append(("C15", "a failing input was not reported by the exit status"))
        if not failed and rec["exit"] != 0:
            fails.append(("C15", "exit status %d without any failure" % rec["exit"]))
    else:
        if changed_files:
            fails.append(("C16", "plain mode modified %r" % changed_files[:3]))
        if sh.startswith("stdin"):
            c = inv["stdin"]
            want = None if c is None else (F[c] if F[c] is not None else c)
        else:
            want = "".join((F[texts[p]] if F[texts[p]] is not None else texts[p]) for p in inputs if p in texts)
        if want is not None and rec["stdout"] != want:
            fails.append(("C16", "stdout differs from the library's text for the same options"))
    return fails


def run_k8(ck, binary, rng, n, shapes, own_prop, replay=None):
    """Runs n scenarios; records disagreements and oracle failures into the Check."""
    lib = LibCache()
    dis_records = []
    oracle_fails = []
    nsteps = 0
    shape_counts = {}
    scenarios = []
    if replay and replay.get("scenario"):
        sc = Scenario()
        sc.cwd = replay["scenario"]["cwd"]
        for p, v in replay["scenario"]["files"].items():
            sc.files[p] = ("D",) if v[0] == "D" else (("T", v[1]) if v[0] == "T" else ("B", bytes.fromhex(v[1])))
        sc.steps = replay["scenario"]["steps"]
        sc.readonly = list(replay["scenario"].get("readonly", []))
        scenarios.append(sc)
    scenarios += corpus_scenarios(shapes)
    for _ in range(n):
        scenarios.append(gen_scenario(rng, shapes))
    for sc in scenarios:
        recs = run_scenario(binary, sc, lib)
        mfs = None
        for rec in recs:
            nsteps += 1
            shape_counts[rec["inv"]["shape"]] = shape_counts.get(rec["inv"]["shape"], 0) + 1
            key = (tuple(sorted((p, v[0], v[1] if v[0] != "D" else "") for p, v in sc.files.items())), tuple(rec["args"]), sc.cwd)
            ck.count(key, nontrivial=len(sc.files) >= 2)
            # model file system before this step = result of previous model step
            if rec["dis"]:
                dis_records.append((sc, rec))
        # oracle pass (needs the file system before each step; recompute by replaying model results)
        mfs = {}
        ids = 0
        for p, v in sc.files.items():
            r = rel_to_cwd(sc, p)
            if r is None:
                continue
            if v[0] == "B":
                ids += 1
                mfs[r] = ("B", ids)
            else:
                mfs[r] = v
        for rec in recs:
            # use the binary's own before-snapshot for texts (so the oracle does not depend on the model)
            actual_before = {}
            for p, (k, d, _) in rec["before"].items():
                if k == "D":
                    actual_before[p] = ("D",)
                elif k == "L":
                    continue
                else:
                    try:
                        actual_before[p] = ("T", d.decode("utf-8"))
                    except UnicodeDecodeError:
                        actual_before[p] = ("B", 0)
            for (prop, text) in oracle(rec, actual_before, lib):
                oracle_fails.append((prop, text, sc, rec))
        if len(ck.samples) < 3 and recs:
            ck.sample({"stage": "K8", "args": recs[0]["args"], "files": sorted(sc.files)[:6], "exit": recs[0]["exit"]})
    ck.extra["k8_scenarios"] = len(scenarios)
    ck.extra["k8_invocations"] = nsteps
    ck.extra["k8_shapes"] = shape_counts
    ck.extra["k8_disagreements"] = len(dis_records)
    return dis_records, oracle_fails


def corpus_scenarios(shapes):
    """Hand-kept scenarios that run first (past findings, seeded-defect triggers)."""
    res = []

    def mk(files, steps, cwd=""):
        sc = Scenario()
        sc.files = files
        sc.steps = steps
        sc.cwd = cwd
        return sc

    def inv(shape, **kw):
        d = {"shape": shape, "column": None, "tab": None, "reorder": False}
        d.update(kw)
        return d
    T = lambda s: ("T", s)
    base = {"a.typ": T("#let a  =  1"), "b.typ": T("#let b = 1\n"), "n.typ": T("#let a = 1"), "r.typ": T("#let a = 1\r\n"),
            "e.typ": T("#let a = ("), "bad.typ": ("B", BINARY), "x": ("D",), "x/c.typ": T("#let c  =  2"),
            ".hid": ("D",), ".hid/h.typ": T("#let h  =  3"), "x/.hid2": ("D",), "x/.hid2/i.typ": T("#let i  =  4")}
    ro = mk({"docs": ("D",), "docs/main.typ": T("#let a = 1\n"), "vendor": ("D",), "vendor/lib.typ": T("#let  b  =  1")},
            [inv("all-check" if any(s.endswith("check") for s in shapes) else "all")])
    ro.readonly = ["vendor/lib.typ"]
    res.append(ro)
    if any(s.endswith("check") for s in shapes):
        for f in ["a.typ", "b.typ", "n.typ", "r.typ", "e.typ", "bad.typ", "missing.typ"]:
            res.append(mk(dict(base), [inv("files-check", inputs=[f])]))
        res.append(mk(dict(base), [inv("files-check", inputs=["b.typ", "n.typ", "b.typ"])]))
        res.append(mk(dict(base), [inv("files-check", inputs=["b.typ", "missing.typ"])]))
        res.append(mk(dict(base), [inv("all-check"), inv("all-check", dir="."), inv("all-check", dir=".hid"), inv("all-check", dir="nonexist")]))
        res.append(mk({"b.typ": T("#let b = 1\n"), "bad.typ": ("B", BINARY)}, [inv("all-check")]))
        res.append(mk({"n.typ": T("#let a = 1")}, [inv("all-check"), inv("files-check", inputs=["n.typ"])]))
        for c in ["#let a = 1", "#let a = 1\r\n", "#let a = 1\n", "#let a  = 1", "#let a = ("]:
            res.append(mk({"b.typ": T("x\n")}, [inv("stdin-check", stdin=c)]))
        res.append(mk({"b.typ": T("x\n")}, [inv("stdin-check", stdin=None)]))
    if any(s in ("files-inplace", "all") for s in shapes):
        for pos in range(3):
            ins = ["a.typ", "x/c.typ"]
            for bad in ["missing.typ", "x", "bad.typ"]:
                l = list(ins)
                l.insert(pos, bad)
                res.append(mk(dict(base), [inv("files-inplace", inputs=l)]))
        res.append(mk(dict(base), [inv("files-inplace", inputs=["a.typ", "a.typ", "e.typ", "b.typ"]), inv("files-inplace", inputs=["a.typ", "a.typ", "e.typ", "b.typ"])]))
        res.append(mk(dict(base), [inv("all"), inv("all")]))
        res.append(mk(dict(base), [inv("all", dir="."), inv("all", dir=".hid"), inv("all", dir="x"), inv("all", dir="nonexist"), inv("all", dir="a.typ")]))
        res.append(mk(dict(base), [inv("all")], cwd=".hid"))
        res.append(mk(dict(base), [inv("all", column=0, tab=4), inv("all", column=0, tab=4)]))
    if any(s.endswith("plain") for s in shapes):
        res.append(mk(dict(base), [inv("files-plain", inputs=["a.typ", "e.typ", "n.typ", "missing.typ", "b.typ"])]))
        res.append(mk(dict(base), [inv("files-plain", inputs=["a.typ"], column=0, tab=8), inv("files-plain", inputs=["a.typ"], column=400, tab=0)]))
        wide = {"w.typ": T(CONTENTS[7][1]), "n.typ": T(CONTENTS[8][1]), "i.typ": T(CONTENTS[9][1])}
        for col in [None, 0, 79, 80, 81, 100, 400]:
            for tab in [None, 0, 2, 3, 16]:
                res.append(mk(dict(wide), [inv("files-plain", inputs=["w.typ", "n.typ", "i.typ"], column=col, tab=tab, reorder=(col == 80))]))
        for c in ["#let a = (", "#let a  =  1", "", "x", "x\r\n"]:
            res.append(mk({"b.typ": T("x\n")}, [inv("stdin-plain", stdin=c)]))
    if "all" in shapes or "files-inplace" in shapes or "stdin-plain" in shapes:
        # every style option must reach the library from every front-end: files whose result depends on
        # the column, on the unit and on the import order
        style = {"w.typ": T(CONTENTS[7][1]), "n.typ": T(CONTENTS[8][1]), "i.typ": T(CONTENTS[9][1]),
                 "x": ("D",), "x/j.typ": T("#import \"m.typ\": z, y as q, a.b\n#let f(x) = {\nif x {\n1\n}\n}\n")}
        for (col, tab, reo) in [(None, None, True), (40, 4, True), (0, 1, True), (120, 8, False), (40, None, False)]:
            if "all" in shapes:
                res.append(mk(dict(style), [inv("all", column=col, tab=tab, reorder=reo)]))
                res.append(mk(dict(style), [inv("all", dir="x", column=col, tab=tab, reorder=reo)]))
            if "files-inplace" in shapes:
                res.append(mk(dict(style), [inv("files-inplace", inputs=["w.typ", "n.typ", "i.typ", "x/j.typ"], column=col, tab=tab, reorder=reo)]))
            if "stdin-plain" in shapes:
                res.append(mk(dict(style), [inv("stdin-plain", stdin=style["x/j.typ"][1], column=col, tab=tab, reorder=reo)]))
    # symbolic links named *.typ that resolve to ineligible files (hidden, in a hidden directory, not *.typ)
    linked = dict(base)
    linked.update({"note.txt": T("#let t  =  5"), "ln.typ": ("L", ".hid/h.typ"), "x/lk.typ": ("L", "note.txt"),
                   "x/lm.typ": ("L", "x/.hid2/i.typ"), "ld": ("L", ".hid")})
    if "all" in shapes:
        res.append(mk(dict(linked), [inv("all"), inv("all")]))
        res.append(mk(dict(linked), [inv("all", dir="x")]))
    if "all-check" in shapes:
        res.append(mk(dict(linked), [inv("all-check")]))
    # a source that starts with U+FEFF goes through every front-end unchanged
    bom = {"m.typ": T("\ufeff= T\n\nsome   text\n"), "e.typ": T("\ufeff#f(\n"), "k.typ": T("\ufeffok\n")}
    if "files-plain" in shapes:
        res.append(mk(dict(bom), [inv("files-plain", inputs=["m.typ", "e.typ", "k.typ"])]))
    if "stdin-plain" in shapes:
        res.append(mk(dict(bom), [inv("stdin-plain", stdin=bom["m.typ"][1]), inv("stdin-plain", stdin=bom["e.typ"][1])]))
    if "files-inplace" in shapes:
        res.append(mk(dict(bom), [inv("files-inplace", inputs=["m.typ", "e.typ", "k.typ"])]))
    if "all" in shapes:
        res.append(mk(dict(bom), [inv("all")]))
    if "files-check" in shapes:
        res.append(mk(dict(bom), [inv("files-check", inputs=["k.typ"]), inv("files-check", inputs=["m.typ"])]))
    # texts printed in one piece that are larger than a stdout buffer and do not end with a line feed (erroneous sources
    # are printed unchanged), alone, from standard input, and followed by another file
    tail = "= Draft\n\n#let body = [\n" + "word " * 400
    big = {"t.typ": T(tail), "k.typ": T("ok\n"), "u.typ": T("#let a = (" + "x" * 5000)}
    if "files-plain" in shapes:
        res.append(mk(dict(big), [inv("files-plain", inputs=["t.typ"]), inv("files-plain", inputs=["t.typ", "k.typ"]),
                                  inv("files-plain", inputs=["u.typ", "t.typ", "k.typ"])]))
    if "stdin-plain" in shapes:
        res.append(mk(dict(big), [inv("stdin-plain", stdin=tail), inv("stdin-plain", stdin=big["u.typ"][1])]))
    return res
