from .clicheck import run_prop


def run(tier, seed, replay=None):
    return run_prop("C14", tier, seed, replay)
