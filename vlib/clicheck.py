"""C14 / C15 / C16 checks: proofs over Cli.v + K8 correspondence with the real binary."""
from . import build, cli
from .common import SplitMix
from .verdict import Check

SPEC = {
    "C14": dict(file="Properties/C14.v", shapes=["files-check", "stdin-check", "all-check"],
                theorems="C14_check_mode_read_only, C14_check_history_read_only, C14_check_exit_files, "
                         "C14_check_exit_format_all, C14_check_exit_stdin, C14_exit_codes"),
    "C15": dict(file="Properties/C15.v", shapes=["files-inplace", "all", "all", "files-inplace", "files-check"],
                theorems="C15_inplace_files, C15_format_all, C15_walk_eligibility, C15_failing_input_is_isolated"),
    "C16": dict(file="Properties/C16.v", shapes=["files-plain", "stdin-plain", "files-plain", "files-inplace", "all"],
                theorems="C16_plain_mode_prints_library_output, C16_stdin_prints_library_output, C16_format_with_width, "
                         "C16_to_config_maps_options, C16_cli_defaults"),
}


def run_prop(prop, tier, seed, replay=None):
    sp = SPEC[prop]
    ck = Check(prop, tier, seed)
    ck.rule = ("K8: generated file trees (formatted / unformatted / no-final-newline / CRLF / erroneous / empty / non-UTF-8 / "
               "non-.typ / hidden files and directories, a directory named *.typ, hidden cwd) x invocation shapes x style options "
               "x sequences of 1-4 invocations; a hand-kept corpus runs first. distinct = distinct (tree, argv, cwd); "
               "non-trivial = tree with at least two entries.")
    ck.assumptions = [
        "file system model: finite map path -> text file | unreadable regular file | directory | other; writes to existing regular files succeed; "
        "no concurrent writers; permissions, disk-full and symlinks are outside the model (sandbox runs as root)",
        "F (the library call) is arbitrary in the theorems; in K8 it is tabulated from the implementation's own format_content",
    ]
    ck.trusted += ["tools/gen_cli.py (regex translation of cli.rs/fmt.rs/config.rs/lib.rs into gen/CliGen.v; emits Unrecognised on unknown shapes)",
                   "modelled, not verified: walkdir, clap, std::fs (restated in Cli.v, compared by K8)"]

    gens = build.generate()
    ck.oblige("translators ran (gen/Kind.v, gen/CliGen.v regenerated from /repo)", all(rc == 0 for (_, rc, _) in gens), str(gens)[-400:])
    ok, log = build.coq_make([sp["file"] + "o"])
    ck.checker_cmds.append("python3 tools/gen_cli.py /repo coq/gen ; make -C coq -j16 %so" % sp["file"])
    ck.oblige("coq: %s compile (%so)" % (sp["theorems"], sp["file"]), ok, log[-1500:] if not ok else "")
    bad = build.audit_sources()
    ck.oblige("audit: no Admitted/Axiom/Parameter/unsafe flags in the development", not bad, str(bad[:5]))
    if ok:
        pa_ok, pa, _ = build.print_assumptions(sp["file"])
        ck.oblige("Print Assumptions: closed under the global context for every %s theorem" % prop, pa_ok, str(pa))
        ck.extra["print_assumptions"] = [{"theorem": n, "axioms": a} for (n, a) in pa]
    okx, logx = build.build_extract()
    okh, logh = build.build_harness()
    okc, logc, binary = build.build_cli()
    ck.oblige("build: extracted model + driver", okx, logx[-1500:] if not okx else "")
    ck.oblige("build: harness and typstyle CLI from /repo working tree", okh and okc, (logh + logc)[-1500:] if not (okh and okc) else "")
    if not (okx and okh and okc):
        ck.violation("broken-obligation", {"failing": ck.failed_obligations()}, no_input=True, tag="build")
        return ck.finish()

    rng = SplitMix(seed)
    n = 120 if tier == "quick" else 3000
    dis, fails = cli.run_k8(ck, binary, rng, n, sp["shapes"], prop, replay)
    own = [(p, t, sc, rec) for (p, t, sc, rec) in fails if p == prop]
    ck.oblige("K8: binary == Cli.run on %d invocations" % ck.extra["k8_invocations"], not dis,
              "first: %r" % (dis[0][1]["dis"][:2],) if dis else "")
    ck.oblige("%s oracle holds on every invocation explored" % prop, not own, own[0][1] if own else "")
    ck.extra["oracle_failures_other_properties"] = sorted(set("%s: %s" % (p, t) for (p, t, _, _) in fails if p != prop))[:5]

    seen = set()
    for (p, text, sc, rec) in own:
        if text in seen or len(seen) >= 3:
            continue
        seen.add(text)
        s = cli.step_summary(sc, rec)
        s["what"] = text
        ck.violation("counterexample", s)
    if not ck.violations and ck.failed_obligations():
        payload = {"failing": ck.failed_obligations(),
                   "searched": "K8 scenarios of this run against the %s oracle: no behaviour contradicting the property found" % prop}
        if dis:
            payload["first_disagreement"] = cli.step_summary(dis[0][0], dis[0][1])
        ck.violation("broken-obligation", payload, no_input=True, tag="obl")
    return ck.finish()
