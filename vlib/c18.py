"""C18 — linear work. Proof: Properties/C18.v (C18_conversions_linear: counter <= 3 * tree_size for every
schema-conforming tree, every request, configuration and nesting; CostBound.v). Tie: K7 — the implementation's
conversion counter (hook) must EQUAL the model's on every case, which makes a 'convert, fall back and convert
again' edit visible on the first nested input; the theorem's hypothesis `wfc` (extracted) is evaluated on every
tree the parser hands over and the model's tree_size must equal the implementation's node count. Search oracle:
conversions per syntax node over nested families at doubling depths."""
from . import core

PROP_FILE = "Properties/C18.v"
THEOREMS = ["C18_conversions_linear", "C18_root", "C18_costs_bind", "C18_costs_fold", "C18_flow_once_per_child", "C18_list_once_per_child", "C18_plain_once_per_child"]
BOUND = 3   # conversions per syntax node (a node can be entered as pattern, as expression and as math body)


def post(ck, recs):
    compared = [r for r in recs if r.get("k") and r["k"].get("cnt_eq") is not None]
    bad = [r for r in compared if r["k"].get("cnt_eq") is False]
    ck.oblige("K7: conversion counter of the implementation == counter of the model on %d cases" % len(compared), not bad,
              ("first: impl %s model %s on %r" % (bad[0]["k"].get("impl_cnt"), bad[0]["k"].get("model_cnt"), core.case_of(bad[0])))[:600] if bad else "")
    wf = [r for r in recs if r.get("k") and r["k"].get("model_wfc") is not None]
    notwf = [r for r in wf if not r["k"]["model_wfc"]]
    ck.oblige("hypothesis of C18_conversions_linear: the extracted schema clause `wfc` holds on all %d parsed trees" % len(wf), not notwf,
              ("first: %r" % (core.case_of(notwf[0]),))[:600] if notwf else "")
    szbad = [r for r in wf if r["o"].get("class") == "ok" and r["o"].get("nodes") is not None
             and int(r["o"]["nodes"]) != r["k"].get("model_size")]
    ck.oblige("tree_size of the model's tree == the implementation's syntax-node count on %d trees" % len(wf), not szbad,
              ("first: impl %s model %s on %r" % (szbad[0]["o"].get("nodes"), szbad[0]["k"].get("model_size"), core.case_of(szbad[0])))[:600] if szbad else "")
    worst = 0.0
    over = []
    fam = {}
    for r in recs:
        o = r["o"]
        if o.get("class") != "ok":
            continue
        nodes = int(o.get("nodes", "1"))
        cnt = int(o.get("count", "0"))
        ratio = cnt / max(nodes, 1)
        worst = max(worst, ratio)
        if cnt > BOUND * nodes + 1:
            over.append(r)
        if r["stream"].startswith("G5:"):
            fam.setdefault(r["stream"], []).append((int(o.get("depth", "0")), nodes, cnt))
    ck.extra["max_conversions_per_node"] = round(worst, 3)
    ck.extra["families"] = {k: sorted(v)[-3:] for k, v in fam.items()}
    for r in over[:3]:
        o = r["o"]
        ck.violation("counterexample", {
            "what": "more than %d conversions per syntax node" % BOUND,
            "input": {"width": r["w"], "tab": r["tab"], "reorder": r["reorder"], "source": r["src"][:4000]},
            "conversions": int(o.get("count", "0")), "nodes": int(o.get("nodes", "1")),
            "reproduce": core.reproduce_cmd(r)[:3000]})
    if bad and not ck.violations:
        # the counters differ: look for the input where the implementation does more work per node than the model
        bad.sort(key=lambda r: -(r["k"].get("impl_cnt", 0) - r["k"].get("model_cnt", 0)))
        r = bad[0]
        if r["k"].get("impl_cnt", 0) > r["k"].get("model_cnt", 0):
            ck.violation("counterexample", {
                "what": "the implementation converts nodes more often than the model proved linear (counter %s vs %s)" % (r["k"].get("impl_cnt"), r["k"].get("model_cnt")),
                "input": {"width": r["w"], "tab": r["tab"], "reorder": r["reorder"], "source": r["src"][:4000]},
                "reproduce": core.reproduce_cmd(r)[:3000]})


def run(tier, seed, replay=None):
    return core.run_property(
        "C18", tier, seed, replay, "c05", PROP_FILE, THEOREMS,
        "formatting did not complete normally",
        ["rendering cost (the `pretty` crate) is outside the statement, as in the property",
         "the bound 3 * nodes is proved for the model (C18_conversions_linear) under the schema clause wfc, which is "
         "checked on every parsed tree; K7 (exact counter equality) ties the implementation's counter to the model's on every case"],
        post=post)
