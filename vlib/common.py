"""Shared plumbing for the checks: paths, build steps, PRNG, evidence, verdicts."""
import fcntl
import hashlib
import json
import os
import re
import subprocess
import sys
import time

VERIF = os.path.dirname(os.path.dirname(os.path.abspath(__file__)))
REPO = os.environ.get("VERIF_REPO", "/repo")
BUILD = os.path.join(VERIF, "build")
COQ = os.path.join(VERIF, "coq")
EXTRACT = os.path.join(BUILD, "extract")
TARGET = os.path.join(BUILD, "target")
TYV = os.path.join(TARGET, "debug", "tyv")
MODEL = os.path.join(EXTRACT, "model")
RUST_ENV = dict(os.environ, CARGO_NET_OFFLINE="true", CARGO_TARGET_DIR=TARGET,
                RUSTFLAGS="--cfg typstyle_verif")

TRUSTED_BASE_COMMON = [
    "Coq 8.16.1 kernel (coqc); vm_compute used for closed witnesses only; native_compute not used",
    "no Axiom/Parameter/Admitted in the development (grep + Print Assumptions audited on every run)",
    "extraction: ExtrOcamlBasic only (its Extract Inductive for bool/option/list/prod/unit/sumbool/sumor, "
    "Extract Inlined Constant andb/orb/negb...), Extraction Blacklist for module names, no Extract Constant of ours; OCaml 4.13.1",
    "extract/driver.ml (hex/UTF-8 codec, S-expression reader) and harness/src/*.rs (tree/Doc serialiser, generators)",
    "correspondence is differential testing: the model equals the code only on the cases that were run",
]


class SplitMix:
    """splitmix64; same algorithm as harness/src/rng.rs."""
    M = (1 << 64) - 1

    def __init__(self, seed):
        self.s = (seed * 0x9E3779B97F4A7C15 + 0x1234567) & self.M

    def next(self):
        self.s = (self.s + 0x9E3779B97F4A7C15) & self.M
        z = self.s
        z = ((z ^ (z >> 30)) * 0xBF58476D1CE4E5B9) & self.M
        z = ((z ^ (z >> 27)) * 0x94D049BB133111EB) & self.M
        return z ^ (z >> 31)

    def below(self, n):
        return self.next() % n if n > 0 else 0

    def pick(self, xs):
        return xs[self.below(len(xs))]

    def chance(self, num, den):
        return self.below(den) < num


def hexs(s):
    b = s.encode("utf-8") if isinstance(s, str) else s
    return b.hex() if b else "-"


def unhex(h):
    return "" if h == "-" else bytes.fromhex(h).decode("utf-8")


def sh(cmd, cwd=None, env=None, timeout=None, input=None):
    """Run a command, return (rc, stdout+stderr)."""
    try:
        p = subprocess.run(cmd, cwd=cwd, env=env, timeout=timeout, input=input,
                           stdout=subprocess.PIPE, stderr=subprocess.STDOUT, text=True,
                           shell=isinstance(cmd, str))
        return p.returncode, p.stdout
    except subprocess.TimeoutExpired as e:
        out = e.stdout if isinstance(e.stdout, str) else (e.stdout or b"").decode("utf-8", "replace")
        return 124, out + "\n[timeout]"


SHARDABLE = {"strip", "fmt", "docr", "sym", "oracle", "obscmp", "oraclefor", "charw", "full", "conv", "range", "tree", "doc", "attrs",
             "render", "cmtlines", "sigdoc", "sig"}


def pipe(binary_args, lines, timeout=600, env=None):
    """Feed lines to a line-oriented tool, return its output lines. The tools answer every line on its own
    (one output line per input line, no state carried from line to line), so a long input is cut into chunks
    that run as parallel processes; the modes that read a whole history (sched, cli) are never cut."""
    if len(lines) >= 3000 and len(binary_args) >= 2 and binary_args[1] in SHARDABLE:
        import concurrent.futures
        n = max(2, min(14, len(lines) // 1500))
        size = (len(lines) + n - 1) // n
        chunks = [lines[i:i + size] for i in range(0, len(lines), size)]
        with concurrent.futures.ThreadPoolExecutor(max_workers=len(chunks)) as ex:
            parts = list(ex.map(lambda ch: _pipe1(binary_args, ch, timeout, env), chunks))
        out = []
        for ch, part in zip(chunks, parts):
            if len(part) != len(ch):
                raise RuntimeError("%s answered %d lines for %d inputs" % (binary_args, len(part), len(ch)))
            out.extend(part)
        return out
    return _pipe1(binary_args, lines, timeout, env)


# seconds without a new answer line before the implementation harness counts as hung on the next case (a case takes
# milliseconds; the largest fixture about a second)
STALL = int(os.environ.get("VERIF_STALL", "60"))
# sources (hex tokens) on which the implementation harness died or hung once in this run: every later stage answers them
# with the synthetic panic line at once instead of waiting for the same death again
KILLERS = set()


def _run_once(binary_args, lines, timeout, env, stall=None):
    """Run the tool on `lines`; return (rc, answered_lines, stderr_tail). rc None = killed by us (hang / timeout)."""
    import select
    import threading
    p = subprocess.Popen(binary_args, stdin=subprocess.PIPE, stdout=subprocess.PIPE, stderr=subprocess.PIPE,
                         env=env, preexec_fn=lambda: _unlimit_stack())
    data = ("\n".join(lines) + "\n" if lines else "").encode("utf-8")

    def feed():
        try:
            p.stdin.write(data)
            p.stdin.close()
        except Exception:
            pass
    err = []

    def drain():
        try:
            err.append(p.stderr.read())
        except Exception:
            pass
    threading.Thread(target=feed, daemon=True).start()
    threading.Thread(target=drain, daemon=True).start()
    buf = bytearray()
    t0 = time.time()
    last = t0
    fd = p.stdout.fileno()
    killed = False
    while True:
        r, _, _ = select.select([fd], [], [], 5)
        now = time.time()
        if r:
            chunk = os.read(fd, 1 << 20)
            if not chunk:
                break
            buf += chunk
            last = now
        elif (stall is not None and now - last > stall) or now - t0 > timeout:
            p.kill()
            killed = True
            break
    p.wait()
    time.sleep(0.05)
    out = buf.decode("utf-8", "replace").split("\n")
    tail = out.pop() if out else ""
    if tail and not killed and p.returncode == 0:
        out.append(tail)
    e = (err[0] if err else b"").decode("utf-8", "replace")[-1500:]
    return (None if killed else p.returncode), out, e


def _died_line(binary_args, line, why):
    """The answer line for a case that killed the implementation harness (abort, stack overflow, hang): the same shape
    as a caught panic in that mode, so that every consumer classifies it as a panic (C05: 'never panics, aborts or loops')."""
    mode = binary_args[1]
    msg = hexs("process died: " + why)
    f = line.split()
    if mode == "fmt":
        return "panic " + msg
    if mode == "full":
        tree = _pipe1([binary_args[0], "tree"], [f[3]])[0]
        return "%s\tpanic %s" % (tree, msg)
    if mode == "oracle":
        pre = _pipe1([binary_args[0], "oraclefor"], [line + " -"])[0]
        pre = pre.split("\tcount=")[0]
        return pre + "\tcount=0\tclass=panic\tpanic=%s\tc05=0" % msg
    if mode == "range":
        return "class=panic\tpanic=%s\tc13=0" % msg
    return None


def _pipe1(binary_args, lines, timeout=600, env=None):
    """One process over `lines`. The implementation harness (tyv) answers line by line and flushes each answer, so when a
    case kills it (abort on allocation failure, stack overflow, a hang) the killer is the first unanswered line: it gets
    a synthetic panic answer and the rest is run in a fresh process."""
    recover = os.path.basename(binary_args[0]) == "tyv" and len(binary_args) >= 2
    if recover and KILLERS and binary_args[1] in ("fmt", "full", "oracle", "range"):
        idx = [i for i, l in enumerate(lines) if any(f in KILLERS for f in l.split())]
        if idx:
            keep = [l for i, l in enumerate(lines) if i not in set(idx)]
            ans = _pipe1(binary_args, keep, timeout, env) if keep else []
            it = iter(ans)
            bad = set(idx)
            return [(_died_line(binary_args, l, "died or hung earlier in this run") if i in bad else next(it)) for i, l in enumerate(lines)]
    out = []
    rest = list(lines)
    deaths = 0
    while True:
        rc, ans, err = _run_once(binary_args, rest, timeout, env, stall=STALL if recover else None)
        if rc == 0:
            out.extend(ans)
            return out
        if not recover or len(ans) >= len(rest) or deaths >= 50:
            raise RuntimeError("%s failed rc=%s: %s" % (binary_args, rc, err))
        why = ("hung (no answer for %d s)" % STALL) if rc is None else ("rc=%d %s" % (rc, err.strip().split("\n")[0][:200]))
        killer = rest[len(ans)]
        fields = killer.split()
        if fields:
            KILLERS.add(max(fields, key=len))
        synth = _died_line(binary_args, killer, why)
        if synth is None:
            raise RuntimeError("%s failed rc=%s: %s" % (binary_args, rc, err))
        out.extend(ans)
        out.append(synth)
        rest = rest[len(ans) + 1:]
        deaths += 1
        if not rest:
            return out


def _unlimit_stack():
    import resource
    try:
        resource.setrlimit(resource.RLIMIT_STACK, (resource.RLIM_INFINITY, resource.RLIM_INFINITY))
    except Exception:
        try:
            soft, hard = resource.getrlimit(resource.RLIMIT_STACK)
            resource.setrlimit(resource.RLIMIT_STACK, (hard, hard))
        except Exception:
            pass


class Lock:
    def __init__(self, name="build"):
        os.makedirs(BUILD, exist_ok=True)
        self.path = os.path.join(BUILD, name + ".lock")

    def __enter__(self):
        self.f = open(self.path, "w")
        fcntl.flock(self.f, fcntl.LOCK_EX)
        return self

    def __exit__(self, *a):
        fcntl.flock(self.f, fcntl.LOCK_UN)
        self.f.close()


def file_hash(paths):
    h = hashlib.sha256()
    for p in sorted(paths):
        h.update(p.encode())
        try:
            with open(p, "rb") as f:
                h.update(f.read())
        except OSError:
            h.update(b"<missing>")
    return h.hexdigest()


def write_if_changed(path, content):
    try:
        with open(path) as f:
            if f.read() == content:
                return False
    except OSError:
        pass
    os.makedirs(os.path.dirname(path), exist_ok=True)
    with open(path, "w") as f:
        f.write(content)
    return True
