"""G3: grammar-directed generator of small Typst sources (markup, math, code), with layout chosen at random:
every gap between tokens gets nothing / blanks / a line break / a paragraph break / a comment where the
grammar may allow it. Sources that do not parse are dropped later (the oracle reports in_err)."""


class G:
    def __init__(self, rng, depth=0):
        self.r = rng
        self.depth = depth

    # ------------------------------------------------------------------ layout atoms
    def sp(self, allow_nl=True, allow_none=False):
        r = self.r.below(20)
        if allow_none and r < 4:
            return ""
        if r < 11:
            return " "
        if r < 13:
            return "  "
        if allow_nl and r < 16:
            return "\n" + " " * self.r.below(5)
        if allow_nl and r < 17:
            return " \n"
        if r < 18:
            return " /* c */ "
        if allow_nl and r < 19:
            return " // c\n"
        return " "

    def word(self):
        return self.r.pick(["a", "b", "foo", "x1", "alpha", "long-name", "é", "中", "z"])

    # ------------------------------------------------------------------ markup
    def inline(self):
        r = self.r.below(23)
        if r < 4:
            return self.r.pick(["text", "lorem ipsum", "a", "word.", "x,y", "1.5", "don't", "a b"])
        if r < 6:
            return "@" + self.r.pick(["ref", "knuth1984", "a.b"])
        if r < 7:
            return "<" + self.r.pick(["lbl", "a-b"]) + ">"
        if r < 8:
            return self.r.pick(["https://typst.app/docs", "http://a.b/c?d=e"])
        if r < 9:
            return self.r.pick(["~", "--", "---", "...", "-?"])
        if r < 10:
            return self.r.pick(["\\#", "\\*", "\\u{1F5FA}", "\\$"])
        if r < 11:
            return self.r.pick(["'quoted'", '"dq"'])
        if r < 13:
            return "$" + self.math(2) + "$"
        if r < 15 and self.depth < 3:
            return "#" + G(self.r, self.depth + 1).embedded()
        if r < 16 and self.depth < 2:
            d = self.r.pick(["*", "_"])
            return d + G(self.r, self.depth + 1).prose_line(3) + d
        if r < 17:
            return "`" + self.r.pick(["raw", "a  b", "x", " ", "  ", "\t", " x ", "", "a\nb"]) + "`"
        if r < 18:
            return "\\" + self.r.pick(["\n", " "])
        if r < 19 and self.depth < 2:
            return "#[" + G(self.r, self.depth + 1).markup_body(2) + "]"
        if r < 20:
            return "@" + self.word() + "[" + self.word() + "]"
        if r < 21 and self.depth < 3:
            inner = "#" + self.r.pick(["rect(width: 10pt, height: 20pt)", "f(alpha, beta, gamma: 1)", "text(fill: red, size: 10pt)[a]",
                                       "(1, 2, 3).map(x => x + 1)", "g((a: 1, b: 2), [c])"])
            return "#" + self.r.pick(["box", 'link("u")', "strong", "text(red)", "f(1)"]) + "[" + inner + "]"
        return self.word()

    def prose_line(self, n):
        parts = [self.inline() for _ in range(1 + self.r.below(n))]
        out = parts[0]
        for p in parts[1:]:
            out += self.r.pick([" ", " ", " ", "  ", "", " /* c */ "]) + p
        return out

    def markup_body(self, nlines):
        lines = []
        for _ in range(1 + self.r.below(nlines)):
            r = self.r.below(12)
            if r < 7:
                lines.append(self.prose_line(5))
            elif r < 8:
                lines.append("=" * (1 + self.r.below(3)) + " " + self.prose_line(3))
            elif r < 10:
                ind = " " * (2 * self.r.below(3))
                lines.append(ind + self.r.pick(["- ", "+ ", "1. ", "/ T: "]) + self.prose_line(3)
                             + (("\n" + ind + "  " + self.prose_line(2)) if self.r.chance(1, 3) else ""))
            elif r < 11:
                lines.append("#" + G(self.r, self.depth + 1).statement())
            else:
                lines.append("```" + self.r.pick(["", "rust", "py"]) + "\n" + self.r.pick(["fn main() {}", "  x = 1\n    y", "a \nb", "", " ", "\n", "  a\n\n  b", "x\n   "]) + "\n```")
        out = lines[0]
        for l in lines[1:]:
            out += self.r.pick(["\n", "\n", "\n\n", "\n\n\n", " \n", "\n  "]) + l
        lead = self.r.pick(["", "", " ", "\n", "\n  "])
        trail = self.r.pick(["", "", " ", "\n", "\n\n"])
        return lead + out + trail

    # ------------------------------------------------------------------ math
    def matom(self):
        r = self.r.below(24)
        if r < 6:
            return self.r.pick(["a", "b", "x", "y", "1", "2", "+", "-", "=", "alpha", "sum", "pi"])
        if r < 8 and self.depth < 4:
            o, c = self.r.pick([("(", ")"), ("[", "]"), ("{", "}"), ("|", "|")])
            if self.r.chance(1, 6):
                # a group that holds nothing, or nothing but blanks
                return o + self.r.pick([" ", "  ", "\n", "", " \n "]) + c
            g = G(self.r, self.depth + 1)
            return o + g.msp(True) + g.math(3) + g.msp(True) + c
        if r < 10 and self.depth < 4:
            g = G(self.r, self.depth + 1)
            hashed = ["#text(red)[1]", "#box(inset: 2pt)[3]", "#strong[4]", "#f(1, 2)", "#f(x)[y][z]", "#(a, b)", "#x.f(1)[c]", "#2", "#[c]", "#results.filter(r => r.ok).map(r => r.value).sum()"]
            args = [(self.r.pick(hashed) if self.r.chance(1, 4) else g.math(2)) for _ in range(self.r.below(5))]
            if self.r.chance(1, 3) and len(args) >= 2:
                # rows of a 2-D argument list: commas inside a row, semicolons between rows
                out = args[0]
                for a in args[1:]:
                    out += self.r.pick([", ", ",", "; ", ";", " ;", ";\n  "]) + a
                return self.r.pick(["mat", "vec", "cases"]) + "(" + g.msp(True) + out + self.r.pick(["", ";", ","]) + g.msp(True) + ")"
            sep = self.r.pick([", ", ",", " , ", "; ", ",\n  "])
            return self.r.pick(["binom", "sqrt", "mat", "vec", "cases"]) + "(" + g.msp(True) + sep.join(args) + g.msp(True) + ")"
        if r < 12:
            return self.matom_simple() + self.r.pick(["_", "^"]) + self.matom_simple()
        if r < 13:
            return self.matom_simple() + self.r.pick(["/", " / ", "  /  "]) + self.matom_simple()
        if r < 14:
            return "√" + self.matom_simple()
        if r < 15:
            return self.matom_simple() + "'" * (1 + self.r.below(2))
        if r < 16:
            return '"' + self.r.pick(["text", "if ", " a"]) + '"'
        if r < 17:
            return "#" + self.r.pick(["x", "f(1)", "(1 + 2)", "[c]", "text(red)[1]", "box(inset: 2pt)[3]", "strong[4]", "f(1, 2)",
                                      "f(x)[y][z]", "{1}", "(2)", "x.y", "(a, b)", "f(a: 1)[b]", "x.f(1)[c]", "1em", "(1)w"])
        if r < 18:
            return "&"
        if r < 19:
            return "\\"
        if r < 20:
            return self.r.pick(["->", "<=", "!=", "...", "~"])
        if r < 21:
            return "arrow.l"
        return self.r.pick(["a", "x", "n"])

    def matom_simple(self):
        return self.r.pick(["a", "b", "x", "2", "(a b)", "n", "alpha", "#(1)x", "#(n)", "#(-1)b", "( a b )", "(a )", "( a+b)"])

    def msp(self, allow_none):
        r = self.r.below(16)
        if allow_none and r < 6:
            return ""
        if r < 11:
            return " "
        if r < 12:
            return "  "
        if r < 15:
            return "\n" + " " * self.r.below(4)
        return " \n "

    def math(self, n):
        parts = [self.matom() for _ in range(1 + self.r.below(n))]
        out = parts[0]
        for p in parts[1:]:
            out += self.msp(self.r.chance(1, 3)) + p
        return out

    def equation(self):
        g = G(self.r, self.depth)
        if self.r.chance(1, 2):
            return "$" + g.math(5) + "$"
        return "$" + g.msp(False) + g.math(6) + g.msp(False) + "$"

    # ------------------------------------------------------------------ code
    def expr(self):
        if self.depth > 4:
            return self.r.pick(["1", "a", '"s"', "none", "2.5em", "true"])
        g = G(self.r, self.depth + 1)
        r = self.r.below(30)
        if r < 6:
            return self.r.pick(["1", "a", '"s"', "none", "auto", "2.5em", "true", "0xff", "1e3", "b-c", '"a  \n b"'])
        if r < 9:
            return g.expr() + g.sp(False) + self.r.pick(["+", "-", "*", "/", "==", "<", "and", "or", "in", "not in"]) + g.sp(False) + g.expr()
        if r < 12:
            args = [g.arg() for _ in range(self.r.below(4))]
            trail = self.r.pick(["", ",", ", "])
            tail = self.r.pick(["", "", "", "[" + g.prose_line(2) + "]"])
            return self.r.pick(["f", "a.b", "calc.max", "x.at"]) + "(" + g.sp(True, True) + (", " + g.sp(True, True)).join(args) + (trail if args else "") + g.sp(True, True) + ")" + tail
        if r < 14:
            items = [g.expr() for _ in range(self.r.below(4))]
            if len(items) == 1:
                return "(" + items[0] + ",)"
            return "(" + g.sp(True, True) + ("," + g.sp(True)).join(items) + g.sp(True, True) + ")"
        if r < 16:
            items = [self.word_ascii() + ":" + g.sp(False, True) + g.expr() for _ in range(1 + self.r.below(3))]
            return "(" + g.sp(True, True) + ("," + g.sp(True)).join(items) + self.r.pick(["", ","]) + g.sp(True, True) + ")"
        if r < 17:
            return "(" + g.expr() + ")"
        if r < 18:
            return self.r.pick(["-", "+", "not "]) + g.expr()
        if r < 20:
            return g.expr() + "." + self.r.pick(["len()", "at(0)", "first", "map(x => x + 1)", "b.c(1).d(2)"])
        if r < 22:
            params = self.r.pick(["x", "(x)", "(x, y)", "(x, y: 1)", "(..args)", "((a, b))", "_"])
            r2 = self.r.below(8)
            if r2 < 4:
                body = g.expr()
            elif r2 < 5:
                body = self.r.pick(["total", "acc", "it.x"]) + self.r.pick([" = ", " += ", " -= "]) + g.binary_chain()
            elif r2 < 6:
                body = "not " + g.binary_chain()
            elif r2 < 7:
                body = "return " + g.binary_chain()
            else:
                body = self.r.pick(["-", "+"]) + g.binary_chain()
            return params + g.sp(False) + "=>" + g.sp(False) + body
        if r < 24:
            return "{" + g.sp(True, True) + g.statements() + g.sp(True, True) + "}"
        if r < 26:
            return "[" + g.markup_body(2) + "]"
        if r < 27:
            return "if " + g.expr() + " {" + g.sp(True) + g.expr() + g.sp(True) + "}" + (self.r.pick(["", " else { " + g.expr() + " }"]))
        if r < 28:
            return g.equation()
        if r < 29:
            return "context " + g.expr()
        return self.r.pick(["`raw`", "` `", "`a b`", "```py x```"])

    def binary_chain(self):
        n = 2 + self.r.below(4)
        ops = self.r.pick([["+", "-"], ["*", "/"], ["and", "or"], ["==", "<"], ["in"]])
        parts = [self.r.pick(["alpha_alpha", "b", "f(x)", "1", "long_name_here", "x.y"]) for _ in range(n)]
        out = parts[0]
        for p in parts[1:]:
            out += " " + self.r.pick(ops) + " " + p
        return out

    def word_ascii(self):
        return self.r.pick(["a", "b", "key", "fill", "x-y"])

    def arg(self):
        r = self.r.below(8)
        if r < 5:
            return self.expr()
        if r < 7:
            return self.word_ascii() + ":" + self.sp(False, True) + self.expr()
        return ".." + self.expr()

    def statement(self):
        g = G(self.r, self.depth + 1)
        r = self.r.below(14)
        if r < 3:
            return "let " + self.r.pick(["x", "(a, b)", "f(x)", "(a, ..r)", "_"]) + g.sp(False) + "=" + g.sp(False) + g.expr()
        if r < 4:
            return "set text(" + g.arg() + ")" + self.r.pick(["", "", "", "[x]", "[#x][y]", "[]"])
        if r < 5:
            return "show " + self.r.pick(["heading", "raw.where(block: true)", ""]) + ": " + g.expr()
        if r < 6:
            return "import " + self.r.pick(['"a.typ"', '"a.typ": b, c', '"a.typ": (c as d, b)', '"a.typ" as m', '"a.typ": *'])
        if r < 7:
            it = g.expr() if self.r.chance(1, 2) else self.r.pick(['"alpha-beta-gamma".split("-").rev()', "words.sorted().dedup()",
                                                                      "it.text.clusters().rev()", "range(1, 10).map(i => i * 2)", "a.b.c(1).d"])
            body = self.r.pick([" {" + g.sp(True) + g.expr() + g.sp(True) + "}", " [" + self.r.pick(["- #x", "a #x b", ""]) + "]"])
            return "for " + self.r.pick(["x", "(k, v)"]) + " in " + it + body
        if r < 8:
            return "while " + self.r.pick([g.expr(), "items.len() > 0 and queue.first().ready()", "not done.at(0).flag"]) + " { " + g.expr() + " }"
        if r < 9:
            return "return " + g.expr()
        if r < 10:
            return "include " + '"b.typ"'
        if r < 11:
            return self.r.pick(["x", "a.b", "(x, y)", "_"]) + self.r.pick([" = ", " += ", " -= ", " *= ", " /= ", "=", "/="]) + g.expr()
        return g.expr()

    def statements(self):
        n = 1 + self.r.below(3)
        sts = [self.statement() for _ in range(n)]
        out = sts[0]
        for s in sts[1:]:
            out += self.r.pick(["\n", "\n  ", "; ", "\n\n", "\n// c\n", " /* c */\n"]) + s
        return out

    def table_call(self):
        fn = self.r.pick(["table", "grid"])
        cols = self.r.pick(["2", "3", "(1fr, 2fr)", "(auto, auto, auto)", "1", "0x2"])
        named = ["columns: " + cols] + [self.r.pick(["stroke: none", "gutter: 1em", "align: center"]) for _ in range(self.r.below(2))]
        cells = []
        for _ in range(self.r.below(8)):
            r = self.r.below(12)
            if r < 7:
                cells.append(self.r.pick(["[a]", "[b]", "[c]", "[long cell text]", "1", '"s"', "[]"]))
            elif r < 9:
                cells.append(fn + "." + self.r.pick(["header", "footer"]) + "(" + self.r.pick(["[h]", "[h1], [h2]", ""]) + ")")
            elif r < 10:
                cells.append(fn + "." + self.r.pick(["cell", "hline", "vline"]) + "()")
            elif r < 11:
                cells.append("..rest")
            else:
                cells.append(self.r.pick(["inset: 2pt", "fill: red"]))
        if self.r.chance(1, 4):
            # a shared preset in front of (or between) the options: `table(..style, columns: 2, [a])`
            named.insert(self.r.below(len(named) + 1), self.r.pick(["..style", "..base", "..(stroke: none)"]))
        args = named + cells
        if self.r.chance(1, 6):
            self.r_shuffle(args)
        sep = self.r.pick([", ", ",\n  ", ", ", " , "])
        trail = self.r.pick(["", ",", ", // c\n"]) if args else ""
        return fn + "(" + self.r.pick(["", "\n  ", " "]) + sep.join(args) + trail + self.r.pick(["", "\n"]) + ")"

    def r_shuffle(self, xs):
        for i in range(len(xs) - 1, 0, -1):
            j = self.r.below(i + 1)
            xs[i], xs[j] = xs[j], xs[i]

    def embedded(self):
        r = self.r.below(6)
        if r < 2:
            return self.statement() + self.r.pick(["", ";"])
        if r < 3:
            return self.r.pick(["x", "f(1)", "a.b", "f[c]", "a.b(1).c"])
        return self.expr() if self.r.chance(1, 2) else "{" + self.statements() + "}"


def generate(rng, n):
    out = []
    for i in range(n):
        g = G(rng)
        k = i % 7
        if k == 6:
            out.append("#" + g.table_call() + "\n")
        elif k == 0:
            out.append(g.markup_body(4))
        elif k == 1:
            out.append("#" + g.statement() + "\n")
        elif k == 2:
            out.append(g.equation() + "\n")
        elif k == 3:
            out.append("#{\n  " + g.statements() + "\n}\n")
        elif k == 4:
            out.append("#[" + g.markup_body(3) + "]\n")
        else:
            out.append(g.prose_line(4) + " " + g.equation() + "\n")
    return out
