"""Shared machinery of the core-library checks (C01, C04-C10, C12, C18, C19): proof obligations,
case streams, one cached evaluation of implementation + model + oracles per (tree hash, tier, seed),
known-finding classes and the verdict logic of DESIGN.md section 2.5."""
import glob
import hashlib
import re
import json
import os
import pickle
import subprocess
import time

from . import build, cases, kconv, shrink, synth
from .common import BUILD, COQ, MODEL, REPO, TYV, VERIF, SplitMix, hexs, pipe, unhex
from .verdict import Check

CACHE = os.path.join(BUILD, "cache")


# ----------------------------------------------------------------------------- obligations

def prepare(ck, prop_file, theorem_names):
    """Regenerate gen/*.v, build the property's .vo, audit, Print Assumptions, extraction, harness."""
    gens = build.generate()
    bad_gen = [g for g in gens if g[1] != 0]
    ck.oblige("translators: gen/*.v regenerated from /repo's current sources (%s)" % ", ".join(g[0] for g in gens),
              not bad_gen, str(bad_gen)[:500])
    try:
        fb = [l for l in open(os.path.join(COQ, "gen", "FALLBACKS.txt")).read().split("\n") if l]
    except OSError:
        fb = []
    ck.extra["translator_fallbacks"] = fb
    if fb:
        ck.assumptions.append("translators: the shape of %s was not recognised in the current sources; the model keeps the value read from the "
                              "unchanged tree (coq/gen_baseline) and the correspondence check decides whether the implementation still behaves like it" % ", ".join(fb))
    ok, log = build.coq_make([prop_file + "o"])
    ck.checker_cmds.append("make -C coq -j16 %so" % prop_file)
    ck.oblige("coq: %s compile (%so)" % (", ".join(theorem_names), prop_file), ok, log[-2500:] if not ok else "")
    bad = build.audit_sources()
    ck.oblige("audit: no Admitted/Axiom/Parameter/unsafe flags in the development", not bad, str(bad[:5]))
    if ok:
        pa_ok, pa, _ = build.print_assumptions(prop_file)
        ck.checker_cmds.append("coqc -Q coq TV coq/%s (Print Assumptions)" % prop_file)
        ck.oblige("Print Assumptions: closed under the global context for every theorem of %s" % prop_file, pa_ok, str(pa))
        ck.extra["print_assumptions"] = [{"theorem": n, "axioms": a} for (n, a) in pa]
    okx, logx = build.build_extract()
    okh, logh = build.build_harness()
    ck.oblige("build: extracted model + driver", okx, logx[-1500:] if not okx else "")
    ck.oblige("build: harness against /repo working tree (--cfg typstyle_verif)", okh, logh[-1500:] if not okh else "")
    return ok, (okx and okh)


# ----------------------------------------------------------------------------- case streams

def gen_perturbed(seed, n, max_len, flags, bases):
    p = subprocess.run([TYV, "gen", str(seed), str(n), str(max_len), flags], input="\n".join(hexs(b) for b in bases) + "\n",
                       stdout=subprocess.PIPE, text=True, timeout=1200)
    return [unhex(l) for l in p.stdout.split("\n") if l]


IMPORT_NAMES = ["a", "b", "zeta", "alpha", "Beta", "m.n", "x.y.z", "é", "a1", "_u", "a.x", "b.x", "x", "c.x", "z.f", "f", "q.a"]


def gen_imports(rng, n):
    out = []
    for _ in range(n):
        k = 1 + rng.below(6)
        items = []
        for _ in range(k):
            nm = rng.pick(IMPORT_NAMES)
            r = rng.below(10)
            if r < 2:
                nm = nm + " as " + rng.pick(["q", "r", "a", "b", "x", "f"])
            elif r == 2:
                nm = nm + " /* c */ as " + rng.pick(["q", "a"])
            elif r == 3:
                nm = "/* k */ " + nm
            elif r == 4 and "." in nm:
                # a comment inside the dotted path of an item (two levels below the item when it is renamed)
                nm = nm.replace(".", rng.pick(["./* p */", " /* p */.", ". // p\n  "]), 1) + rng.pick(["", " as y"])
            items.append(nm)
        sep = rng.pick([", ", ",", " ,\n  ", ", // x\n  "]) if rng.chance(1, 4) else ", "
        body = sep.join(items) + (rng.pick(["", ","]))
        if "\n" in body or rng.chance(1, 3):
            body = "(" + body + ")"
        pre = rng.pick(['#import "m.typ": ', '#import "m.typ" as mm: ', "#{\n  import \"m.typ\": "])
        post = "\n}\n" if pre.startswith("#{") else "\n"
        out.append(pre + body + post + rng.pick(["", "text\n", "#let x = (b, a)\n"]))
    out.append('#import "m.typ": *\n')
    out.append('#import "a.typ": c /* x */ as d, b\n')
    out.append('#import "a.typ": b, a, b\n')
    return out


def nested_family(kind, depth):
    if kind == "call":
        return "#" + "f(" * depth + "1" + ")" * depth + "\n"
    if kind == "array":
        return "#" + "(" * depth + "1," + ",)" * (depth - 1) + ")\n"
    if kind == "dict":
        return "#" + "(a: " * depth + "1" + ")" * depth + "\n"
    if kind == "content":
        return "#" + "[" * depth + "x" + "]" * depth + "\n"
    if kind == "block":
        return "#" + "{" * depth + "1" + "}" * depth + "\n"
    if kind == "chain":
        return "#a" + ".b(1)" * depth + "\n"
    if kind == "binary":
        return "#(" + "1 + " * depth + "1)\n"
    if kind == "closure":
        return "#let f = " + "x => " * depth + "1\n"
    if kind == "math":
        return "$" + "(" * depth + "a" + ")" * depth + "$\n"
    if kind == "list":
        return "".join("  " * i + "- a\n" for i in range(depth))
    if kind == "cond":
        return "#" + "if a { " * depth + "1" + " }" * depth + "\n"
    if kind == "paren":
        return "#let x = " + "(" * depth + "1" + ")" * depth + "\n"
    if kind == "callarg":
        return "#" + "f(a, g(" * depth + "1" + "))" * depth + "\n"
    if kind == "dotcall":
        return "#" + "alpha.beta.gamma(" * depth + "1" + ")" * depth + "\n"
    if kind == "dotcall2":
        return "#{\n  " + "aaaaaaaaaaaaaaaaaaaaaaaa.bbbbbbbbbbbbbbbbbbbbbbbb.cc(x, " * depth + "1" + ")" * depth + "\n}\n"
    if kind == "letclosure":
        return "#let f = " + "(x) => g(" * depth + "1" + ")" * depth + "\n"
    if kind == "blockcall":
        return "#" + "f(a.b[#" * depth + "x" + "])" * depth + "\n"
    if kind == "selfchain":
        return "#" + "calc.inner.f(" * depth + "1" + ")" * depth + "\n"
    if kind == "strong":
        return ("*a _b " * depth) + ("_ c* " * depth) + "\n"
    return "x\n"


FAMILIES = ["call", "array", "dict", "content", "block", "chain", "binary", "closure", "math", "list", "cond", "paren",
            "callarg", "strong", "dotcall", "dotcall2", "letclosure", "blockcall", "selfchain"]


def damaged(rng, src):
    """G4: byte/char level damage."""
    s = list(src)
    for _ in range(1 + rng.below(4)):
        if not s:
            break
        i = rng.below(len(s))
        r = rng.below(6)
        if r == 0:
            del s[i]
        elif r == 1:
            s.insert(i, rng.pick(list("()[]{}$#*_`\"/\\\n")))
        elif r == 2:
            s[i] = rng.pick(list("()[]{}$#\"` \n\t\r \u0085\x0b\x0c　é中"))
        elif r == 3:
            j = rng.below(len(s))
            s[i], s[j] = s[j], s[i]
        elif r == 4:
            del s[i:i + 1 + rng.below(10)]
        else:
            s.insert(i, "".join(rng.pick(cases.WS_CHARS + cases.OTHER_CHARS) for _ in range(1 + rng.below(4))))
    return "".join(s)


def corpus_cases():
    res = []
    for p in sorted(glob.glob(os.path.join(VERIF, "corpus", "*.json"))):
        try:
            d = json.load(open(p))
        except (OSError, ValueError):
            continue
        for c in d.get("cases", []):
            res.append(("corpus:" + os.path.basename(p), c.get("width", 80), c.get("tab", 2), int(c.get("reorder", 0)), c["source"]))
    return res


def build_cases(tier, seed, extra=None):
    """Returns list of (stream, width, tab, reorder, source)."""
    rng = SplitMix(seed * 7919 + 11)
    fx = cases.fixtures()
    out = list(extra or [])
    out += corpus_cases()
    widths = [0, 40, 120] if tier == "quick" else [0, 1, 2, 7, 20, 40, 60, 80, 120, 400, 1000000]
    tabs = [2] if tier == "quick" else [2, 1, 4, 8]
    for (name, text) in fx:
        for w in widths:
            for t in tabs:
                if tier == "thorough" and t != 2 and w not in (0, 40, 120):
                    continue
                out.append(("G1:" + name, w, t, 0, text))
    # reorder-on pass over fixtures that contain imports
    for (name, text) in fx:
        if "#import" in text or "import " in text:
            out.append(("G1r:" + name, 80, 2, 1, text))
            out.append(("G1r:" + name, 20, 2, 1, text))
    n2 = 1500 if tier == "quick" else 40000
    bases = [t for (_, t) in fx]
    gen = gen_perturbed(seed, n2, 1500, "xd", bases)
    ws = [0, 30, 80, 120, 1, 50]
    ts = [2, 4, 1, 3, 8]
    for i, s in enumerate(gen):
        out.append(("G2", ws[i % len(ws)], ts[i % len(ts)], 1 if i % 5 == 0 else 0, s))
    # G3 grammar-directed sources
    n3 = 1500 if tier == "quick" else 40000
    for i, s in enumerate(synth.generate(rng, n3)):
        out.append(("G3", ws[i % len(ws)], ts[i % len(ts)], 0, s))
    # G6 imports
    for i, s in enumerate(gen_imports(rng, 60 if tier == "quick" else 2000)):
        out.append(("G6", [80, 20, 0][i % 3], 2, 1, s))
        out.append(("G6", [80, 20, 0][i % 3], 2, 0, s))
    # G5 nested families
    # depth 32: a converter that does its work twice per level needs 2^32 conversions there and is reported as a hang
    # (no answer within common.STALL seconds)
    depths = [1, 2, 4, 8, 16, 32] if tier == "quick" else [1, 2, 4, 8, 16, 32, 64]
    for fam in FAMILIES:
        for d in depths:
            out.append(("G5:" + fam, 80, 2, 0, nested_family(fam, d)))
            out.append(("G5:" + fam, 0, 2, 0, nested_family(fam, d)))
    # G4 damaged
    n4 = 300 if tier == "quick" else 10000
    small = [t for t in bases if len(t) < 3000] + gen[:200]
    for i in range(n4):
        out.append(("G4", [80, 0, 20][i % 3], [2, 0, 64, 7][i % 4], 0, damaged(rng, rng.pick(small))))
    out += [("G4", 80, 2, 0, ""), ("G4", 0, 0, 0, " \n"), ("G4", 2 ** 61, 64, 0, "#let x = (1, 2)\n"),
            ("G4", 80, 2, 0, "$vec( )$"), ("G4", 80, 2, 0, "#table(columns: 9223372036854775807, [a], [b])"),
            ("G4", 80, 2, 0, "// c\r#let x = 1"), ("G4", 80, 2, 0, "#{\n  a in b not in c\n}\n")]
    return out


# ----------------------------------------------------------------------------- evaluation (cached)

def tree_hash():
    paths = glob.glob(os.path.join(REPO, "crates", "**", "*.rs"), recursive=True)
    paths += glob.glob(os.path.join(REPO, "crates", "**", "Cargo.toml"), recursive=True)
    paths += [os.path.join(REPO, "Cargo.lock"), os.path.join(REPO, "Cargo.toml")]
    paths += glob.glob(os.path.join(VERIF, "harness", "src", "*.rs"))
    paths += glob.glob(os.path.join(COQ, "*.v")) + glob.glob(os.path.join(COQ, "gen", "*.v"))
    paths += glob.glob(os.path.join(VERIF, "extract", "*.ml")) + glob.glob(os.path.join(VERIF, "vlib", "*.py"))
    paths += glob.glob(os.path.join(VERIF, "corpus", "*.json"))
    paths += glob.glob(os.path.join(REPO, "tests", "fixtures", "**", "*.typ"), recursive=True)
    h = hashlib.sha256()
    for p in sorted(set(paths)):
        h.update(p.encode())
        try:
            h.update(hashlib.sha256(open(p, "rb").read()).digest())
        except OSError:
            h.update(b"<missing>")
    return h.hexdigest()[:24]


def parse_fields(line):
    d = {}
    for x in line.split("\t"):
        if "=" in x:
            k, v = x.split("=", 1)
            d[k] = v
    return d


def evaluate_cases(cs):
    """cs: list of (stream, w, tab, reorder, src) -> list of records."""
    if not cs:
        return []
    quads = [(w, t, r, s) for (_, w, t, r, s) in cs]
    orc = pipe([TYV, "oracle"], ["%d %d %d %s" % (w, t, r, hexs(s)) for (w, t, r, s) in quads], timeout=7200)
    orc = [parse_fields(o) for o in orc]
    # the model only takes well-formed inputs of moderate tab/width (N arithmetic is unbounded, but keep text small)
    idx = [i for i, o in enumerate(orc) if True]
    kres = kconv.run_cases([quads[i] for i in idx], timeout=7200)
    recs = []
    kmap = dict(zip(idx, kres))
    cmp_jobs = []
    for i, (c, o) in enumerate(zip(cs, orc)):
        k = kmap.get(i)
        rec = {"stream": c[0], "w": c[1], "tab": c[2], "reorder": c[3], "src": c[4], "o": o}
        if k is not None:
            rec["k"] = {x: k.get(x) for x in ("impl", "model", "class_eq", "doc_eq", "out_eq", "cnt_eq", "impl_cnt", "model_cnt", "model_wfc", "model_size", "model_swfc", "model_sig", "impl_sig", "in_sc", "kinds")}
            if k.get("out_eq") is False:
                rec["model_out"] = k["model_out"]
                rec["impl_out"] = k["impl_out"]
                cmp_jobs.append(len(recs))
        recs.append(rec)
    if cmp_jobs:
        outs = pipe([TYV, "obscmp"], ["%s %s" % (hexs(recs[j]["impl_out"]), hexs(recs[j]["model_out"])) for j in cmp_jobs], timeout=3600)
        for j, o in zip(cmp_jobs, outs):
            recs[j]["obscmp"] = parse_fields(o)
    return recs


def evaluate(tier, seed, extra=None):
    os.makedirs(CACHE, exist_ok=True)
    key = "%s-%s-%d" % (tree_hash(), tier, seed)
    path = os.path.join(CACHE, "core-" + key + ".pkl")
    if not extra and os.path.exists(path):
        try:
            with open(path, "rb") as f:
                return pickle.load(f), True
        except Exception:
            pass
    with build.Lock("core-eval"):
        if not extra and os.path.exists(path):
            with open(path, "rb") as f:
                return pickle.load(f), True
        cs = build_cases(tier, seed, extra)
        recs = evaluate_cases(cs)
        if not extra:
            for old in glob.glob(os.path.join(CACHE, "core-*-%s-*.pkl" % tier)):
                try:
                    os.remove(old)
                except OSError:
                    pass
            with open(path, "wb") as f:
                pickle.dump(recs, f)
    return recs, False


# ----------------------------------------------------------------------------- verdicts

def case_of(rec):
    return {"width": rec["w"], "tab": rec["tab"], "reorder": rec["reorder"], "source": rec["src"], "stream": rec["stream"]}


def reproduce_cmd(rec):
    return "echo '%d %d %d %s' | build/target/debug/tyv oracle" % (rec["w"], rec["tab"], rec["reorder"], hexs(rec["src"]))


def decide_core(ck, key, recs, what, stage_names=("K5",), shrink_key=None, max_report=3):
    """Generic verdict for an oracle key over the evaluated records.
    - oracle failures outside the known classes: violations (shrunk, replayable)
    - oracle failures inside a listed class: known-finding instances (counted)
    - model/implementation disagreements whose observation differs for this property: broken correspondence."""
    shrink_key = shrink_key or key
    viol = []
    known_inst = 0
    wf = 0
    for r in recs:
        o = r["o"]
        if o.get("in_err") != "0" or o.get("class") != "ok":
            continue
        if r["tab"] == 0 and key not in ("c05", "c11"):
            continue        # the properties quantify over tab_spaces >= 1 (a zero unit cannot nest list items)
        wf += 1
        if o.get(key) == "0":
            if shrink.in_known_class(o, key):
                known_inst += 1
            else:
                viol.append(r)
    # a failure inside a known class is still a NEW violation when the model's output (the behaviour the theorems
    # and the known-finding list were established on) satisfies the property for that very input
    cand = [r for r in recs if r.get("model_out") is not None and r["o"].get(key) == "0"
            and r["o"].get("in_err") == "0" and shrink.in_known_class(r["o"], key) and not (r["tab"] == 0 and key not in ("c05", "c11"))]
    if cand:
        outs = pipe([TYV, "oraclefor"], ["%d %d %d %s %s" % (r["w"], r["tab"], r["reorder"], hexs(r["src"]), hexs(r["model_out"])) for r in cand], timeout=3600)
        for r, o in zip(cand, outs):
            if parse_fields(o).get(key) == "1":
                viol.append(r)
                known_inst -= 1
                r["new_in_known_class"] = True
    ck.extra["wellformed_cases"] = wf
    ck.extra["known_class_instances"] = known_inst
    ck.extra["oracle_failures_outside_known_classes"] = len(viol)
    # correspondence
    dis = [r for r in recs if r.get("k") and (r["k"].get("out_eq") is False) and r.get("obscmp", {}).get(key.rstrip("w")) == "0"]
    dis_any = [r for r in recs if r.get("k") and (r["k"].get("out_eq") is False or r["k"].get("doc_eq") is False)]
    ncmp = sum(1 for r in recs if r.get("k") and r["k"].get("impl") == "ok" and str(r["k"].get("model")) == "ok")
    ck.extra["k5_compared"] = ncmp
    ck.extra["k5_byte_disagreements_any"] = len([r for r in dis_any if r["k"].get("out_eq") is False])
    ck.extra["k2_doc_disagreements_any"] = len([r for r in dis_any if r["k"].get("doc_eq") is False])
    ck.oblige("K5: implementation output == model output under this property's observation on %d cases" % ncmp,
              not dis, ("first: %r" % (case_of(dis[0]),))[:600] if dis else "")
    seen = set()
    for r in viol:
        if len(ck.violations) >= max_report:
            break
        small = r["src"] if r.get("new_in_known_class") else shrink.shrink(r["w"], r["tab"], r["reorder"], r["src"], shrink_key)
        if small in seen:
            continue
        seen.add(small)
        d2 = shrink.oracle_many([(r["w"], r["tab"], r["reorder"], small)])[0]
        ck.violation("counterexample", {
            "what": what, "input": {"width": r["w"], "tab": r["tab"], "reorder": r["reorder"], "source": small},
            "original_input": case_of(r), "output": unhex(d2.get("out", "-")) if d2.get("out") else None,
            "detail": unhex(d2.get(key.rstrip("w") + "d", "-")) if d2.get(key.rstrip("w") + "d") else None,
            "reproduce": "echo '%d %d %d %s' | build/target/debug/tyv oracle" % (r["w"], r["tab"], r["reorder"], hexs(small))})
    return viol, dis


def replay_known(ck, key, label=None):
    """Replay every listed finding of this property; print KNOWN-FINDING while it still fails."""
    for f in ck.findings:
        w = f.get("witness", {})
        if "source" not in w:
            continue
        d = shrink.oracle_many([(w.get("width", 80), w.get("tab", 2), int(w.get("reorder", 0)), w["source"])])[0]
        k = f.get("oracle_key", key)
        if d.get(k) == "0":
            ck.known_finding("%s: %s (witness %r)" % (f.get("id", "?"), f.get("what", ""), w["source"]))
        ck.extra.setdefault("known_findings_replayed", []).append({"id": f.get("id"), "still_fails": d.get(k) == "0"})


def finish_with_search(ck, viol, dis, searched):
    if not ck.violations and (ck.failed_obligations()):
        first = case_of(dis[0]) if dis else None
        ck.violation("broken-obligation", {"failing": ck.failed_obligations(), "searched": searched,
                                           "first_disagreement": first}, no_input=True, tag="obl")
    return ck.finish()


def distribution(recs):
    streams = {}
    for r in recs:
        s = r["stream"].split(":")[0]
        streams[s] = streams.get(s, 0) + 1
    cls = {}
    for r in recs:
        c = r["o"].get("class", "?")
        cls[c] = cls.get(c, 0) + 1
    # which syntax kinds the compared trees contained: every converter of the model is keyed by a kind, so this is the
    # coverage of the converters by the correspondence (K2/K5/K7)
    seen = {}
    for r in recs:
        k = r.get("k") or {}
        if k.get("impl") == "ok" and k.get("model") == "ok":
            for x in k.get("kinds") or []:
                seen[x] = seen.get(x, 0) + 1
    names = kind_names()
    never = [names[i] for i in range(len(names)) if i not in seen and names[i] not in ("KEnd", "KError")]
    rare = sorted(((names[i], n) for i, n in seen.items() if i < len(names) and n < 5), key=lambda t: t[1])
    return {"by_stream": streams, "by_class": cls,
            "syntax_kinds_in_compared_trees": {"distinct": len(seen), "of": len(names), "never_seen": never, "seen_in_fewer_than_5_cases": rare}}


_KIND_NAMES = None


def kind_names():
    global _KIND_NAMES
    if _KIND_NAMES is None:
        try:
            txt = open(os.path.join(COQ, "gen", "Kind.v")).read()
            m = re.search(r"Definition all_kinds : list kind := \[(.*?)\]\.", txt, re.S)
            _KIND_NAMES = [x.strip() for x in m.group(1).split(";")] if m else []
        except OSError:
            _KIND_NAMES = []
    return _KIND_NAMES


# ----------------------------------------------------------------------------- generic driver

RULE = ("cases: corpus + G1 fixtures x widths x tabs, G2 layout perturbations of the fixtures (whitespace, comments, directives, "
        "trailing commas, CRLF and exotic line ends; kept only when still well-formed), G4 damaged sources, G5 nested families, "
        "G6 generated import statements; every case is run through the implementation (tyv full + oracle) and through the "
        "extracted Coq converter/renderer model (model conv). distinct = distinct (source, width, tab, reorder); "
        "non-trivial = the input is well-formed and has at least 3 syntax nodes.")


def run_property(prop, tier, seed, replay, key, prop_file, theorems, what, assumptions, trusted_extra=(), post=None):
    ck = Check(prop, tier, seed)
    ck.rule = RULE
    ck.assumptions = list(assumptions)
    ck.trusted += list(trusted_extra)
    ck.trusted += ["modelled, not verified: typst-syntax 0.13.1 (parser; its trees are the model's input), the `pretty` 0.12.4 renderer "
                   "(restated in Doc.v/Render.v, compared on every case), unicode-width (display widths harvested from the implementation's documents)",
                   "translators tools/gen_kind.py, gen_cli.py, gen_tables.py (regex over specific files; unknown shapes become an unbound identifier)"]
    proofs_ok, built = prepare(ck, prop_file, theorems)
    if not built:
        ck.violation("broken-obligation", {"failing": ck.failed_obligations()}, no_input=True, tag="build")
        return ck.finish()
    extra = None
    if replay and isinstance(replay.get("input"), dict) and "source" in replay["input"]:
        i = replay["input"]
        extra = [("replay", i.get("width", 80), i.get("tab", 2), int(i.get("reorder", 0)), i["source"])]
    t0 = time.time()
    try:
        recs, cached = evaluate(tier, seed, extra)
    except (RuntimeError, subprocess.TimeoutExpired) as e:
        ck.oblige("evaluation of the case streams completes (no hang, no crash of the harness)", False, str(e)[-1500:])
        ck.violation("broken-obligation", {"failing": ck.failed_obligations()}, no_input=True, tag="eval")
        return ck.finish()
    ck.extra["evaluation_cached"] = cached
    ck.extra["evaluation_s"] = round(time.time() - t0, 1)
    ck.extra["distribution"] = distribution(recs)
    for r in recs:
        nontrivial = r["o"].get("in_err") == "0" and int(r["o"].get("nodes", "0")) >= 3
        ck.count((r["src"], r["w"], r["tab"], r["reorder"]), nontrivial)
    for r in recs[:2] + recs[-2:]:
        ck.sample({"stream": r["stream"], "width": r["w"], "tab": r["tab"], "reorder": r["reorder"], "source": r["src"][:200],
                   "class": r["o"].get("class"), "oracle": r["o"].get(key)})
    viol, dis = decide_core(ck, key, recs, what)
    replay_known(ck, key)
    if post:
        post(ck, recs)
    return finish_with_search(ck, viol, dis, "oracle '%s' over all streams (%d cases) and over every model/implementation disagreement" % (key, len(recs)))
