"""C01 — see DESIGN.md section 4. Proof obligations: Properties/C01.v. Tie: K5 on every case, under this property's observation."""
from . import core

PROP_FILE = 'Properties/C01.v'
THEOREMS = ['C01_output_atoms_partial', 'C01_optional_paren_sound', 'C01_markup_source_lines',
            'C01_flow_stylist_conserves', 'C01_plain_stylist_conserves', 'C01_list_stylist_conserves', 'C01_chain_printer_conserves', 'C01_chain_builder_attaches_after_a_body', 'C01_chain_stylist_conserves',
            'C01_every_layout_has_the_signature', 'C01_rendered_text_has_the_signature', 'C01_list_printer_signature',
            'C01_chain_printer_signature', 'C01_plain_printer_signature',
            'C01_converter_conserves_signature', 'C01_in_scope_every_layout_conserves']


def sig_certificate(ck, recs):
    """Per case: the extracted `sig_check`, applied to the document the IMPLEMENTATION built (dumped by the harness; K3 renders the same dump), says that it carries exactly the signature of the source
    tree (its text minus blanks and the delimiters ( ) [ ] { } $ , ; :) along the flat branches and that both branches of
    every flat_alt agree; by C01_every_layout_has_the_signature this holds of every layout of that document, at every
    width. Cases outside `sig_scope` (non-ASCII blanks inside a node that is printed verbatim or inside a comment, a comment between `not` and `in`) and with import reordering on are
    not judged."""
    ok = [r for r in recs if r.get("k") and r["k"].get("impl") == "ok" and r["reorder"] == 0]
    inscope = [r for r in ok if r["k"].get("impl_sig") is not None]
    bad = [r for r in inscope if r["k"].get("impl_sig") is False]
    insc = [r for r in ok if r["k"].get("in_sc")]
    ck.extra["conservation_theorem_scope"] = {"accepted_cases_reorder_off": len(ok), "trees_in_sc": len(insc),
                                              "of_which_certificate_failed": len([r for r in insc if r["k"].get("impl_sig") is False])}
    ck.oblige("conservation theorem vs certificate: no tree in the theorem's scope `sc` fails the signature certificate (%d trees in scope)" % len(insc),
              not [r for r in insc if r["k"].get("impl_sig") is False and r["k"].get("doc_eq")], "")
    ck.extra["sig_certificate_model_docs_failed"] = len([r for r in ok if r["k"].get("model_sig") is False])
    ck.extra["sig_certificate"] = {"accepted_cases_reorder_off": len(ok), "in_scope": len(inscope), "failed": len(bad)}
    ck.oblige("signature certificate: the implementation's document in each of %d in-scope cases carries the source tree's signature on every layout" % len(inscope),
              not bad, ("first: %r" % (core.case_of(bad[0]),))[:500] if bad else "")
    seen = set()
    for r in bad:
        if len(ck.violations) >= 3 or r["src"] in seen:
            continue
        seen.add(r["src"])
        ck.violation("counterexample", {
            "what": "the document the formatter lays out does not carry the source's tokens in order (a token other than a blank or a delimiter ( ) [ ] { } $ , ; : is lost, added or moved)",
            "input": {"width": r["w"], "tab": r["tab"], "reorder": 0, "source": r["src"]},
            "reproduce": "tyv full on the input, then `model sig` on the dumped tree: the two signatures differ"})


def run(tier, seed, replay=None):
    return core.run_property('C01', tier, seed, replay, 'c01', PROP_FILE, THEOREMS, "the formatted text does not parse to a syntax tree equivalent to the input's (skeleton mismatch)", ["A1/A2: the re-parsed half of the property relies on typst_syntax::parse, which is outside the model; the skeleton oracle (harness/src/obs.rs) is an executable reading of 'equivalent tree' and is testing, not proof", 'the theorems are the parser-free mechanisms (token emission in document order at every width, optional delimiters, markup line structure); the four stylists are proved to conserve what they are handed (flow, plain, list, chain printer); that the producer of every converter hands every non-trivia child to its stylist is not yet proved and is covered by K5 (model output == implementation output) on every case'], post=sig_certificate)
