"""C01 — see DESIGN.md section 4. Proof obligations: Properties/C01.v. Tie: K5 on every case, under this property's observation."""
from . import core

PROP_FILE = 'Properties/C01.v'
THEOREMS = ['C01_output_atoms_partial', 'C01_optional_paren_sound', 'C01_markup_source_lines',
            'C01_flow_stylist_conserves', 'C01_plain_stylist_conserves', 'C01_list_stylist_conserves', 'C01_chain_printer_conserves', 'C01_chain_builder_attaches_after_a_body', 'C01_chain_stylist_conserves']


def run(tier, seed, replay=None):
    return core.run_property('C01', tier, seed, replay, 'c01', PROP_FILE, THEOREMS, "the formatted text does not parse to a syntax tree equivalent to the input's (skeleton mismatch)", ["A1/A2: the re-parsed half of the property relies on typst_syntax::parse, which is outside the model; the skeleton oracle (harness/src/obs.rs) is an executable reading of 'equivalent tree' and is testing, not proof", 'the theorems are the parser-free mechanisms (token emission in document order at every width, optional delimiters, markup line structure); the four stylists are proved to conserve what they are handed (flow, plain, list, chain printer); that the producer of every converter hands every non-trivia child to its stylist is not yet proved and is covered by K5 (model output == implementation output) on every case'])
