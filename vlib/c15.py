from .clicheck import run_prop


def run(tier, seed, replay=None):
    return run_prop("C15", tier, seed, replay)
