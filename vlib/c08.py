"""C08 — see DESIGN.md section 4. Proof obligations: Properties/C08.v. Tie: K5 on every case, under this property's observation."""
from . import core

PROP_FILE = 'Properties/C08.v'
THEOREMS = ['C08_markup_structure', 'C08_lines_are_source_lines', 'C08_width_independent', 'C08_rigid_document_is_width_independent',
            'C08_unbreakable_document_is_one_line', 'C08_flow_without_comment_is_one_line', 'C08_list_without_comment_is_one_line',
            'C08_suppressed_sublanguage_one_line_partial']


def run(tier, seed, replay=None):
    return core.run_property('C08', tier, seed, replay, 'c08', PROP_FILE, THEOREMS, 'prose was changed: a blank/line break/paragraph break between pieces of markup was created, removed or converted, or text was edited', ['the re-parsed half needs the parser; proved for every Markup node, context, child conversion and width: line structure, single blanks, mandatory breaks', 'no rewrapping: proved for documents (no flat_alt = one layout at every width) and for the comma-separated lists and flows under break suppression; the hereditary statement for every converter (C08_no_rewrapping_full) is not proved and is decided by the oracle that compares the output at the configured width with the output at an unbounded width'])
