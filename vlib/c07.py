"""C07 — see DESIGN.md section 4. Proof obligations: Properties/C07.v. Tie: K5 on every case, under this property's observation."""
from . import core

PROP_FILE = 'Properties/C07.v'
THEOREMS = ['C07_directive_marks_next_sibling', 'C07_no_format_is_children_pass', 'C07_mark_keeps_text', 'C07_expr_verbatim', 'C07_pattern_verbatim', 'C07_math_verbatim', 'C07_code_body_verbatim', 'C07_verbatim_atom_reaches_output']


def run(tier, seed, replay=None):
    return core.run_property('C07', tier, seed, replay, 'c07', PROP_FILE, THEOREMS, "the node after an '@typstyle off' directive is not reproduced verbatim", ['proved: the attribute pass marks exactly the next sibling, and each of the four entry points emits a marked node as one verbatim atom; that every expression child is routed through one of these entry points is covered by K5 and the oracle on every case (G2 inserts directives at random token gaps)'])
