"""K2/K5/K7: run the implementation (tyv full) and the extracted converter model (model conv) on the
same (config, source) cases and compare the documents, the formatted bytes and the conversion counter."""
import re

from .common import MODEL, TYV, hexs, pipe, unhex

R_NODE = re.compile(r"\( R (\d+) T:([0-9a-f]+) \)")
R_KIND = re.compile(r"(?:\( |(?<= ))(\d+)(?=[: ])")


def char_widths(srcs, timeout=3000):
    """source -> [(hex of one character, display width)] for its non-ASCII and control characters (tyv charw)."""
    ds = sorted(set(s for s in srcs if any(ord(ch) > 126 or ord(ch) < 32 for ch in s)))
    res = {}
    if ds:
        out = pipe([TYV, "charw"], [hexs(s) for s in ds], timeout=timeout)
        for s, line in zip(ds, out):
            t = line.split()
            res[s] = [(t[i], t[i + 1]) for i in range(0, len(t) - 1, 2)]
    return res


def run_cases(cases, timeout=3000):
    """cases: list of (width, tab, reorder(0/1), source). Returns list of dicts:
    {impl: 'ok'|'err'|'panic', model: 'ok'|'err'|'panic X'|'fuel', doc_eq, out_eq, cnt_eq, impl_out, model_out, ...}"""
    if not cases:
        return []
    impl = pipe([TYV, "full"], ["%d %d %d %s" % (w, t, r, hexs(src)) for (w, t, r, src) in cases], timeout=timeout)
    mlines = []
    parsed = []
    cw = char_widths([c[3] for c in cases], timeout)
    for (w, t, r, src), line in zip(cases, impl):
        parts = line.split("\t")
        tree = parts[0]
        widths = []
        if len(parts) >= 4:
            seen = set()
            for m in R_NODE.finditer(parts[1]):
                if m.group(2) not in seen:
                    seen.add(m.group(2))
                    widths.append((m.group(2), m.group(1)))
        parsed.append(parts)
        widths = widths + [x for x in cw.get(src, []) if x[0] not in set(y[0] for y in widths)]
        mlines.append("%d %d %d %d %s %s" % (w, t, r, len(widths), " ".join("%s %s" % x for x in widths), tree))
    model = pipe([MODEL, "conv"], mlines, timeout=timeout)
    # the signature certificate on the IMPLEMENTATION's document (accepted cases)
    sjobs = [i for i, parts in enumerate(parsed) if len(parts) >= 4]
    sres = pipe([MODEL, "sigdoc"], ["%s %s" % (parsed[i][0], parsed[i][1]) for i in sjobs], timeout=timeout) if sjobs else []
    impl_sig = {i: (None if o.split()[0] == "2" else o.split()[0] == "1") for i, o in zip(sjobs, sres)}
    in_sc = {i: (o.split()[1] == "1") for i, o in zip(sjobs, sres) if len(o.split()) > 1}
    res = []
    for idx, (case, parts, m) in enumerate(zip(cases, parsed, model)):
        d = {"case": case, "impl_sig": impl_sig.get(idx), "in_sc": in_sc.get(idx)}
        # the syntax kinds of the tree that was compared (coverage of the converters by the correspondence)
        d["kinds"] = sorted(set(int(x) for x in R_KIND.findall(parts[0]))) if parts and parts[0] else []
        if len(parts) >= 4:
            d["impl"] = "ok"
            d["impl_doc"], d["impl_out"], d["impl_cnt"] = parts[1], unhex(parts[2]), int(parts[3])
        elif parts[1] == "err":
            d["impl"] = "err"
        else:
            d["impl"] = "panic"
            d["impl_panic"] = unhex(parts[1].split()[1]) if len(parts[1].split()) > 1 else ""
        if m.startswith("ok "):
            head, outhex = m.split("\t")
            _, cnt, doc = head.split(" ", 2)
            d["model"] = "ok"
            cnt, wfc, size, swfc, sg = (cnt.split(":") + ["1", "0", "1", "1"])[:5]
            d["model_sig"] = None if sg == "2" else (sg == "1")   # None: outside the certificate's scope
            d["model_doc"], d["model_out"], d["model_cnt"] = doc, unhex(outhex), int(cnt)
            d["model_wfc"], d["model_size"], d["model_swfc"] = (wfc == "1"), int(size), (swfc == "1")
        else:
            if " swfc=" in m:
                m, sw = m.rsplit(" swfc=", 1)
                d["model_swfc"] = (sw.strip() == "1")
            d["model"] = m
        d["class_eq"] = (d["impl"] == d["model"].split()[0])
        if d["impl"] == "ok" and d["model"] == "ok":
            d["doc_eq"] = d["impl_doc"] == d["model_doc"]
            d["out_eq"] = d["impl_out"] == d["model_out"]
            d["cnt_eq"] = d["impl_cnt"] == d["model_cnt"]
        res.append(d)
    return res


def first_diff(a, b):
    n = min(len(a), len(b))
    for i in range(n):
        if a[i] != b[i]:
            return i
    return n
