(* driver.ml — runs the extracted Coq model on cases read from stdin, one per line.
   Strings travel hex-encoded (UTF-8 bytes); "-" is the empty string. *)
open Model

let rec pos_of_int n =
  if n = 1 then XH
  else if n land 1 = 0 then XO (pos_of_int (n lsr 1))
  else XI (pos_of_int (n lsr 1))
let n_of_int n = if n = 0 then N0 else Npos (pos_of_int n)
let rec int_of_pos = function
  | XH -> 1
  | XO p -> 2 * int_of_pos p
  | XI p -> 2 * int_of_pos p + 1
let int_of_n = function N0 -> 0 | Npos p -> int_of_pos p

let hexval c =
  match c with
  | '0' .. '9' -> Char.code c - 48
  | 'a' .. 'f' -> Char.code c - 87
  | 'A' .. 'F' -> Char.code c - 55
  | _ -> failwith "hex"

let bytes_of_hex h =
  if h = "-" then ""
  else String.init (String.length h / 2) (fun i ->
      Char.chr ((hexval h.[2 * i] lsl 4) lor hexval h.[(2 * i) + 1]))

(* UTF-8 decode to scalar values *)
let scalars_of_bytes (s : string) : int list =
  let n = String.length s in
  let rec go i acc =
    if i >= n then List.rev acc
    else
      let c = Char.code s.[i] in
      if c < 0x80 then go (i + 1) (c :: acc)
      else if c < 0xE0 then
        go (i + 2) ((((c land 0x1F) lsl 6) lor (Char.code s.[i + 1] land 0x3F)) :: acc)
      else if c < 0xF0 then
        go (i + 3)
          ((((c land 0x0F) lsl 12)
           lor ((Char.code s.[i + 1] land 0x3F) lsl 6)
           lor (Char.code s.[i + 2] land 0x3F))
          :: acc)
      else
        go (i + 4)
          ((((c land 0x07) lsl 18)
           lor ((Char.code s.[i + 1] land 0x3F) lsl 12)
           lor ((Char.code s.[i + 2] land 0x3F) lsl 6)
           lor (Char.code s.[i + 3] land 0x3F))
          :: acc)
  in
  go 0 []

let str_of_hex h : str = List.map n_of_int (scalars_of_bytes (bytes_of_hex h))

let hex_of_str (s : str) : string =
  let b = Buffer.create 64 in
  let put x = Buffer.add_string b (Printf.sprintf "%02x" x) in
  List.iter
    (fun c ->
      let c = int_of_n c in
      if c < 0x80 then put c
      else if c < 0x800 then (put (0xC0 lor (c lsr 6)); put (0x80 lor (c land 0x3F)))
      else if c < 0x10000 then (
        put (0xE0 lor (c lsr 12));
        put (0x80 lor ((c lsr 6) land 0x3F));
        put (0x80 lor (c land 0x3F)))
      else (
        put (0xF0 lor (c lsr 18));
        put (0x80 lor ((c lsr 12) land 0x3F));
        put (0x80 lor ((c lsr 6) land 0x3F));
        put (0x80 lor (c land 0x3F))))
    s;
  if Buffer.length b = 0 then "-" else Buffer.contents b

let words line = List.filter (fun w -> w <> "") (String.split_on_char ' ' line)

let each_line f =
  try
    while true do
      let line = input_line stdin in
      print_string (f line);
      print_newline ()
    done
  with End_of_file -> ()

let () =
  let mode = if Array.length Sys.argv > 1 then Sys.argv.(1) else "" in
  match mode with
  | "strip" ->
      each_line (fun line ->
          let r = strip (str_of_hex (String.trim line)) in
          hex_of_str r ^ (if hygiene_b r then " 1" else " 0"))
  | _ -> prerr_endline ("unknown mode " ^ mode); exit 2
