(* driver.ml — runs the extracted Coq model on cases read from stdin, one per line.
   Strings travel hex-encoded (UTF-8 bytes); "-" is the empty string. *)
open Model

let rec pos_of_int n =
  if n = 1 then XH
  else if n land 1 = 0 then XO (pos_of_int (n lsr 1))
  else XI (pos_of_int (n lsr 1))
let n_of_int n = if n = 0 then N0 else Npos (pos_of_int n)
let rec int_of_pos = function
  | XH -> 1
  | XO p -> 2 * int_of_pos p
  | XI p -> 2 * int_of_pos p + 1
let int_of_n = function N0 -> 0 | Npos p -> int_of_pos p

let hexval c =
  match c with
  | '0' .. '9' -> Char.code c - 48
  | 'a' .. 'f' -> Char.code c - 87
  | 'A' .. 'F' -> Char.code c - 55
  | _ -> failwith "hex"

let bytes_of_hex h =
  if h = "-" then ""
  else String.init (String.length h / 2) (fun i ->
      Char.chr ((hexval h.[2 * i] lsl 4) lor hexval h.[(2 * i) + 1]))

(* UTF-8 decode to scalar values *)
let scalars_of_bytes (s : string) : int list =
  let n = String.length s in
  let rec go i acc =
    if i >= n then List.rev acc
    else
      let c = Char.code s.[i] in
      if c < 0x80 then go (i + 1) (c :: acc)
      else if c < 0xE0 then
        go (i + 2) ((((c land 0x1F) lsl 6) lor (Char.code s.[i + 1] land 0x3F)) :: acc)
      else if c < 0xF0 then
        go (i + 3)
          ((((c land 0x0F) lsl 12)
           lor ((Char.code s.[i + 1] land 0x3F) lsl 6)
           lor (Char.code s.[i + 2] land 0x3F))
          :: acc)
      else
        go (i + 4)
          ((((c land 0x07) lsl 18)
           lor ((Char.code s.[i + 1] land 0x3F) lsl 12)
           lor ((Char.code s.[i + 2] land 0x3F) lsl 6)
           lor (Char.code s.[i + 3] land 0x3F))
          :: acc)
  in
  go 0 []

let str_of_hex h : str = List.map n_of_int (scalars_of_bytes (bytes_of_hex h))

let hex_of_str (s : str) : string =
  let b = Buffer.create 64 in
  let put x = Buffer.add_string b (Printf.sprintf "%02x" x) in
  List.iter
    (fun c ->
      let c = int_of_n c in
      if c < 0x80 then put c
      else if c < 0x800 then (put (0xC0 lor (c lsr 6)); put (0x80 lor (c land 0x3F)))
      else if c < 0x10000 then (
        put (0xE0 lor (c lsr 12));
        put (0x80 lor ((c lsr 6) land 0x3F));
        put (0x80 lor (c land 0x3F)))
      else (
        put (0xF0 lor (c lsr 18));
        put (0x80 lor ((c lsr 12) land 0x3F));
        put (0x80 lor ((c lsr 6) land 0x3F));
        put (0x80 lor (c land 0x3F))))
    s;
  if Buffer.length b = 0 then "-" else Buffer.contents b

let words line = List.filter (fun w -> w <> "") (String.split_on_char ' ' line)

(* ---- S-expression token reader ---- *)
type toks = { a : string array; mutable i : int }
let toks_of line = { a = Array.of_list (words line); i = 0 }
let peek t = t.a.(t.i)
let next t = let x = t.a.(t.i) in t.i <- t.i + 1; x
let expect t s = let x = next t in if x <> s then failwith ("expected " ^ s ^ " got " ^ x)

let z_of_int i = if i = 0 then Z0 else if i > 0 then Zpos (pos_of_int i) else Zneg (pos_of_int (-i))

let after_colon s = let k = String.index s ':' in String.sub s (k + 1) (String.length s - k - 1)
let before_colon s = let k = String.index s ':' in String.sub s 0 k

let rec parse_doc t : doc =
  let x = next t in
  if x = "N" then DNil
  else if x = "H" then DHardline
  else if x = "(" then begin
    let tag = next t in
    let d =
      match tag with
      | "A" -> let a = parse_doc t in let b = parse_doc t in DAppend (a, b)
      | "G" -> DGroup (parse_doc t)
      | "F" -> let a = parse_doc t in let b = parse_doc t in DFlatAlt (a, b)
      | "I" -> let k = int_of_string (next t) in DNest (z_of_int k, parse_doc t)
      | "L" -> DAlign (parse_doc t)
      | "R" ->
          let n = int_of_string (next t) in
          (match parse_doc t with
           | DText s -> DTextW (n_of_int n, s)
           | _ -> failwith "RenderLen of non-text")
      | _ -> failwith ("doc tag " ^ tag)
    in
    expect t ")"; d
  end
  else if String.length x >= 2 && x.[0] = 'T' && x.[1] = ':' then DText (str_of_hex (after_colon x))
  else failwith ("doc token " ^ x)

let no_attrs = { a_disabled = false; a_comment = false; a_multiline = false; a_flavor = false }

let rec parse_tree t : tree =
  let x = next t in
  if x = "(" then begin
    let k = kind_of_N (n_of_int (int_of_string (next t))) in
    let cs = ref [] in
    while peek t <> ")" do cs := parse_tree t :: !cs done;
    expect t ")";
    Inner (k, List.rev !cs, no_attrs)
  end else
    let k = kind_of_N (n_of_int (int_of_string (before_colon x))) in
    Leaf (k, str_of_hex (after_colon x), no_attrs)

let rec dump_doc b (d : doc) =
  match d with
  | DNil -> Buffer.add_string b "N"
  | DHardline -> Buffer.add_string b "H"
  | DAppend (x, y) -> Buffer.add_string b "( A "; dump_doc b x; Buffer.add_char b ' '; dump_doc b y; Buffer.add_string b " )"
  | DGroup x -> Buffer.add_string b "( G "; dump_doc b x; Buffer.add_string b " )"
  | DFlatAlt (x, y) -> Buffer.add_string b "( F "; dump_doc b x; Buffer.add_char b ' '; dump_doc b y; Buffer.add_string b " )"
  | DNest (k, x) ->
      let k = (match k with Z0 -> 0 | Zpos p -> int_of_pos p | Zneg p -> - (int_of_pos p)) in
      Buffer.add_string b (Printf.sprintf "( I %d " k); dump_doc b x; Buffer.add_string b " )"
  | DText s -> Buffer.add_string b ("T:" ^ hex_of_str s)
  | DTextW (w, s) -> Buffer.add_string b (Printf.sprintf "( R %d T:%s )" (int_of_n w) (hex_of_str s))
  | DAlign x -> Buffer.add_string b "( L "; dump_doc b x; Buffer.add_string b " )"

let doc_to_string d = let b = Buffer.create 256 in dump_doc b d; Buffer.contents b

let rec nat_of_int n = if n <= 0 then O else S (nat_of_int (n - 1))
let int_of_nat n = let rec go a = function O -> a | S n -> go (a + 1) n in go 0 n

let site_name = function
  | SMathDelimitedSlice -> "math_delimited_slice" | SChainRemove0 -> "chain_remove0"
  | SCommentUnreachable -> "comment_unreachable" | SFollowLeadingUnwrap -> "follow_leading_unwrap"
  | SArgsInMathSlice -> "args_in_math_slice" | SMarkupExpect -> "markup_expect" | SRootCast -> "root_cast"
  | SImportCast -> "import_cast" | STrimRange -> "trim_range" | SBadRequest -> "bad_request"

let each_line f =
  try
    while true do
      let line = input_line stdin in
      print_string (f line);
      print_newline ()
    done
  with End_of_file -> ()

(* the width oracle handed to the model: the implementation's own measurement of that very text when the harness
   harvested one, else the sum of the per-character measurements, else one column per character *)
let swidth_of (table : (string * n) list) (s : str) : n =
  match List.assoc_opt (hex_of_str s) table with
  | Some x -> x
  | None ->
      n_of_int (List.fold_left (fun acc c ->
          match List.assoc_opt (hex_of_str [c]) table with
          | Some x -> acc + int_of_n x
          | None -> acc + 1) 0 s)

let () =
  let mode = if Array.length Sys.argv > 1 then Sys.argv.(1) else "" in
  match mode with
  | "strip" ->
      each_line (fun line ->
          let r = strip (str_of_hex (String.trim line)) in
          hex_of_str r ^ (if hygiene_b r then " 1" else " 0"))
  | "attrs" ->
      each_line (fun line ->
          let t = annotate (parse_tree (toks_of line)) in
          let b = Buffer.create 256 in
          List.iter (fun a ->
              let v = (if a.a_disabled then 1 else 0) lor (if a.a_comment then 2 else 0)
                      lor (if a.a_multiline then 4 else 0) lor (if a.a_flavor then 8 else 0) in
              Buffer.add_string b (Printf.sprintf "%x" v)) (flags t);
          Buffer.contents b)
  | "render" ->
      (* W DOC -> HEX | fuel *)
      each_line (fun line ->
          let t = toks_of line in
          let w = n_of_int (int_of_string (next t)) in
          let d = parse_doc t in
          match render w d with
          | Some s -> hex_of_str s
          | None -> "fuel")
  | "scwhy" ->
      (* TREE -> the kinds (numbers) of the nodes at which the scope predicate of the conservation theorem fails *)
      each_line (fun line ->
          let tree = annotate (parse_tree (toks_of line)) in
          let acc = ref [] in
          let rec go t = match t with
            | Leaf (k, s, _) -> if not (leaf_ok k s t) then acc := (Printf.sprintf "leaf:%d" (int_of_n (kind_to_N k))) :: !acc
            | Inner (k, cs, _) ->
                if not (inner_kind k && knode_ok k cs) then acc := (Printf.sprintf "node:%d" (int_of_n (kind_to_N k))) :: !acc;
                List.iter go cs in
          go tree; String.concat " " (List.rev !acc))
  | "sigdoc" ->
      (* TREE DOC -> (0 | 1 | 2) (0 | 1): the signature certificate on a document dumped by the implementation (2 = out of scope),
         and whether the tree is in the scope of the conservation theorem *)
      each_line (fun line ->
          let t = toks_of line in
          let tree = annotate (parse_tree t) in
          let d = parse_doc t in
          (if not (sig_scope tree) then "2" else if sig_check tree d then "1" else "0") ^ (if sc tree then " 1" else " 0"))
  | "conv" ->
      (* W TAB REORDER NW (HEX WIDTH)*NW TREE -> ok COUNT:WFC:SIZE:SWFC:SIG DOC<tab>OUTHEX | err | panic SITE | fuel *)
      each_line (fun line ->
          let t = toks_of line in
          let w = n_of_int (int_of_string (next t)) in
          let tab = n_of_int (int_of_string (next t)) in
          let reo = (next t = "1") in
          let nw = int_of_string (next t) in
          let table = List.init nw (fun _ -> let h = next t in let wd = int_of_string (next t) in (h, n_of_int wd)) in
          let swidth (s : str) : n = swidth_of table s in
          let tree = parse_tree t in
          let cfg = { tab_spaces = tab; max_width = w; blank_lines_upper_bound = cfg_default.blank_lines_upper_bound;
                      reorder_import_items = reo } in
          if erroneous tree then "err"
          else match convert_root swidth cfg tree with
            | Panic s -> Printf.sprintf "panic %s swfc=%d" (site_name s) (if swfc tree then 1 else 0)
            | Ok (d, cnt) ->
                (match render w d with
                 | Some out -> Printf.sprintf "ok %d:%d:%d:%d:%d %s\t%s" (int_of_n cnt) (if wfc tree then 1 else 0) (int_of_nat (tree_size tree)) (if swfc tree then 1 else 0) (if not (sig_scope tree) then 2 else if sig_check tree d then 1 else 0) (doc_to_string d) (hex_of_str (strip out))
                 | None -> "fuel"))
  | "sig" ->
      (* same input as conv -> WSIG DSIGHEX TSIGHEX (diagnosis of a failed signature certificate) *)
      each_line (fun line ->
          let t = toks_of line in
          let w = n_of_int (int_of_string (next t)) in
          let tab = n_of_int (int_of_string (next t)) in
          let reo = (next t = "1") in
          let nw = int_of_string (next t) in
          let table = List.init nw (fun _ -> let h = next t in let wd = int_of_string (next t) in (h, n_of_int wd)) in
          let swidth (s : str) : n = swidth_of table s in
          let tree = parse_tree t in
          let cfg = { tab_spaces = tab; max_width = w; blank_lines_upper_bound = cfg_default.blank_lines_upper_bound;
                      reorder_import_items = reo } in
          if erroneous tree then "err"
          else match convert_root swidth cfg tree with
            | Panic _ -> "panic"
            | Ok (d, _) -> Printf.sprintf "%d %s %s" (if wsig d then 1 else 0) (hex_of_str (dsig d)) (hex_of_str (tsig tree)))
  | "range" ->
      (* W TAB A B NW (HEX WIDTH)*NW TREE -> ok RS RE OUTHEX | err | panic SITE | fuel *)
      each_line (fun line ->
          let t = toks_of line in
          let w = n_of_int (int_of_string (next t)) in
          let tab = n_of_int (int_of_string (next t)) in
          let a = n_of_int (int_of_string (next t)) in
          let b = n_of_int (int_of_string (next t)) in
          let nw = int_of_string (next t) in
          let table = List.init nw (fun _ -> let h = next t in let wd = int_of_string (next t) in (h, n_of_int wd)) in
          let swidth (s : str) : n = swidth_of table s in
          let tree = parse_tree t in
          let cfg = { tab_spaces = tab; max_width = w; blank_lines_upper_bound = cfg_default.blank_lines_upper_bound;
                      reorder_import_items = false } in
          let swfc tree = match range_node tree a b with Some node -> erroneous node || swfc node | None -> true in
          match format_range swidth cfg tree a b with
          | ROk (rs, re, out) -> Printf.sprintf "ok %d %d %s swfc=%d" (int_of_n rs) (int_of_n re) (hex_of_str out) (if swfc tree then 1 else 0)
          | RErr -> Printf.sprintf "err swfc=%d" (if swfc tree then 1 else 0)
          | RPanic s -> Printf.sprintf "panic %s swfc=%d" (site_name s) (if swfc tree then 1 else 0)
          | RFuel -> "fuel")
  | "sym" ->
      (* K U1 DOC1 RAWHEX1 ... UK DOCK RAWHEXK  (units must include 2 and 3)
         -> sym=0|1 align=0|1 inst=<bits> wide=<bits> lines=<L:a:b | X, comma separated> *)
      each_line (fun line ->
          let t = toks_of line in
          let k = int_of_string (next t) in
          let items = List.init k (fun _ ->
              let u = int_of_string (next t) in
              let d = parse_doc t in
              let raw = next t in
              (u, d, raw)) in
          let find u = List.find_opt (fun (u', _, _) -> u' = u) items in
          match find 2, find 3 with
          | Some (_, d2, _), Some (_, d3, _) ->
              (match sym_of d2 d3 with
               | None -> "sym=0"
               | Some sd ->
                   let ok = true in
                   let instb = String.concat "" (List.map (fun (u, d, _) ->
                       if doc_eqb (inst (n_of_int u) sd) d then "1" else "0") items) in
                   let wideb = String.concat "" (List.map (fun (_, d, raw) ->
                       match render_wide d with
                       | Some out -> if hex_of_str out = raw then "1" else "0"
                       | None -> "0") items) in
                   let lines =
                     match render_sym_events sd with
                     | None -> "fuel"
                     | Some es ->
                         let b = Buffer.create 256 in
                         let first = ref true in
                         let add x = (if not !first then Buffer.add_char b ','); first := false; Buffer.add_string b x in
                         let flags = ref (render_sym_aligned sd) in
                         List.iter (fun e ->
                             match e with
                             | SENewline (a, c) ->
                                 (* A: the indentation was set by an `align` (column of the text), L: by nests alone *)
                                 let al = (match !flags with f :: r -> flags := r; f | [] -> false) in
                                 add (Printf.sprintf "%s:%d:%d" (if al then "A" else "L") (int_of_n a) (int_of_n c))
                             | SEText s -> List.iter (fun ch -> if int_of_n ch = 10 then add "X") s) es;
                         Buffer.contents b in
                   (* hypothesis of C12_wide_enough: the largest `room` among the documents of this case *)
                   let rm = List.fold_left (fun acc (_, d, _) -> Stdlib.max acc (int_of_n (room d))) 0 items in
                   Printf.sprintf "sym=1 align=%d inst=%s wide=%s room=%d lines=%s" (if ok then 1 else 0) instb wideb rm lines)
          | _, _ -> "sym=0")
  | "cli" ->
      each_line (fun line ->
          let t = toks_of line in
          let b x = (x = "1") in
          let path_of tok =
            (* P:hex of a slash-joined relative path; P:- is the working directory *)
            let h = after_colon tok in
            if h = "-" then []
            else
              (* path components are byte strings (a file name need not be UTF-8): one model character per byte *)
              List.map (fun c -> List.init (String.length c) (fun i -> n_of_int (Char.code c.[i])))
                   (List.filter (fun c -> c <> "") (String.split_on_char '/' (bytes_of_hex h))) in
          let shape = next t in
          let ip = b (next t) in
          let ck = b (next t) in
          let col = n_of_int (int_of_string (next t)) in
          let tab = n_of_int (int_of_string (next t)) in
          let reo = b (next t) in
          let sty = { sa_column = col; sa_tab_width = tab; sa_reorder_import_items = reo } in
          let inv =
            match shape with
            | "files" ->
                let n = int_of_string (next t) in
                let ps = List.init n (fun _ -> path_of (next t)) in
                IFiles (ip, ck, sty, ps)
            | "stdin" ->
                let x = next t in
                IStdin (ip, ck, sty, if x = "!" then None else Some (str_of_hex x))
            | "all" ->
                let x = next t in
                IAll (ip, ck, sty, if x = "none" then None else Some (path_of x))
            | _ -> failwith "shape" in
          expect t "fs";
          let n = int_of_string (next t) in
          let fs = List.init n (fun _ ->
              let p = path_of (next t) in
              let k = next t in
              let node =
                if k = "D" then FDir else if k = "O" then FOther
                else if k.[0] = 'T' then FText (str_of_hex (after_colon k))
                else FBin (n_of_int (int_of_string (after_colon k))) in
              (p, node)) in
          expect t "ft";
          let m = int_of_string (next t) in
          let table = List.init m (fun _ ->
              let c = next t in
              let r = next t in
              (c, if r = "!" then None else Some (str_of_hex r))) in
          let missing = ref false in
          let f _cfg c =
            match List.assoc_opt (hex_of_str c) table with
            | Some r -> r
            | None -> missing := true; None in
          let res = run f inv fs in
          let st = res.r_state in
          let pstr p = "P:" ^ (let s = String.concat "/" (List.map (fun c -> String.init (List.length c) (fun i -> Char.chr (int_of_n (List.nth c i) land 255))) p) in
                               if s = "" then "-" else
                               let bb = Buffer.create 16 in String.iter (fun ch -> Buffer.add_string bb (Printf.sprintf "%02x" (Char.code ch))) s; Buffer.contents bb) in
          let buf = Buffer.create 256 in
          Buffer.add_string buf (Printf.sprintf "%d ; %d" (int_of_n res.r_exit) (List.length st.s_printed));
          List.iter (fun s -> Buffer.add_string buf (" " ^ hex_of_str s)) st.s_printed;
          Buffer.add_string buf (Printf.sprintf " ; %d" (List.length st.s_writes));
          List.iter (fun ((p, o), nw) -> Buffer.add_string buf (" " ^ pstr p ^ " " ^ hex_of_str o ^ " " ^ hex_of_str nw)) st.s_writes;
          Buffer.add_string buf (Printf.sprintf " ; %d" (List.length st.s_fs));
          List.iter (fun (p, node) ->
              Buffer.add_string buf (" " ^ pstr p ^ " " ^
                (match node with
                 | FDir -> "D" | FOther -> "O"
                 | FText c -> "T:" ^ hex_of_str c
                 | FBin id -> "B:" ^ string_of_int (int_of_n id)))) st.s_fs;
          Buffer.add_string buf (if !missing then " ; missing" else " ; ok");
          Buffer.contents buf)
  | _ -> prerr_endline ("unknown mode " ^ mode); exit 2
