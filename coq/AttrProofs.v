(* AttrProofs.v — attr.rs compute_no_format_impl: which nodes a directive comment protects (C07). *)
From TV Require Import Attr.

Lemma no_format_inner k cs a :
  no_format (Inner k cs a) =
  let (cs', commented) := no_format_children no_format cs false false in
  set_commented commented (Inner k cs' a).
Proof.
  cbn [no_format].
  match goal with
  | |- (let (_, _) := ?g cs false false in _) = _ =>
      assert (Hgo : forall cs dn cm, g cs dn cm = no_format_children no_format cs dn cm)
  end.
  { induction cs0 as [|c rest IH]; intros dn cm; [reflexivity|].
    cbn [no_format_children].
    destruct (is_comment_node c).
    - destruct (contains typstyle_off (text_of c)); rewrite IH; reflexivity.
    - destruct (dn && negb (skips_directive c)); rewrite IH; reflexivity. }
  rewrite Hgo. reflexivity.
Qed.

Definition is_directive (c : tree) : bool := is_comment_node c && contains typstyle_off (text_of c).

(* A run of siblings a pending directive passes over: comments, Space and Hash. *)
Definition passed_over (c : tree) : bool := is_comment_node c || skips_directive c.

Lemma children_pending rec : forall mid tgt post cm,
  forallb passed_over mid = true ->
  is_comment_node tgt = false -> skips_directive tgt = false ->
  exists mid' post' cm',
    no_format_children rec (mid ++ tgt :: post) true cm = (mid' ++ set_disabled tgt :: post', cm') /\
    length mid' = length mid.
Proof.
  induction mid as [|m mid IH]; intros tgt post cm Hmid Hc Hs.
  - cbn [app no_format_children]. rewrite Hc, Hs. cbn.
    destruct (no_format_children rec post false cm) as [r cm'].
    exists [], r, cm'. auto.
  - cbn in Hmid. apply andb_prop in Hmid. destruct Hmid as [Hm Hmid].
    cbn [app no_format_children].
    unfold passed_over in Hm.
    destruct (is_comment_node m) eqn:Em.
    + destruct (contains typstyle_off (text_of m)).
      * destruct (IH tgt post true Hmid Hc Hs) as (mid' & post' & cm' & E & L).
        rewrite E. exists (set_disabled m :: mid'), post', cm'. cbn. auto.
      * destruct (IH tgt post true Hmid Hc Hs) as (mid' & post' & cm' & E & L).
        rewrite E. exists (m :: mid'), post', cm'. cbn. auto.
    + cbn in Hm. rewrite Hm. cbn.
      destruct (IH tgt post cm Hmid Hc Hs) as (mid' & post' & cm' & E & L).
      rewrite E. exists (rec m :: mid'), post', cm'. cbn. auto.
Qed.

(* The node after a directive comment (ignoring comments, Space and Hash) is marked, as a whole,
   and the recursion does not descend into it. *)
Theorem directive_marks_next_sibling rec : forall pre dn cm d mid tgt post,
  is_directive d = true ->
  forallb passed_over mid = true ->
  is_comment_node tgt = false -> skips_directive tgt = false ->
  exists pre' mid' post' cm',
    no_format_children rec (pre ++ d :: mid ++ tgt :: post) dn cm =
      (pre' ++ set_disabled d :: mid' ++ set_disabled tgt :: post', cm') /\
    length pre' = length pre /\ length mid' = length mid.
Proof.
  induction pre as [|p pre IH]; intros dn cm d mid tgt post Hd Hmid Hc Hs.
  - cbn [app no_format_children]. unfold is_directive in Hd. apply andb_prop in Hd. destruct Hd as [Hd1 Hd2].
    rewrite Hd1, Hd2.
    destruct (children_pending rec mid tgt post true Hmid Hc Hs) as (mid' & post' & cm' & E & L).
    rewrite E. exists [], mid', post', cm'. auto.
  - cbn [app no_format_children].
    destruct (is_comment_node p).
    + destruct (contains typstyle_off (text_of p)).
      * destruct (IH true true d mid tgt post Hd Hmid Hc Hs) as (pre' & mid' & post' & cm' & E & L1 & L2).
        rewrite E. exists (set_disabled p :: pre'), mid', post', cm'. cbn. auto.
      * destruct (IH dn true d mid tgt post Hd Hmid Hc Hs) as (pre' & mid' & post' & cm' & E & L1 & L2).
        rewrite E. exists (p :: pre'), mid', post', cm'. cbn. auto.
    + destruct (dn && negb (skips_directive p)).
      * destruct (IH false cm d mid tgt post Hd Hmid Hc Hs) as (pre' & mid' & post' & cm' & E & L1 & L2).
        rewrite E. exists (set_disabled p :: pre'), mid', post', cm'. cbn. auto.
      * destruct (IH dn cm d mid tgt post Hd Hmid Hc Hs) as (pre' & mid' & post' & cm' & E & L1 & L2).
        rewrite E. exists (rec p :: pre'), mid', post', cm'. cbn. auto.
Qed.

Lemma set_disabled_spec t : a_disabled (attrs_of (set_disabled t)) = true /\ into_text (set_disabled t) = into_text t.
Proof. destruct t; cbn; auto. Qed.
