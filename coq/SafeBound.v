(* SafeBound.v — C05/C18: every admissible conversion request on the bundle of a schema-conforming tree
   returns normally (no Panic site is reached) and raises the counter by at most 3 * (number of nodes).
   The structure follows CostBound.v; `tot` (SafeProofs.v) strengthens `costs` by normal termination. *)
From TV Require Import Conv ConvProofs CostProofs SafeProofs MarkupProofs ImportProofs CostBound.
From Coq Require Import Lia Permutation.

(* requests a caller may make of a node: the casts the Rust type system performs before the call *)
Definition sreq_ok (b : bundle) (r : req) : Prop :=
  match r with
  | RFuncArgs _ (TableCols _) => has_parenthesized_args (bkids b) = true
  | RExpr _ | RExprEmb _ => is_expr (bt b) = true
  | RPattern _ => is_pattern (bt b) = true
  | _ => True
  end.
Definition safe_ok (b : bundle) : Prop := forall r, sreq_ok b r -> tot (call b r) (W b).

(* schema clauses: those of the cost bound, plus the typed accessors the converters unwrap *)
Definition swfc_node (t : tree) : bool :=
  wfc_node t &&
  match kind_of t with
  | KMathDelimited => match children t with [] => false | _ => true end
  | KFuncCall => existsb (is_kind KArgs) (children t)
  | KFieldAccess => existsb (is_kind KDot) (children t)
  | KBinary =>
      existsb (fun c => negb (is_kind KNot c) && match binop_from_kind (kind_of c) with Some _ => true | None => false end)
              (children t)
  | _ => true
  end.

Fixpoint swfc (t : tree) : bool :=
  swfc_node t && match t with Leaf _ _ _ => true | Inner _ cs _ => forallb swfc cs end.

Definition snode_ok (b : bundle) : Prop := safe_ok b /\ swfc_node (bt b) = true.

Lemma swfc_wfc_node t : swfc_node t = true -> wfc_node t = true.
Proof. unfold swfc_node. intros H. apply andb_prop in H. tauto. Qed.

(* ---------- per-converter bounds ---------- *)
Section Converters.
  Variable swidth : str -> N.
  Variable cfg : config.

  (* every kid (at any depth) answers every request within its weight *)
  Definition kids_ok (kids : list bundle) : Prop := Forall (good snode_ok) kids.

  Lemma kids_call_ok kids k r : kids_ok kids -> In k kids -> sreq_ok k r -> tot (call k r) (W k).
  Proof. intros H Hin Hr. unfold kids_ok in H. rewrite Forall_forall in H. apply (proj1 (good_here _ _ (H k Hin))). exact Hr. Qed.

  (* a node all of whose children are good, whatever its own `self` field: the root handed to a converter *)
  Definition agood (b : bundle) : Prop :=
    swfc_node (bt b) = true /\ map bt (bkids b) = children (bt b) /\ kids_ok (bkids b).
  Lemma good_agood b : good snode_ok b -> agood b.
  Proof. intros H. split; [apply (proj2 (good_here _ _ H))|split; [apply (good_shape _ _ H)|apply (good_kids _ _ H)]]. Qed.
  Lemma agood_wf b : agood b -> swfc_node (bt b) = true.  Proof. intros H; apply H. Qed.
  Lemma agood_shape b : agood b -> map bt (bkids b) = children (bt b).  Proof. intros H; apply H. Qed.
  Lemma agood_kids b : agood b -> kids_ok (bkids b).  Proof. intros H; apply H. Qed.
  Lemma akid_good b k : agood b -> In k (bkids b) -> good snode_ok k.
  Proof. intros H Hin. pose proof (agood_kids _ H) as Hk. unfold kids_ok in Hk. rewrite Forall_forall in Hk. auto. Qed.
  Lemma aW_kids_le b : agood b -> sumN W (bkids b) <= W b.
  Proof.
    intros H. unfold W. rewrite tree_size_children, <- (agood_shape _ H).
    generalize (bkids b). intros l. induction l as [|x l IH]; cbn [map sumN]; lia.
  Qed.

  (* requests other than the table layout carry no side condition *)
  Definition simple_req (k : bundle) (r : req) : Prop :=
    match r with
    | RFuncArgs _ (TableCols _) => False
    | RExpr _ | RExprEmb _ => is_expr (bt k) = true
    | RPattern _ => is_pattern (bt k) = true
    | _ => True
    end.
  Lemma kids_call kids k r : kids_ok kids -> In k kids -> simple_req k r -> tot (call k r) (W k).
  Proof.
    intros H Hin Hs. apply (kids_call_ok kids); try assumption.
    destruct r; try exact I; try exact Hs. destruct ti; try exact I. destruct Hs.
  Qed.

  Lemma expr_is_pattern t : is_expr t = true -> is_pattern t = true.
  Proof. unfold is_pattern, is_expr. destruct (kind_of t); auto. Qed.

  Ltac rq :=
    cbn [simple_req sreq_ok];
    first [ exact I | assumption | (apply expr_is_pattern; assumption) ].

  Ltac branches :=
    repeat match goal with
           | |- tot (if ?c then _ else _) _ => destruct c eqn:?
           | |- tot (match ?x with _ => _ end) _ => destruct x eqn:?
           end.

  Ltac leafcost Hk :=
    first [ apply tot_ret_any
          | apply tot_bind_r; [ (apply (kids_call _ _ _ Hk); [assumption|rq]) | intros; apply tot_ret_any ] ].

  Lemma tot_opt_paren c e ub :
    tot (call e (RExpr c)) (W e) -> (forall c', tot (call e (RExpr c')) (W e)) ->
    tot (convert_expr_with_optional_paren swidth cfg c e ub) (W e).
  Proof.
    intros _ H. unfold convert_expr_with_optional_paren.
    destruct (c_supp c || negb (is_paren_needed (bt e))); [apply H|].
    destruct ub; (apply tot_bind_r; [apply H|intros; apply tot_ret_any]).
  Qed.

  Lemma tot_opt_conv (p : tree -> bool) (f : ctx -> bundle -> M doc) c b k :
    (p (bt b) = true -> tot (f c b) k) -> tot (opt_conv p f c b) k.
  Proof.
    intros H. unfold opt_conv. destruct (p (bt b)); [|apply tot_ret_any].
    apply tot_bind_r; [apply H; reflexivity|intros; apply tot_ret_any].
  Qed.

  Ltac item_conv Hk Hin Ha :=
    unfold bk; destruct (kind_of (bt _)) eqn:E; (apply (kids_call _ _ _ Hk); [exact Hin|]);
    cbn [simple_req]; try exact I; unfold is_pattern, is_expr in *; rewrite E in *; first [exact Ha | reflexivity].

  Lemma tot_convert_arg kids c b : kids_ok kids -> In b kids -> is_arg (bt b) = true -> tot (convert_arg c b) (W b).
  Proof. intros Hk Hin Ha. unfold convert_arg. unfold is_arg in Ha. item_conv Hk Hin Ha. Qed.
  Lemma tot_convert_array_item kids c b : kids_ok kids -> In b kids -> is_array_item (bt b) = true -> tot (convert_array_item c b) (W b).
  Proof. intros Hk Hin Ha. unfold convert_array_item. unfold is_array_item in Ha. item_conv Hk Hin Ha. Qed.
  Lemma tot_convert_dict_item kids c b : kids_ok kids -> In b kids -> is_dict_item (bt b) = true -> tot (convert_dict_item c b) (W b).
  Proof. intros Hk Hin Ha. unfold convert_dict_item. unfold is_dict_item in Ha. item_conv Hk Hin Ha. Qed.
  Lemma tot_convert_param kids c b : kids_ok kids -> In b kids -> is_param (bt b) = true -> tot (convert_param c b) (W b).
  Proof. intros Hk Hin Ha. unfold convert_param. unfold is_param, is_pattern in Ha. item_conv Hk Hin Ha. Qed.

  (* flow-based converters: one producer call per child *)
  Ltac flow_conv Hk :=
    apply tot_flow_like; intros c' b Hin; branches; leafcost Hk.
  Ltac flow_iter_conv Hk :=
    apply tot_flow_like_iter; intros s c' b Hin; branches; leafcost Hk.

  Lemma tot_convert_heading kids c : kids_ok kids -> tot (convert_heading swidth kids c) (sumN W kids).
  Proof. intros Hk. unfold convert_heading. flow_conv Hk. Qed.

  Lemma tot_convert_list_item_like kids c : kids_ok kids -> tot (convert_list_item_like swidth cfg kids c) (sumN W kids).
  Proof.
    intros Hk. unfold convert_list_item_like. apply tot_bind_r; [|intros; apply tot_ret_any]. flow_conv Hk.
  Qed.

  Lemma tot_convert_math_attach_like kids c : kids_ok kids -> tot (convert_math_attach_like swidth kids c) (sumN W kids).
  Proof.
    intros Hk. unfold convert_math_attach_like, math_operand_req. apply tot_flow_like; intros c' b Hin.
    destruct (is_code_mode (c_mode c')); branches; leafcost Hk.
  Qed.
  Lemma tot_convert_math_frac kids c : kids_ok kids -> tot (convert_math_frac swidth kids c) (sumN W kids).
  Proof.
    intros Hk. unfold convert_math_frac, math_operand_req. apply tot_flow_like; intros c' b Hin.
    destruct (is_code_mode (c_mode c')); branches; leafcost Hk.
  Qed.

  Lemma tot_convert_named kids c : kids_ok kids -> tot (convert_named swidth kids c) (sumN W kids).
  Proof. intros Hk. unfold convert_named. flow_iter_conv Hk. Qed.
  Lemma tot_convert_keyed kids c : kids_ok kids -> tot (convert_keyed swidth kids c) (sumN W kids).
  Proof. intros Hk. unfold convert_keyed. flow_iter_conv Hk. Qed.
  Lemma tot_convert_spread kids c : kids_ok kids -> tot (convert_spread swidth kids c) (sumN W kids).
  Proof. intros Hk. unfold convert_spread. flow_conv Hk. Qed.
  Lemma tot_convert_unary t kids c : kids_ok kids -> tot (convert_unary swidth t kids c) (sumN W kids).
  Proof. intros Hk. unfold convert_unary. flow_conv Hk. Qed.
  Lemma tot_expr_flow kids c : kids_ok kids -> tot (expr_flow swidth kids c) (sumN W kids).
  Proof. intros Hk. unfold expr_flow. flow_conv Hk. Qed.
  Lemma tot_convert_let_binding kids c : kids_ok kids -> tot (convert_let_binding swidth kids c) (sumN W kids).
  Proof. intros Hk. unfold convert_let_binding. flow_conv Hk. Qed.
  Lemma tot_convert_destruct_assignment kids c : kids_ok kids -> tot (convert_destruct_assignment swidth kids c) (sumN W kids).
  Proof. intros Hk. unfold convert_destruct_assignment. flow_conv Hk. Qed.
  Lemma tot_convert_set_rule kids c : kids_ok kids -> tot (convert_set_rule swidth kids c) (sumN W kids).
  Proof. intros Hk. unfold convert_set_rule. flow_conv Hk. Qed.
  Lemma tot_convert_show_rule kids c : kids_ok kids -> tot (convert_show_rule swidth kids c) (sumN W kids).
  Proof. intros Hk. unfold convert_show_rule. flow_conv Hk. Qed.
  Lemma tot_convert_import_item_path kids c : kids_ok kids -> tot (convert_import_item_path swidth kids c) (sumN W kids).
  Proof. intros Hk. unfold convert_import_item_path. flow_conv Hk. Qed.
  Lemma tot_convert_import_item_renamed kids c : kids_ok kids -> tot (convert_import_item_renamed swidth kids c) (sumN W kids).
  Proof. intros Hk. unfold convert_import_item_renamed. flow_conv Hk. Qed.

  Lemma tot_convert_closure t kids c : kids_ok kids -> tot (convert_closure swidth cfg t kids c) (sumN W kids).
  Proof.
    intros Hk. unfold convert_closure. apply tot_flow_like_iter. intros s c' b Hin.
    branches; try leafcost Hk.
    all: apply tot_bind_r; [|intros; apply tot_ret_any];
      apply tot_opt_paren; [(apply (kids_call _ _ _ Hk); [assumption|rq])|intros; (apply (kids_call _ _ _ Hk); [assumption|rq])].
  Qed.

  Lemma tot_convert_for_loop kids c : kids_ok kids -> tot (convert_for_loop swidth cfg kids c) (sumN W kids).
  Proof.
    intros Hk. unfold convert_for_loop. apply tot_flow_like_iter. intros s c' b Hin.
    branches; try leafcost Hk.
    all: apply tot_bind_r; [|intros; apply tot_ret_any];
      apply tot_opt_paren; [(apply (kids_call _ _ _ Hk); [assumption|rq])|intros; (apply (kids_call _ _ _ Hk); [assumption|rq])].
  Qed.

  (* list-stylist based converters *)
  Ltac lst_conv Hk lem :=
    apply tot_bind_r; [|intros; apply tot_ret_any];
    apply tot_lst_process; intros c' b Hin; apply tot_opt_conv; intros Hp; apply (lem _ c' b Hk Hin Hp).

  Lemma tot_call_pattern kids c b : kids_ok kids -> In b kids -> is_pattern (bt b) = true -> tot (call b (RPattern c)) (W b).
  Proof. intros Hk Hin Hp. apply (kids_call kids b (RPattern c) Hk Hin Hp). Qed.
  Lemma tot_call_expr kids c b : kids_ok kids -> In b kids -> is_expr (bt b) = true -> tot (call b (RExpr c)) (W b).
  Proof. intros Hk Hin Hp. apply (kids_call kids b (RExpr c) Hk Hin Hp). Qed.

  Lemma tot_convert_array t kids c : kids_ok kids -> tot (convert_array swidth cfg t kids c) (sumN W kids).
  Proof. intros Hk. unfold convert_array. lst_conv Hk tot_convert_array_item. Qed.
  Lemma tot_convert_dict t kids c : kids_ok kids -> tot (convert_dict swidth cfg t kids c) (sumN W kids).
  Proof. intros Hk. unfold convert_dict. lst_conv Hk tot_convert_dict_item. Qed.
  Lemma tot_convert_destructuring t kids c : kids_ok kids -> tot (convert_destructuring swidth cfg t kids c) (sumN W kids).
  Proof. intros Hk. unfold convert_destructuring. lst_conv Hk tot_convert_param. Qed.
  Lemma tot_convert_params t kids c u : kids_ok kids -> tot (convert_params swidth cfg t kids c u) (sumN W kids).
  Proof. intros Hk. unfold convert_params. lst_conv Hk tot_convert_param. Qed.
  Lemma tot_convert_parenthesized_impl t kids c emb : kids_ok kids -> tot (convert_parenthesized_impl swidth cfg t kids c emb) (sumN W kids).
  Proof. intros Hk. unfold convert_parenthesized_impl. lst_conv Hk tot_call_pattern. Qed.

  Lemma tot_convert_parenthesized t kids c emb : kids_ok kids -> tot (convert_parenthesized swidth cfg t kids c emb) (sumN W kids).
  Proof.
    intros Hk. unfold convert_parenthesized.
    destruct (find (fun b => is_pattern (bt b)) kids) as [p|] eqn:Ef; [|apply tot_convert_parenthesized_impl; assumption].
    destruct (kind_eqb (bk p) KParenthesized && negb (existsb is_comment_b kids)); [|apply tot_convert_parenthesized_impl; assumption].
    apply find_some in Ef. destruct Ef as [Hin _].
    eapply tot_weaken; [(apply (kids_call _ _ _ Hk Hin); rq)|apply sumN_in; assumption].
  Qed.

  Lemma tot_convert_equation t kids c : kids_ok kids -> tot (convert_equation swidth cfg t kids c) (sumN W kids).
  Proof.
    intros Hk. unfold convert_equation.
    apply tot_bind_r; [|intros; apply tot_ret_any].
    apply tot_lst_process. intros c' b Hin.
    branches; try apply tot_ret_any.
    apply tot_bind_r; [(apply (kids_call _ _ _ Hk Hin); rq)|intros; apply tot_ret_any].
  Qed.

  (* the children of a Code child stand for the Code child itself *)
  Lemma sumN_flat_kind kd kids :
    kids_ok kids ->
    sumN W (flat_map (fun b => if kind_eqb (bk b) kd then bkids b else [b]) kids) <= sumN W kids.
  Proof.
    intros Hk. induction kids as [|k kids IH]; [cbn; lia|].
    inversion Hk; subst. cbn [flat_map sumN]. rewrite sumN_app. specialize (IH H2).
    destruct (kind_eqb (bk k) kd).
    - pose proof (W_kids_le _ _ H1). lia.
    - cbn [sumN]. lia.
  Qed.

  Lemma kids_ok_flat_kind kd kids :
    kids_ok kids -> kids_ok (flat_map (fun b => if kind_eqb (bk b) kd then bkids b else [b]) kids).
  Proof.
    intros Hk. unfold kids_ok in *. induction kids as [|k kids IH]; [constructor|].
    inversion Hk; subst. cbn [flat_map]. apply Forall_app. split; [|apply IH; assumption].
    destruct (kind_eqb (bk k) kd); [apply (good_kids _ _ H1)|constructor; [assumption|constructor]].
  Qed.

  Lemma tot_convert_code_block t kids c : kids_ok kids -> tot (convert_code_block swidth cfg t kids c) (sumN W kids).
  Proof.
    intros Hk. unfold convert_code_block.
    match goal with |- tot (if ?b then _ else _) _ => destruct b end; [apply tot_ret_any|].
    eapply tot_weaken; [|apply (sumN_flat_kind KCode kids Hk)].
    pose proof (kids_ok_flat_kind KCode kids Hk) as Hk'.
    apply tot_bind_r; [|intros; apply tot_ret_any].
    apply tot_lst_process. intros c' b Hin. apply tot_opt_conv. intros Hp. (apply (kids_call _ _ _ Hk' Hin); rq).
  Qed.

  (* argument lists: parenthesised part before the right paren, content blocks after it *)
  Lemma take_skip_rparen kids :
    sumN W (take_until_rparen kids) + sumN W (skip_until KRightParen kids) = sumN W kids.
  Proof.
    induction kids as [|k kids IH]; cbn [take_until_rparen skip_until sumN]; [lia|].
    destruct (kind_eqb (bk k) KRightParen); cbn [sumN]; lia.
  Qed.
  Lemma in_take_until kids b : In b (take_until_rparen kids) -> In b kids.
  Proof.
    induction kids as [|k kids IH]; cbn; [auto|]. destruct (kind_eqb (bk k) KRightParen); cbn; [tauto|]. intros [->|H]; auto.
  Qed.
  Lemma in_skip_until kd kids b : In b (skip_until kd kids) -> In b kids.
  Proof.
    induction kids as [|k kids IH]; cbn; [auto|]. destruct (kind_eqb (bk k) kd); cbn; [tauto|]. auto.
  Qed.
  Lemma sumN_skip_until kd kids : sumN W (skip_until kd kids) <= sumN W kids.
  Proof.
    induction kids as [|k kids IH]; cbn [skip_until sumN]; [lia|]. destruct (kind_eqb (bk k) kd); cbn [sumN]; lia.
  Qed.
  Lemma kids_ok_sub kids l : kids_ok kids -> (forall b, In b l -> In b kids) -> kids_ok l.
  Proof. unfold kids_ok. rewrite !Forall_forall. auto. Qed.

  Lemma tot_convert_parenthesized_args t kids c :
    kids_ok kids -> tot (convert_parenthesized_args swidth cfg t kids c) (sumN W (take_until_rparen kids)).
  Proof.
    intros Hk. unfold convert_parenthesized_args.
    apply tot_bind_r; [|intros; apply tot_ret_any].
    apply tot_lst_process. intros c' b Hin. apply tot_opt_conv. intros Hq.
    apply (tot_convert_arg kids); [assumption|apply in_take_until; assumption|assumption].
  Qed.

  Lemma tot_convert_additional_args kids c hp :
    kids_ok kids ->
    tot (convert_additional_args kids c hp) (sumN W (skip_until (if hp then KRightParen else KContentBlock) kids)).
  Proof.
    intros Hk. unfold convert_additional_args.
    set (rest := skip_until _ kids).
    eapply tot_weaken; [|apply (sumN_filter W (fun b => kind_eqb (bk b) KContentBlock) rest)].
    apply tot_foldM. intros d b Hin.
    apply filter_In in Hin. destruct Hin as [Hin _].
    apply tot_bind_r; [|intros; apply tot_ret_any].
    apply (kids_call kids); [assumption| |rq]. apply (in_skip_until _ _ _ Hin).
  Qed.

  Lemma tot_convert_args t kids c : kids_ok kids -> tot (convert_args swidth cfg t kids c) (sumN W kids).
  Proof.
    intros Hk. unfold convert_args.
    destruct (has_parenthesized_args kids).
    - rewrite <- (take_skip_rparen kids). apply tot_bind; [apply tot_convert_parenthesized_args; assumption|].
      intros p. apply tot_bind_r; [apply (tot_convert_additional_args kids c true Hk)|intros; apply tot_ret_any].
    - apply tot_bind_l; [apply tot_ret|]. intros p.
      apply tot_bind_r; [|intros; apply tot_ret_any].
      eapply tot_weaken; [apply (tot_convert_additional_args kids c false Hk)|apply sumN_skip_until].
  Qed.

  Lemma skip_lparen_id kids : has_parenthesized_args kids = true -> skip_until KLeftParen kids = kids.
  Proof. destruct kids as [|k kids]; cbn; [discriminate|]. intros ->. reflexivity. Qed.

  Lemma tot_convert_parenthesized_args_as_list kids c :
    kids_ok kids -> has_parenthesized_args kids = true ->
    tot (convert_parenthesized_args_as_list swidth cfg kids c) (sumN W (take_until_rparen kids)).
  Proof.
    intros Hk Hp. unfold convert_parenthesized_args_as_list. rewrite (skip_lparen_id kids Hp).
    apply tot_bind_r; [|intros [items ml]; apply tot_ret_any].
    apply tot_plain_process. intros c' b Hin. apply tot_opt_conv. intros Hq.
    apply (tot_convert_arg kids); [assumption|apply in_take_until; assumption|assumption].
  Qed.

  Lemma tot_convert_args_in_math t kids c : kids_ok kids -> tot (convert_args_in_math swidth cfg t kids c) (sumN W kids).
  Proof.
    intros Hk. unfold convert_args_in_math.
    set (children := if Nat.ltb _ _ then [] else firstn _ (skipn _ kids)).
    assert (Hsub : forall b, In b children -> In b kids).
    { intros b Hb. unfold children in Hb. destruct (Nat.ltb _ _); [destruct Hb|].
      apply in_firstn in Hb. eapply in_skipn. exact Hb. }
    assert (Hle : sumN W children <= sumN W kids).
    { unfold children. destruct (Nat.ltb _ _); [cbn; lia|].
      etransitivity; [apply sumN_firstn|apply sumN_skipn]. }
    eapply tot_weaken; [|exact Hle].
    apply tot_bind_r.
    - apply tot_flow_like_iter. intros s c' b Hin. specialize (Hsub b Hin).
      branches; try apply tot_ret_any;
        (apply tot_bind_r; [apply (tot_convert_arg kids); assumption|intros; apply tot_ret_any]).
    - intros inner. branches; apply tot_ret_any.
  Qed.

  (* table.rs: named arguments first, then the positional ones regrouped into rows *)
  Lemma kin_named k : kind_eqb k KNamed = true -> kin k [KNamed; KSpread] = true.
  Proof. intros H. unfold kin. cbn [existsb]. rewrite H. reflexivity. Qed.

  Lemma named_pos_disjoint l :
    sumN W (filter (fun b => kind_eqb (bk b) KNamed) (filter (fun b => is_arg (bt b)) l))
    + sumN W (filter (fun b => is_arg (bt b) && negb (kin (bk b) [KNamed; KSpread])) l) <= sumN W l.
  Proof.
    induction l as [|b l IH]; cbn [filter sumN]; [lia|].
    destruct (is_arg (bt b)) eqn:Ea; cbn [filter andb].
    - destruct (kind_eqb (bk b) KNamed) eqn:En.
      + rewrite (kin_named _ En). cbn [negb sumN]. lia.
      + destruct (negb (kin (bk b) [KNamed; KSpread])); cbn [sumN]; lia.
    - lia.
  Qed.

  Definition table_step (columns : N) (st : list (list bundle) * list bundle) (arg : bundle) :=
    let '(table, row) := st in
    let row1 := row ++ [arg] in
    let '(table1, row2) := if N.of_nat (length row1) =? columns then (table ++ [row1], []) else (table, row1) in
    if kind_eqb (bk arg) KFuncCall && str_in (callee_text_of_call arg) HEADER_FOOTER
    then (table1 ++ [row2], []) else (table1, row2).

  Lemma table_step_concat columns : forall args table row,
    let '(t', r') := fold_left (table_step columns) args (table, row) in
    concat t' ++ r' = concat table ++ row ++ args.
  Proof.
    induction args as [|a args IH]; intros table row; cbn [fold_left]; [rewrite app_nil_r; reflexivity|].
    specialize (IH (fst (table_step columns (table, row) a)) (snd (table_step columns (table, row) a))).
    rewrite <- surjective_pairing in IH.
    destruct (fold_left (table_step columns) args (table_step columns (table, row) a)) as [t' r'].
    rewrite IH. clear IH. unfold table_step.
    destruct (N.of_nat (length (row ++ [a])) =? columns);
      destruct (kind_eqb (bk a) KFuncCall && str_in (callee_text_of_call a) HEADER_FOOTER);
      cbn [fst snd]; rewrite ?concat_app; cbn [concat]; rewrite ?app_nil_r, <- ?app_assoc; cbn [app]; reflexivity.
  Qed.

  Lemma sumN_concat (l : list (list bundle)) : sumN (fun row => sumN W row) l = sumN W (concat l).
  Proof. induction l as [|r l IH]; cbn [sumN concat]; [reflexivity|]. rewrite sumN_app, IH. reflexivity. Qed.

  Lemma tot_convert_table kids c n : kids_ok kids -> tot (convert_table swidth cfg kids c n) (sumN W kids).
  Proof.
    intros Hk. unfold convert_table.
    set (named := filter (fun b => kind_eqb (bk b) KNamed) (filter (fun b => is_arg (bt b)) kids)).
    set (pos_args := filter (fun b => is_arg (bt b) && negb (kin (bk b) [KNamed; KSpread])) (take_until_rparen kids)).
    assert (Hbudget : sumN W named + sumN W pos_args <= sumN W kids).
    { pose proof (named_pos_disjoint kids) as H. fold named in H.
      assert (sumN W pos_args <= sumN W (filter (fun b => is_arg (bt b) && negb (kin (bk b) [KNamed; KSpread])) kids)).
      { unfold pos_args. clear. induction kids as [|k kids IH]; cbn [take_until_rparen filter sumN]; [lia|].
        destruct (kind_eqb (bk k) KRightParen).
        - cbn. destruct (is_arg (bt k) && negb (kin (bk k) [KNamed; KSpread])); cbn [sumN]; lia.
        - cbn [filter]. destruct (is_arg (bt k) && negb (kin (bk k) [KNamed; KSpread])); cbn [sumN]; lia. }
      lia. }
    eapply tot_weaken; [|exact Hbudget].
    apply tot_bind.
    - apply tot_foldM. intros d b Hin. unfold named in Hin.
      apply filter_In in Hin. destruct Hin as [Hin _]. apply filter_In in Hin. destruct Hin as [Hin _].
      apply tot_bind_r; [(apply (kids_call _ _ _ Hk Hin); rq)|intros; apply tot_ret_any].
    - intros d0.
      change (fun (st : list (list bundle) * list bundle) (arg : bundle) => _) with (table_step n).
      match goal with |- context [fold_left ?f pos_args ([], [])] => change f with (table_step n) end.
      pose proof (table_step_concat n pos_args [] []) as Hs.
      destruct (fold_left (table_step n) pos_args ([], [])) as [table0 lastrow].
      cbn [concat app] in Hs.
      set (table := match lastrow with [] => table0 | _ => table0 ++ [lastrow] end).
      assert (Ht : concat table = pos_args).
      { unfold table. destruct lastrow; [rewrite app_nil_r in Hs; exact Hs|].
        rewrite concat_app. cbn [concat]. rewrite app_nil_r. exact Hs. }
      assert (Hpos : forall cell, In cell pos_args -> In cell kids /\ is_arg (bt cell) = true).
      { intros cell Hc. unfold pos_args in Hc. apply filter_In in Hc. destruct Hc as [Hc Ha].
        apply andb_prop in Ha. split; [apply in_take_until; exact Hc|tauto]. }
      clearbody table.
      apply tot_bind_r; [|intros; apply tot_ret_any].
      rewrite <- Ht, <- sumN_concat.
      apply tot_foldM. intros [d ri] row Hrow.
      apply tot_bind_r; [|intros; apply tot_ret_any].
      apply tot_foldM. intros [rd ci] cell Hcell.
      apply tot_bind_r; [|intros; apply tot_ret_any].
      assert (Hc : In cell pos_args) by (rewrite <- Ht; apply in_concat; exists row; auto).
      apply (tot_convert_arg kids); [assumption|apply Hpos; exact Hc|apply Hpos; exact Hc].
  Qed.


  (* named arguments (anywhere), positional arguments before the right paren, content blocks after it: disjoint *)
  Lemma table_three_way kids :
    sumN W (filter (fun b => kind_eqb (bk b) KNamed) (filter (fun b => is_arg (bt b)) kids))
    + sumN W (filter (fun b => is_arg (bt b) && negb (kin (bk b) [KNamed; KSpread])) (take_until_rparen kids))
    + sumN W (filter (fun b => kind_eqb (bk b) KContentBlock) (skip_until KRightParen kids)) <= sumN W kids.
  Proof.
    induction kids as [|k kids IH]; [cbn; lia|].
    cbn [take_until_rparen skip_until].
    destruct (kind_eqb (bk k) KRightParen) eqn:Er.
    - (* from here on: named ones and content blocks, distinct kinds *)
      cbn [filter sumN N.add]. clear IH.
      assert (H : forall l, sumN W (filter (fun b => kind_eqb (bk b) KNamed) (filter (fun b => is_arg (bt b)) l))
                            + sumN W (filter (fun b => kind_eqb (bk b) KContentBlock) l) <= sumN W l).
      { induction l as [|x l IHl]; cbn [filter sumN]; [lia|].
        destruct (is_arg (bt x)); cbn [filter];
          destruct (kind_eqb (bk x) KNamed) eqn:En; destruct (kind_eqb (bk x) KContentBlock) eqn:Ec; cbn [sumN]; try lia.
        all: apply kind_eqb_eq in En; apply kind_eqb_eq in Ec; congruence. }
      pose proof (H (k :: kids)) as Hk. cbn [filter sumN] in Hk. lia.
    - cbn [filter sumN]. destruct (is_arg (bt k)) eqn:Ea; cbn [filter andb].
      + destruct (kind_eqb (bk k) KNamed) eqn:En.
        * rewrite (kin_named _ En). cbn [negb sumN]. lia.
        * destruct (negb (kin (bk k) [KNamed; KSpread])); cbn [sumN]; lia.
      + lia.
  Qed.

  Lemma tot_convert_table_tight kids c n :
    kids_ok kids ->
    tot (convert_table swidth cfg kids c n)
          (sumN W (filter (fun b => kind_eqb (bk b) KNamed) (filter (fun b => is_arg (bt b)) kids))
           + sumN W (filter (fun b => is_arg (bt b) && negb (kin (bk b) [KNamed; KSpread])) (take_until_rparen kids))).
  Proof.
    intros Hk. unfold convert_table.
    set (named := filter (fun b => kind_eqb (bk b) KNamed) (filter (fun b => is_arg (bt b)) kids)).
    set (pos_args := filter (fun b => is_arg (bt b) && negb (kin (bk b) [KNamed; KSpread])) (take_until_rparen kids)).
    apply tot_bind.
    - apply tot_foldM. intros d b Hin. unfold named in Hin.
      apply filter_In in Hin. destruct Hin as [Hin _]. apply filter_In in Hin. destruct Hin as [Hin _].
      apply tot_bind_r; [(apply (kids_call _ _ _ Hk Hin); rq)|intros; apply tot_ret_any].
    - intros d0.
      match goal with |- context [fold_left ?f pos_args ([], [])] => change f with (table_step n) end.
      pose proof (table_step_concat n pos_args [] []) as Hs.
      destruct (fold_left (table_step n) pos_args ([], [])) as [table0 lastrow].
      cbn [concat app] in Hs.
      set (table := match lastrow with [] => table0 | _ => table0 ++ [lastrow] end).
      assert (Ht : concat table = pos_args).
      { unfold table. destruct lastrow; [rewrite app_nil_r in Hs; exact Hs|].
        rewrite concat_app. cbn [concat]. rewrite app_nil_r. exact Hs. }
      assert (Hpos : forall cell, In cell pos_args -> In cell kids /\ is_arg (bt cell) = true).
      { intros cell Hc. unfold pos_args in Hc. apply filter_In in Hc. destruct Hc as [Hc Ha].
        apply andb_prop in Ha. split; [apply in_take_until; exact Hc|tauto]. }
      clearbody table.
      apply tot_bind_r; [|intros; apply tot_ret_any].
      rewrite <- Ht, <- sumN_concat.
      apply tot_foldM. intros [d ri] row Hrow.
      apply tot_bind_r; [|intros; apply tot_ret_any].
      apply tot_foldM. intros [rd ci] cell Hcell.
      apply tot_bind_r; [|intros; apply tot_ret_any].
      assert (Hc : In cell pos_args) by (rewrite <- Ht; apply in_concat; exists row; auto).
      apply (tot_convert_arg kids); [assumption|apply Hpos; exact Hc|apply Hpos; exact Hc].
  Qed.

  Lemma tot_convert_func_call_args t kids c ti :
    kids_ok kids -> (forall n, ti = TableCols n -> has_parenthesized_args kids = true) ->
    tot (convert_func_call_args swidth cfg t kids c ti) (sumN W kids).
  Proof.
    intros Hk Hti. unfold convert_func_call_args.
    destruct (is_math_mode (c_mode c)); [apply tot_convert_args_in_math; assumption|].
    destruct ti as [| |n].
    - (* NotTable *)
      destruct (has_parenthesized_args kids) eqn:Hp.
      + rewrite <- (take_skip_rparen kids). apply tot_bind; [apply tot_convert_parenthesized_args; assumption|].
        intros d. apply tot_bind_r; [apply (tot_convert_additional_args kids c true Hk)|intros; apply tot_ret_any].
      + apply tot_bind_l; [apply tot_ret|]. intros d.
        apply tot_bind_r; [|intros; apply tot_ret_any].
        eapply tot_weaken; [apply (tot_convert_additional_args kids c false Hk)|apply sumN_skip_until].
    - (* TableNoCols *)
      destruct (has_parenthesized_args kids) eqn:Hp.
      + rewrite <- (take_skip_rparen kids). apply tot_bind; [apply tot_convert_parenthesized_args_as_list; assumption|].
        intros d. apply tot_bind_r; [apply (tot_convert_additional_args kids c true Hk)|intros; apply tot_ret_any].
      + apply tot_bind_l; [apply tot_ret|]. intros d.
        apply tot_bind_r; [|intros; apply tot_ret_any].
        eapply tot_weaken; [apply (tot_convert_additional_args kids c false Hk)|apply sumN_skip_until].
    - (* TableCols *)
      rewrite (Hti n eq_refl).
      eapply tot_weaken; [|apply (table_three_way kids)].
      apply tot_bind; [apply tot_convert_table_tight; assumption|].
      intros d. apply tot_bind_r; [|intros; apply tot_ret_any].
      pose proof (tot_convert_additional_args kids c true Hk) as Ha. unfold convert_additional_args in *.
      eapply tot_weaken; [|apply Nat.le_refl || apply N.le_refl].
      apply tot_foldM. intros dd b Hin.
      apply filter_In in Hin. destruct Hin as [Hin _].
      apply tot_bind_r; [|intros; apply tot_ret_any].
      apply (kids_call kids); [assumption|apply (in_skip_until _ _ _ Hin)|rq].
  Qed.

  (* ---------- markup ---------- *)
  Lemma find_in {A} (p : A -> bool) l x : find p l = Some x -> In x l.
  Proof. intros H. apply find_some in H. tauto. Qed.

  Lemma tot_call_markup_body kids c sc : kids_ok kids -> tot (call_markup_body kids c sc) (1 + sumN W kids).
  Proof.
    intros Hk. unfold call_markup_body.
    destruct (find (fun b => kind_eqb (bk b) KMarkup) kids) as [m|] eqn:Ef.
    - apply find_in in Ef. eapply tot_weaken; [(apply (kids_call _ _ _ Hk Ef); rq)|].
      pose proof (sumN_in W m kids Ef). lia.
    - replace (1 + sumN W kids) with (1 + sumN W kids + 0) by lia.
      eapply tot_weaken; [apply tot_bind; [apply tot_bump|intros; apply tot_ret]|lia].
  Qed.

  Lemma tot_convert_content_block kids c : kids_ok kids -> tot (convert_content_block swidth cfg kids c) (1 + sumN W kids).
  Proof. intros Hk. unfold convert_content_block. apply tot_bind_r; [apply tot_call_markup_body; assumption|intros; apply tot_ret_any]. Qed.
  Lemma tot_convert_strong kids c : kids_ok kids -> tot (convert_strong swidth kids c) (1 + sumN W kids).
  Proof. intros Hk. unfold convert_strong. apply tot_bind_r; [apply tot_call_markup_body; assumption|intros; apply tot_ret_any]. Qed.
  Lemma tot_convert_emph kids c : kids_ok kids -> tot (convert_emph swidth kids c) (1 + sumN W kids).
  Proof. intros Hk. unfold convert_emph. apply tot_bind_r; [apply tot_call_markup_body; assumption|intros; apply tot_ret_any]. Qed.

  Lemma tot_convert_ref t kids c : kids_ok kids -> tot (convert_ref swidth t kids c) (sumN W kids).
  Proof.
    intros Hk. unfold convert_ref.
    destruct (find (fun b => kind_eqb (bk b) KContentBlock) (rev kids)) as [s|] eqn:Ef; [|apply tot_ret_any].
    apply find_in in Ef. apply in_rev in Ef.
    apply tot_bind_r; [|intros; apply tot_ret_any].
    eapply tot_weaken; [(apply (kids_call _ _ _ Hk Ef); rq)|apply sumN_in; assumption].
  Qed.

  Lemma tot_convert_markup_impl t kids c sc : kids_ok kids -> tot (convert_markup_impl swidth t kids c sc) (1 + sumN W kids).
  Proof.
    intros Hk. unfold convert_markup_impl.
    apply tot_bind; [apply tot_bump|]. intros _.
    destruct (is_only_one_and kids _); [apply tot_ret_any|].
    destruct (repr_lines_are_source_lines kids) as [Hsub _].
    set (lines := mr_lines (collect_markup_repr kids)) in *.
    apply tot_bind_r; [|intros; apply tot_ret_any].
    eapply tot_weaken; [|apply (sumN_sub_ws _ _ Hsub)].
    assert (Hlines : sumN W (all_nodes lines) = sumN (fun ln => sumN W (ml_nodes ln)) lines).
    { clear. induction lines as [|ln lines IH]; cbn [all_nodes flat_map sumN]; [reflexivity|].
      rewrite sumN_app. unfold all_nodes in IH. rewrite IH. reflexivity. }
    rewrite Hlines.
    assert (Hin_all : forall ln node, In ln lines -> In node (ml_nodes ln) -> In node kids).
    { intros ln node Hl Hn.
      assert (Hflat : In node (all_nodes lines)) by (unfold all_nodes; apply in_flat_map; exists ln; auto).
      clear - Hsub Hflat. induction Hsub; [destruct Hflat| |].
      - destruct Hflat as [->|Hf]; [left; reflexivity|right; auto].
      - right; auto. }
    apply tot_foldM. intros d ln Hln.
    apply tot_bind_r; [|intros; apply tot_ret_any].
    apply tot_foldM. intros d0 node Hnode.
    apply tot_bind_r; [|intros; apply tot_ret_any].
    specialize (Hin_all ln node Hln Hnode).
    branches; try apply tot_ret_any; try (apply tot_convert_comment; assumption).
    all: (apply (kids_call _ _ _ Hk Hin_all); rq).
  Qed.

  (* ---------- math ---------- *)
  Lemma tot_convert_math t kids c : kids_ok kids -> tot (convert_math swidth t kids c) (1 + sumN W kids).
  Proof.
    intros Hk. unfold convert_math.
    apply tot_bind; [apply tot_bump|]. intros _.
    unfold check_disabled. destruct (a_disabled (attrs_of t)); [apply tot_ret_any|].
    apply tot_bind_r; [|intros; apply tot_ret_any].
    apply tot_foldM. intros [d at_hash] node Hin.
    branches; try apply tot_ret_any.
    apply tot_bind_r; [(apply (kids_call _ _ _ Hk Hin); rq)|intros; apply tot_ret_any].
  Qed.

  (* ---------- chains ---------- *)
  Fixpoint after_op (isop : bundle -> bool) (l : list bundle) : list bundle :=
    match l with
    | [] => []
    | x :: r => if isop x then r else after_op isop r
    end.

  Lemma sumN_after_op (g : bundle -> N) isop l : sumN g (after_op isop l) <= sumN g l.
  Proof. induction l as [|x l IH]; cbn [after_op sumN]; [lia|]. destruct (isop x); lia. Qed.

  Lemma in_after_op isop l x : In x (after_op isop l) -> In x l.
  Proof. induction l as [|y l IH]; cbn [after_op]; [auto|]. destruct (isop y); intros H; [right; exact H|right; auto]. Qed.

  Lemma tot_bind_ret {A B} (a : A) (f : A -> M B) k : tot (f a) k -> tot (bind (ret a) f) k.
  Proof. intros H n. unfold bind, ret. apply (H n). Qed.

  Lemma tot_chain_inner {S : Type} c (opc : S -> bundle -> S * option doc) (rhs : ctx -> bundle -> M (option doc))
        (isop : bundle -> bool) (h : bundle -> N) : forall kids,
    (forall s x d, In x kids -> snd (opc s x) = Some d -> isop x = true) ->
    (forall c' x, In x kids -> tot (rhs c' x) (h x)) ->
    forall ch ca so s,
      tot (foldM (chain_inner_step swidth c opc rhs) kids (ch, ca, so, s))
            (if so then sumN h kids else sumN h (after_op isop kids)).
  Proof.
    induction kids as [|x kids IH]; intros Hop Hrhs ch ca so s.
    - cbn. destruct so; apply tot_ret.
    - assert (IH' := IH (fun s0 y d Hy => Hop s0 y d (or_intror Hy)) (fun c' y Hy => Hrhs c' y (or_intror Hy))).
      clear IH. cbn [foldM].
      unfold chain_inner_step at 1.
      destruct (opc s x) as [s' oc] eqn:Eo.
      destruct oc as [op|].
      + assert (Hx : isop x = true) by (apply (Hop s x op); [left; reflexivity|rewrite Eo; reflexivity]).
        apply tot_bind_ret.
        eapply tot_weaken; [apply (IH' _ ca true s')|].
        cbn [after_op sumN]. rewrite Hx. destruct so; lia.
      + assert (Hrest : forall ch' ca' s'',
                  tot (foldM (chain_inner_step swidth c opc rhs) kids (ch', ca', so, s''))
                        (if so then h x + sumN h kids else sumN h (after_op isop (x :: kids)))).
        { intros ch' ca' s''. eapply tot_weaken; [apply (IH' ch' ca' so s'')|].
          destruct so; [lia|]. cbn [after_op]. destruct (isop x); [apply sumN_after_op|lia]. }
        cbn [sumN].
        destruct (is_comment_b x) eqn:Ec.
        { destruct (comment_no_panic swidth (bt x) Ec) as (d & Ed).
          intros n. unfold bind, convert_comment, lift, ret. rewrite Ed. cbn beta iota.
          apply (Hrest _ _ _ n). }
        destruct (kind_eqb (bk x) KSpace).
        { destruct (has_lb (tx x)); apply tot_bind_ret; apply Hrest. }
        destruct so.
        * (* after an operator: the right-hand side converter runs once on x *)
          intros n. destruct (Hrhs c x (or_introl eq_refl) n) as (o & n1 & Er & H1).
          unfold bind. rewrite Er.
          destruct o as [r|]; unfold ret;
            match goal with |- exists a n', foldM _ _ ?st n1 = _ /\ _ =>
              destruct (IH' (fst (fst (fst st))) (snd (fst (fst st))) true s' n1) as (a & n' & E & H2) end;
            exists a, n'; (split; [exact E|cbn in H2; lia]).
        * apply tot_bind_ret. apply Hrest.
  Qed.

  Lemma tot_chain_process {S : Type} c (nodes : list bundle) (s0 : S) pred
        (opc : S -> bundle -> S * option doc) (rhs fb : ctx -> bundle -> M (option doc))
        (isop : bundle -> bool) (h : bundle -> N) (loc : bundle -> N) :
    (forall node, In node nodes -> pred node = true ->
        (forall s x d, In x (bkids node) -> snd (opc s x) = Some d -> isop x = true) /\
        (forall c' x, In x (bkids node) -> tot (rhs c' x) (h x)) /\
        sumN h (after_op isop (bkids node)) <= loc node) ->
    (forall node c', In node nodes -> pred node = false -> tot (fb c' node) (loc node)) ->
    tot (chain_process swidth c nodes s0 pred opc rhs fb) (sumN loc nodes).
  Proof.
    intros Hop Hfb. unfold chain_process.
    apply tot_bind_r; [|intros; apply tot_ret_any].
    apply tot_foldM. intros [[ch ca] s] node Hin.
    unfold chain_outer_step.
    destruct (pred node) eqn:Ep.
    - destruct (Hop node Hin Ep) as (H1 & H2 & H3).
      apply tot_bind_r; [|intros [[[ch1 ca1] so1] s1]; apply tot_ret_any].
      eapply tot_weaken; [apply (tot_chain_inner c opc rhs isop h (bkids node) H1 H2 _ ca false s)|exact H3].
    - apply tot_bind_r; [apply Hfb; assumption|].
      intros o. branches; apply tot_ret_any.
  Qed.

  Lemma tot_chain_doc ch sty : solid ch -> tot (chain_doc swidth cfg ch sty) 0.
  Proof.
    intros H. unfold chain_doc.
    destruct (chain_print_ok swidth (tab_spaces cfg) ch sty H) as (d & ->). apply tot_lift.
  Qed.

  (* the chain handed to the printer holds an operator or a body: the outermost node always contributes one *)
  Definition sol4 {S} (st : chain * bool * bool * S) : Prop := solid (fst (fst (fst st))).
  Definition sol3 {S} (st : chain * bool * S) : Prop := solid (fst (fst st)).

  Lemma solid_push items it n hc : is_solid_item it = true -> solid (mk_chain (items ++ [it]) n hc).
  Proof. intros H. unfold solid. cbn [ch_items]. rewrite existsb_app. cbn [existsb]. rewrite H. apply orb_true_iff. right. reflexivity. Qed.
  Lemma solid_keep items it n hc ch : solid ch -> items = ch_items ch -> solid (mk_chain (items ++ [it]) n hc).
  Proof. intros H ->. unfold solid in *. cbn [ch_items]. rewrite existsb_app, H. reflexivity. Qed.

  Lemma inner_step_solid {S : Type} c (opc : S -> bundle -> S * option doc) rhs (st : chain * bool * bool * S) x :
    post (chain_inner_step swidth c opc rhs st x)
         (fun st' => (sol4 st -> sol4 st') /\ (snd (opc (snd st) x) <> None -> sol4 st')).
  Proof.
    destruct st as [[[ch ca] so] s]. unfold chain_inner_step. cbn [snd].
    destruct (opc s x) as [s' oc]. cbn [snd]. destruct oc as [op|].
    - apply post_ret. unfold sol4. cbn [fst]. split; intros _; apply solid_push; reflexivity.
    - destruct (is_comment_b x).
      { apply (post_bind _ _ (fun _ => True)); [apply post_any|]. intros d _. apply post_ret.
        unfold sol4. cbn [fst]. split; [intros H|intros H; contradiction].
        destruct ca; (eapply solid_keep; [exact H|reflexivity]). }
      destruct (kind_eqb (bk x) KSpace).
      { destruct (has_lb (tx x)); apply post_ret; unfold sol4; cbn [fst]; (split; [intros H|intros H; contradiction]); [|exact H].
        destruct (chain_last_is_comment (ch_items ch)); [eapply solid_keep; [exact H|reflexivity]|exact H]. }
      destruct so.
      + apply (post_bind _ _ (fun _ => True)); [apply post_any|]. intros o _.
        destruct o; apply post_ret; unfold sol4; cbn [fst]; (split; [intros H|intros H; contradiction]); [|exact H].
        eapply solid_keep; [exact H|reflexivity].
      + apply post_ret. unfold sol4. cbn [fst]. split; [auto|intros H; contradiction].
  Qed.

  Lemma inner_loop_solid {S : Type} c (opc : S -> bundle -> S * option doc) rhs : forall kids (st : chain * bool * bool * S),
    post (foldM (chain_inner_step swidth c opc rhs) kids st)
         (fun st' => (sol4 st -> sol4 st') /\ ((exists x, In x kids /\ forall s, snd (opc s x) <> None) -> sol4 st')).
  Proof.
    induction kids as [|x kids IH]; intros st.
    - cbn. apply post_ret. split; [auto|]. intros (x & [] & _).
    - cbn [foldM]. eapply post_bind; [apply inner_step_solid|].
      intros st1 [H1 H2]. eapply post_weaken; [apply IH|].
      intros st' [H3 H4]. split; [auto|].
      intros (y & [<-|Hy] & Hop); [apply H3, H2, Hop|apply H4; exists y; auto].
  Qed.

  Lemma outer_step_solid {S : Type} c pred (opc : S -> bundle -> S * option doc) rhs fb (st : chain * bool * S) node :
    (pred node = true -> exists x, In x (bkids node) /\ forall s, snd (opc s x) <> None) ->
    (pred node = false -> forall c', post (fb c' node) (fun o => o <> None)) ->
    post (chain_outer_step swidth c pred opc rhs fb st node) sol3.
  Proof.
    intros Hop Hfb. destruct st as [[ch ca] s]. unfold chain_outer_step.
    destruct (pred node).
    - eapply post_bind; [apply inner_loop_solid|].
      intros [[[ch1 ca1] so1] s1] [_ H]. apply post_ret. unfold sol3, sol4 in *. cbn [fst] in *. apply H. apply Hop. reflexivity.
    - eapply post_bind; [apply (Hfb eq_refl)|].
      intros o Ho. destruct o as [d|]; [|contradiction].
      destruct (rev (ch_items ch)) as [|[body| | | |] r]; apply post_ret; unfold sol3; cbn [fst]; apply solid_push; reflexivity.
  Qed.

  Lemma chain_process_solid {S : Type} c nodes self (s0 : S) pred opc rhs fb :
    (pred self = true -> exists x, In x (bkids self) /\ forall s, snd (opc s x) <> None) ->
    (pred self = false -> forall c', post (fb c' self) (fun o => o <> None)) ->
    post (chain_process swidth c (nodes ++ [self]) s0 pred opc rhs fb) solid.
  Proof.
    intros Hop Hfb. unfold chain_process.
    eapply post_bind.
    - apply (post_foldM_last _ sol3). intros st. apply outer_step_solid; assumption.
    - intros [[ch ca] s] H. apply post_ret. exact H.
  Qed.

  (* ----- the dot chain: every spine node is charged to a different child subtree ----- *)
  Definition loc_dot (n : bundle) : N :=
    if kind_eqb (bk n) KFieldAccess then 0
    else if kind_eqb (bk n) KFuncCall then match args_of_call n with Some a => W a | None => 0 end
    else if is_expr (bt n) then W n else 0.

  Lemma expr_not_args b : is_expr (bt b) = true -> is_kind KArgs (bt b) = true -> False.
  Proof.
    unfold is_expr, is_kind. intros H1 H2. apply kind_eqb_eq in H2. rewrite H2 in H1. discriminate.
  Qed.

  Lemma spine_dot_bound : forall depth b,
    agood b ->
    sumN loc_dot (resolve_chain dot_chain_next depth b) <= W b /\
    (kin (bk b) [KFieldAccess; KFuncCall] = true ->
     sumN loc_dot (resolve_chain dot_chain_next depth b) <= sumN W (bkids b)).
  Proof.
    induction depth as [|d IH]; intros b Hg.
    - cbn [resolve_chain sumN]. unfold loc_dot.
      pose proof (aW_kids_le _ Hg) as Hle.
      destruct (kind_eqb (bk b) KFieldAccess) eqn:E1; [split; intros; lia|].
      destruct (kind_eqb (bk b) KFuncCall) eqn:E2.
      + destruct (args_of_call b) as [a|] eqn:Ea; [|split; intros; lia].
        unfold args_of_call, last_kid in Ea. apply find_in in Ea. apply in_rev in Ea.
        pose proof (sumN_in W a _ Ea). split; intros; lia.
      + split; [destruct (is_expr (bt b)); lia|].
        unfold kin. cbn [existsb]. rewrite E1, E2. discriminate.
    - cbn [resolve_chain].
      destruct (dot_chain_next b) as [b'|] eqn:En.
      + cbn [sumN].
        assert (Hk : kin (bk b) [KFieldAccess; KFuncCall] = true /\ first_kid is_expr b = Some b').
        { unfold dot_chain_next in En. unfold kin. cbn [existsb].
          destruct (bk b); try discriminate; cbn; auto. }
        destruct Hk as [Hkind Hfk].
        assert (Hin' : In b' (bkids b)) by (unfold first_kid in Hfk; apply find_in in Hfk; exact Hfk).
        destruct (IH b' (good_agood _ (akid_good _ _ Hg Hin'))) as [IH1 _].
        assert (Hmain : loc_dot b + sumN loc_dot (resolve_chain dot_chain_next d b') <= sumN W (bkids b)).
        { unfold loc_dot at 1.
          destruct (kind_eqb (bk b) KFieldAccess) eqn:E1.
          - pose proof (sumN_in W b' _ Hin'). lia.
          - destruct (kind_eqb (bk b) KFuncCall) eqn:E2.
            + destruct (args_of_call b) as [a|] eqn:Ea.
              * unfold args_of_call, last_kid in Ea. unfold first_kid in Hfk.
                pose proof (sumN_two_finds W _ _ _ _ _ Hfk Ea) as H2.
                assert (Hdis : forall z, is_expr (bt z) = true -> is_kind KArgs (bt z) = true -> False)
                  by (intros z; apply expr_not_args).
                specialize (H2 Hdis). lia.
              * pose proof (sumN_in W b' _ Hin'). lia.
            + exfalso. unfold kin in Hkind. cbn [existsb] in Hkind. rewrite E1, E2 in Hkind. discriminate. }
        pose proof (aW_kids_le _ Hg). split; intros; lia.
      + (* the walk ends here *)
        cbn [sumN]. unfold loc_dot. pose proof (aW_kids_le _ Hg) as Hle.
        destruct (kind_eqb (bk b) KFieldAccess) eqn:E1; [split; intros; lia|].
        destruct (kind_eqb (bk b) KFuncCall) eqn:E2.
        * destruct (args_of_call b) as [a|] eqn:Ea; [|split; intros; lia].
          unfold args_of_call, last_kid in Ea. apply find_in in Ea. apply in_rev in Ea.
          pose proof (sumN_in W a _ Ea). split; intros; lia.
        * split; [destruct (is_expr (bt b)); lia|].
          unfold kin. cbn [existsb]. rewrite E1, E2. discriminate.
  Qed.

  Lemma resolve_chain_head next depth b : exists r, resolve_chain next depth b = b :: r.
  Proof. destruct depth; cbn; [eauto|]. destruct (next b); eauto. Qed.

  (* every node of a resolved chain has good children; every node but the first is itself good *)
  Lemma resolve_chain_good next : (forall b b', next b = Some b' -> In b' (bkids b)) ->
    forall depth b, agood b ->
      Forall agood (resolve_chain next depth b) /\ Forall (good snode_ok) (tl (resolve_chain next depth b)).
  Proof.
    intros Hnext. induction depth as [|d IH]; intros b Hg; cbn [resolve_chain]; [split; [constructor; [assumption|constructor]|constructor]|].
    destruct (next b) as [b'|] eqn:En; [|split; [constructor; [assumption|constructor]|constructor]].
    pose proof (akid_good _ _ Hg (Hnext _ _ En)) as Hg'.
    destruct (IH b' (good_agood _ Hg')) as [IH1 IH2].
    split; [constructor; assumption|]. cbn [tl].
    destruct (resolve_chain_head next d b') as (r & Hr). rewrite Hr in *. cbn [tl] in IH2.
    constructor; assumption.
  Qed.

  Lemma dot_next_kid b b' : dot_chain_next b = Some b' -> In b' (bkids b).
  Proof.
    unfold dot_chain_next. destruct (bk b); try discriminate; unfold first_kid; apply find_in.
  Qed.

  Lemma kids_existsb (p : tree -> bool) b :
    map bt (bkids b) = children (bt b) -> existsb p (children (bt b)) = true -> exists x, In x (bkids b) /\ p (bt x) = true.
  Proof.
    intros Hs He. rewrite <- Hs in He. apply existsb_exists in He. destruct He as (t & Hin & Hp).
    apply in_map_iff in Hin. destruct Hin as (x & <- & Hx). exists x. auto.
  Qed.

  Lemma schema_clause self kd :
    agood self -> kind_of (bt self) = kd ->
    match kd with
    | KFuncCall => exists x, In x (bkids self) /\ is_kind KArgs (bt x) = true
    | KFieldAccess => exists x, In x (bkids self) /\ is_kind KDot (bt x) = true
    | KBinary => exists x, In x (bkids self) /\ is_kind KNot (bt x) = false /\ binop_from_kind (bk x) <> None
    | _ => True
    end.
  Proof.
    intros Hg Hkd. pose proof (agood_wf _ Hg) as Hw. unfold swfc_node in Hw.
    apply andb_prop in Hw. destruct Hw as [_ Hw]. rewrite Hkd in Hw.
    destruct kd; try exact I; apply (kids_existsb _ _ (agood_shape _ Hg)) in Hw; destruct Hw as (x & Hx & Hp); exists x; (split; [exact Hx|]); try exact Hp.
    apply andb_prop in Hp. destruct Hp as [H1 H2]. split; [destruct (is_kind KNot (bt x)); [discriminate|reflexivity]|].
    unfold bk. destruct (binop_from_kind (kind_of (bt x))); [discriminate|discriminate].
  Qed.

  Lemma tot_convert_dot_chain self c :
    agood self -> is_expr (bt self) = true -> kin (bk self) [KFieldAccess; KFuncCall] = true ->
    tot (convert_dot_chain swidth cfg self c) (sumN loc_dot (resolve_dot_chain self)).
  Proof.
    intros Hg Hex Hkind. unfold convert_dot_chain.
    replace (sumN loc_dot (resolve_dot_chain self)) with (sumN loc_dot (rev (resolve_dot_chain self)) + 0)
      by (rewrite sumN_rev; lia).
    apply (tot_bind_post _ _ solid); [| |intros ch Hs; apply tot_chain_doc; exact Hs].
    2:{ unfold resolve_dot_chain. destruct (resolve_chain_head dot_chain_next (tree_height (bt self)) self) as (r & ->).
        cbn [rev]. apply chain_process_solid.
        - intros Hp. pose proof (schema_clause self KFieldAccess Hg) as Hc. cbn in Hc.
          destruct Hc as (x & Hx & Hd); [apply kind_eqb_eq; exact Hp|].
          exists x. split; [exact Hx|]. intros s. cbn [snd]. unfold bk, is_kind in *. rewrite Hd. discriminate.
        - intros Hp c'. cbn beta.
          destruct (kind_eqb (bk self) KFuncCall).
          + destruct (args_of_call self); [|apply post_ret; discriminate].
            eapply post_bind; [apply post_any|]. intros d _. apply post_ret. discriminate.
          + rewrite Hex. eapply post_bind; [apply post_any|]. intros d _. apply post_ret. discriminate. }
    destruct (resolve_chain_good dot_chain_next dot_next_kid (tree_height (bt self)) self Hg) as [Hall Htl].
    fold (resolve_dot_chain self) in Hall, Htl. rewrite Forall_forall in Hall, Htl.
    apply (tot_chain_process c _ tt _ _ _ _ (fun x => kind_eqb (bk x) KDot) (fun _ => 0) loc_dot).
    - intros node Hin Hp. repeat split.
      + intros s x d _ Hx. cbn in Hx. destruct (kind_eqb (bk x) KDot); [reflexivity|discriminate].
      + intros c' x _. branches; apply tot_ret_any.
      + clear. induction (bkids node) as [|y l IH]; cbn [after_op sumN]; [lia|]. destruct (kind_eqb (bk y) KDot); [|exact IH]. clear. induction l; cbn [sumN]; lia.
    - intros node c' Hin Hp. apply in_rev in Hin. pose proof (Hall node Hin) as Hn.
      unfold loc_dot. rewrite Hp.
      destruct (kind_eqb (bk node) KFuncCall) eqn:E2.
      + destruct (args_of_call node) as [a|] eqn:Ea; [|apply tot_ret_any].
        apply tot_bind_r; [|intros; apply tot_ret_any].
        unfold args_of_call, last_kid in Ea. apply find_in in Ea. apply in_rev in Ea.
        apply (proj1 (good_here _ _ (akid_good _ _ Hn Ea))). exact I.
      + destruct (is_expr (bt node)) eqn:Ee; [|apply tot_ret_any].
        apply tot_bind_r; [|intros; apply tot_ret_any].
        assert (Hgn : good snode_ok node).
        { apply Htl. unfold resolve_dot_chain in *.
          destruct (resolve_chain_head dot_chain_next (tree_height (bt self)) self) as (r & Hr). rewrite Hr in *.
          destruct Hin as [<-|Hin]; [|exact Hin].
          exfalso. unfold kin in Hkind. cbn [existsb] in Hkind. rewrite Hp, E2 in Hkind. discriminate. }
        apply (proj1 (good_here _ _ Hgn)). exact Ee.
  Qed.

  (* ----- attempts that may decline: declining costs nothing ----- *)
  Definition tot_opt {A} (m : M (option A)) (k : N) : Prop :=
    forall n, exists a n', m n = Ok (a, n') /\ match a with None => n' = n | Some _ => n' <= n + k end.

  Lemma tot_opt_none {A} k : tot_opt (ret (@None A)) k.
  Proof. intros n. exists None, n. split; reflexivity. Qed.
  Lemma tot_opt_ret_some {A} (a : A) k : tot_opt (ret (Some a)) k.
  Proof. intros n. exists (Some a), n. split; [reflexivity|lia]. Qed.
  Lemma tot_opt_some {A B} (m : M A) (f : A -> B) k : tot m k -> tot_opt (x <- m ;; ret (Some (f x))) k.
  Proof.
    intros H n. destruct (H n) as (a & n' & E & Hle). exists (Some (f a)), n'. unfold bind. rewrite E. split; [reflexivity|exact Hle].
  Qed.
  Lemma tot_opt_bind {A} (m : M (option A)) (fb : M (option A)) k :
    tot_opt m k -> tot_opt fb k -> tot_opt (o <- m ;; match o with Some d => ret (Some d) | None => fb end) k.
  Proof.
    intros Hm Hfb n. destruct (Hm n) as (o & n1 & E & H). unfold bind. rewrite E.
    destruct o as [a|]; [exists (Some a), n1; split; [reflexivity|exact H]|]. subst n1. apply Hfb.
  Qed.

  Lemma tot_opt_try_plain self c :
    agood self ->
    tot_opt (try_convert_dot_chain_plain swidth cfg c (resolve_dot_chain self)) (sumN W (bkids self)).
  Proof.
    intros Hg. unfold try_convert_dot_chain_plain. cbv zeta.
    destruct (resolve_chain_head dot_chain_next (tree_height (bt self)) self) as (r & Hr).
    fold (resolve_dot_chain self) in Hr.
    destruct (rev (resolve_dot_chain self)) as [|inner rest] eqn:Erev; [apply tot_opt_none|].
    assert (Hrr : rev (inner :: rest) = self :: r) by (rewrite <- Erev, rev_involutive; exact Hr).
    rewrite Hrr.
    destruct (kind_eqb (bk self) KFuncCall && kind_eqb (bk inner) KIdent); [|apply tot_opt_none].
    match goal with |- tot_opt (if ?b then _ else _) _ => destruct b end; [apply tot_opt_none|].
    destruct (args_of_call self) as [ar|] eqn:Ea; [|apply tot_opt_ret_some].
    apply tot_opt_some.
    unfold args_of_call, last_kid in Ea. apply find_in in Ea. apply in_rev in Ea.
    eapply tot_weaken; [apply (proj1 (good_here _ _ (akid_good _ _ Hg Ea))); exact I|apply sumN_in; exact Ea].
  Qed.

  Lemma tot_opt_try_dot_chain self c :
    agood self -> is_expr (bt self) = true -> kin (bk self) [KFieldAccess; KFuncCall] = true ->
    tot_opt (try_convert_dot_chain swidth cfg self c) (sumN W (bkids self)).
  Proof.
    intros Hg Hex Hkind. unfold try_convert_dot_chain.
    destruct (c_supp c); [apply tot_opt_none|]. cbv zeta.
    pose proof (proj2 (spine_dot_bound (tree_height (bt self)) self Hg) Hkind) as Hs.
    fold (resolve_dot_chain self) in Hs.
    apply tot_opt_bind.
    - match goal with |- tot_opt (if ?cond then _ else _) _ => destruct cond end; [apply tot_opt_try_plain; exact Hg|apply tot_opt_none].
    - destruct (is_markup_mode (c_mode c) && Nat.ltb 1 _ && Nat.ltb 0 _).
      + apply (tot_opt_some _ (fun d => d)). unfold parenthesize_if_necessary.
        destruct (is_code_cont (c_mode c)).
        * eapply tot_weaken; [apply tot_convert_dot_chain; assumption|exact Hs].
        * apply tot_bind_r; [|intros; apply tot_ret_any].
          eapply tot_weaken; [apply tot_convert_dot_chain; assumption|exact Hs].
      + destruct (is_code_mode (c_mode c)); [|apply tot_opt_none].
        apply (tot_opt_some _ (fun d => d)).
        eapply tot_weaken; [apply tot_convert_dot_chain; assumption|exact Hs].
  Qed.

  Lemma tot_of_opt {A B} (m : M (option A)) (g : A -> M B) (fallback : M B) k kf :
    tot_opt m k -> (forall a, tot (g a) 0) -> tot fallback kf -> k <= kf ->
    tot (o <- m ;; match o with Some a => g a | None => fallback end) kf.
  Proof.
    intros Hm Hg Hf Hle n. unfold bind.
    destruct (Hm n) as (o & n1 & Em & H). rewrite Em. destruct o as [a|].
    - destruct (Hg a n1) as (b & n2 & E & H2). exists b, n2. split; [exact E|lia].
    - subst n1. apply (Hf n).
  Qed.

  Lemma fa_is_expr self : kind_eqb (bk self) KFieldAccess = true -> is_expr (bt self) = true.
  Proof. intros H. apply kind_eqb_eq in H. unfold is_expr, bk in *. rewrite H. reflexivity. Qed.
  Lemma fc_is_expr self : kind_eqb (bk self) KFuncCall = true -> is_expr (bt self) = true.
  Proof. intros H. apply kind_eqb_eq in H. unfold is_expr, bk in *. rewrite H. reflexivity. Qed.

  Lemma tot_convert_field_access self c :
    agood self -> kind_eqb (bk self) KFieldAccess = true ->
    tot (convert_field_access swidth cfg self c) (1 + sumN W (bkids self)).
  Proof.
    intros Hg Hkind. unfold convert_field_access.
    assert (Hk : kids_ok (bkids self)) by apply (agood_kids _ Hg).
    apply (tot_of_opt _ _ _ (sumN W (bkids self))); [| intros; apply tot_ret | | lia].
    - apply tot_opt_try_dot_chain; [assumption|apply fa_is_expr; assumption|]. unfold kin. cbn [existsb]. rewrite Hkind. reflexivity.
    - destruct (has_comment_children_b self).
      + eapply tot_weaken; [|apply N.le_add_l].
        apply tot_flow_like. intros c' b Hin. branches; leafcost Hk.
      + apply tot_bind_r; [|intros; apply tot_ret_any].
        destruct (first_kid is_expr self) as [tg|] eqn:Ef.
        * unfold first_kid in Ef. pose proof (find_some _ _ Ef) as [_ Hte]. apply find_in in Ef.
          eapply tot_weaken; [(apply (kids_call _ _ _ Hk Ef); exact Hte)|]. pose proof (sumN_in W tg _ Ef). lia.
        * eapply tot_weaken; [apply tot_bind; [apply tot_bump|intros; apply tot_ret]|lia].
  Qed.

  (* the table layout is only chosen for an argument list that starts with its left parenthesis *)
  Lemma skip_until_nonempty kd l : skip_until kd l <> [] -> existsb (fun b => kind_eqb (bk b) kd) l = true.
  Proof.
    induction l as [|x l IH]; cbn; [congruence|]. destruct (kind_eqb (bk x) kd); [reflexivity|]. exact IH.
  Qed.

  Lemma table_cols_has_paren self a n :
    swfc_node (bt a) = true -> bk a = KArgs -> map bt (bkids a) = children (bt a) ->
    table_info_of self a = TableCols n -> has_parenthesized_args (bkids a) = true.
  Proof.
    intros Hw Hka Hshape Hti. apply swfc_wfc_node in Hw. unfold table_info_of in Hti.
    destruct (is_table self); [|discriminate].
    destruct (is_formatable a) eqn:Ef; [|discriminate].
    unfold is_formatable in Ef. apply andb_prop in Ef. destruct Ef as [_ Ef].
    match type of Ef with (let '(ok, seen) := fold_left _ ?pargs _ in _) = _ => set (pa := pargs) in * end.
    assert (Hne : pa <> []).
    { intros He. rewrite He in Ef. cbn in Ef. discriminate. }
    assert (Hskip : skip_until KLeftParen (bkids a) <> []).
    { intros He. apply Hne. unfold pa. rewrite He. reflexivity. }
    apply skip_until_nonempty in Hskip.
    (* translate to the tree *)
    unfold bk in Hka. destruct (bt a) as [k s at'|k cs at'] eqn:Eb; cbn in Hka; subst k.
    - cbn in Hshape. destruct (bkids a); [discriminate|discriminate].
    - cbn [wfc_node children] in *.
      assert (Hex : existsb (is_kind KLeftParen) cs = true).
      { rewrite <- Hshape. clear - Hskip. induction (bkids a) as [|x l IH]; cbn in *; [discriminate|].
        unfold is_kind, bk in *. destruct (kind_eqb (kind_of (bt x)) KLeftParen); [reflexivity|]. cbn. apply IH. exact Hskip. }
      rewrite Hex in Hw. cbn [negb orb] in Hw.
      unfold has_parenthesized_args. destruct (bkids a) as [|x l]; [cbn in Hshape; subst cs; discriminate|].
      cbn in Hshape. destruct cs as [|c0 cs']; [discriminate|]. inversion Hshape; subst.
      unfold is_kind in Hw. exact Hw.
  Qed.

  Lemma args_kind self ar : args_of_call self = Some ar -> bk ar = KArgs /\ In ar (bkids self).
  Proof.
    unfold args_of_call, last_kid. intros H. apply find_some in H. destruct H as [Hin Hk].
    apply in_rev in Hin. unfold is_kind in Hk. apply kind_eqb_eq in Hk. auto.
  Qed.

  Lemma args_of_call_some self :
    agood self -> kind_eqb (bk self) KFuncCall = true -> args_of_call self <> None.
  Proof.
    intros Hg Hkind He. pose proof (schema_clause self KFuncCall Hg) as Hc. cbn in Hc.
    destruct Hc as (x & Hx & Ha); [apply kind_eqb_eq; exact Hkind|].
    unfold args_of_call, last_kid in He.
    pose proof (find_none _ _ He x) as Hn. cbn beta in Hn. rewrite Ha in Hn.
    assert (true = false) by (apply Hn; apply in_rev; rewrite rev_involutive; exact Hx). discriminate.
  Qed.

  Lemma tot_convert_func_call_plain self c :
    agood self -> kind_eqb (bk self) KFuncCall = true ->
    tot (convert_func_call_plain swidth self c) (1 + sumN W (bkids self)).
  Proof.
    intros Hg Hkind. unfold convert_func_call_plain.
    assert (Hk : kids_ok (bkids self)) by apply (agood_kids _ Hg).
    assert (Hargs : forall ar, args_of_call self = Some ar ->
                    tot (call ar (RFuncArgs c (table_info_of self ar))) (W ar)).
    { intros ar Ea. destruct (args_kind _ _ Ea) as [Hka Hin].
      apply (kids_call_ok _ _ _ Hk Hin).
      destruct (table_info_of self ar) eqn:Et; try exact I.
      pose proof (akid_good _ _ Hg Hin) as Hga.
      eapply table_cols_has_paren; [apply (proj2 (good_here _ _ Hga))|exact Hka|apply (good_shape _ _ Hga)|exact Et]. }
    pose proof (args_of_call_some self Hg Hkind) as Hsome.
    destruct (args_of_call self) as [ar|] eqn:Ea; [|contradiction].
    destruct (first_kid is_expr self) as [cl|] eqn:Ef.
    - pose proof (Hargs ar eq_refl) as Har.
      unfold first_kid in Ef. unfold args_of_call, last_kid in Ea.
      pose proof (sumN_two_finds W _ _ _ _ _ Ef Ea (fun z => expr_not_args z)) as H2.
      pose proof (proj2 (find_some _ _ Ef)) as Hce. cbn beta in Hce.
      apply find_in in Ef.
      eapply tot_weaken; [|apply (N.le_trans _ _ _ H2); lia].
      apply tot_bind; [(apply (kids_call _ _ _ Hk Ef); exact Hce)|]. intros d.
      apply tot_bind_r; [exact Har|intros; apply tot_ret_any].
    - pose proof (Hargs ar eq_refl) as Har. destruct (args_kind _ _ Ea) as [_ Hin].
      eapply tot_weaken; [|pose proof (sumN_in W ar _ Hin) as Hle; instantiate (1 := 1 + W ar); lia].
      apply tot_bind; [apply tot_bind_r; [apply tot_bump|intros; apply tot_ret]|]. intros d.
      apply tot_bind_r; [exact Har|intros; apply tot_ret_any].
  Qed.

  Lemma tot_convert_func_call self c :
    agood self -> kind_eqb (bk self) KFuncCall = true ->
    tot (convert_func_call swidth cfg self c) (1 + sumN W (bkids self)).
  Proof.
    intros Hg Hkind. unfold convert_func_call.
    apply (tot_of_opt _ _ _ (sumN W (bkids self))); [| intros; apply tot_ret | apply tot_convert_func_call_plain; assumption | lia].
    destruct (first_kid is_expr self) as [cal|]; [|apply tot_opt_none].
    destruct (kind_eqb (bk cal) KFieldAccess); [|apply tot_opt_none].
    apply tot_opt_try_dot_chain; [assumption|apply fc_is_expr; assumption|]. unfold kin. cbn [existsb]. rewrite Hkind. apply orb_true_r.
  Qed.

  (* ----- the binary chain ----- *)
  Definition isop_bin (x : bundle) : bool := match binop_from_kind (bk x) with Some _ => true | None => false end.

  Lemma expr_not_binop k : is_expr_kind k = true -> binop_from_kind k = None.
  Proof. destruct k; cbn; intros H; try reflexivity; discriminate. Qed.

  Fixpoint take_while_b (p : bundle -> bool) (l : list bundle) : list bundle :=
    match l with [] => [] | x :: r => if p x then x :: take_while_b p r else [] end.

  Lemma take_while_map (kids : list bundle) :
    map bt (take_while_b (fun k => negb (is_expr (bt k))) kids) = take_while_tree (fun c => negb (is_expr c)) (map bt kids).
  Proof. induction kids as [|x l IH]; cbn; [reflexivity|]. destruct (negb (is_expr (bt x))); cbn; [f_equal; exact IH|reflexivity]. Qed.

  Lemma wfc_binary_kids b :
    kind_eqb (bk b) KBinary = true -> swfc_node (bt b) = true -> map bt (bkids b) = children (bt b) ->
    forallb (fun k => negb (isop_bin k)) (take_while_b (fun k => negb (is_expr (bt k))) (bkids b)) = true.
  Proof.
    intros Hk Hw Hs. apply swfc_wfc_node in Hw. unfold bk in Hk. apply kind_eqb_eq in Hk.
    destruct (bt b) as [k s a|k cs a] eqn:Eb; cbn in Hk; subst k.
    - cbn in Hs. destruct (bkids b); [reflexivity|discriminate].
    - cbn [wfc_node children] in *. rewrite <- Hs, <- take_while_map in Hw.
      rewrite forallb_forall in *. intros x Hx.
      specialize (Hw (bt x) (in_map bt _ _ Hx)). unfold isop_bin, bk.
      destruct (binop_from_kind (kind_of (bt x))); [discriminate|reflexivity].
  Qed.

  Lemma after_op_lhs : forall kids lhs,
    find (fun k => is_expr (bt k)) kids = Some lhs ->
    forallb (fun k => negb (isop_bin k)) (take_while_b (fun k => negb (is_expr (bt k))) kids) = true ->
    sumN W (after_op isop_bin kids) + W lhs <= sumN W kids.
  Proof.
    induction kids as [|x kids IH]; intros lhs Hf Hw; [discriminate|].
    cbn [find] in Hf. cbn [take_while_b] in Hw. cbn [after_op sumN].
    destruct (is_expr (bt x)) eqn:Ee.
    - inversion Hf; subst lhs.
      assert (isop_bin x = false) as -> by (unfold isop_bin, bk; unfold is_expr in Ee; rewrite (expr_not_binop _ Ee); reflexivity).
      pose proof (sumN_after_op W isop_bin kids). lia.
    - cbn [negb forallb] in Hw. apply andb_prop in Hw. destruct Hw as [Hx Hw].
      apply negb_true_iff in Hx. rewrite Hx. specialize (IH lhs Hf Hw). lia.
  Qed.

  Definition pred_bin (prec : N) (node : bundle) : bool :=
    kind_eqb (bk node) KBinary && (binop_precedence (binary_op (bt node)) =? prec).
  Definition loc_bin (prec : N) (n : bundle) : N :=
    if pred_bin prec n then sumN W (after_op isop_bin (bkids n)) else if is_expr (bt n) then W n else 0.

  Lemma spine_bin_bound prec : forall depth b,
    agood b ->
    sumN (loc_bin prec) (resolve_chain (binary_chain_next prec) depth b) <= W b /\
    (pred_bin prec b = true ->
     sumN (loc_bin prec) (resolve_chain (binary_chain_next prec) depth b) <= sumN W (bkids b)).
  Proof.
    induction depth as [|d IH]; intros b Hg; pose proof (aW_kids_le _ Hg) as Hle.
    - cbn [resolve_chain sumN]. unfold loc_bin.
      destruct (pred_bin prec b) eqn:Ep.
      + pose proof (sumN_after_op W isop_bin (bkids b)). split; intros; lia.
      + split; [destruct (is_expr (bt b)); lia|discriminate].
    - cbn [resolve_chain].
      destruct (binary_chain_next prec b) as [b'|] eqn:En.
      + assert (Hp : pred_bin prec b = true /\ first_kid is_expr b = Some b').
        { unfold binary_chain_next in En. fold (pred_bin prec b) in En. destruct (pred_bin prec b); [auto|discriminate]. }
        destruct Hp as [Ep Ef].
        cbn [sumN]. unfold first_kid in Ef.
        assert (Hin' : In b' (bkids b)) by (apply find_in in Ef; exact Ef).
        destruct (IH b' (good_agood _ (akid_good _ _ Hg Hin'))) as [IH1 _].
        assert (Hloc : loc_bin prec b = sumN W (after_op isop_bin (bkids b))) by (unfold loc_bin; rewrite Ep; reflexivity).
        rewrite !Hloc.
        unfold pred_bin in Ep. apply andb_prop in Ep. destruct Ep as [Ek _].
        pose proof (wfc_binary_kids b Ek (agood_wf _ Hg) (agood_shape _ Hg)) as Hw.
        pose proof (after_op_lhs _ _ Ef Hw). split; intros; lia.
      + cbn [sumN]. unfold loc_bin.
        destruct (pred_bin prec b) eqn:Ep.
        * pose proof (sumN_after_op W isop_bin (bkids b)). split; intros; lia.
        * split; [destruct (is_expr (bt b)); lia|discriminate].
  Qed.

  Lemma bin_next_kid prec b b' : binary_chain_next prec b = Some b' -> In b' (bkids b).
  Proof.
    unfold binary_chain_next. destruct (_ && _); [|discriminate]. unfold first_kid. apply find_in.
  Qed.

  Lemma tot_convert_binary_chain self c :
    agood self -> kind_eqb (bk self) KBinary = true ->
    tot (convert_binary_chain swidth cfg self c)
          (sumN (loc_bin (binop_precedence (binary_op (bt self)))) (resolve_binary_chain self)).
  Proof.
    intros Hg Hkind. unfold convert_binary_chain.
    set (prec := binop_precedence (binary_op (bt self))).
    replace (sumN (loc_bin prec) (resolve_binary_chain self)) with (sumN (loc_bin prec) (rev (resolve_binary_chain self)) + 0)
      by (rewrite sumN_rev; lia).
    apply (tot_bind_post _ _ solid); [| |intros ch Hs; apply tot_chain_doc; exact Hs].
    2:{ unfold resolve_binary_chain. fold prec.
        destruct (resolve_chain_head (binary_chain_next prec) (tree_height (bt self)) self) as (r & ->).
        cbn [rev]. apply chain_process_solid.
        - intros _. pose proof (schema_clause self KBinary Hg) as Hc. cbn in Hc.
          destruct Hc as (x & Hx & Hn & Hb); [apply kind_eqb_eq; exact Hkind|].
          exists x. split; [exact Hx|]. intros s. unfold is_kind in Hn. unfold bk in *. rewrite Hn.
          destruct (kind_eqb (kind_of (bt x)) KIn && s); [cbn; discriminate|].
          destruct (binop_from_kind (kind_of (bt x))); [cbn; discriminate|contradiction].
        - intros Hp. exfalso. cbn beta in Hp. rewrite Hkind in Hp. unfold prec in Hp. rewrite N.eqb_refl in Hp. discriminate. }
    destruct (resolve_chain_good (binary_chain_next prec) (bin_next_kid prec) (tree_height (bt self)) self Hg) as [Hall Htl].
    fold (resolve_binary_chain self) in Hall, Htl. rewrite Forall_forall in Hall, Htl.
    apply (tot_chain_process c _ false _ _ _ _ isop_bin W (loc_bin prec)).
    - intros node Hin Hp. apply in_rev in Hin. pose proof (Hall node Hin) as Hn.
      assert (Hk : kids_ok (bkids node)) by apply (agood_kids _ Hn).
      repeat split.
      + intros s x d _ Hx. unfold isop_bin.
        destruct (kind_eqb (bk x) KNot); [cbn in Hx; discriminate|].
        destruct (kind_eqb (bk x) KIn && s) eqn:Ei.
        * apply andb_prop in Ei. destruct Ei as [Ei _]. apply kind_eqb_eq in Ei. rewrite Ei. reflexivity.
        * destruct (binop_from_kind (bk x)); [reflexivity|cbn in Hx; discriminate].
      + intros c' x Hx. apply tot_opt_conv. intros Hq. (apply (kids_call _ _ _ Hk Hx); exact Hq).
      + unfold loc_bin. fold (pred_bin prec node) in Hp. rewrite Hp. lia.
    - intros node c' Hin Hp. apply in_rev in Hin.
      unfold loc_bin. fold (pred_bin prec node) in Hp. rewrite Hp.
      unfold opt_conv. destruct (is_expr (bt node)) eqn:Ee; [|apply tot_ret_any].
      apply tot_bind_r; [|intros; apply tot_ret_any].
      assert (Hgn : good snode_ok node).
      { apply Htl. unfold resolve_binary_chain in *. fold prec in Hin |- *.
        destruct (resolve_chain_head (binary_chain_next prec) (tree_height (bt self)) self) as (r & Hr). rewrite Hr in *.
        destruct Hin as [<-|Hin]; [|exact Hin].
        exfalso. unfold pred_bin in Hp. rewrite Hkind in Hp. unfold prec in Hp. rewrite N.eqb_refl in Hp. discriminate. }
      apply (proj1 (good_here _ _ Hgn)). exact Ee.
  Qed.

  Lemma tot_convert_binary self c :
    agood self -> kind_eqb (bk self) KBinary = true ->
    tot (convert_binary swidth cfg self c) (sumN W (bkids self)).
  Proof.
    intros Hg Hkind. unfold convert_binary.
    assert (Hk : kids_ok (bkids self)) by apply (agood_kids _ Hg).
    destruct (negb (c_supp c) && is_chainable_binary (bt self)).
    - assert (Hb : sumN (loc_bin (binop_precedence (binary_op (bt self)))) (resolve_binary_chain self) <= sumN W (bkids self)).
      { apply (spine_bin_bound _ (tree_height (bt self)) self Hg).
        unfold pred_bin. rewrite Hkind, N.eqb_refl. reflexivity. }
      unfold parenthesize_if_necessary.
      destruct (is_code_cont (c_mode c)).
      + eapply tot_weaken; [apply tot_convert_binary_chain; assumption|exact Hb].
      + apply tot_bind_r; [|intros; apply tot_ret_any].
        eapply tot_weaken; [apply tot_convert_binary_chain; assumption|exact Hb].
    - apply tot_flow_like. intros c' b Hin. branches; leafcost Hk.
  Qed.

  (* ----- delimited math ----- *)
  Lemma tot_convert_math_delimited t kids c :
    kids_ok kids -> map bt kids = children t -> kind_of t = KMathDelimited -> swfc_node t = true ->
    tot (convert_math_delimited swidth cfg kids c) (sumN W kids).
  Proof.
    intros Hk Hs Hkind Hw. unfold convert_math_delimited.
    (* shape from the schema clause: first and last kid are expressions *)
    destruct t as [k s a|k cs a]; cbn in Hkind; subst k; [cbn in Hw; discriminate|].
    apply swfc_wfc_node in Hw.
    cbn [wfc_node children] in *. destruct cs as [|co crest]; [discriminate|].
    destruct kids as [|o rest]; [discriminate|].
    destruct rest as [|r1 rest'].
    { cbn in Hs. inversion Hs; subst. cbn in Hw. apply andb_prop in Hw. destruct Hw; discriminate. }
    set (rest := r1 :: rest') in *.
    inversion Hs as [[Ho Hrest]]. change (bt r1 :: map bt rest') with (map bt rest) in Hrest.
    apply andb_prop in Hw. destruct Hw as [Hoe Hce].
    assert (Hfirst : find (fun b => is_expr (bt b)) (o :: rest) = Some o) by (cbn [find]; rewrite Ho, Hoe; reflexivity).
    assert (Hlast : exists cl mid, rest = mid ++ [cl] /\ is_expr (bt cl) = true).
    { destruct (rev rest) as [|cl rmid] eqn:Er.
      - apply (f_equal (@rev _)) in Er. rewrite rev_involutive in Er. discriminate.
      - exists cl, (rev rmid). split.
        + apply (f_equal (@rev _)) in Er. rewrite rev_involutive in Er. exact Er.
        + rewrite <- Hrest, <- map_rev, Er in Hce. exact Hce. }
    destruct Hlast as (cl & mid & Hrm & Hcle).
    assert (Hfindlast : find (fun b => is_expr (bt b)) (rev (o :: rest)) = Some cl).
    { rewrite Hrm. cbn [rev]. rewrite rev_app_distr. cbn [rev app find]. rewrite Hcle. reflexivity. }
    rewrite Hfirst, Hfindlast.
    assert (Hinner : removelast rest = mid) by (rewrite Hrm; apply removelast_last).
    rewrite Hinner.
    (* the body converts nodes of `mid` only *)
    match goal with |- tot (let '(os, inner1) := ?e1 in _) _ => destruct e1 as [os inner1] eqn:E1 end.
    match goal with |- tot (let '(csp, inner2) := ?e2 in _) _ => destruct e2 as [csp inner2] eqn:E2 end.
    assert (H1 : sumN W inner1 <= sumN W mid /\ forall b, In b inner1 -> In b mid).
    { clear - E1. destruct mid as [|f r].
      - injection E1 as _ <-. split; [lia|auto].
      - destruct (kind_eqb (bk f) KSpace); injection E1 as _ <-; cbn [sumN]; (split; [lia|]); intros b Hb; [right; exact Hb|exact Hb]. }
    assert (H2 : sumN W inner2 <= sumN W inner1 /\ forall b, In b inner2 -> In b inner1).
    { clear - E2. unfold split_last in E2. destruct (rev inner1) as [|l rr] eqn:Er.
      - injection E2 as _ <-. split; [lia|auto].
      - assert (Hi : inner1 = rev rr ++ [l]) by (apply (f_equal (@rev _)) in Er; rewrite rev_involutive in Er; exact Er).
        destruct (kind_eqb (bk l) KSpace); injection E2 as _ <-; [|split; [lia|auto]].
        rewrite Hi, sumN_app. split; [lia|intros b Hb; apply in_or_app; left; exact Hb]. }
    assert (Hbudget : sumN W inner2 + W o + W cl <= sumN W (o :: rest)).
    { rewrite Hrm. cbn [sumN]. rewrite sumN_app. cbn [sumN]. lia. }
    eapply tot_weaken; [|exact Hbudget].
    assert (Hmid_in : forall b, In b inner2 -> In b (o :: rest)).
    { intros b Hb. right. rewrite Hrm. apply in_or_app. left. apply (proj2 H1). apply (proj2 H2). exact Hb. }
    rewrite <- N.add_assoc.
    apply tot_bind.
    - apply tot_flow_like. intros c' b Hin. specialize (Hmid_in b Hin).
      branches; try apply tot_ret_any.
      apply tot_bind_r; [(apply (kids_call _ _ _ Hk Hmid_in); rq)|intros; apply tot_ret_any].
    - intros body. apply tot_bind.
      + apply (kids_call _ _ _ Hk); [left; reflexivity|cbn [simple_req]; rewrite Ho; exact Hoe].
      + intros op. apply tot_bind_r; [|intros; apply tot_ret_any].
        apply (kids_call _ _ _ Hk); [|exact Hcle]. right. rewrite Hrm. apply in_or_app. right. left. reflexivity.
  Qed.

  (* ----- imports ----- *)
  Lemma tot_convert_import_items fs c nodes mr : kids_ok nodes -> tot (convert_import_items swidth cfg fs c nodes mr) (sumN W nodes).
  Proof.
    intros Hk. unfold convert_import_items.
    set (nodes' := import_items_final cfg mr nodes).
    assert (Hp : Permutation nodes' nodes).
    { unfold nodes', import_items_final. destruct mr; [apply import_order_permutation|apply Permutation_refl]. }
    rewrite <- (sumN_perm W _ _ Hp).
    assert (Hk' : kids_ok nodes').
    { unfold kids_ok in *. rewrite Forall_forall in *. intros x Hx. apply Hk. eapply Permutation_in; eassumption. }
    apply tot_bind_r; [|intros; apply tot_ret_any].
    apply tot_lst_process. intros c' b Hin.
    branches; try apply tot_ret_any;
      (apply tot_bind_r; [(apply (kids_call _ _ _ Hk' Hin); rq)|intros; apply tot_ret_any]).
  Qed.

  Lemma tot_convert_import fs kids c : kids_ok kids -> tot (convert_import swidth cfg fs kids c) (sumN W kids).
  Proof.
    intros Hk. unfold convert_import.
    set (divider := match position _ kids 0 with Some i => i | None => length kids end).
    set (prefix_part := match divider with S d' => _ | O => [] end).
    assert (Hpre : sumN W prefix_part <= sumN W (firstn divider kids) /\ forall b, In b prefix_part -> In b kids).
    { unfold prefix_part. destruct divider as [|d']; [split; [cbn; lia|intros b []]|].
      assert (Hd : sumN W (firstn d' kids) <= sumN W (firstn (S d') kids)).
      { clear. revert d'. induction kids as [|x l IH]; intros d'; [destruct d'; cbn; lia|].
        destruct d' as [|d'']; [cbn; lia|]. cbn [firstn sumN]. specialize (IH d''). cbn [firstn] in IH. lia. }
      destruct (nth_error kids d') as [b|]; [destruct (kind_eqb (bk b) KSpace)|];
        (split; [try lia|intros x Hx; eapply in_firstn; exact Hx]). }
    destruct Hpre as [Hpre_le Hpre_in].
    rewrite <- (sumN_firstn_skipn W divider kids).
    eapply tot_weaken; [|apply N.add_le_mono_r; exact Hpre_le].
    apply tot_bind.
    - apply tot_flow_like. intros c' b Hin. specialize (Hpre_in b Hin).
      branches; try apply tot_ret_any;
        (apply tot_bind_r; [(apply (kids_call _ _ _ Hk Hpre_in); rq)|intros; apply tot_ret_any]).
    - intros prefix_doc.
      assert (Hks : kids_ok (skipn divider kids)).
      { apply (kids_ok_sub kids); [assumption|]. intros b Hb. eapply in_skipn. exact Hb. }
      destruct (skipn divider kids) as [|i0 irest] eqn:Es; [apply tot_ret_any|].
      rewrite <- Es in *. clear Es.
      set (nodes := flat_map (fun b => if kind_eqb (bk b) KImportItems then bkids b else [b]) (skipn divider kids)).
      pose proof (sumN_flat_kind KImportItems _ Hks) as Hle. fold nodes in Hle.
      pose proof (kids_ok_flat_kind KImportItems _ Hks) as Hkn. fold nodes in Hkn.
      destruct nodes as [|n0 nrest] eqn:En; [apply tot_ret_any|]. rewrite <- En in *.
      eapply tot_weaken; [|exact Hle].
      apply tot_bind_r; [apply tot_convert_import_items; assumption|intros; apply tot_ret_any].
  Qed.

  (* ----- the dispatch ----- *)
  Lemma tot_convert_expr_impl self c :
    agood self -> is_expr (bt self) = true -> tot (convert_expr_impl swidth cfg self c) (1 + sumN W (bkids self)).
  Proof.
    intros Hg Hex. unfold convert_expr_impl.
    assert (Hk : kids_ok (bkids self)) by apply (agood_kids _ Hg).
    pose proof (agood_shape _ Hg) as Hs.
    pose proof (agood_wf _ Hg) as Hw.
    assert (Hkd : forall kd, kind_of (bt self) = kd -> kind_eqb (bk self) kd = true).
    { intros kd <-. unfold bk. destruct (kind_of (bt self)); reflexivity. }
    unfold is_expr in Hex.
    destruct (kind_of (bt self)) eqn:Ekind; try (cbn in Hex; discriminate);
      try apply tot_ret_any;
      try (eapply tot_weaken; [|apply N.le_add_l];
           first [ apply tot_convert_heading | apply tot_convert_list_item_like
                 | apply tot_convert_ref | apply tot_convert_equation
                 | apply tot_convert_math_attach_like | apply tot_convert_math_frac
                 | apply tot_convert_code_block | apply tot_convert_parenthesized
                 | apply tot_convert_array | apply tot_convert_dict | apply tot_convert_unary
                 | apply tot_convert_closure | apply tot_convert_let_binding
                 | apply tot_convert_destruct_assignment | apply tot_convert_set_rule
                 | apply tot_convert_show_rule | apply tot_expr_flow | apply tot_convert_for_loop
                 | apply tot_convert_import ]; exact Hk);
      try (first [ apply tot_convert_strong | apply tot_convert_emph | apply tot_convert_math
                 | apply tot_convert_content_block ]; exact Hk).
    - eapply tot_weaken; [|apply N.le_add_l].
      apply (tot_convert_math_delimited (bt self)); assumption.
    - eapply tot_weaken; [|apply N.le_add_l]. apply tot_convert_binary; [assumption|apply Hkd; reflexivity].
    - apply tot_convert_field_access; [assumption|apply Hkd; reflexivity].
    - apply tot_convert_func_call; [assumption|apply Hkd; reflexivity].
  Qed.

  Lemma tot_convert_expr self c :
    agood self -> is_expr (bt self) = true -> tot (convert_expr swidth cfg self c) (2 + sumN W (bkids self)).
  Proof.
    intros Hg Hex. unfold convert_expr.
    replace (2 + sumN W (bkids self)) with (1 + (1 + sumN W (bkids self))) by lia.
    apply tot_bind; [apply tot_bump|]. intros _.
    unfold check_disabled. destruct (a_disabled (attrs_of (bt self))); [apply tot_ret_any|].
    apply tot_convert_expr_impl; assumption.
  Qed.

  Lemma tot_convert_pattern self c :
    agood self -> is_pattern (bt self) = true -> tot (convert_pattern swidth cfg self c) (3 + sumN W (bkids self)).
  Proof.
    intros Hg Hpat. unfold convert_pattern.
    assert (Hk : kids_ok (bkids self)) by apply (agood_kids _ Hg).
    replace (3 + sumN W (bkids self)) with (1 + (2 + sumN W (bkids self))) by lia.
    apply tot_bind; [apply tot_bump|]. intros _.
    unfold check_disabled. destruct (a_disabled (attrs_of (bt self))); [apply tot_ret_any|].
    unfold is_pattern in Hpat. unfold bk.
    destruct (kind_of (bt self)) eqn:Ek;
      try (apply tot_convert_expr; [assumption|unfold is_expr; rewrite Ek; exact Hpat]); try apply tot_ret_any.
    - eapply tot_weaken; [apply tot_convert_parenthesized; exact Hk|lia].
    - eapply tot_weaken; [apply tot_convert_destructuring; exact Hk|lia].
  Qed.

  Lemma tot_convert_embedded_expr self c :
    agood self -> is_expr (bt self) = true -> tot (convert_embedded_expr swidth cfg self c) (2 + sumN W (bkids self)).
  Proof.
    intros Hg Hex. unfold convert_embedded_expr.
    destruct (kind_eqb (bk self) KParenthesized); [|apply tot_convert_expr; assumption].
    replace (2 + sumN W (bkids self)) with (1 + (1 + sumN W (bkids self))) by lia.
    apply tot_bind; [apply tot_bump|]. intros _.
    unfold check_disabled. destruct (a_disabled (attrs_of (bt self))); [apply tot_ret_any|].
    eapply tot_weaken; [apply tot_convert_parenthesized; apply (agood_kids _ Hg)|lia].
  Qed.

  Lemma tot_step t kids r :
    kids_ok kids -> map bt kids = children t -> swfc_node t = true ->
    (match r with
     | RFuncArgs _ (TableCols _) => has_parenthesized_args kids = true
     | RExpr _ | RExprEmb _ => is_expr t = true
     | RPattern _ => is_pattern t = true
     | _ => True
     end) ->
    tot (step swidth cfg t kids r) (3 + sumN W kids).
  Proof.
    intros Hk Hs Hw Hr. unfold step.
    set (self := Bundle t (fun _ => panic SBadRequest) kids).
    assert (Hg : agood self) by (split; [exact Hw|split; [exact Hs|exact Hk]]).
    change kids with (bkids self) in Hk |- * at 1.
    destruct r.
    - eapply tot_weaken; [apply tot_convert_expr; [exact Hg|exact Hr]|cbn [bkids self]; lia].
    - apply tot_convert_pattern; [exact Hg|exact Hr].
    - eapply tot_weaken; [apply tot_convert_markup_impl; exact Hk|cbn [bkids self]; lia].
    - eapply tot_weaken; [apply tot_convert_math; exact Hk|cbn [bkids self]; lia].
    - eapply tot_weaken; [apply tot_convert_content_block; exact Hk|cbn [bkids self]; lia].
    - eapply tot_weaken; [apply tot_convert_embedded_expr; [exact Hg|exact Hr]|cbn [bkids self]; lia].
    - eapply tot_weaken; [apply tot_convert_parenthesized; exact Hk|cbn [bkids self]; lia].
    - eapply tot_weaken; [apply tot_convert_named; exact Hk|cbn [bkids self]; lia].
    - eapply tot_weaken; [apply tot_convert_keyed; exact Hk|cbn [bkids self]; lia].
    - eapply tot_weaken; [apply tot_convert_spread; exact Hk|cbn [bkids self]; lia].
    - eapply tot_weaken; [apply tot_convert_params; exact Hk|cbn [bkids self]; lia].
    - eapply tot_weaken; [apply tot_convert_args; exact Hk|cbn [bkids self]; lia].
    - eapply tot_weaken; [apply tot_convert_parenthesized_args; exact Hk|cbn [bkids self]; pose proof (take_skip_rparen kids); lia].
    - eapply tot_weaken; [apply tot_convert_func_call_args; [exact Hk|intros n ->; exact Hr]|cbn [bkids self]; lia].
    - eapply tot_weaken; [apply tot_convert_import_item_path; exact Hk|cbn [bkids self]; lia].
    - eapply tot_weaken; [apply tot_convert_import_item_renamed; exact Hk|cbn [bkids self]; lia].
  Qed.
End Converters.

(* ---------- the induction over the tree ---------- *)
Lemma W_shape b : map bt (bkids b) = children (bt b) -> W b = 3 + sumN W (bkids b).
Proof.
  intros H. unfold W. rewrite tree_size_children, <- H.
  generalize (bkids b). intros l. induction l as [|x l IH]; cbn [map sumN]; lia.
Qed.

Lemma bt_build swidth cfg t : bt (build swidth cfg t) = t.
Proof. destruct t; reflexivity. Qed.

Lemma map_bt_build swidth cfg cs : map bt (map (build swidth cfg) cs) = cs.
Proof. induction cs as [|c cs IH]; cbn [map]; [reflexivity|]. rewrite bt_build, IH. reflexivity. Qed.

Theorem build_good swidth cfg t : swfc t = true -> good snode_ok (build swidth cfg t).
Proof.
  induction t as [k s a|k cs a IH] using tree_ind'; intros Hw.
  - cbn [swfc] in Hw. apply andb_prop in Hw. destruct Hw as [Hn _].
    cbn [build]. constructor; [|reflexivity|constructor].
    split; [|exact Hn]. intros r Hr. unfold call. cbn [bself].
    rewrite (W_shape (Bundle (Leaf k s a) (step swidth cfg (Leaf k s a) []) []) eq_refl). cbn [bkids].
    apply tot_step; [constructor|reflexivity|exact Hn|].
    destruct r; try exact I; exact Hr.
  - cbn [swfc] in Hw. apply andb_prop in Hw. destruct Hw as [Hn Hcs].
    rewrite forallb_forall in Hcs. rewrite Forall_forall in IH.
    cbn [build].
    assert (Hk : kids_ok (map (build swidth cfg) cs)).
    { unfold kids_ok. rewrite Forall_forall. intros b Hb. apply in_map_iff in Hb.
      destruct Hb as (c & <- & Hc). apply IH; [exact Hc|apply Hcs; exact Hc]. }
    assert (Hs : map bt (map (build swidth cfg) cs) = cs) by apply map_bt_build.
    constructor; [|exact Hs|exact Hk].
    split; [|exact Hn]. intros r Hr. unfold call. cbn [bself].
    rewrite (W_shape (Bundle (Inner k cs a) (step swidth cfg (Inner k cs a) (map (build swidth cfg) cs)) (map (build swidth cfg) cs)) Hs). cbn [bkids].
    apply tot_step; [exact Hk|exact Hs|exact Hn|].
    destruct r; try exact I; exact Hr.
Qed.

(* Totality and the counter bound: any admissible request answered by the bundle of a schema-conforming tree
   returns a document (no Panic site is reached) and advances the conversion counter by at most three per node. *)
Theorem conversions_total swidth cfg t r n :
  swfc t = true -> sreq_ok (build swidth cfg t) r ->
  exists d n', call (build swidth cfg t) r n = Ok (d, n') /\ n' <= n + 3 * N.of_nat (tree_size t).
Proof.
  intros Hw Hr. pose proof (proj1 (good_here _ _ (build_good swidth cfg t Hw)) r Hr n) as Hc.
  unfold W in Hc. rewrite bt_build in Hc. exact Hc.
Qed.
