(* PartialProofs.v — range arithmetic and node cover of partial.rs / utils.rs (C13). *)
From TV Require Import Partial.
From Coq Require Import Lia.

Lemma byte_len_app a b : byte_len (a ++ b) = byte_len a + byte_len b.
Proof. induction a as [|c a IH]; cbn [app byte_len]; [reflexivity|]. rewrite IH. lia. Qed.

Lemma utf8_len_pos c : 1 <= utf8_len c.
Proof. unfold utf8_len. destruct (c <? 128); [lia|]. destruct (c <? 2048); [lia|]. destruct (c <? 65536); lia. Qed.

Lemma split_at_byte_spec : forall s off a b,
  split_at_byte s off = Some (a, b) -> s = a ++ b /\ byte_len a = off.
Proof.
  induction s as [|c s IH]; intros off a b H; cbn [split_at_byte] in H.
  - destruct (off =? 0) eqn:E; [|discriminate]. inversion H; subst. apply N.eqb_eq in E. auto.
  - destruct (off =? 0) eqn:E.
    + inversion H; subst. apply N.eqb_eq in E. auto.
    + destruct (off <? utf8_len c) eqn:El; [discriminate|].
      destruct (split_at_byte s (off - utf8_len c)) as [[a' b']|] eqn:Es; [|discriminate].
      inversion H; subst. apply IH in Es. destruct Es as [-> Hl].
      apply N.ltb_ge in El. split; [reflexivity|]. cbn [byte_len]. lia.
Qed.

Lemma split_at_byte_app : forall a b, split_at_byte (a ++ b) (byte_len a) = Some (a, b).
Proof.
  induction a as [|c a IH]; intros b.
  - cbn [app byte_len]. destruct b; reflexivity.
  - cbn [app byte_len split_at_byte].
    pose proof (utf8_len_pos c).
    destruct (utf8_len c + byte_len a =? 0) eqn:E; [apply N.eqb_eq in E; lia|].
    destruct (utf8_len c + byte_len a <? utf8_len c) eqn:El; [apply N.ltb_lt in El; lia|].
    replace (utf8_len c + byte_len a - utf8_len c) with (byte_len a) by lia.
    rewrite IH. reflexivity.
Qed.

(* s[a..b] = x  iff  s = p ++ x ++ q with |p| = a and |p ++ x| = b *)
Lemma slice_spec s a b x :
  slice s a b = Some x -> exists p q, s = p ++ x ++ q /\ byte_len p = a /\ a + byte_len x = b.
Proof.
  unfold slice. destruct (b <? a) eqn:E; [discriminate|]. apply N.ltb_ge in E.
  destruct (split_at_byte s a) as [[p rest]|] eqn:E1; [|discriminate].
  destruct (split_at_byte rest (b - a)) as [[x' q]|] eqn:E2; [|discriminate].
  intros H; inversion H; subst.
  apply split_at_byte_spec in E1. destruct E1 as [-> Hp].
  apply split_at_byte_spec in E2. destruct E2 as [-> Hx].
  exists p, q. repeat split; [assumption|lia].
Qed.

Lemma slice_intro p x q : slice (p ++ x ++ q) (byte_len p) (byte_len p + byte_len x) = Some x.
Proof.
  unfold slice. destruct (byte_len p + byte_len x <? byte_len p) eqn:E; [apply N.ltb_lt in E; lia|].
  rewrite split_at_byte_app.
  replace (byte_len p + byte_len x - byte_len p) with (byte_len x) by lia.
  rewrite split_at_byte_app. reflexivity.
Qed.

(* trimming keeps a prefix / a suffix *)
Lemma drop_while_suffix (p : N -> bool) s : exists w, s = w ++ drop_while p s.
Proof.
  induction s as [|c s IH]; cbn; [exists []; reflexivity|].
  destruct (p c); [|exists []; reflexivity].
  destruct IH as (w & Hw). exists (c :: w). cbn. f_equal. exact Hw.
Qed.

Lemma trim_end_prefix s : exists w, s = trim_end s ++ w.
Proof.
  unfold trim_end. rewrite !frev_rev.
  destruct (drop_while_suffix is_ws (rev s)) as (w & Hw).
  exists (rev w). rewrite <- rev_app_distr, <- Hw, rev_involutive. reflexivity.
Qed.

Lemma trim_start_suffix s : exists w, s = w ++ trim_start s.
Proof. apply drop_while_suffix. Qed.

(* utils::trim_range on a sliceable range: never panics; the result is a sub-range holding the trimmed text *)
Theorem trim_range_ok s a b x :
  slice s a b = Some x ->
  exists a' b', trim_range s a b = Ok (a', b') /\ a <= a' /\ a' <= b' /\ b' <= b /\
                slice s a' b' = Some (trim_start (trim_end x)).
Proof.
  intros Hs. unfold trim_range. rewrite Hs.
  destruct (slice_spec _ _ _ _ Hs) as (p & q & -> & Hp & Hb).
  destruct (trim_end_prefix x) as (w & Hx).
  set (y := trim_end x) in *.
  assert (Hy : slice (p ++ x ++ q) a (a + byte_len y) = Some y).
  { rewrite Hx, <- app_assoc, <- Hp. apply slice_intro. }
  rewrite Hy.
  destruct (trim_start_suffix y) as (v & Hv).
  set (z := trim_start y) in *.
  assert (Hlen_y : byte_len y = byte_len v + byte_len z) by (rewrite Hv at 1; apply byte_len_app).
  assert (Hlen_x : byte_len x = byte_len y + byte_len w) by (rewrite Hx at 1; apply byte_len_app).
  exists (a + byte_len y - byte_len z), (a + byte_len y).
  split; [reflexivity|]. split; [lia|]. split; [lia|]. split; [lia|].
  replace (p ++ x ++ q) with ((p ++ v) ++ z ++ (w ++ q)).
  - replace (a + byte_len y - byte_len z) with (byte_len (p ++ v)) by (rewrite byte_len_app; lia).
    replace (a + byte_len y) with (byte_len (p ++ v) + byte_len z) by (rewrite byte_len_app; lia).
    apply slice_intro.
  - rewrite Hx, Hv, <- !app_assoc. reflexivity.
Qed.

(* ---------------------------------------------------------------- cover *)

(* n occurs in t, at absolute byte offset o when t starts at offset off *)
Inductive subtree_at : tree -> N -> tree -> N -> Prop :=
| sa_self t off : subtree_at t off t off
| sa_child k cs a off pre c post n o :
    cs = pre ++ c :: post ->
    subtree_at c (off + byte_len (concat (map into_text pre))) n o ->
    subtree_at (Inner k cs a) off n o.

Lemma cover_go_sound {R} (coverf : bool -> tree -> N -> option R) :
  forall cs o ah r,
    (fix go (cs : list tree) (o : N) (after_hash : bool) : option R :=
       match cs with
       | [] => None
       | c :: rest => match coverf after_hash c o with Some r => Some r | None => go rest (o + byte_size c) (kind_eqb (kind_of c) KHash) end
       end) cs o ah = Some r ->
    exists pre c post ah', cs = pre ++ c :: post /\ coverf ah' c (o + byte_len (concat (map into_text pre))) = Some r.
Proof.
  induction cs as [|c cs IH]; intros o ah r H; [discriminate|].
  destruct (coverf ah c o) as [r'|] eqn:E.
  - inversion H; subst. exists [], c, cs, ah. cbn. rewrite N.add_0_r. auto.
  - apply IH in H. destruct H as (pre & c' & post & ah' & -> & Hc).
    exists (c :: pre), c', post, ah'. split; [reflexivity|].
    cbn [map concat]. rewrite byte_len_app. unfold byte_size in Hc.
    rewrite N.add_assoc. exact Hc.
Qed.

Theorem cover_sound : forall t off m parent rs re n o m' p',
  cover t off m parent rs re = Some (n, o, m', p') ->
  o <= rs /\ re <= o + byte_size n /\ coverable n = true /\ subtree_at t off n o.
Proof.
  induction t as [k s a|k cs a IH] using tree_ind'; intros off m parent rs re n o m' p' H.
  - cbn [cover] in H.
    destruct ((off <=? rs) && (re <=? off + byte_size (Leaf k s a)) && coverable_at parent (Leaf k s a)) eqn:E; [|discriminate].
    inversion H; subst. apply andb_prop in E. destruct E as [E Ec]. unfold coverable_at in Ec. apply andb_prop in Ec. destruct Ec as [Ec _]. apply andb_prop in E. destruct E as [E1 E2].
    apply N.leb_le in E1, E2. repeat split; try assumption. constructor.
  - cbn [cover] in H.
    match type of H with
    | match ?g cs off false with _ => _ end = _ => destruct (g cs off false) as [r|] eqn:Eg
    end.
    + inversion H; subst.
      apply (cover_go_sound (fun ah c o =>
               cover c o ((if ah && is_math_mode (mode_of_kind k (fst m)) then LCode else mode_of_kind k (fst m)), snd m || kind_eqb k KMath)
                     (Some k) rs re)) in Eg.
      destruct Eg as (pre & c & post & ah' & Hcs & Hc).
      assert (Hin : In c cs) by (rewrite Hcs; apply in_or_app; right; left; reflexivity).
      rewrite Forall_forall in IH. specialize (IH c Hin _ _ _ _ _ _ _ _ _ Hc).
      destruct IH as (H1 & H2 & H3 & H4). repeat split; try assumption.
      eapply sa_child; eassumption.
    + destruct ((off <=? rs) && (re <=? off + byte_size (Inner k cs a)) && coverable_at parent (Inner k cs a)) eqn:E; [|discriminate].
      inversion H; subst. apply andb_prop in E. destruct E as [E Ec]. unfold coverable_at in Ec. apply andb_prop in Ec. destruct Ec as [Ec _]. apply andb_prop in E. destruct E as [E1 E2].
      apply N.leb_le in E1, E2. repeat split; try assumption. constructor.
Qed.

(* a node found in the tree starts on a char boundary of the source text *)
Lemma subtree_text : forall t off n o, subtree_at t off n o ->
  exists pre post, into_text t = pre ++ into_text n ++ post /\ o = off + byte_len pre.
Proof.
  induction 1 as [t off|k cs a off pre c post n o Hcs Hsub IH].
  - exists [], []. rewrite app_nil_r. cbn. split; [reflexivity|lia].
  - destruct IH as (p1 & p2 & Ht & Ho). subst cs.
    exists (concat (map into_text pre) ++ p1), (p2 ++ concat (map into_text post)).
    cbn [into_text]. rewrite map_app, concat_app. cbn [map concat]. rewrite Ht.
    split; [rewrite <- !app_assoc; reflexivity|]. rewrite byte_len_app. lia.
Qed.

Lemma count_spaces_ok s pre post : s = pre ++ post ->
  exists k, count_spaces_after_last_newline s (byte_len pre) = Ok k.
Proof.
  intros ->. unfold count_spaces_after_last_newline. rewrite split_at_byte_app. eexists; reflexivity.
Qed.

Section FormatRange.
  Variable swidth : str -> N.

  (* the request: a <= b, a on a char boundary (b may lie past the end or inside the text on a boundary) *)
  Definition on_boundary (s : str) (a : N) : Prop := exists p q, s = p ++ q /\ byte_len p = a.

  Lemma min_boundary s a : on_boundary s a \/ byte_len s <= a -> on_boundary s (N.min a (byte_len s)).
  Proof.
    intros [H|H].
    - destruct H as (p & q & -> & Hp). rewrite byte_len_app. replace (N.min a (byte_len p + byte_len q)) with a by lia.
      exists p, q. auto.
    - replace (N.min a (byte_len s)) with (byte_len s) by lia. exists s, []. rewrite app_nil_r. auto.
  Qed.

  Lemma prefix_by_len : forall (p p2 q q2 : str),
    p ++ q = p2 ++ q2 -> byte_len p <= byte_len p2 -> exists x, p2 = p ++ x.
  Proof.
    induction p as [|c p IH]; intros p2 q q2 H Hle.
    - exists p2. reflexivity.
    - destruct p2 as [|c2 p2].
      + cbn [byte_len] in Hle. pose proof (utf8_len_pos c). lia.
      + cbn [app] in H. inversion H; subst. cbn [byte_len] in Hle.
        destruct (IH p2 q q2 H2) as (x & ->); [lia|]. exists x. reflexivity.
  Qed.

  Lemma slice_of_boundaries s a b :
    on_boundary s a -> on_boundary s b -> a <= b -> exists x, slice s a b = Some x.
  Proof.
    intros (p & q & Hs & Hp) (p2 & q2 & Hs2 & Hp2) Hle.
    destruct (prefix_by_len p p2 q q2) as (x & ->); [congruence|lia|].
    exists x. subst s a b. rewrite Hs2, <- app_assoc, byte_len_app. apply slice_intro.
  Qed.

  (* (1) the range arithmetic never fails on a request a <= b whose ends are char boundaries or lie past the
     end of the text; the trimmed range is a sub-range on char boundaries holding the trimmed text *)
  Theorem range_arithmetic_total (t : tree) a b :
    let s := into_text t in
    let len := byte_len s in
    (on_boundary s a \/ len <= a) -> (on_boundary s b \/ len <= b) -> a <= b ->
    exists x rs re,
      slice s (N.min a len) (N.min b len) = Some x /\
      trim_range s (N.min a len) (N.min b len) = Ok (rs, re) /\
      N.min a len <= rs /\ rs <= re /\ re <= N.min b len /\
      slice s rs re = Some (trim_start (trim_end x)).
  Proof.
    intros s len Ha Hb Hle.
    destruct (slice_of_boundaries s (N.min a len) (N.min b len)) as (x & Hx);
      [apply min_boundary; assumption|apply min_boundary; assumption|lia|].
    destruct (trim_range_ok _ _ _ _ Hx) as (rs & re & H1 & H2 & H3 & H4 & H5).
    exists x, rs, re. auto 10.
  Qed.

  (* (2) the indentation lookup at the start of any node of the tree never fails *)
  Theorem indent_lookup_total t n o :
    subtree_at t 0 n o -> exists k, count_spaces_after_last_newline (into_text t) o = Ok k.
  Proof.
    intros H. apply subtree_text in H. destruct H as (pre & post & Ht & ->).
    rewrite N.add_0_l. apply (count_spaces_ok _ pre (into_text n ++ post)). exact Ht.
  Qed.

  (* (3) what a successful call returns *)
  Theorem format_range_result cfg t a b r1 r2 out :
    format_range swidth cfg t a b = ROk r1 r2 out ->
    let s := into_text t in
    let len := byte_len s in
    exists rs re node m p,
      trim_range s (N.min a len) (N.min b len) = Ok (rs, re) /\
      cover t 0 (LMarkup, false) None rs (N.min re len) = Some (node, r1, m, p) /\
      r2 = r1 + byte_size node /\ erroneous node = false /\ coverable node = true /\
      r1 <= rs /\ N.min re len <= r2 /\ subtree_at t 0 node r1.
  Proof.
    intros H s len. unfold format_range in H. fold s in H. fold len in H.
    destruct (trim_range s (N.min a len) (N.min b len)) as [[rs re]|] eqn:Et; [|discriminate].
    destruct (cover t 0 (LMarkup, false) None rs (N.min re len)) as [[[[node off] [m bm]] p]|] eqn:Ec; [|discriminate].
    destruct (erroneous node) eqn:Ee; [discriminate|].
    match type of H with match run_m ?mm with _ => _ end = _ => destruct (run_m mm) as [[d cnt]|] end; [|discriminate].
    destruct (count_spaces_after_last_newline s off) as [k|]; [|discriminate].
    match type of H with match render ?w ?d with _ => _ end = _ => destruct (render w d) end; [|discriminate].
    inversion H; subst.
    destruct (cover_sound _ _ _ _ _ _ _ _ _ _ Ec) as (H1 & H2 & H3 & H4).
    exists rs, re, node, (m, bm), p. repeat split; try assumption; reflexivity.
  Qed.

  (* (4) an erroneous covering node, or no covering node, is refused *)
  Theorem format_range_refuses cfg t a b rs re :
    trim_range (into_text t) (N.min a (byte_len (into_text t))) (N.min b (byte_len (into_text t))) = Ok (rs, re) ->
    (cover t 0 (LMarkup, false) None rs (N.min re (byte_len (into_text t))) = None \/
     exists node o m p, cover t 0 (LMarkup, false) None rs (N.min re (byte_len (into_text t))) = Some (node, o, m, p) /\ erroneous node = true) ->
    format_range swidth cfg t a b = RErr.
  Proof.
    intros Ht Hc. unfold format_range. rewrite Ht.
    destruct Hc as [->|(node & o & [m bm] & p & -> & He)]; [reflexivity|]. rewrite He. reflexivity.
  Qed.
End FormatRange.
