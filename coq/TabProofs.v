(* TabProofs.v — C12: the converter is parametric in the indent unit.  For two configurations that differ only in a
   non-zero `tab_spaces`, every converter of Conv.v returns related results (TabRel.rdoc: the same document up to the
   unit in the nests that come from `tab_spaces`), spends the same number of conversions and panics at the same site.
   The proof follows the recursion of `build`: a bundle relation `brel` (same node, related converters, related
   children) is established for `build c1 t` and `build c2 t`. *)
From TV Require Import TabRel Conv.
From Coq Require Import Lia.

Section TabConv.
  Variable swidth : str -> N.
  Variables c1 c2 : config.
  Hypothesis Hwidth : max_width c1 = max_width c2.
  Hypothesis Hblank : blank_lines_upper_bound c1 = blank_lines_upper_bound c2.
  Hypothesis Hreorder : reorder_import_items c1 = reorder_import_items c2.
  Hypothesis Ht1 : tab_spaces c1 <> 0.
  Hypothesis Ht2 : tab_spaces c2 <> 0.
  Notation rd := (rdoc (tab_spaces c1) (tab_spaces c2)).
  Notation text := (Doc.text swidth).

  Definition mrel {A} (R : A -> A -> Prop) (m m' : M A) : Prop :=
    forall n, match m n, m' n with
              | Ok (a, k), Ok (a', k') => R a a' /\ k = k'
              | Panic s, Panic s' => s = s'
              | _, _ => False
              end.

  Lemma mrel_ret {A} (R : A -> A -> Prop) a a' : R a a' -> mrel R (ret a) (ret a').
  Proof. intros H n. cbn. auto. Qed.
  Lemma mrel_panic {A} (R : A -> A -> Prop) s : mrel R (panic s) (panic s).
  Proof. intros n. reflexivity. Qed.
  Lemma mrel_bind {A B} (RA : A -> A -> Prop) (RB : B -> B -> Prop) m m' f f' :
    mrel RA m m' -> (forall a a', RA a a' -> mrel RB (f a) (f' a')) -> mrel RB (bind m f) (bind m' f').
  Proof.
    intros Hm Hf n. unfold bind. specialize (Hm n).
    destruct (m n) as [[a k]|s], (m' n) as [[a' k']|s']; try contradiction; [|exact Hm].
    destruct Hm as [Ha ->]. apply Hf. exact Ha.
  Qed.
  Lemma mrel_bump_then {A} (R : A -> A -> Prop) m m' : mrel R m m' -> mrel R (bump ;;; m) (bump ;;; m').
  Proof. intros H. apply (mrel_bind eq); [intros n; cbn; auto|intros; assumption]. Qed.
  Lemma mrel_lift {A} (R : A -> A -> Prop) r r' : rres R r r' -> mrel R (lift r) (lift r').
  Proof. intros H n. destruct H; cbn; auto. Qed.
  Lemma mrel_foldM {A S} (RA : A -> A -> Prop) (RS : S -> S -> Prop) f f' l l' s s' :
    Forall2 RA l l' -> RS s s' ->
    (forall s s' a a', RS s s' -> RA a a' -> mrel RS (f s a) (f' s' a')) ->
    mrel RS (foldM f l s) (foldM f' l' s').
  Proof.
    intros Hl. revert s s'. induction Hl as [|x y l l' Hxy Hl IH]; intros s s' Hs Hf; cbn [foldM].
    - apply mrel_ret. exact Hs.
    - apply (mrel_bind RS); [apply Hf; assumption|]. intros a a' Ha. apply IH; assumption.
  Qed.
  Lemma mrel_if {A} (R : A -> A -> Prop) (b : bool) m m' k k' :
    mrel R m m' -> mrel R k k' -> mrel R (if b then m else k) (if b then m' else k').
  Proof. destruct b; auto. Qed.

  (* ---------------- bundles ---------------- *)
  Inductive brel : bundle -> bundle -> Prop :=
  | brel_intro t s s' k k' :
      (forall r, mrel rd (s r) (s' r)) -> Forall2 brel k k' -> brel (Bundle t s k) (Bundle t s' k').

  Lemma brel_bt b b' : brel b b' -> bt b' = bt b.
  Proof. destruct 1; reflexivity. Qed.
  Lemma brel_kids b b' : brel b b' -> Forall2 brel (bkids b) (bkids b').
  Proof. destruct 1; assumption. Qed.
  Lemma brel_call b b' r : brel b b' -> mrel rd (call b r) (call b' r).
  Proof. destruct 1 as [t s s' k k' Hs Hk]. apply Hs. Qed.

  (* a function of a bundle that gives the same answer on related bundles *)
  Definition same {A} (f : bundle -> A) : Prop := forall b b', brel b b' -> f b = f b'.

  Lemma same_bt {A} (g : tree -> A) : same (fun b => g (bt b)).
  Proof. intros b b' H. rewrite (brel_bt _ _ H). reflexivity. Qed.
  Lemma same_bk : same bk.
  Proof. intros b b' H. unfold bk. rewrite (brel_bt _ _ H). reflexivity. Qed.
  Lemma same_tx : same tx.
  Proof. intros b b' H. unfold tx. rewrite (brel_bt _ _ H). reflexivity. Qed.

  Lemma find_brel p l l' : same p -> Forall2 brel l l' -> ropt brel (find p l) (find p l').
  Proof.
    intros Hp. induction 1 as [|x y l l' Hxy H IH]; cbn; [constructor|].
    rewrite <- (Hp _ _ Hxy). destruct (p x); [constructor; assumption|exact IH].
  Qed.
  Lemma filter_brel p l l' : same p -> Forall2 brel l l' -> Forall2 brel (filter p l) (filter p l').
  Proof.
    intros Hp. induction 1 as [|x y l l' Hxy H IH]; cbn; [constructor|].
    rewrite <- (Hp _ _ Hxy). destruct (p x); [constructor; assumption|exact IH].
  Qed.
  Lemma existsb_brel p l l' : same p -> Forall2 brel l l' -> existsb p l = existsb p l'.
  Proof.
    intros Hp. induction 1 as [|x y l l' Hxy H IH]; cbn; [reflexivity|].
    rewrite <- (Hp _ _ Hxy), IH. reflexivity.
  Qed.
  Lemma forallb_brel p l l' : same p -> Forall2 brel l l' -> forallb p l = forallb p l'.
  Proof.
    intros Hp. induction 1 as [|x y l l' Hxy H IH]; cbn; [reflexivity|].
    rewrite <- (Hp _ _ Hxy), IH. reflexivity.
  Qed.
  Lemma map_same {A} (f : bundle -> A) l l' : same f -> Forall2 brel l l' -> map f l = map f l'.
  Proof.
    intros Hp. induction 1 as [|x y l l' Hxy H IH]; cbn; [reflexivity|].
    rewrite <- (Hp _ _ Hxy), IH. reflexivity.
  Qed.
  Lemma firstn_rel {A} (R : A -> A -> Prop) n l l' : Forall2 R l l' -> Forall2 R (firstn n l) (firstn n l').
  Proof. intros H. revert n. induction H; intros [|n]; cbn; constructor; auto. Qed.
  Lemma skipn_rel {A} (R : A -> A -> Prop) n l l' : Forall2 R l l' -> Forall2 R (skipn n l) (skipn n l').
  Proof. intros H. revert n. induction H; intros [|n]; cbn; try constructor; auto. Qed.
  Lemma removelast_rel {A} (R : A -> A -> Prop) l l' : Forall2 R l l' -> Forall2 R (removelast l) (removelast l').
  Proof.
    induction 1 as [|x y l l' Hxy H IH]; cbn; [constructor|].
    destruct H; [constructor|]. constructor; assumption.
  Qed.
  Lemma nth_error_rel {A} (R : A -> A -> Prop) n l l' : Forall2 R l l' -> ropt R (nth_error l n) (nth_error l' n).
  Proof. intros H. revert n. induction H; intros [|n]; cbn; try constructor; auto. Qed.
  Lemma tl_rel {A} (R : A -> A -> Prop) l l' : Forall2 R l l' -> Forall2 R (tl l) (tl l').
  Proof. destruct 1; cbn; [constructor|assumption]. Qed.
  Lemma flat_map_rel {A B} (RA : A -> A -> Prop) (RB : B -> B -> Prop) (f f' : A -> list B) l l' :
    Forall2 RA l l' -> (forall a a', RA a a' -> Forall2 RB (f a) (f' a')) -> Forall2 RB (flat_map f l) (flat_map f' l').
  Proof. induction 1; intros Hf; cbn; [constructor|]. apply Forall2_app; auto. Qed.
  Lemma position_brel p l l' i : same p -> Forall2 brel l l' -> position p l i = position p l' i.
  Proof.
    intros Hp H. revert i. induction H as [|x y l l' Hxy H IH]; intros i; cbn; [reflexivity|].
    rewrite <- (Hp _ _ Hxy), IH. reflexivity.
  Qed.
  Lemma split_last_rel {A} (R : A -> A -> Prop) l l' :
    Forall2 R l l' -> ropt (rprod (Forall2 R) R) (split_last l) (split_last l').
  Proof.
    intros H. unfold split_last. pose proof (Forall2_rev _ _ _ H) as Hr.
    destruct Hr as [|x y r r' Hxy Hr]; constructor. split; cbn; [apply Forall2_rev; assumption|assumption].
  Qed.
  Lemma take_until_rparen_brel l l' : Forall2 brel l l' -> Forall2 brel (take_until_rparen l) (take_until_rparen l').
  Proof.
    induction 1 as [|x y l l' Hxy H IH]; cbn; [constructor|].
    rewrite <- (same_bk _ _ Hxy). destruct (kind_eqb _ _); constructor; assumption.
  Qed.
  Lemma skip_until_brel k l l' : Forall2 brel l l' -> Forall2 brel (skip_until k l) (skip_until k l').
  Proof.
    induction 1 as [|x y l l' Hxy H IH]; cbn; [constructor|].
    rewrite <- (same_bk _ _ Hxy). destruct (kind_eqb _ _); [constructor; assumption|exact IH].
  Qed.
  Lemma nth_back_brel n l l' : Forall2 brel l l' -> ropt brel (nth_back n l) (nth_back n l').
  Proof. intros H. unfold nth_back. apply nth_error_rel. apply Forall2_rev. exact H. Qed.
  Lemma is_only_one_and_brel p l l' : same p -> Forall2 brel l l' -> is_only_one_and l p = is_only_one_and l' p.
  Proof.
    intros Hp H. destruct H as [|x y l l' Hxy H]; cbn; [reflexivity|]. destruct H; [apply Hp; assumption|reflexivity].
  Qed.
  Lemma first_kid_brel p b b' : brel b b' -> ropt brel (first_kid p b) (first_kid p b').
  Proof. intros H. unfold first_kid. apply find_brel; [apply (same_bt p)|apply brel_kids; exact H]. Qed.
  Lemma last_kid_brel p b b' : brel b b' -> ropt brel (last_kid p b) (last_kid p b').
  Proof.
    intros H. unfold last_kid. apply find_brel; [apply (same_bt p)|apply Forall2_rev, brel_kids; exact H].
  Qed.
  Lemma same_is_comment_b : same is_comment_b.
  Proof. apply (same_bt is_comment_node). Qed.
  Lemma same_has_comment_children : same has_comment_children_b.
  Proof. intros b b' H. unfold has_comment_children_b. apply existsb_brel; [apply same_is_comment_b|apply brel_kids; exact H]. Qed.

  (* ---------------- comments and leaves ---------------- *)
  Lemma r_convert_comment b b' : brel b b' -> mrel rd (convert_comment swidth b) (convert_comment swidth b').
  Proof.
    intros H. unfold convert_comment. rewrite (brel_bt _ _ H). apply mrel_lift. apply comment_rdoc.
  Qed.
  Lemma rd_verbatim t : rd (convert_verbatim swidth t) (convert_verbatim swidth t).
  Proof. apply rdoc_text. Qed.
  Lemma rd_trivia t : rd (convert_trivia swidth t) (convert_trivia swidth t).
  Proof. apply rdoc_text. Qed.
  Lemma rd_space_text s : rd (convert_space_text s) (convert_space_text s).
  Proof. unfold convert_space_text. destruct (has_lb s); constructor. Qed.
  Lemma rd_math_primes t : rd (convert_math_primes swidth t) (convert_math_primes swidth t).
  Proof. apply rdoc_text. Qed.
  Lemma rd_parbreak t : rd (convert_parbreak t) (convert_parbreak t).
  Proof. unfold convert_parbreak. apply rdoc_repeat. constructor. Qed.

  Hint Resolve rdoc_text rdoc_append rdoc_group rdoc_nest_unit rdoc_flat_alt rdoc_hardline rdoc_space rdoc_line
       rdoc_line_ rdoc_align rdoc_enclose rdoc_concat rdoc_intersperse rdoc_repeat rdoc_app_opt
       rd_verbatim rd_trivia rd_space_text rd_parbreak rd_math_primes : rdb.
  Hint Constructors rdoc ropt rres rfi ritem rci rpi : rdb.

  Ltac rsplit := split; [cbn [fst snd]|cbn [fst snd]; auto].

  (* ---------------- the stylists' collecting loops ---------------- *)
  Definition r_flow_st {S} (p p' : flow * bool * bool * S) : Prop :=
    rflow (tab_spaces c1) (tab_spaces c2) (fst (fst (fst p))) (fst (fst (fst p'))) /\
    snd (fst (fst p)) = snd (fst (fst p')) /\ snd (fst p) = snd (fst p') /\ snd p = snd p'.
  Notation rfi' := (rfi (tab_spaces c1) (tab_spaces c2)).
  Notation rflow' := (rflow (tab_spaces c1) (tab_spaces c2)).
  Notation rlst' := (rlst (tab_spaces c1) (tab_spaces c2)).
  Notation rchain' := (rchain (tab_spaces c1) (tab_spaces c2)).
  Notation rpi' := (rpi (tab_spaces c1) (tab_spaces c2)).
  Notation rci' := (rci (tab_spaces c1) (tab_spaces c2)).
  Notation ritem' := (ritem (tab_spaces c1) (tab_spaces c2)).

  Lemma r_flow_like_iter {S} c kids kids' (s0 : S) prod prod' :
    Forall2 brel kids kids' ->
    (forall s c b b', brel b b' -> mrel (rprod eq (ropt rfi')) (prod s c b) (prod' s c b')) ->
    mrel rd (flow_like_iter swidth c kids s0 prod) (flow_like_iter swidth c kids' s0 prod').
  Proof.
    intros Hk Hp. unfold flow_like_iter.
    apply (mrel_bind r_flow_st).
    - apply (mrel_foldM brel r_flow_st); [exact Hk|rsplit; apply rflow_new|].
      intros [[[fl plc] ph] s] [[[fl' plc'] ph'] s'] b b' (Hfl & E1 & E2 & E3) Hb. cbn in Hfl, E1, E2, E3.
      subst plc' ph' s'. rewrite <- (same_bk _ _ Hb), <- (same_tx _ _ Hb), <- (same_is_comment_b _ _ Hb).
      destruct (is_keyword (bk b) && _).
      { apply mrel_ret. rsplit. apply rflow_push_doc; auto with rdb. }
      destruct (is_comment_b b).
      { apply (mrel_bind rd); [apply r_convert_comment; exact Hb|]. intros d d' Hd.
        apply mrel_ret. rsplit. apply rflow_push_comment; assumption. }
      destruct (plc && _ && _).
      { apply mrel_ret. rsplit. apply rflow_enter. apply rflow_push_doc; auto with rdb. }
      destruct (kind_eqb (bk b) KHash).
      { apply mrel_ret. rsplit. apply rflow_push_doc; auto with rdb. }
      apply (mrel_bind (rprod eq (ropt rfi'))); [apply Hp; exact Hb|].
      intros [s1 it] [s1' it'] [E Hit]. cbn in E, Hit. subst s1'.
      apply mrel_ret. rsplit. cbn [fst].
      destruct Hit as [|i i' Hi]; [assumption|]. destruct Hi. cbn. apply rflow_push_doc; assumption.
    - intros [[[fl plc] ph] s] [[[fl' plc'] ph'] s'] (Hfl & _). apply mrel_ret. apply Hfl.
  Qed.

  Lemma r_flow_like c kids kids' prod prod' :
    Forall2 brel kids kids' ->
    (forall c b b', brel b b' -> mrel (ropt rfi') (prod c b) (prod' c b')) ->
    mrel rd (flow_like swidth c kids prod) (flow_like swidth c kids' prod').
  Proof.
    intros Hk Hp. unfold flow_like. apply r_flow_like_iter; [exact Hk|].
    intros s c0 b b' Hb. apply (mrel_bind (ropt rfi')); [apply Hp; exact Hb|].
    intros it it' Hit. apply mrel_ret. split; [reflexivity|exact Hit].
  Qed.

  Lemma r_lst_process_trivia l l' b b' :
    rlst' l l' -> brel b b' -> mrel rlst' (lst_process_trivia swidth l b) (lst_process_trivia swidth l' b').
  Proof.
    intros Hl Hb. unfold lst_process_trivia. rewrite <- (same_bk _ _ Hb), <- (same_tx _ _ Hb).
    destruct (bk b); try (apply mrel_ret; exact Hl).
    - (* LineComment *)
      apply (mrel_bind rd); [apply r_convert_comment; exact Hb|]. intros d d' Hd. apply mrel_ret.
      destruct Hl as [Hca Hfr Hph Hit Hre Hhc Hhl Hfo Hnf Hnd Hke]. constructor; cbn; auto; try congruence.
      apply Forall2_snoc; assumption.
    - (* BlockComment *)
      apply (mrel_bind rd); [apply r_convert_comment; exact Hb|]. intros d d' Hd. apply mrel_ret.
      destruct Hl as [Hca Hfr Hph Hit Hre Hhc Hhl Hfo Hnf Hnd Hke]. constructor; cbn; auto; try congruence.
      apply Forall2_snoc; assumption.
    - (* Space *)
      destruct (0 <? _); [|apply mrel_ret; exact Hl].
      assert (H1 : rlst' (set_can_attach (attach_or_detach_comments l) false) (set_can_attach (attach_or_detach_comments l') false))
        by (apply rlst_set_can_attach, rlst_attach_or_detach; exact Hl).
      set (l1 := set_can_attach (attach_or_detach_comments l) false) in *.
      set (l1' := set_can_attach (attach_or_detach_comments l') false) in *.
      rewrite <- (rl_keep _ _ _ _ H1). destruct (l_keep l1); [|apply mrel_ret; exact H1].
      rewrite <- (Forall2_nil_iff _ _ _ (rl_items _ _ _ _ H1)).
      destruct (_ && _); apply mrel_ret; [|exact H1].
      apply rlst_set_items; [exact H1|]. apply Forall2_snoc; [apply H1|constructor].
    - (* Hash *) apply mrel_ret. apply rlst_set_peek_hash. exact Hl.
    - (* Comma *) apply mrel_ret. apply rlst_try_attach. exact Hl.
  Qed.

  Lemma r_lst_process l l' c nodes nodes' chk chk' :
    rlst' l l' -> Forall2 brel nodes nodes' ->
    (forall c b b', brel b b' -> mrel (ropt rd) (chk c b) (chk' c b')) ->
    mrel rlst' (lst_process swidth l c nodes chk) (lst_process swidth l' c nodes' chk').
  Proof.
    intros Hl Hn Hc. unfold lst_process. apply (mrel_bind rlst').
    - apply (mrel_foldM brel rlst'); [exact Hn|exact Hl|].
      intros s s' b b' Hs Hb. rewrite <- (rl_peek_hash _ _ _ _ Hs).
      apply (mrel_bind (ropt rd)); [apply Hc; exact Hb|]. intros o o' Ho.
      destruct Ho as [|d d' Hd].
      + apply r_lst_process_trivia; [apply rlst_set_peek_hash; exact Hs|exact Hb].
      + apply mrel_ret. apply rlst_set_peek_hash. apply rlst_add_item; assumption.
    - intros s s' Hs. apply mrel_ret. apply rlst_windup. exact Hs.
  Qed.

  Lemma rd_lst_doc l l' sty : rlst' l l' -> rd (lst_doc swidth c1 l sty) (lst_doc swidth c2 l' sty).
  Proof. intros H. unfold lst_doc. apply rdoc_lst_print; assumption. Qed.

  Lemma r_chain_doc ch ch' sty : rchain' ch ch' -> mrel rd (chain_doc swidth c1 ch sty) (chain_doc swidth c2 ch' sty).
  Proof. intros H. unfold chain_doc. apply mrel_lift. apply rres_chain_print; assumption. Qed.

  Definition r_ch4 {S} (p p' : chain * bool * bool * S) : Prop :=
    rchain' (fst (fst (fst p))) (fst (fst (fst p'))) /\
    snd (fst (fst p)) = snd (fst (fst p')) /\ snd (fst p) = snd (fst p') /\ snd p = snd p'.
  Definition r_ch3 {S} (p p' : chain * bool * S) : Prop :=
    rchain' (fst (fst p)) (fst (fst p')) /\ snd (fst p) = snd (fst p') /\ snd p = snd p'.

  Lemma chain_last_is_comment_rel its its' : Forall2 rci' its its' -> chain_last_is_comment its = chain_last_is_comment its'.
  Proof.
    intros H. unfold chain_last_is_comment. pose proof (Forall2_rev _ _ _ H) as Hr.
    destruct Hr as [|x y r r' Hxy Hr]; [reflexivity|]. destruct Hxy; reflexivity.
  Qed.

  Lemma rchain_snoc ch ch' n hc x x' :
    rchain' ch ch' -> rci' x x' ->
    rchain' (mk_chain (ch_items ch ++ [x]) n hc) (mk_chain (ch_items ch' ++ [x']) n hc).
  Proof. intros H Hx. constructor; cbn; auto. apply Forall2_snoc; [apply H|exact Hx]. Qed.

  Lemma r_chain_inner_step {S} c (opc : S -> bundle -> S * option doc) rhs rhs' st st' b b' :
    (forall s b b', brel b b' -> rprod eq (ropt rd) (opc s b) (opc s b')) ->
    (forall c b b', brel b b' -> mrel (ropt rd) (rhs c b) (rhs' c b')) ->
    r_ch4 st st' -> brel b b' ->
    mrel r_ch4 (chain_inner_step swidth c opc rhs st b) (chain_inner_step swidth c opc rhs' st' b').
  Proof.
    intros Hop Hrhs Hst Hb. unfold chain_inner_step.
    destruct st as [[[ch ca] so] s], st' as [[[ch' ca'] so'] s']. destruct Hst as (Hch & E1 & E2 & E3).
    cbn in Hch, E1, E2, E3. subst ca' so' s'.
    pose proof (Hop s b b' Hb) as Ho. destruct (opc s b) as [s1 oc], (opc s b') as [s1' oc'].
    destruct Ho as [E Ho]. cbn in E, Ho. subst s1'.
    pose proof (rc_op_num _ _ _ _ Hch) as En. pose proof (rc_has_comment _ _ _ _ Hch) as Ec.
    destruct Ho as [|op op' Hop'].
    - rewrite <- (same_is_comment_b _ _ Hb), <- (same_bk _ _ Hb), <- (same_tx _ _ Hb).
      destruct (is_comment_b b).
      { apply (mrel_bind rd); [apply r_convert_comment; exact Hb|]. intros d d' Hd. apply mrel_ret.
        rsplit. rewrite <- En. apply rchain_snoc; [exact Hch|].
        destruct ca; constructor; exact Hd. }
      destruct (kind_eqb (bk b) KSpace).
      { destruct (has_lb (tx b)); apply mrel_ret; rsplit; [|exact Hch].
        rewrite <- (chain_last_is_comment_rel _ _ (rc_items _ _ _ _ Hch)).
        destruct (chain_last_is_comment _); [|exact Hch]. rewrite <- En, <- Ec. apply rchain_snoc; [exact Hch|constructor]. }
      destruct so; [|apply mrel_ret; rsplit; assumption].
      apply (mrel_bind (ropt rd)); [apply Hrhs; exact Hb|]. intros o o' Ho.
      destruct Ho as [|r r' Hr]; apply mrel_ret; rsplit; [exact Hch|].
      rewrite <- En, <- Ec. apply rchain_snoc; [exact Hch|constructor; exact Hr].
    - apply mrel_ret. rsplit. rewrite <- En, <- Ec.
      apply rchain_snoc; [exact Hch|constructor; exact Hop'].
  Qed.

  Lemma r_chain_outer_step {S} c pred (opc : S -> bundle -> S * option doc) rhs rhs' fb fb' st st' b b' :
    same pred ->
    (forall s b b', brel b b' -> rprod eq (ropt rd) (opc s b) (opc s b')) ->
    (forall c b b', brel b b' -> mrel (ropt rd) (rhs c b) (rhs' c b')) ->
    (forall c b b', brel b b' -> mrel (ropt rd) (fb c b) (fb' c b')) ->
    r_ch3 st st' -> brel b b' ->
    mrel r_ch3 (chain_outer_step swidth c pred opc rhs fb st b) (chain_outer_step swidth c pred opc rhs' fb' st' b').
  Proof.
    intros Hpred Hop Hrhs Hfb Hst Hb. unfold chain_outer_step.
    destruct st as [[ch ca] s], st' as [[ch' ca'] s']. destruct Hst as (Hch & E1 & E2).
    cbn in Hch, E1, E2. subst ca' s'.
    pose proof (rc_op_num _ _ _ _ Hch) as En. pose proof (rc_has_comment _ _ _ _ Hch) as Ec.
    rewrite <- (Hpred _ _ Hb). destruct (pred b).
    - apply (mrel_bind r_ch4).
      + apply (mrel_foldM brel r_ch4); [apply brel_kids; exact Hb| |].
        * rsplit. rewrite <- En, <- Ec. constructor; cbn; auto. apply Hch.
        * intros x x' k k' Hx Hk. apply r_chain_inner_step; assumption.
      + intros [[[ch1 ca1] so1] s1] [[[ch1' ca1'] so1'] s1'] (H1 & E1 & E2 & E3). cbn in H1, E1, E2, E3. subst.
        apply mrel_ret. rsplit; assumption.
    - apply (mrel_bind (ropt rd)); [apply Hfb; exact Hb|]. intros o o' Ho.
      destruct Ho as [|x x' Hx]; [apply mrel_ret; rsplit; assumption|].
      pose proof (Forall2_rev _ _ _ (rc_items _ _ _ _ Hch)) as Hr.
      destruct Hr as [|y y' r r' Hy Hr].
      + apply mrel_ret. rsplit. rewrite <- En, <- Ec.
        apply rchain_snoc; [exact Hch|constructor; exact Hx].
      + destruct Hy; try (apply mrel_ret; rsplit; rewrite <- En, <- Ec;
                          apply rchain_snoc; [exact Hch|constructor; exact Hx]).
        apply mrel_ret. rsplit. rewrite <- En, <- Ec. constructor; cbn; auto.
        apply Forall2_snoc; [apply Forall2_rev; exact Hr|]. constructor. auto with rdb.
  Qed.

  Lemma r_chain_process {S} c nodes nodes' (s0 : S) pred opc rhs rhs' fb fb' :
    Forall2 brel nodes nodes' -> same pred ->
    (forall s b b', brel b b' -> rprod eq (ropt rd) (opc s b) (opc s b')) ->
    (forall c b b', brel b b' -> mrel (ropt rd) (rhs c b) (rhs' c b')) ->
    (forall c b b', brel b b' -> mrel (ropt rd) (fb c b) (fb' c b')) ->
    mrel rchain' (chain_process swidth c nodes s0 pred opc rhs fb) (chain_process swidth c nodes' s0 pred opc rhs' fb').
  Proof.
    intros Hn Hpred Hop Hrhs Hfb. unfold chain_process. apply (mrel_bind r_ch3).
    - apply (mrel_foldM brel r_ch3); [exact Hn|rsplit; apply rchain_new|].
      intros st st' b b' Hst Hb. apply r_chain_outer_step; assumption.
    - intros [[ch ca] s] [[ch' ca'] s'] (H & _). apply mrel_ret. exact H.
  Qed.

  Definition r_plain (p p' : list plain_item * bool) : Prop := Forall2 rpi' (fst p) (fst p') /\ snd p = snd p'.

  Lemma r_plain_process c nodes nodes' conv conv' :
    Forall2 brel nodes nodes' ->
    (forall c b b', brel b b' -> mrel (ropt rd) (conv c b) (conv' c b')) ->
    mrel r_plain (plain_process swidth c1 c nodes conv) (plain_process swidth c2 c nodes' conv').
  Proof.
    intros Hn Hc. unfold plain_process. rewrite <- Hblank. apply (mrel_bind r_plain).
    - apply (mrel_foldM brel r_plain); [exact Hn|split; [constructor|reflexivity]|].
      intros [its ml] [its' ml'] b b' [Hi E] Hb. cbn in Hi, E. subst ml'.
      rewrite <- (same_bk _ _ Hb), <- (same_tx _ _ Hb).
      assert (Hdef : mrel r_plain
                (o <- conv c b ;; match o with Some d => ret (its ++ [PItem d], ml) | None => ret (its, ml) end)
                (o <- conv' c b' ;; match o with Some d => ret (its' ++ [PItem d], ml) | None => ret (its', ml) end)).
      { apply (mrel_bind (ropt rd)); [apply Hc; exact Hb|]. intros o o' Ho.
        destruct Ho; apply mrel_ret; split; cbn; auto. apply Forall2_snoc; [assumption|constructor; assumption]. }
      destruct (bk b); try exact Hdef.
      + apply (mrel_bind rd); [apply r_convert_comment; exact Hb|]. intros d d' Hd. apply mrel_ret.
        split; cbn; auto. apply Forall2_snoc; [assumption|constructor; assumption].
      + apply (mrel_bind rd); [apply r_convert_comment; exact Hb|]. intros d d' Hd. apply mrel_ret.
        split; cbn; auto. apply Forall2_snoc; [assumption|constructor; assumption].
      + destruct (0 <? _); [|apply mrel_ret; split; cbn; auto].
        destruct Hi as [|x y l l' Hxy Hi]; apply mrel_ret; split; cbn [fst snd]; try reflexivity.
        * constructor.
        * apply (Forall2_snoc _ (x :: l) (y :: l')); [constructor; assumption|constructor].
      + apply mrel_ret. split; cbn; auto. apply Forall2_snoc; [assumption|constructor].
    - intros [its ml] [its' ml'] [Hi E]. cbn in Hi, E. subst ml'. apply mrel_ret. split; cbn; auto.
      apply Forall2_rev, pop_plain_rel, Forall2_rev. exact Hi.
  Qed.
  (* ---------------- tactics for the converters ---------------- *)
  Ltac bsame Hb :=
    rewrite <- ?(same_bk _ _ Hb), <- ?(same_tx _ _ Hb), <- ?(same_is_comment_b _ _ Hb), ?(brel_bt _ _ Hb),
            <- ?(Forall2_nil_iff _ _ _ (brel_kids _ _ Hb)), <- ?(same_has_comment_children _ _ Hb).
  Ltac psame := let H := fresh "Hs" in intros ? ? H; bsame H; try reflexivity.
  Ltac rleaf :=
    unfold fi_spaced, fi_spaced_before, fi_tight_spaced, fi_spaced_tight, fi_tight, fi_none;
    repeat first [ assumption
                 | match goal with |- _ (if ?c then _ else _) (if ?c then _ else _) => destruct c end
                 | apply ropt_some | apply ropt_none | apply rfi_intro
                 | (split; cbn [fst snd]; [reflexivity|]) ];
    repeat match goal with
           | |- rdoc _ _ (if ?c then _ else _) _ => destruct c
           end;
    auto with rdb.
  Ltac mstep Hb :=
    lazymatch goal with
    | |- mrel _ (ret _) (ret _) => apply mrel_ret
    | |- mrel _ (panic _) (panic _) => apply mrel_panic
    | |- mrel _ (bind (call _ _) _) (bind (call _ _) _) =>
        apply (mrel_bind rd); [apply brel_call; exact Hb | intros ? ? ?]
    | |- mrel _ (if ?c then _ else _) (if ?c then _ else _) => destruct c
    | |- mrel _ (match ?x with _ => _ end) (match ?x with _ => _ end) => destruct x
    end.
  Ltac mauto Hb := bsame Hb; repeat (mstep Hb); try rleaf.
  Ltac lrel :=
    repeat first [ assumption | apply Forall2_rev | apply filter_brel; [psame|] | apply take_until_rparen_brel
                 | apply skip_until_brel | apply firstn_rel | apply skipn_rel | apply removelast_rel
                 | apply brel_kids | apply tl_rel ].

  Lemma rd_optional_paren d d' op cl : rd d d' -> rd (optional_paren swidth c1 d op cl) (optional_paren swidth c2 d' op cl).
  Proof. intros H. unfold optional_paren. auto 8 with rdb. Qed.
  Hint Resolve rd_optional_paren : rdb.

  Lemma r_parenthesize_if_necessary c body body' :
    (forall c, mrel rd (body c) (body' c)) ->
    mrel rd (parenthesize_if_necessary swidth c1 c body) (parenthesize_if_necessary swidth c2 c body').
  Proof.
    intros H. unfold parenthesize_if_necessary. destruct (is_code_cont _); [apply H|].
    apply (mrel_bind rd); [apply H|]. intros d d' Hd. apply mrel_ret. auto with rdb.
  Qed.

  Lemma r_convert_expr_with_optional_paren c b b' ub :
    brel b b' ->
    mrel rd (convert_expr_with_optional_paren swidth c1 c b ub) (convert_expr_with_optional_paren swidth c2 c b' ub).
  Proof.
    intros Hb. unfold convert_expr_with_optional_paren. bsame Hb.
    destruct (c_supp c || _); [apply brel_call; exact Hb|].
    destruct ub; (apply (mrel_bind rd); [apply brel_call; exact Hb|]); intros d d' Hd; apply mrel_ret; auto with rdb.
  Qed.

  Lemma r_convert_arg c b b' : brel b b' -> mrel rd (convert_arg c b) (convert_arg c b').
  Proof. intros Hb. unfold convert_arg. bsame Hb. destruct (bk b); apply brel_call; exact Hb. Qed.
  Lemma r_convert_array_item c b b' : brel b b' -> mrel rd (convert_array_item c b) (convert_array_item c b').
  Proof. intros Hb. unfold convert_array_item. bsame Hb. destruct (bk b); apply brel_call; exact Hb. Qed.
  Lemma r_convert_dict_item c b b' : brel b b' -> mrel rd (convert_dict_item c b) (convert_dict_item c b').
  Proof. intros Hb. unfold convert_dict_item. bsame Hb. destruct (bk b); apply brel_call; exact Hb. Qed.
  Lemma r_convert_param c b b' : brel b b' -> mrel rd (convert_param c b) (convert_param c b').
  Proof. intros Hb. unfold convert_param. bsame Hb. destruct (bk b); apply brel_call; exact Hb. Qed.

  Lemma r_opt_conv p f f' :
    (forall c b b', brel b b' -> mrel rd (f c b) (f' c b')) ->
    forall c b b', brel b b' -> mrel (ropt rd) (opt_conv p f c b) (opt_conv p f' c b').
  Proof.
    intros Hf c b b' Hb. unfold opt_conv. bsame Hb. destruct (p (bt b)); [|apply mrel_ret; constructor].
    apply (mrel_bind rd); [apply Hf; exact Hb|]. intros d d' Hd. apply mrel_ret. constructor. exact Hd.
  Qed.
  Lemma r_call_expr c b b' : brel b b' -> mrel rd (call b (RExpr c)) (call b' (RExpr c)).
  Proof. apply brel_call. Qed.
  Lemma r_call_pattern c b b' : brel b b' -> mrel rd (call b (RPattern c)) (call b' (RPattern c)).
  Proof. apply brel_call. Qed.

  (* ---------------- markup.rs ---------------- *)
  Record rml (m m' : markup_line) : Prop := mk_rml {
    rml_nodes : Forall2 brel (ml_nodes m) (ml_nodes m');
    rml_breaks : ml_breaks m = ml_breaks m';
    rml_mixed : ml_mixed m = ml_mixed m' }.
  Definition r_repr (p p' : list markup_line * markup_line * boundary) : Prop :=
    Forall2 rml (fst (fst p)) (fst (fst p')) /\ rml (snd (fst p)) (snd (fst p')) /\ snd p = snd p'.

  Lemma same_is_block_elem : same is_block_elem.
  Proof. psame. unfold is_block_elem. bsame Hs. reflexivity. Qed.

  Lemma repr_step_rel st st' b b' : r_repr st st' -> brel b b' -> r_repr (repr_step st b) (repr_step st' b').
  Proof.
    intros Hst Hb. destruct st as [[lines cur] sb], st' as [[lines' cur'] sb'].
    destruct Hst as (Hl & Hc & E). cbn in Hl, Hc, E. subst sb'.
    destruct Hc as [Hn Hbr Hmx]. unfold repr_step. bsame Hb.
    rewrite <- (Forall2_nil_iff _ _ _ Hn), <- Hbr, <- Hmx, <- (same_is_block_elem _ _ Hb).
    destruct (kind_eqb (bk b) KParbreak).
    { repeat split; cbn [fst snd]; auto; try constructor; auto.
      apply Forall2_snoc; [exact Hl|]. constructor; cbn; auto. }
    destruct (kind_eqb (bk b) KSpace && _).
    { repeat split; cbn [fst snd]; auto. }
    destruct (kind_eqb (bk b) KSpace && _).
    { repeat split; cbn [fst snd]; auto; try constructor; auto.
      apply Forall2_snoc; [exact Hl|]. constructor; cbn; auto. }
    repeat split; cbn [fst snd]; auto. apply Forall2_snoc; assumption.
  Qed.

  Lemma strip_trailing_spaces_rel rn rn' eb :
    Forall2 brel rn rn' ->
    Forall2 brel (fst (strip_trailing_spaces rn eb)) (fst (strip_trailing_spaces rn' eb)) /\
    snd (strip_trailing_spaces rn eb) = snd (strip_trailing_spaces rn' eb).
  Proof.
    intros H. revert eb. induction H as [|x y l l' Hxy H IH]; intros eb; cbn [strip_trailing_spaces].
    - split; [constructor|reflexivity].
    - bsame Hxy. rewrite <- (same_is_block_elem _ _ Hxy). destruct (kind_eqb (bk x) KSpace); [apply IH|].
      split; cbn [fst snd]; [constructor; assumption|reflexivity].
  Qed.

  Lemma bound_through_comments_rel nodes nodes' o o' :
    Forall2 brel nodes nodes' -> ropt brel o o' -> bound_through_comments nodes o = bound_through_comments nodes' o'.
  Proof.
    intros Hn Ho. unfold bound_through_comments. destruct Ho as [|b b' Hb].
    - destruct Hn; reflexivity.
    - bsame Hb. rewrite <- (same_is_block_elem _ _ Hb). reflexivity.
  Qed.

  Record rmr (r r' : markup_repr) : Prop := mk_rmr {
    rmr_lines : Forall2 rml (mr_lines r) (mr_lines r');
    rmr_start : mr_start r = mr_start r';
    rmr_end : mr_end r = mr_end r' }.

  Lemma collect_markup_repr_rel kids kids' :
    Forall2 brel kids kids' -> rmr (collect_markup_repr kids) (collect_markup_repr kids').
  Proof.
    intros Hk. unfold collect_markup_repr.
    assert (G : r_repr (fold_left repr_step kids ([], ml_empty, BNil)) (fold_left repr_step kids' ([], ml_empty, BNil))).
    { apply (fold_left_rel r_repr brel); [exact Hk| |intros; apply repr_step_rel; assumption].
      repeat split; cbn; auto; constructor. }
    destruct (fold_left repr_step kids _) as [[lines0 cur] sb].
    destruct (fold_left repr_step kids' _) as [[lines0' cur'] sb'].
    destruct G as (Hl0 & Hcur & E). cbn in Hl0, Hcur, E. subst sb'.
    assert (Hl1 : Forall2 rml (match ml_nodes cur with [] => lines0 | _ => lines0 ++ [cur] end)
                              (match ml_nodes cur' with [] => lines0' | _ => lines0' ++ [cur'] end)).
    { pose proof (rml_nodes _ _ Hcur) as Hn. destruct Hn; [exact Hl0|]. apply Forall2_snoc; assumption. }
    set (lines1 := match ml_nodes cur with [] => lines0 | _ => lines0 ++ [cur] end) in *.
    set (lines1' := match ml_nodes cur' with [] => lines0' | _ => lines0' ++ [cur'] end) in *.
    clearbody lines1 lines1'.
    assert (H2 : exists l2 l2' eb,
      (match rev lines1 with
       | last :: r =>
           let '(breaks, eb0) := if 0 <? ml_breaks last then (ml_breaks last - 1, BBreak) else (ml_breaks last, BNil) in
           let '(rn, eb1) := strip_trailing_spaces (rev (ml_nodes last)) eb0 in
           (rev r ++ [mk_ml (rev rn) breaks (ml_mixed last)], eb1)
       | [] => ([], BNil)
       end) = (l2, eb) /\
      (match rev lines1' with
       | last :: r =>
           let '(breaks, eb0) := if 0 <? ml_breaks last then (ml_breaks last - 1, BBreak) else (ml_breaks last, BNil) in
           let '(rn, eb1) := strip_trailing_spaces (rev (ml_nodes last)) eb0 in
           (rev r ++ [mk_ml (rev rn) breaks (ml_mixed last)], eb1)
       | [] => ([], BNil)
       end) = (l2', eb) /\ Forall2 rml l2 l2').
    { pose proof (Forall2_rev _ _ _ Hl1) as Hr. destruct Hr as [|x y r r' Hxy Hr].
      - exists [], [], BNil. repeat split. constructor.
      - destruct Hxy as [Hn Hbr Hmx]. rewrite <- Hbr, <- Hmx.
        set (p := if 0 <? ml_breaks x then (ml_breaks x - 1, BBreak) else (ml_breaks x, BNil)).
        destruct p as [breaks eb0].
        destruct (strip_trailing_spaces_rel _ _ eb0 (Forall2_rev _ _ _ Hn)) as [Hs1 Hs2].
        destruct (strip_trailing_spaces (rev (ml_nodes x)) eb0) as [rn eb1].
        destruct (strip_trailing_spaces (rev (ml_nodes y)) eb0) as [rn' eb1']. cbn in Hs1, Hs2. subst eb1'.
        eexists _, _, _. repeat split.
        apply Forall2_snoc; [apply Forall2_rev; exact Hr|]. constructor; cbn; auto. apply Forall2_rev. exact Hs1. }
    destruct H2 as (l2 & l2' & eb & -> & -> & Hl2).
    constructor; cbn [mr_lines mr_start mr_end].
    - exact Hl2.
    - destruct (boundary_eqb sb BNil); [|reflexivity]. destruct Hl2 as [|f f' r r' Hf Hr]; [reflexivity|].
      rewrite (bound_through_comments_rel _ _ _ _ (rml_nodes _ _ Hf)
                 (find_brel (fun b => negb (is_comment_b b)) _ _ ltac:(psame) (rml_nodes _ _ Hf))).
      reflexivity.
    - destruct (boundary_eqb eb BNil); [|reflexivity]. pose proof (Forall2_rev _ _ _ Hl2) as Hr.
      destruct Hr as [|f f' r r' Hf Hr]; [reflexivity|].
      rewrite (bound_through_comments_rel _ _ _ _ (rml_nodes _ _ Hf)
                 (find_brel (fun b => negb (is_comment_b b)) _ _ ltac:(psame) (Forall2_rev _ _ _ (rml_nodes _ _ Hf)))).
      reflexivity.
  Qed.

  Ltac rd_cases :=
    repeat match goal with
           | |- rdoc _ _ (if ?c then _ else _) _ => destruct c
           | |- rdoc _ _ (match ?x with _ => _ end) _ => destruct x
           end; auto with rdb.

  Lemma r_convert_markup_impl t kids kids' c sc :
    Forall2 brel kids kids' ->
    mrel rd (convert_markup_impl swidth t kids c sc) (convert_markup_impl swidth t kids' c sc).
  Proof.
    intros Hk. unfold convert_markup_impl. apply mrel_bump_then.
    rewrite <- (is_only_one_and_brel (fun b => kind_eqb (bk b) KSpace) _ _ ltac:(psame) Hk).
    destruct (is_only_one_and kids _); [apply mrel_ret; constructor|].
    pose proof (collect_markup_repr_rel _ _ Hk) as Hr.
    set (repr := collect_markup_repr kids) in *. set (repr' := collect_markup_repr kids') in *.
    destruct Hr as [Hlines Hst Hen]. rewrite <- Hst, <- Hen.
    apply (mrel_bind rd).
    - apply (mrel_foldM rml rd); [exact Hlines|constructor|].
      intros d d' ln ln' Hd [Hn Hbr Hmx]. rewrite <- Hbr, <- Hmx.
      apply (mrel_bind rd).
      + apply (mrel_foldM brel rd); [exact Hn|exact Hd|].
        intros a a' b b' Ha Hb. apply (mrel_bind rd).
        * bsame Hb. destruct (kind_eqb (bk b) KSpace); [apply mrel_ret; constructor|].
          destruct (kind_eqb (bk b) KText); [apply mrel_ret; auto with rdb|].
          destruct (is_expr (bt b)); [apply brel_call; exact Hb|].
          destruct (is_comment_b b); [apply r_convert_comment; exact Hb|]. apply mrel_ret; auto with rdb.
        * intros x x' Hx. apply mrel_ret. auto with rdb.
      + intros x x' Hx. apply mrel_ret. destruct (0 <? _); auto with rdb.
    - intros d d' Hd. apply mrel_ret. apply rdoc_enclose; [| |exact Hd]; rd_cases.
  Qed.

  Lemma r_call_markup_body kids kids' c sc :
    Forall2 brel kids kids' -> mrel rd (call_markup_body kids c sc) (call_markup_body kids' c sc).
  Proof.
    intros Hk. unfold call_markup_body.
    destruct (find_brel (fun b => kind_eqb (bk b) KMarkup) _ _ ltac:(psame) Hk) as [|m m' Hm].
    - apply mrel_bump_then. apply mrel_ret. constructor.
    - apply brel_call. exact Hm.
  Qed.

  Lemma r_convert_content_block kids kids' c :
    Forall2 brel kids kids' -> mrel rd (convert_content_block swidth c1 kids c) (convert_content_block swidth c2 kids' c).
  Proof.
    intros Hk. unfold convert_content_block. apply (mrel_bind rd); [apply r_call_markup_body; exact Hk|].
    intros d d' Hd. apply mrel_ret. auto 6 with rdb.
  Qed.
  Lemma r_convert_strong kids kids' c :
    Forall2 brel kids kids' -> mrel rd (convert_strong swidth kids c) (convert_strong swidth kids' c).
  Proof.
    intros Hk. unfold convert_strong. apply (mrel_bind rd); [apply r_call_markup_body; exact Hk|].
    intros d d' Hd. apply mrel_ret. auto 6 with rdb.
  Qed.
  Lemma r_convert_emph kids kids' c :
    Forall2 brel kids kids' -> mrel rd (convert_emph swidth kids c) (convert_emph swidth kids' c).
  Proof.
    intros Hk. unfold convert_emph. apply (mrel_bind rd); [apply r_call_markup_body; exact Hk|].
    intros d d' Hd. apply mrel_ret. auto 6 with rdb.
  Qed.

  Lemma rd_convert_raw t kids kids' : Forall2 brel kids kids' -> rd (convert_raw swidth t kids) (convert_raw swidth t kids').
  Proof.
    intros Hk. unfold convert_raw. destruct (negb _ && _); [auto with rdb|].
    apply (fold_left_rel rd brel); [exact Hk|constructor|].
    intros a a' b b' Ha Hb. bsame Hb. destruct (bk b); auto with rdb. destruct (has_lb _); auto with rdb.
  Qed.

  Lemma r_convert_ref t kids kids' c :
    Forall2 brel kids kids' -> mrel rd (convert_ref swidth t kids c) (convert_ref swidth t kids' c).
  Proof.
    intros Hk. unfold convert_ref.
    destruct (find_brel (fun b => kind_eqb (bk b) KContentBlock) _ _ ltac:(psame) (Forall2_rev _ _ _ Hk)) as [|m m' Hm].
    - apply mrel_ret. auto with rdb.
    - apply (mrel_bind rd); [apply brel_call; exact Hm|]. intros x x' Hx. apply mrel_ret. auto with rdb.
  Qed.

  Lemma r_convert_heading kids kids' c :
    Forall2 brel kids kids' -> mrel rd (convert_heading swidth kids c) (convert_heading swidth kids' c).
  Proof. intros Hk. unfold convert_heading. apply r_flow_like; [exact Hk|]. intros c0 b b' Hb. mauto Hb. Qed.

  Lemma r_convert_list_item_like kids kids' c :
    Forall2 brel kids kids' ->
    mrel rd (convert_list_item_like swidth c1 kids c) (convert_list_item_like swidth c2 kids' c).
  Proof.
    intros Hk. unfold convert_list_item_like. apply (mrel_bind rd).
    - apply r_flow_like; [exact Hk|]. intros c0 b b' Hb. mauto Hb.
    - intros d d' Hd. apply mrel_ret. auto with rdb.
  Qed.
  (* ---------------- math.rs ---------------- *)
  Definition r_db (p p' : doc * bool) : Prop := rd (fst p) (fst p') /\ snd p = snd p'.

  Lemma r_convert_math t kids kids' c :
    Forall2 brel kids kids' -> mrel rd (convert_math swidth t kids c) (convert_math swidth t kids' c).
  Proof.
    intros Hk. unfold convert_math. apply mrel_bump_then. unfold check_disabled.
    destruct (a_disabled _); [apply mrel_ret; auto with rdb|].
    apply (mrel_bind r_db).
    - apply (mrel_foldM brel r_db); [exact Hk|split; [constructor|reflexivity]|].
      intros [d ah] [d' ah'] b b' [Hd E] Hb. cbn in Hd, E. subst ah'. bsame Hb.
      destruct (is_expr (bt b)).
      { apply (mrel_bind rd); [apply brel_call; exact Hb|]. intros x x' Hx. apply mrel_ret. split; cbn; auto with rdb. }
      destruct (kind_eqb (bk b) KSpace); [apply mrel_ret; split; cbn; auto with rdb|].
      destruct (kind_eqb (bk b) KHash); apply mrel_ret; split; cbn; auto with rdb.
    - intros [d ah] [d' ah'] [Hd _]. apply mrel_ret. exact Hd.
  Qed.

  Lemma r_convert_math_delimited kids kids' c :
    Forall2 brel kids kids' ->
    mrel rd (convert_math_delimited swidth c1 kids c) (convert_math_delimited swidth c2 kids' c).
  Proof.
    intros Hk. unfold convert_math_delimited.
    destruct Hk as [|k0 k0' rest rest' Hk0 Hrest]; [apply mrel_panic|].
    assert (Hkids : Forall2 brel (k0 :: rest) (k0' :: rest')) by (constructor; assumption).
    destruct Hrest as [|k1 k1' r r' Hk1 Hr]; [apply mrel_panic|].
    assert (Hrest : Forall2 brel (k1 :: r) (k1' :: r')) by (constructor; assumption).
    pose proof (removelast_rel brel _ _ Hrest) as Hi0.
    set (inner0 := removelast (k1 :: r)) in *. set (inner0' := removelast (k1' :: r')) in *.
    clearbody inner0 inner0'.
    assert (H1 : exists os i1 i1',
      (match inner0 with
       | first :: r => if kind_eqb (bk first) KSpace then (convert_space_text (tx first), r) else (DNil, inner0)
       | [] => (DNil, inner0) end) = (os, i1) /\
      (match inner0' with
       | first :: r => if kind_eqb (bk first) KSpace then (convert_space_text (tx first), r) else (DNil, inner0')
       | [] => (DNil, inner0') end) = (os, i1') /\ Forall2 brel i1 i1' /\ rd os os).
    { destruct Hi0 as [|f f' q q' Hf Hq].
      - eexists _, _, _. repeat split; constructor.
      - bsame Hf. destruct (kind_eqb (bk f) KSpace); eexists _, _, _; repeat split; auto with rdb. }
    destruct H1 as (os & i1 & i1' & -> & -> & Hi1 & Hos).
    assert (H2 : exists cs i2 i2',
      (match split_last i1 with
       | Some (r, last) => if kind_eqb (bk last) KSpace then (convert_space_text (tx last), r) else (DNil, i1)
       | None => (DNil, i1) end) = (cs, i2) /\
      (match split_last i1' with
       | Some (r, last) => if kind_eqb (bk last) KSpace then (convert_space_text (tx last), r) else (DNil, i1')
       | None => (DNil, i1') end) = (cs, i2') /\ Forall2 brel i2 i2' /\ rd cs cs).
    { destruct (split_last_rel brel _ _ Hi1) as [|[q l] [q' l'] [Hq Hl]].
      - eexists _, _, _. repeat split; auto with rdb.
      - cbn in Hq, Hl. bsame Hl. destruct (kind_eqb (bk l) KSpace); eexists _, _, _; repeat split; auto with rdb. }
    destruct H2 as (cs & i2 & i2' & -> & -> & Hi2 & Hcs).
    apply (mrel_bind rd).
    { apply r_flow_like; [exact Hi2|]. intros c0 b b' Hb. mauto Hb. }
    intros body body' Hbody.
    apply (mrel_bind rd).
    { destruct (find_brel (fun b => is_expr (bt b)) _ _ (same_bt is_expr) Hkids) as [|o o' Ho];
        [apply mrel_bump_then, mrel_ret; auto with rdb|apply brel_call; exact Ho]. }
    intros op op' Hop.
    apply (mrel_bind rd).
    { destruct (find_brel (fun b => is_expr (bt b)) _ _ (same_bt is_expr) (Forall2_rev _ _ _ Hkids)) as [|o o' Ho];
        [apply mrel_bump_then, mrel_ret; auto with rdb|apply brel_call; exact Ho]. }
    intros cl cl' Hcl. apply mrel_ret. auto 8 with rdb.
  Qed.

  Lemma r_convert_math_attach_like kids kids' c :
    Forall2 brel kids kids' -> mrel rd (convert_math_attach_like swidth kids c) (convert_math_attach_like swidth kids' c).
  Proof. intros Hk. unfold convert_math_attach_like. apply r_flow_like; [exact Hk|]. intros c0 b b' Hb. mauto Hb. Qed.
  Lemma r_convert_math_frac kids kids' c :
    Forall2 brel kids kids' -> mrel rd (convert_math_frac swidth kids c) (convert_math_frac swidth kids' c).
  Proof. intros Hk. unfold convert_math_frac. apply r_flow_like; [exact Hk|]. intros c0 b b' Hb. mauto Hb. Qed.

  Lemma r_convert_equation t kids kids' c :
    Forall2 brel kids kids' -> mrel rd (convert_equation swidth c1 t kids c) (convert_equation swidth c2 t kids' c).
  Proof.
    intros Hk. unfold convert_equation.
    assert (Et : match nth_back 1 kids, nth_back 2 kids with
                 | Some a, Some b => kind_eqb (bk a) KSpace && kind_eqb (bk b) KMath | _, _ => false end =
                 match nth_back 1 kids', nth_back 2 kids' with
                 | Some a, Some b => kind_eqb (bk a) KSpace && kind_eqb (bk b) KMath | _, _ => false end).
    { destruct (nth_back_brel 1 _ _ Hk) as [|a a' Ha]; [reflexivity|].
      destruct (nth_back_brel 2 _ _ Hk) as [|b b' Hb]; [reflexivity|]. bsame Ha. bsame Hb. reflexivity. }
    rewrite <- Et.
    apply (mrel_bind (rlst (tab_spaces c1) (tab_spaces c2))).
    - apply r_lst_process; [apply rlst_with_fold_style, rlst_new|exact Hk|].
      intros c0 b b' Hb. bsame Hb. destruct (kind_eqb (bk b) KMath && _); [|apply mrel_ret; constructor].
      assert (El : match find (fun b => is_expr (bt b) || kind_eqb (bk b) KSpace) (rev (bkids b)) with
                   | Some e => kind_eqb (bk e) KLinebreak | None => false end =
                   match find (fun b => is_expr (bt b) || kind_eqb (bk b) KSpace) (rev (bkids b')) with
                   | Some e => kind_eqb (bk e) KLinebreak | None => false end).
      { destruct (find_brel (fun b => is_expr (bt b) || kind_eqb (bk b) KSpace) _ _ ltac:(psame)
                    (Forall2_rev _ _ _ (brel_kids _ _ Hb))) as [|e e' He]; [reflexivity|]. bsame He. reflexivity. }
      rewrite <- El.
      apply (mrel_bind rd); [apply brel_call; exact Hb|]. intros x x' Hx. apply mrel_ret. constructor.
      destruct (negb _ && _); auto with rdb.
    - intros l l' Hl. apply mrel_ret. apply rd_lst_doc. exact Hl.
  Qed.

  (* ---------------- code_flow.rs ---------------- *)
  Ltac flow_conv name :=
    let Hk := fresh "Hk" in let Hb := fresh "Hb" in
    intros Hk; unfold name; first [apply r_flow_like | apply r_flow_like_iter]; [exact Hk|]; intros; 
    match goal with H : brel _ _ |- _ => mauto H end.

  Lemma r_convert_named kids kids' c :
    Forall2 brel kids kids' -> mrel rd (convert_named swidth kids c) (convert_named swidth kids' c).
  Proof. flow_conv convert_named. Qed.
  Lemma r_convert_keyed kids kids' c :
    Forall2 brel kids kids' -> mrel rd (convert_keyed swidth kids c) (convert_keyed swidth kids' c).
  Proof. flow_conv convert_keyed. Qed.
  Lemma r_convert_spread kids kids' c :
    Forall2 brel kids kids' -> mrel rd (convert_spread swidth kids c) (convert_spread swidth kids' c).
  Proof. flow_conv convert_spread. Qed.
  Lemma r_convert_unary t kids kids' c :
    Forall2 brel kids kids' -> mrel rd (convert_unary swidth t kids c) (convert_unary swidth t kids' c).
  Proof. flow_conv convert_unary. Qed.
  Lemma r_expr_flow kids kids' c :
    Forall2 brel kids kids' -> mrel rd (expr_flow swidth kids c) (expr_flow swidth kids' c).
  Proof. flow_conv expr_flow. Qed.
  Lemma r_convert_let_binding kids kids' c :
    Forall2 brel kids kids' -> mrel rd (convert_let_binding swidth kids c) (convert_let_binding swidth kids' c).
  Proof. flow_conv convert_let_binding. Qed.
  Lemma r_convert_destruct_assignment kids kids' c :
    Forall2 brel kids kids' -> mrel rd (convert_destruct_assignment swidth kids c) (convert_destruct_assignment swidth kids' c).
  Proof. flow_conv convert_destruct_assignment. Qed.
  Lemma r_convert_set_rule kids kids' c :
    Forall2 brel kids kids' -> mrel rd (convert_set_rule swidth kids c) (convert_set_rule swidth kids' c).
  Proof. flow_conv convert_set_rule. Qed.
  Lemma r_convert_show_rule kids kids' c :
    Forall2 brel kids kids' -> mrel rd (convert_show_rule swidth kids c) (convert_show_rule swidth kids' c).
  Proof. flow_conv convert_show_rule. Qed.

  Lemma r_convert_closure t kids kids' c :
    Forall2 brel kids kids' -> mrel rd (convert_closure swidth c1 t kids c) (convert_closure swidth c2 t kids' c).
  Proof.
    intros Hk. unfold convert_closure. apply r_flow_like_iter; [exact Hk|]. intros la c0 b b' Hb. bsame Hb.
    destruct (kind_eqb (bk b) KEq); [apply mrel_ret; rleaf|].
    destruct (kind_eqb (bk b) KArrow); [apply mrel_ret; rleaf|].
    destruct la.
    - destruct (kind_eqb (bk b) KIdent); apply mrel_ret; rleaf.
    - destruct (kind_eqb (bk b) KParams); [|apply mrel_ret; rleaf].
      apply (mrel_bind rd); [apply brel_call; exact Hb|]. intros d d' Hd. apply mrel_ret; rleaf.
    - destruct (is_expr (bt b)); [|apply mrel_ret; rleaf].
      apply (mrel_bind rd); [apply r_convert_expr_with_optional_paren; exact Hb|].
      intros d d' Hd. apply mrel_ret; rleaf.
  Qed.

  Lemma r_convert_for_loop kids kids' c :
    Forall2 brel kids kids' -> mrel rd (convert_for_loop swidth c1 kids c) (convert_for_loop swidth c2 kids' c).
  Proof.
    intros Hk. unfold convert_for_loop. apply r_flow_like_iter; [exact Hk|]. intros la c0 b b' Hb. bsame Hb.
    destruct la.
    - destruct (is_pattern (bt b)); [|apply mrel_ret; rleaf].
      apply (mrel_bind rd); [apply brel_call; exact Hb|]. intros d d' Hd. apply mrel_ret; rleaf.
    - destruct (is_expr (bt b)); [|apply mrel_ret; rleaf].
      apply (mrel_bind rd); [apply r_convert_expr_with_optional_paren; exact Hb|].
      intros d d' Hd. apply mrel_ret; rleaf.
    - destruct (is_expr (bt b)); [|apply mrel_ret; rleaf].
      apply (mrel_bind rd); [apply brel_call; exact Hb|]. intros d d' Hd. apply mrel_ret; rleaf.
  Qed.

  (* ---------------- chains ---------------- *)
  Lemma resolve_chain_brel next depth b b' :
    (forall b b', brel b b' -> ropt brel (next b) (next b')) ->
    brel b b' -> Forall2 brel (resolve_chain next depth b) (resolve_chain next depth b').
  Proof.
    intros Hn. revert b b'. induction depth as [|d IH]; intros b b' Hb; cbn [resolve_chain].
    - constructor; [exact Hb|constructor].
    - destruct (Hn _ _ Hb) as [|x x' Hx]; constructor; auto.
  Qed.
  Lemma dot_chain_next_brel b b' : brel b b' -> ropt brel (dot_chain_next b) (dot_chain_next b').
  Proof.
    intros Hb. unfold dot_chain_next. bsame Hb. destruct (bk b); try constructor; apply first_kid_brel; exact Hb.
  Qed.
  Lemma resolve_dot_chain_brel b b' : brel b b' -> Forall2 brel (resolve_dot_chain b) (resolve_dot_chain b').
  Proof.
    intros Hb. unfold resolve_dot_chain. rewrite (brel_bt _ _ Hb).
    apply resolve_chain_brel; [apply dot_chain_next_brel|exact Hb].
  Qed.
  Lemma binary_chain_next_brel prec b b' : brel b b' -> ropt brel (binary_chain_next prec b) (binary_chain_next prec b').
  Proof.
    intros Hb. unfold binary_chain_next. bsame Hb. destruct (_ && _); [apply first_kid_brel; exact Hb|constructor].
  Qed.
  Lemma resolve_binary_chain_brel b b' : brel b b' -> Forall2 brel (resolve_binary_chain b) (resolve_binary_chain b').
  Proof.
    intros Hb. unfold resolve_binary_chain. rewrite (brel_bt _ _ Hb).
    apply resolve_chain_brel; [apply binary_chain_next_brel|exact Hb].
  Qed.

  Lemma r_convert_binary_chain b b' c :
    brel b b' -> mrel rd (convert_binary_chain swidth c1 b c) (convert_binary_chain swidth c2 b' c).
  Proof.
    intros Hb. unfold convert_binary_chain. rewrite (brel_bt _ _ Hb).
    apply (mrel_bind (rchain (tab_spaces c1) (tab_spaces c2))).
    - apply r_chain_process.
      + apply Forall2_rev, resolve_binary_chain_brel. exact Hb.
      + psame.
      + intros s x x' Hx. bsame Hx.
        destruct (kind_eqb (bk x) KNot); [split; cbn; auto with rdb|].
        destruct (kind_eqb (bk x) KIn && s); [split; cbn; auto with rdb|].
        destruct (binop_from_kind (bk x)); split; cbn; auto with rdb.
      + apply r_opt_conv. intros; apply brel_call; assumption.
      + apply r_opt_conv. intros; apply brel_call; assumption.
    - intros ch ch' Hch. apply r_chain_doc. exact Hch.
  Qed.

  Lemma r_convert_binary b b' c :
    brel b b' -> mrel rd (convert_binary swidth c1 b c) (convert_binary swidth c2 b' c).
  Proof.
    intros Hb. unfold convert_binary. rewrite (brel_bt _ _ Hb). destruct (negb _ && _).
    - apply r_parenthesize_if_necessary. intros c0. apply r_convert_binary_chain. exact Hb.
    - apply r_flow_like; [apply brel_kids; exact Hb|]. intros c0 x x' Hx. mauto Hx.
  Qed.

  Lemma args_of_call_brel b b' : brel b b' -> ropt brel (args_of_call b) (args_of_call b').
  Proof. intros Hb. unfold args_of_call. apply last_kid_brel. exact Hb. Qed.

  Lemma r_convert_dot_chain b b' c :
    brel b b' -> mrel rd (convert_dot_chain swidth c1 b c) (convert_dot_chain swidth c2 b' c).
  Proof.
    intros Hb. unfold convert_dot_chain.
    apply (mrel_bind (rchain (tab_spaces c1) (tab_spaces c2))).
    - apply r_chain_process.
      + apply Forall2_rev, resolve_dot_chain_brel. exact Hb.
      + psame.
      + intros s x x' Hx. bsame Hx. destruct (kind_eqb (bk x) KDot); split; cbn; auto with rdb.
      + intros c0 x x' Hx. bsame Hx. destruct (kind_eqb (bk x) KIdent); apply mrel_ret; auto with rdb.
      + intros c0 x x' Hx. bsame Hx. destruct (kind_eqb (bk x) KFuncCall).
        * destruct (args_of_call_brel _ _ Hx) as [|a a' Ha]; [apply mrel_ret; auto with rdb|].
          apply (mrel_bind rd); [apply brel_call; exact Ha|]. intros d d' Hd. apply mrel_ret; auto with rdb.
        * destruct (is_expr (bt x)); [|apply mrel_ret; constructor].
          apply (mrel_bind rd); [apply brel_call; exact Hx|]. intros d d' Hd. apply mrel_ret; auto with rdb.
    - intros ch ch' Hch. apply r_chain_doc. exact Hch.
  Qed.

  Lemma chain_width_eq : chain_width c1 = chain_width c2.
  Proof. unfold chain_width. rewrite Hwidth. reflexivity. Qed.

  Lemma r_try_convert_dot_chain_plain c l l' :
    Forall2 brel l l' ->
    mrel (ropt rd) (try_convert_dot_chain_plain swidth c1 c l) (try_convert_dot_chain_plain swidth c2 c l').
  Proof.
    intros Hl. unfold try_convert_dot_chain_plain. rewrite <- chain_width_eq.
    pose proof (Forall2_rev _ _ _ Hl) as Hr. set (ch := rev l) in *. set (ch' := rev l') in *. clearbody ch ch'.
    pose proof (Forall2_rev _ _ _ Hr) as Hrr.
    destruct Hr as [|inner inner' tl0 tl0' Hin Htl]; [apply mrel_ret; constructor|].
    assert (Hch : Forall2 brel (inner :: tl0) (inner' :: tl0')) by (constructor; assumption).
    destruct Hrr as [|outer outer' q q' Hout Hq]; [apply mrel_ret; constructor|].
    bsame Hin. bsame Hout. destruct (_ && _); [|apply mrel_ret; constructor].
    assert (Eest : fold_left (fun n b => if kind_eqb (bk b) KFieldAccess then n + byte_len (text_of (field_of b)) + 1 else n)
                             (tl (inner :: tl0)) (byte_len (tx inner)) =
                   fold_left (fun n b => if kind_eqb (bk b) KFieldAccess then n + byte_len (text_of (field_of b)) + 1 else n)
                             (tl (inner' :: tl0')) (byte_len (tx inner))).
    { cbn [tl]. apply (fold_left_rel eq brel); [exact Htl|reflexivity|].
      intros a a' x x' -> Hx. unfold field_of. bsame Hx. reflexivity. }
    rewrite <- Eest. destruct (_ <=? _); [apply mrel_ret; constructor|].
    assert (Hd : rd (fold_left (fun d b => if kind_eqb (bk b) KFieldAccess
                                           then append d (append (text [46]) (convert_trivia swidth (field_of b))) else d)
                               (inner :: tl0) (convert_trivia swidth (bt inner)))
                    (fold_left (fun d b => if kind_eqb (bk b) KFieldAccess
                                           then append d (append (text [46]) (convert_trivia swidth (field_of b))) else d)
                               (inner' :: tl0') (convert_trivia swidth (bt inner)))).
    { apply (fold_left_rel rd brel); [exact Hch|auto with rdb|].
      intros a a' x x' Ha Hx. unfold field_of. bsame Hx. destruct (kind_eqb _ _); auto with rdb. }
    destruct (args_of_call_brel _ _ Hout) as [|a a' Ha]; [apply mrel_ret; constructor; exact Hd|].
    apply (mrel_bind rd); [apply brel_call; exact Ha|]. intros x x' Hx. apply mrel_ret. constructor. auto with rdb.
  Qed.

  Lemma r_try_convert_dot_chain b b' c :
    brel b b' -> mrel (ropt rd) (try_convert_dot_chain swidth c1 b c) (try_convert_dot_chain swidth c2 b' c).
  Proof.
    intros Hb. unfold try_convert_dot_chain. destruct (c_supp c); [apply mrel_ret; constructor|].
    pose proof (resolve_dot_chain_brel _ _ Hb) as Hch.
    set (ch := resolve_dot_chain b) in *. set (ch' := resolve_dot_chain b') in *. clearbody ch ch'.
    rewrite <- (Forall2_len _ _ _ (filter_brel (fun b => kind_eqb (bk b) KFieldAccess) _ _ ltac:(psame) Hch)).
    rewrite <- (Forall2_len _ _ _ (filter_brel (fun b => kind_eqb (bk b) KFuncCall) _ _ ltac:(psame) Hch)).
    rewrite <- (existsb_brel has_comment_children_b _ _ same_has_comment_children Hch).
    apply (mrel_bind (ropt rd)).
    { destruct (_ && _ && _); [apply r_try_convert_dot_chain_plain; exact Hch|apply mrel_ret; constructor]. }
    intros o o' Ho. destruct Ho as [|d d' Hd]; [|apply mrel_ret; constructor; exact Hd].
    destruct (_ && _ && _).
    { apply (mrel_bind rd); [apply r_parenthesize_if_necessary; intros; apply r_convert_dot_chain; exact Hb|].
      intros d d' Hd. apply mrel_ret. constructor. exact Hd. }
    destruct (is_code_mode _); [|apply mrel_ret; constructor].
    apply (mrel_bind rd); [apply r_convert_dot_chain; exact Hb|]. intros d d' Hd. apply mrel_ret. constructor. exact Hd.
  Qed.

  Lemma r_convert_field_access b b' c :
    brel b b' -> mrel rd (convert_field_access swidth c1 b c) (convert_field_access swidth c2 b' c).
  Proof.
    intros Hb. unfold convert_field_access.
    apply (mrel_bind (ropt rd)); [apply r_try_convert_dot_chain; exact Hb|].
    intros o o' Ho. destruct Ho as [|d d' Hd]; [|apply mrel_ret; exact Hd].
    bsame Hb. destruct (has_comment_children_b b).
    - apply r_flow_like; [apply brel_kids; exact Hb|]. intros c0 x x' Hx. mauto Hx.
    - unfold field_of. rewrite (brel_bt _ _ Hb). apply (mrel_bind rd).
      + destruct (first_kid_brel is_expr _ _ Hb) as [|tg tg' Htg];
          [apply mrel_bump_then, mrel_ret; auto with rdb|apply brel_call; exact Htg].
      + intros d d' Hd. apply mrel_ret. auto with rdb.
  Qed.
  (* ---------------- code_list.rs ---------------- *)

  Ltac lst_finish := let l := fresh "l" in let l' := fresh "l'" in let Hl := fresh "Hl" in
    intros l l' Hl; apply mrel_ret; apply rd_lst_doc; try apply rlst_always_fold_if; exact Hl.

  Lemma r_convert_code_block t kids kids' c :
    Forall2 brel kids kids' -> mrel rd (convert_code_block swidth c1 t kids c) (convert_code_block swidth c2 t kids' c).
  Proof.
    intros Hk. unfold convert_code_block. rewrite <- Hblank.
    pose proof (find_brel (fun b => kind_eqb (bk b) KCode) _ _ ltac:(psame) Hk) as Hbody.
    set (body := find (fun b => kind_eqb (bk b) KCode) kids) in *.
    set (body' := find (fun b => kind_eqb (bk b) KCode) kids') in *. clearbody body body'.
    rewrite <- (existsb_brel is_comment_b _ _ same_is_comment_b Hk).
    assert (Hnodes : Forall2 brel (flat_map (fun b => if kind_eqb (bk b) KCode then bkids b else [b]) kids)
                                  (flat_map (fun b => if kind_eqb (bk b) KCode then bkids b else [b]) kids')).
    { apply (flat_map_rel brel brel); [exact Hk|]. intros a a' Ha. bsame Ha.
      destruct (kind_eqb _ _); [apply brel_kids; exact Ha|constructor; [exact Ha|constructor]]. }
    destruct Hbody as [|bd bd' Hbd].
    - apply (mrel_bind rlst'); [|lst_finish].
      apply r_lst_process; [|exact Hnodes|apply r_opt_conv; intros; apply brel_call; assumption].
      apply rlst_keep_linebreak, rlst_with_fold_style, rlst_disallow_front, rlst_new.
    - rewrite (brel_bt _ _ Hbd). destruct (a_disabled _); [apply mrel_ret; auto with rdb|].
      rewrite <- (Forall2_len _ _ _ (filter_brel (fun k => is_expr (bt k)) _ _ (same_bt is_expr) (brel_kids _ _ Hbd))).
      apply (mrel_bind rlst'); [|lst_finish].
      apply r_lst_process; [|exact Hnodes|apply r_opt_conv; intros; apply brel_call; assumption].
      apply rlst_keep_linebreak, rlst_with_fold_style, rlst_disallow_front, rlst_new.
  Qed.

  Lemma r_convert_parenthesized_impl t kids kids' c emb :
    Forall2 brel kids kids' ->
    mrel rd (convert_parenthesized_impl swidth c1 t kids c emb) (convert_parenthesized_impl swidth c2 t kids' c emb).
  Proof.
    intros Hk. unfold convert_parenthesized_impl.
    rewrite <- (existsb_brel is_comment_b _ _ same_is_comment_b Hk).
    apply (mrel_bind rlst'); [|lst_finish].
    apply r_lst_process; [apply rlst_with_fold_style, rlst_new|exact Hk|].
    apply r_opt_conv; intros; apply brel_call; assumption.
  Qed.

  Lemma r_convert_parenthesized t kids kids' c emb :
    Forall2 brel kids kids' ->
    mrel rd (convert_parenthesized swidth c1 t kids c emb) (convert_parenthesized swidth c2 t kids' c emb).
  Proof.
    intros Hk. unfold convert_parenthesized.
    rewrite <- (existsb_brel is_comment_b _ _ same_is_comment_b Hk).
    destruct (find_brel (fun b => is_pattern (bt b)) _ _ (same_bt is_pattern) Hk) as [|p p' Hp].
    - apply r_convert_parenthesized_impl. exact Hk.
    - bsame Hp. destruct (_ && _); [apply brel_call; exact Hp|apply r_convert_parenthesized_impl; exact Hk].
  Qed.

  Lemma r_convert_array t kids kids' c :
    Forall2 brel kids kids' -> mrel rd (convert_array swidth c1 t kids c) (convert_array swidth c2 t kids' c).
  Proof.
    intros Hk. unfold convert_array.
    assert (E1 : match kids with b :: _ => kind_eqb (bk b) KLeftParen | [] => false end =
                 match kids' with b :: _ => kind_eqb (bk b) KLeftParen | [] => false end).
    { destruct Hk as [|x y ? ? Hx ?]; [reflexivity|]. bsame Hx. reflexivity. }
    assert (E2 : match rev kids with b :: _ => kind_eqb (bk b) KComma | [] => false end =
                 match rev kids' with b :: _ => kind_eqb (bk b) KComma | [] => false end).
    { destruct (Forall2_rev _ _ _ Hk) as [|x y ? ? Hx ?]; [reflexivity|]. bsame Hx. reflexivity. }
    rewrite <- E1, <- E2.
    apply (mrel_bind rlst'); [|lst_finish].
    apply r_lst_process; [apply rlst_with_fold_style, rlst_new|exact Hk|].
    apply r_opt_conv; intros; apply r_convert_array_item; assumption.
  Qed.

  Lemma r_convert_dict t kids kids' c :
    Forall2 brel kids kids' -> mrel rd (convert_dict swidth c1 t kids c) (convert_dict swidth c2 t kids' c).
  Proof.
    intros Hk. unfold convert_dict.
    rewrite <- (forallb_brel (fun b => kind_eqb (bk b) KSpread) _ _ ltac:(psame)
                  (filter_brel (fun b => is_dict_item (bt b)) _ _ (same_bt is_dict_item) Hk)).
    apply (mrel_bind rlst'); [|lst_finish].
    apply r_lst_process; [apply rlst_with_fold_style, rlst_new|exact Hk|].
    apply r_opt_conv; intros; apply r_convert_dict_item; assumption.
  Qed.

  Lemma r_convert_destructuring t kids kids' c :
    Forall2 brel kids kids' -> mrel rd (convert_destructuring swidth c1 t kids c) (convert_destructuring swidth c2 t kids' c).
  Proof.
    intros Hk. unfold convert_destructuring.
    rewrite <- (is_only_one_and_brel (fun b => negb (kin (bk b) [KNamed; KSpread])) _ _ ltac:(psame)
                  (filter_brel (fun b => is_destructuring_item (bt b)) _ _ (same_bt is_destructuring_item) Hk)).
    apply (mrel_bind rlst'); [|lst_finish].
    apply r_lst_process; [apply rlst_with_fold_style, rlst_new|exact Hk|].
    apply r_opt_conv; intros; apply r_convert_param; assumption.
  Qed.

  Lemma r_convert_params t kids kids' c u :
    Forall2 brel kids kids' -> mrel rd (convert_params swidth c1 t kids c u) (convert_params swidth c2 t kids' c u).
  Proof.
    intros Hk. unfold convert_params.
    rewrite <- (existsb_brel is_comment_b _ _ same_is_comment_b Hk).
    rewrite <- (is_only_one_and_brel (fun b => kind_eqb (bk b) KUnderscore ||
                                              (is_expr (bt b) && negb (kind_eqb (bk b) KParenthesized))) _ _ ltac:(psame)
                  (filter_brel (fun b => is_param (bt b)) _ _ (same_bt is_param) Hk)).
    apply (mrel_bind rlst'); [|lst_finish].
    apply r_lst_process; [apply rlst_with_fold_style, rlst_new|exact Hk|].
    apply r_opt_conv; intros; apply r_convert_param; assumption.
  Qed.

  (* ---------------- func_call.rs, table.rs ---------------- *)
  Lemma has_parenthesized_args_brel kids kids' :
    Forall2 brel kids kids' -> has_parenthesized_args kids = has_parenthesized_args kids'.
  Proof. intros Hk. unfold has_parenthesized_args. destruct Hk as [|x y ? ? Hx ?]; [reflexivity|]. bsame Hx. reflexivity. Qed.

  Lemma r_convert_parenthesized_args t kids kids' c :
    Forall2 brel kids kids' ->
    mrel rd (convert_parenthesized_args swidth c1 t kids c) (convert_parenthesized_args swidth c2 t kids' c).
  Proof.
    intros Hk. unfold convert_parenthesized_args. rewrite <- Hblank.
    pose proof (take_until_rparen_brel _ _ Hk) as Hch.
    set (ch := take_until_rparen kids) in *. set (ch' := take_until_rparen kids') in *. clearbody ch ch'.
    pose proof (filter_brel (fun b => is_arg (bt b)) _ _ (same_bt is_arg) Hch) as Hargs.
    set (args := filter (fun b => is_arg (bt b)) ch) in *. set (args' := filter (fun b => is_arg (bt b)) ch') in *.
    clearbody args args'.
    match goal with |- mrel _ (bind (lst_process _ (lst_with_fold_style _ ?f) _ _ _) _)
                              (bind (lst_process _ (lst_with_fold_style _ ?f') _ _ _) _) =>
      assert (Ef : f = f') end.
    { destruct (negb (c_supp _)); [|reflexivity].
      destruct Hargs as [|a a' r r' Ha Hr]; [reflexivity|]. destruct Hr; [|reflexivity].
      bsame Ha. destruct (bk a); try reflexivity.
      destruct (first_kid_brel is_expr _ _ Ha) as [|e e' He]; [reflexivity|]. bsame He. reflexivity. }
    rewrite <- Ef.
    apply (mrel_bind rlst'); [|lst_finish].
    apply r_lst_process; [apply rlst_with_fold_style, rlst_keep_linebreak, rlst_new|exact Hch|].
    apply r_opt_conv; intros; apply r_convert_arg; assumption.
  Qed.

  Lemma r_convert_parenthesized_args_as_list kids kids' c :
    Forall2 brel kids kids' ->
    mrel rd (convert_parenthesized_args_as_list swidth c1 kids c) (convert_parenthesized_args_as_list swidth c2 kids' c).
  Proof.
    intros Hk. unfold convert_parenthesized_args_as_list.
    apply (mrel_bind (r_plain)).
    - apply r_plain_process; [apply take_until_rparen_brel, skip_until_brel; exact Hk|].
      apply r_opt_conv; intros; apply r_convert_arg; assumption.
    - intros [its ml] [its' ml'] [Hi E]. cbn in Hi, E. subst ml'. apply mrel_ret.
      apply rdoc_enclose; auto with rdb. apply rdoc_nest_unit; auto. apply rdoc_plain_print. exact Hi.
  Qed.

  Lemma r_convert_additional_args kids kids' c hp :
    Forall2 brel kids kids' -> mrel rd (convert_additional_args kids c hp) (convert_additional_args kids' c hp).
  Proof.
    intros Hk. unfold convert_additional_args.
    apply (mrel_foldM brel rd); [|constructor|].
    - apply filter_brel; [psame|]. apply skip_until_brel. exact Hk.
    - intros d d' b b' Hd Hb. apply (mrel_bind rd); [apply brel_call; exact Hb|].
      intros x x' Hx. apply mrel_ret. auto with rdb.
  Qed.

  Lemma r_convert_args t kids kids' c :
    Forall2 brel kids kids' -> mrel rd (convert_args swidth c1 t kids c) (convert_args swidth c2 t kids' c).
  Proof.
    intros Hk. unfold convert_args. rewrite <- (has_parenthesized_args_brel _ _ Hk).
    apply (mrel_bind rd).
    - destruct (has_parenthesized_args kids); [apply r_convert_parenthesized_args; exact Hk|apply mrel_ret; constructor].
    - intros p p' Hp. apply (mrel_bind rd); [apply r_convert_additional_args; exact Hk|].
      intros a a' Ha. apply mrel_ret. auto with rdb.
  Qed.

  Lemma r_convert_args_in_math t kids kids' c :
    Forall2 brel kids kids' -> mrel rd (convert_args_in_math swidth c1 t kids c) (convert_args_in_math swidth c2 t kids' c).
  Proof.
    intros Hk. unfold convert_args_in_math.
    rewrite <- (Forall2_len _ _ _ Hk).
    rewrite <- (position_brel (fun b => negb (kin (bk b) [KLeftParen; KSpace])) _ _ 0 ltac:(psame) Hk).
    rewrite <- (position_brel (fun b => negb (kin (bk b) [KRightParen; KSpace])) _ _ 0 ltac:(psame) (Forall2_rev _ _ _ Hk)).
    set (i := match position _ kids 0 with Some i => i | None => 0%nat end).
    set (j := match position _ (rev kids) 0 with Some r => (length kids - 1 - r)%nat | None => (length kids - 1)%nat end).
    assert (Hch : Forall2 brel (if Nat.ltb j i then [] else firstn (j + 1 - i) (skipn i kids))
                               (if Nat.ltb j i then [] else firstn (j + 1 - i) (skipn i kids'))).
    { destruct (Nat.ltb j i); [constructor|]. apply firstn_rel, skipn_rel. exact Hk. }
    apply (mrel_bind rd).
    - apply r_flow_like_iter; [exact Hch|]. intros peek c0 b b' Hb. bsame Hb.
      destruct (bk b);
        try (destruct (is_arg (bt b)); [|apply mrel_ret; rleaf];
             apply (mrel_bind rd); [apply r_convert_arg; exact Hb|]; intros d d' Hd; apply mrel_ret;
             unfold is_ends_with_hashed_expr; rewrite (brel_bt _ _ Hb); rleaf);
        apply mrel_ret; rleaf.
    - intros inner inner' Hin. destruct (a_multiline _); apply mrel_ret; auto 8 with rdb.
  Qed.

  Lemma same_callee_text : same callee_text_of_call.
  Proof.
    intros b b' Hb. unfold callee_text_of_call. destruct (first_kid_brel is_expr _ _ Hb) as [|x x' Hx]; [reflexivity|].
    rewrite (brel_bt _ _ Hx). reflexivity.
  Qed.

  Definition r_tab (p p' : list (list bundle) * list bundle) : Prop :=
    Forall2 (Forall2 brel) (fst p) (fst p') /\ Forall2 brel (snd p) (snd p').
  Definition r_dnat (p p' : doc * nat) : Prop := rd (fst p) (fst p') /\ snd p = snd p'.

  Lemma r_convert_table kids kids' c n :
    Forall2 brel kids kids' -> mrel rd (convert_table swidth c1 kids c n) (convert_table swidth c2 kids' c n).
  Proof.
    intros Hk. unfold convert_table.
    apply (mrel_bind rd).
    { apply (mrel_foldM brel rd); [|constructor|].
      - apply filter_brel; [psame|]. apply filter_brel; [apply (same_bt is_arg)|exact Hk].
      - intros d d' b b' Hd Hb. apply (mrel_bind rd); [apply brel_call; exact Hb|].
        intros x x' Hx. apply mrel_ret. auto 6 with rdb. }
    intros d0 d0' Hd0.
    assert (Hpos : Forall2 brel (filter (fun b => is_arg (bt b) && negb (kin (bk b) [KNamed; KSpread])) (take_until_rparen kids))
                                (filter (fun b => is_arg (bt b) && negb (kin (bk b) [KNamed; KSpread])) (take_until_rparen kids'))).
    { apply filter_brel; [psame|]. apply take_until_rparen_brel. exact Hk. }
    match goal with |- context [fold_left ?f (filter ?p (take_until_rparen kids)) ?a] =>
      set (F := fold_left f (filter p (take_until_rparen kids)) a);
      set (F' := fold_left f (filter p (take_until_rparen kids')) a);
      assert (G : r_tab F F') end.
    { unfold F, F'. apply (fold_left_rel r_tab brel); [exact Hpos|split; constructor|].
      intros [tb row] [tb' row'] b b' [Htb Hrow] Hb. cbn in Htb, Hrow.
      assert (Hrow1 : Forall2 brel (row ++ [b]) (row' ++ [b'])) by (apply Forall2_snoc; assumption).
      rewrite <- (Forall2_len _ _ _ Hrow1). bsame Hb. rewrite <- (same_callee_text _ _ Hb).
      destruct (N.of_nat (length (row ++ [b])) =? n); destruct (_ && _); split; cbn [fst snd];
        repeat first [assumption | apply Forall2_snoc | constructor]. }
    clearbody F F'. destruct F as [tb lastrow], F' as [tb' lastrow']. destruct G as [Htb Hlast]. cbn in Htb, Hlast.
    assert (Htable : Forall2 (Forall2 brel) (match lastrow with [] => tb | _ => tb ++ [lastrow] end)
                                           (match lastrow' with [] => tb' | _ => tb' ++ [lastrow'] end)).
    { destruct Hlast; [exact Htb|]. apply Forall2_snoc; [exact Htb|constructor; assumption]. }
    set (table := match lastrow with [] => tb | _ => tb ++ [lastrow] end) in *.
    set (table' := match lastrow' with [] => tb' | _ => tb' ++ [lastrow'] end) in *. clearbody table table'.
    rewrite <- (Forall2_len _ _ _ Htable).
    apply (mrel_bind r_dnat).
    - apply (mrel_foldM (Forall2 brel) r_dnat); [exact Htable|split; cbn; auto|].
      intros [d ri] [d' ri'] row row' [Hd E] Hrow. cbn in Hd, E. subst ri'.
      rewrite <- (Forall2_len _ _ _ Hrow).
      apply (mrel_bind r_dnat).
      + apply (mrel_foldM brel r_dnat); [exact Hrow|split; cbn; auto with rdb|].
        intros [rdoc0 ci] [rdoc0' ci'] cell cell' [Hrd E] Hcell. cbn in Hrd, E. subst ci'.
        apply (mrel_bind rd); [apply r_convert_arg; exact Hcell|]. intros x x' Hx. apply mrel_ret.
        split; cbn [fst snd]; [|reflexivity].
        destruct (negb (Nat.eqb (S ci) _)); [auto 7 with rdb|]. destruct (negb _); auto 7 with rdb.
      + intros [rr k] [rr' k'] [Hrr _]. cbn in Hrr. apply mrel_ret. split; cbn [fst snd]; [|reflexivity].
        destruct (negb _); auto 7 with rdb.
    - intros [r k] [r' k'] [Hr _]. cbn in Hr. apply mrel_ret. auto 8 with rdb.
  Qed.

  Lemma r_convert_func_call_args t kids kids' c ti :
    Forall2 brel kids kids' ->
    mrel rd (convert_func_call_args swidth c1 t kids c ti) (convert_func_call_args swidth c2 t kids' c ti).
  Proof.
    intros Hk. unfold convert_func_call_args.
    destruct (is_math_mode _); [apply r_convert_args_in_math; exact Hk|].
    rewrite <- (has_parenthesized_args_brel _ _ Hk).
    apply (mrel_bind rd).
    - destruct ti.
      + destruct (has_parenthesized_args kids); [apply r_convert_parenthesized_args; exact Hk|apply mrel_ret; constructor].
      + destruct (has_parenthesized_args kids); [apply r_convert_parenthesized_args_as_list; exact Hk|apply mrel_ret; constructor].
      + apply r_convert_table. exact Hk.
    - intros d d' Hd. apply (mrel_bind rd); [apply r_convert_additional_args; exact Hk|].
      intros a a' Ha. apply mrel_ret. auto with rdb.
  Qed.

  Lemma same_indent_func_name : same indent_func_name.
  Proof.
    intros b b' Hb. unfold indent_func_name. destruct (first_kid_brel is_expr _ _ Hb) as [|x x' Hx]; [reflexivity|].
    bsame Hx. reflexivity.
  Qed.
  Lemma same_is_table : same is_table.
  Proof. intros b b' Hb. unfold is_table. rewrite <- (same_indent_func_name _ _ Hb). reflexivity. Qed.
  Lemma same_is_formatable : same is_formatable.
  Proof.
    intros b b' Hb. unfold is_formatable.
    rewrite <- (existsb_brel is_comment_b _ _ same_is_comment_b (brel_kids _ _ Hb)).
    f_equal.
    assert (Hp : Forall2 brel (filter (fun b => is_arg (bt b)) (take_until_rparen (skip_until KLeftParen (bkids b))))
                              (filter (fun b => is_arg (bt b)) (take_until_rparen (skip_until KLeftParen (bkids b'))))).
    { apply filter_brel; [apply (same_bt is_arg)|]. apply take_until_rparen_brel, skip_until_brel, brel_kids. exact Hb. }
    match goal with |- (let '(ok, seen) := fold_left ?f _ ?a in _) = _ =>
      assert (G : fold_left f (filter (fun b => is_arg (bt b)) (take_until_rparen (skip_until KLeftParen (bkids b)))) a =
                  fold_left f (filter (fun b => is_arg (bt b)) (take_until_rparen (skip_until KLeftParen (bkids b')))) a) end.
    { apply (fold_left_rel eq brel); [exact Hp|reflexivity|].
      intros [ok seen] st' x x' <- Hx. bsame Hx. rewrite <- (same_callee_text _ _ Hx). reflexivity. }
    rewrite G. reflexivity.
  Qed.
  Lemma same_get_table_columns : same get_table_columns.
  Proof.
    intros b b' Hb. unfold get_table_columns.
    apply (fold_left_rel eq brel); [|reflexivity|].
    - apply filter_brel; [apply (same_bt is_arg)|apply brel_kids; exact Hb].
    - intros acc acc' x x' <- Hx. destruct acc; [reflexivity|]. bsame Hx.
      destruct (_ && _); [|reflexivity].
      destruct (last_kid_brel is_expr _ _ Hx) as [|e e' He]; [reflexivity|]. bsame He.
      destruct (kind_eqb (bk e) KInt); [reflexivity|]. destruct (kind_eqb (bk e) KArray); [|reflexivity].
      rewrite (Forall2_len _ _ _ (filter_brel (fun x => is_array_item (bt x)) _ _ (same_bt is_array_item) (brel_kids _ _ He))).
      reflexivity.
  Qed.
  Lemma table_info_of_brel b b' a a' : brel b b' -> brel a a' -> table_info_of b a = table_info_of b' a'.
  Proof.
    intros Hb Ha. unfold table_info_of.
    rewrite <- (same_is_table _ _ Hb), <- (same_is_formatable _ _ Ha), <- (same_get_table_columns _ _ Ha). reflexivity.
  Qed.

  Lemma r_convert_func_call_plain b b' c :
    brel b b' -> mrel rd (convert_func_call_plain swidth b c) (convert_func_call_plain swidth b' c).
  Proof.
    intros Hb. unfold convert_func_call_plain. apply (mrel_bind rd).
    - destruct (first_kid_brel is_expr _ _ Hb) as [|x x' Hx];
        [apply mrel_bump_then, mrel_ret; auto with rdb|apply brel_call; exact Hx].
    - intros cal cal' Hcal. apply (mrel_bind rd).
      + destruct (args_of_call_brel _ _ Hb) as [|a a' Ha].
        * destruct (is_math_mode _); [apply mrel_panic|apply mrel_ret; constructor].
        * rewrite <- (table_info_of_brel _ _ _ _ Hb Ha). apply brel_call. exact Ha.
      + intros a a' Ha. apply mrel_ret. auto with rdb.
  Qed.

  Lemma r_convert_func_call b b' c :
    brel b b' -> mrel rd (convert_func_call swidth c1 b c) (convert_func_call swidth c2 b' c).
  Proof.
    intros Hb. unfold convert_func_call. apply (mrel_bind (ropt rd)).
    - destruct (first_kid_brel is_expr _ _ Hb) as [|x x' Hx]; [apply mrel_ret; constructor|].
      bsame Hx. destruct (kind_eqb _ _); [apply r_try_convert_dot_chain; exact Hb|apply mrel_ret; constructor].
    - intros o o' Ho. destruct Ho as [|d d' Hd]; [apply r_convert_func_call_plain; exact Hb|apply mrel_ret; exact Hd].
  Qed.

  (* ---------------- import.rs ---------------- *)
  Lemma r_convert_import_item_path kids kids' c :
    Forall2 brel kids kids' -> mrel rd (convert_import_item_path swidth kids c) (convert_import_item_path swidth kids' c).
  Proof. flow_conv convert_import_item_path. Qed.
  Lemma r_convert_import_item_renamed kids kids' c :
    Forall2 brel kids kids' -> mrel rd (convert_import_item_renamed swidth kids c) (convert_import_item_renamed swidth kids' c).
  Proof. flow_conv convert_import_item_renamed. Qed.

  Lemma no_dup_names_brel l l' seen : Forall2 brel l l' -> no_dup_names l seen = no_dup_names l' seen.
  Proof.
    intros H. revert seen. induction H as [|x y l l' Hxy H IH]; intros seen; cbn [no_dup_names]; [reflexivity|].
    unfold import_bound_name. bsame Hxy. destruct (bk x); try apply IH; destruct (str_in _ _); auto.
  Qed.
  Lemma insert_sorted_brel b b' l l' : brel b b' -> Forall2 brel l l' -> Forall2 brel (insert_sorted b l) (insert_sorted b' l').
  Proof.
    intros Hb. induction 1 as [|x y l l' Hxy H IH]; cbn [insert_sorted]; [constructor; [exact Hb|constructor]|].
    rewrite (brel_bt _ _ Hxy), (brel_bt _ _ Hb). destruct (str_leb _ _); constructor; auto.
  Qed.
  Lemma sort_nodes_brel l l' : Forall2 brel l l' -> Forall2 brel (sort_nodes l) (sort_nodes l').
  Proof.
    intros H. unfold sort_nodes. apply (fold_left_rel (Forall2 brel) brel); [exact H|constructor|].
    intros a a' b b' Ha Hb. apply insert_sorted_brel; assumption.
  Qed.
  Lemma import_items_final_brel mr l l' :
    Forall2 brel l l' -> Forall2 brel (import_items_final c1 mr l) (import_items_final c2 mr l').
  Proof.
    intros H. unfold import_items_final, import_items_order. destruct mr; [|exact H]. rewrite <- Hreorder.
    rewrite <- (forallb_brel (fun b => negb (contains_comment (bt b))) _ _ ltac:(psame) H).
    rewrite <- (no_dup_names_brel _ _ [] H).
    destruct (_ && _ && _); [apply sort_nodes_brel|]; exact H.
  Qed.

  Lemma r_convert_import_items fs c nodes nodes' mr :
    Forall2 brel nodes nodes' ->
    mrel rd (convert_import_items swidth c1 fs c nodes mr) (convert_import_items swidth c2 fs c nodes' mr).
  Proof.
    intros Hn. unfold convert_import_items. apply (mrel_bind rlst'); [|lst_finish].
    apply r_lst_process; [apply rlst_with_fold_style, rlst_new|apply import_items_final_brel; exact Hn|].
    intros c0 b b' Hb. bsame Hb.
    destruct (bk b); try (apply mrel_ret; constructor);
      (apply (mrel_bind rd); [apply brel_call; exact Hb|]; intros d d' Hd; apply mrel_ret; constructor; exact Hd).
  Qed.

  Lemma r_convert_import fs kids kids' c :
    Forall2 brel kids kids' -> mrel rd (convert_import swidth c1 fs kids c) (convert_import swidth c2 fs kids' c).
  Proof.
    intros Hk. unfold convert_import.
    rewrite <- (position_brel (fun b => kin (bk b) [KLeftParen; KImportItems]) _ _ 0 ltac:(psame) Hk).
    rewrite <- (Forall2_len _ _ _ Hk).
    set (divider := match position _ kids 0 with Some i => i | None => length kids end).
    pose proof (skipn_rel brel divider _ _ Hk) as Hitems.
    set (items := skipn divider kids) in *. set (items' := skipn divider kids') in *. clearbody items items'.
    assert (Hpre : Forall2 brel
              (match divider with
               | S d' => match nth_error kids d' with
                         | Some b => if kind_eqb (bk b) KSpace then firstn d' kids else firstn divider kids
                         | None => firstn divider kids end
               | O => [] end)
              (match divider with
               | S d' => match nth_error kids' d' with
                         | Some b => if kind_eqb (bk b) KSpace then firstn d' kids' else firstn divider kids'
                         | None => firstn divider kids' end
               | O => [] end)).
    { destruct divider as [|d']; [constructor|].
      destruct (nth_error_rel brel d' _ _ Hk) as [|x x' Hx]; [apply firstn_rel; exact Hk|].
      bsame Hx. destruct (kind_eqb _ _); apply firstn_rel; exact Hk. }
    match goal with |- mrel _ (bind (flow_like _ _ ?p _) _) (bind (flow_like _ _ ?p' _) _) =>
      set (pre := p) in *; set (pre' := p') in * end.
    clearbody pre pre'.
    apply (mrel_bind rd).
    { apply r_flow_like; [exact Hpre|]. intros c0 b b' Hb. mauto Hb. }
    intros pd pd' Hpd.
    destruct Hitems as [|i0 i0' ir ir' Hi0 Hir]; [apply mrel_ret; exact Hpd|].
    assert (Hitems : Forall2 brel (i0 :: ir) (i0' :: ir')) by (constructor; assumption).
    assert (Hnodes : Forall2 brel (flat_map (fun b => if kind_eqb (bk b) KImportItems then bkids b else [b]) (i0 :: ir))
                                  (flat_map (fun b => if kind_eqb (bk b) KImportItems then bkids b else [b]) (i0' :: ir'))).
    { apply (flat_map_rel brel brel); [exact Hitems|]. intros a a' Ha. bsame Ha.
      destruct (kind_eqb _ _); [apply brel_kids; exact Ha|constructor; [exact Ha|constructor]]. }
    set (nodes := flat_map _ (i0 :: ir)) in *. set (nodes' := flat_map _ (i0' :: ir')) in *. clearbody nodes nodes'.
    destruct Hnodes as [|n0 n0' nr nr' Hn0 Hnr]; [apply mrel_ret; exact Hpd|].
    rewrite <- (existsb_brel is_comment_b _ _ same_is_comment_b Hpre).
    apply (mrel_bind rd); [apply r_convert_import_items; constructor; assumption|].
    intros d d' Hd. apply mrel_ret.
    assert (E : match find (fun b => negb (kind_eqb (bk b) KSpace)) (rev pre) with
                | Some b => kind_eqb (bk b) KLineComment | None => false end =
                match find (fun b => negb (kind_eqb (bk b) KSpace)) (rev pre') with
                | Some b => kind_eqb (bk b) KLineComment | None => false end).
    { destruct (find_brel (fun b => negb (kind_eqb (bk b) KSpace)) _ _ ltac:(psame) (Forall2_rev _ _ _ Hpre)) as [|x x' Hx];
        [reflexivity|]. bsame Hx. reflexivity. }
    rewrite <- E. destruct (match find _ (rev pre) with Some _ => _ | None => _ end); auto with rdb.
  Qed.
  (* ---------------- mod.rs: dispatch, step, build ---------------- *)
  Lemma r_convert_expr_impl b b' c :
    brel b b' -> mrel rd (convert_expr_impl swidth c1 b c) (convert_expr_impl swidth c2 b' c).
  Proof.
    intros Hb. unfold convert_expr_impl. rewrite (brel_bt _ _ Hb). pose proof (brel_kids _ _ Hb) as Hk.
    destruct (kind_of (bt b));
      first [ match goal with |- mrel _ (panic _) (panic _) => apply mrel_panic end
            | match goal with |- mrel _ (ret _) (ret _) =>
                apply mrel_ret; first [apply rd_convert_raw; exact Hk | solve [auto with rdb]] end
            | apply r_convert_binary; exact Hb
            | apply r_convert_field_access; exact Hb
            | apply r_convert_func_call; exact Hb
            | (first [ apply r_convert_strong | apply r_convert_emph | apply r_convert_ref | apply r_convert_heading
                     | apply r_convert_list_item_like | apply r_convert_equation | apply r_convert_math
                     | apply r_convert_math_delimited | apply r_convert_math_attach_like | apply r_convert_math_frac
                     | apply r_convert_code_block | apply r_convert_content_block | apply r_convert_parenthesized
                     | apply r_convert_array | apply r_convert_dict | apply r_convert_unary | apply r_convert_closure
                     | apply r_convert_let_binding | apply r_convert_destruct_assignment | apply r_convert_set_rule
                     | apply r_convert_show_rule | apply r_expr_flow | apply r_convert_for_loop
                     | apply r_convert_import ]; exact Hk) ].
  Qed.

  Lemma r_convert_expr b b' c : brel b b' -> mrel rd (convert_expr swidth c1 b c) (convert_expr swidth c2 b' c).
  Proof.
    intros Hb. unfold convert_expr. apply mrel_bump_then. unfold check_disabled. rewrite (brel_bt _ _ Hb).
    destruct (a_disabled _); [apply mrel_ret; auto with rdb|]. apply r_convert_expr_impl. exact Hb.
  Qed.

  Lemma r_convert_pattern b b' c : brel b b' -> mrel rd (convert_pattern swidth c1 b c) (convert_pattern swidth c2 b' c).
  Proof.
    intros Hb. unfold convert_pattern. apply mrel_bump_then. unfold check_disabled. bsame Hb.
    destruct (a_disabled _); [apply mrel_ret; auto with rdb|].
    destruct (bk b); try (apply r_convert_expr; exact Hb).
    - apply mrel_ret; auto with rdb.
    - apply r_convert_parenthesized. apply brel_kids. exact Hb.
    - apply r_convert_destructuring. apply brel_kids. exact Hb.
  Qed.

  Lemma r_convert_embedded_expr b b' c :
    brel b b' -> mrel rd (convert_embedded_expr swidth c1 b c) (convert_embedded_expr swidth c2 b' c).
  Proof.
    intros Hb. unfold convert_embedded_expr. bsame Hb. destruct (kind_eqb _ _); [|apply r_convert_expr; exact Hb].
    apply mrel_bump_then. unfold check_disabled. destruct (a_disabled _); [apply mrel_ret; auto with rdb|].
    apply r_convert_parenthesized. apply brel_kids. exact Hb.
  Qed.

  Lemma r_step t kids kids' r :
    Forall2 brel kids kids' -> mrel rd (step swidth c1 t kids r) (step swidth c2 t kids' r).
  Proof.
    intros Hk. unfold step.
    assert (Hself : brel (Bundle t (fun _ => panic SBadRequest) kids) (Bundle t (fun _ => panic SBadRequest) kids')).
    { constructor; [intros; apply mrel_panic|exact Hk]. }
    destruct r.
    - apply r_convert_expr; exact Hself.
    - apply r_convert_pattern; exact Hself.
    - apply r_convert_markup_impl; exact Hk.
    - apply r_convert_math; exact Hk.
    - apply r_convert_content_block; exact Hk.
    - apply r_convert_embedded_expr; exact Hself.
    - apply r_convert_parenthesized; exact Hk.
    - apply r_convert_named; exact Hk.
    - apply r_convert_keyed; exact Hk.
    - apply r_convert_spread; exact Hk.
    - apply r_convert_params; exact Hk.
    - apply r_convert_args; exact Hk.
    - apply r_convert_parenthesized_args; exact Hk.
    - apply r_convert_func_call_args; exact Hk.
    - apply r_convert_import_item_path; exact Hk.
    - apply r_convert_import_item_renamed; exact Hk.
  Qed.

  Theorem build_brel t : brel (build swidth c1 t) (build swidth c2 t).
  Proof.
    induction t as [k s a|k cs a IH] using tree_ind'; cbn [build].
    - constructor; [|constructor]. intros r. apply r_step. constructor.
    - assert (Hk : Forall2 brel (map (build swidth c1) cs) (map (build swidth c2) cs)).
      { induction IH as [|x l Hx Hl IHl]; cbn; constructor; assumption. }
      constructor; [|exact Hk]. intros r. apply r_step. exact Hk.
  Qed.

  Theorem convert_markup_root_parametric t c :
    mrel rd (convert_markup_root swidth c1 t c) (convert_markup_root swidth c2 t c).
  Proof. unfold convert_markup_root. apply brel_call. apply build_brel. Qed.
(*PART2*)
End TabConv.
