(* MathProofs.v — structure of the documents built by math.rs converters (C09 core). *)
From TV Require Import Conv Render RenderProofs SeqProofs.
From Coq Require Import Lia.

Section MathProofs.
  Variable swidth : str -> N.
  Variable cfg : config.

  (* the atoms a converted child may contribute: any atom sequence of a document its converter returns *)
  Definition child_atoms (b : bundle) (r : req) (x : list atom) : Prop :=
    exists n d n', call b r n = Ok (d, n') /\ seqs d x.

  (* what one child of a Math node contributes to every layout *)
  Inductive math_child : bundle -> list atom -> Prop :=
  | mc_expr b c x : is_expr (bt b) = true -> child_atoms b (RExprEmb c) x -> math_child b x
  | mc_space b : is_expr (bt b) = false -> kind_eqb (bk b) KSpace = true ->
                 math_child b [if has_lb (tx b) then ALine else AText [SP]]
  | mc_hash b : is_expr (bt b) = false -> kind_eqb (bk b) KSpace = false -> kind_eqb (bk b) KHash = true ->
                math_child b [AText [35]]
  | mc_other b x : is_expr (bt b) = false -> kind_eqb (bk b) KSpace = false -> kind_eqb (bk b) KHash = false ->
                   (x = [] \/ x = [AText (tx b)]) -> math_child b x.

  Lemma seqs_convert_space_text s x :
    seqs (convert_space_text s) x -> x = [if has_lb s then ALine else AText [SP]].
  Proof.
    unfold convert_space_text. destruct (has_lb s); intros H.
    - apply seqs_hardline; assumption.
    - apply seqs_space; assumption.
  Qed.

  Definition math_step (c : ctx) :=
    (fun (st : doc * bool) (node : bundle) =>
       let '(d, at_hash) := st in
       if is_expr (bt node) then
         x <- call node (RExprEmb (with_mode_if c LCode at_hash)) ;; ret (append d x, false)
       else if kind_eqb (bk node) KSpace then ret (append d (convert_space_text (tx node)), false)
       else if kind_eqb (bk node) KHash then ret (append d (text swidth [35]), true)
       else ret (append d (convert_trivia swidth (bt node)), false)).

  Lemma math_fold_atoms c : forall kids d0 h0 n0 r n',
    foldM (math_step c) kids (d0, h0) n0 = Ok (r, n') ->
    forall x, seqs (fst r) x ->
    exists x0 xs, seqs d0 x0 /\ Forall2 math_child kids xs /\ x = x0 ++ concat xs.
  Proof.
    induction kids as [|k ks IH]; intros d0 h0 n0 r n' H x Hx.
    - cbn in H. inversion H; subst. exists x, []. cbn. rewrite app_nil_r. auto.
    - cbn [foldM] in H. unfold bind in H at 1.
      destruct (math_step c (d0, h0) k n0) as [[s1 n1]|] eqn:E; [|discriminate].
      destruct s1 as [d1 h1].
      destruct (IH d1 h1 n1 r n' H x Hx) as (x1 & xs & H1 & HF & ->).
      unfold math_step in E.
      destruct (is_expr (bt k)) eqn:Ee.
      + unfold bind in E. destruct (call k _ n0) as [[dk nk]|] eqn:Ec; [|discriminate].
        inversion E; subst.
        apply seqs_append in H1. destruct H1 as (xa & xb & -> & Ha & Hb).
        exists xa, (xb :: xs). split; [assumption|]. split.
        * constructor; [|assumption]. eapply mc_expr; [assumption|]. do 3 eexists. split; eassumption.
        * cbn. rewrite <- app_assoc. reflexivity.
      + destruct (kind_eqb (bk k) KSpace) eqn:Es.
        * inversion E; subst.
          apply seqs_append in H1. destruct H1 as (xa & xb & -> & Ha & Hb).
          apply seqs_convert_space_text in Hb. subst.
          exists xa, ([if has_lb (tx k) then ALine else AText [SP]] :: xs). split; [assumption|]. split.
          -- constructor; [|assumption]. apply mc_space; assumption.
          -- cbn. rewrite <- app_assoc. reflexivity.
        * destruct (kind_eqb (bk k) KHash) eqn:Eh.
          -- inversion E; subst.
             apply seqs_append in H1. destruct H1 as (xa & xb & -> & Ha & Hb).
             assert (xb = [AText [35]]) by (cbn in Hb; inversion Hb; reflexivity). subst.
             exists xa, ([AText [35]] :: xs). split; [assumption|]. split.
             ++ constructor; [|assumption]. apply mc_hash; assumption.
             ++ cbn. rewrite <- app_assoc. reflexivity.
          -- inversion E; subst.
             apply seqs_append in H1. destruct H1 as (xa & xb & -> & Ha & Hb).
             apply seqs_text in Hb.
             exists xa, (xb :: xs). split; [assumption|]. split.
             ++ constructor; [|assumption]. apply mc_other; try assumption.
                destruct Hb as [[_ Hb]|Hb]; [left|right]; assumption.
             ++ cbn. rewrite <- app_assoc. reflexivity.
  Qed.

  (* convert_math: the children are emitted in order; a whitespace token is a mandatory line break
     if it held one and a single blank otherwise; nothing is emitted where there was no token. *)
  Theorem convert_math_atoms t kids c n d n' x :
    a_disabled (attrs_of t) = false ->
    convert_math swidth t kids c n = Ok (d, n') ->
    seqs d x ->
    exists xs, Forall2 math_child kids xs /\ x = concat xs.
  Proof.
    intros Hd H Hx. unfold convert_math, check_disabled in H. rewrite Hd in H.
    unfold bind at 1 in H. unfold bump in H.
    unfold bind at 1 in H.
    match type of H with
    | context [foldM ?f kids (DNil, false) ?m] =>
        change f with (math_step (suppress_breaks c)) in H;
        destruct (foldM (math_step (suppress_breaks c)) kids (DNil, false) m) as [[r nr]|] eqn:E; [|discriminate]
    end.
    inversion H; subst.
    destruct (math_fold_atoms _ _ _ _ _ _ _ E x Hx) as (x0 & xs & H0 & HF & ->).
    apply seqs_nil_inv in H0. subst. exists xs. auto.
  Qed.

  (* a disabled Math node is emitted verbatim *)
  Theorem convert_math_disabled t kids c n :
    a_disabled (attrs_of t) = true ->
    convert_math swidth t kids c n = Ok (text swidth (into_text t), n + 1).
  Proof.
    intros Hd. unfold convert_math, check_disabled. rewrite Hd. reflexivity.
  Qed.
End MathProofs.
