(* TabParam.v — C12: parametricity of the converter in `tab_spaces`, assembled.
   For two non-zero indent units the documents the converter builds for one tree are the instances, for the two
   units, of ONE symbolic document (Sym.sdoc: every nest is a*U + b); the conversion counters agree and a panic
   would be at the same site.  With SymProofs/WideProofs this gives the property's statement over the model:
   at any widths with room, the real renderer lays both documents out as the instances of one symbolic layout —
   same text atoms, and a*u + b blanks after each layout line break with (a, b) independent of the unit. *)
From TV Require Import TabRel TabProofs Conv Format Sym SymProofs WideProofs.
From Coq Require Import Lia.

Definition with_tab (c : config) (t : N) : config :=
  {| tab_spaces := t; max_width := max_width c;
     blank_lines_upper_bound := blank_lines_upper_bound c;
     reorder_import_items := reorder_import_items c |}.

Lemma rdoc_sym t1 t2 d d' : rdoc t1 t2 d d' -> exists D, d = inst t1 D /\ d' = inst t2 D.
Proof.
  induction 1 as [|a a' b b' _ [A [-> ->]] _ [B [-> ->]]|d d' _ [D [-> ->]]
                  |a a' b b' _ [A [-> ->]] _ [B [-> ->]]|d d' _ [D [-> ->]]|k d d' _ [D [-> ->]]
                  | |s|w s|d d' _ [D [-> ->]]].
  - exists SNil. split; reflexivity.
  - exists (SAppend A B). split; reflexivity.
  - exists (SGroup D). split; reflexivity.
  - exists (SFlatAlt A B). split; reflexivity.
  - exists (SNest 1 0 D). cbn [inst]. rewrite !N.mul_1_l, !N.add_0_r. split; reflexivity.
  - exists (SNest 0 k D). cbn [inst]. rewrite !N.mul_0_l, !N.add_0_l. split; reflexivity.
  - exists SHardline. split; reflexivity.
  - exists (SText s). split; reflexivity.
  - exists (STextW w s). split; reflexivity.
  - exists (SAlign D). split; reflexivity.
Qed.

Section Param.
  Variable swidth : str -> N.
  Variable c : config.
  Variables t1 t2 : N.
  Hypothesis Ht1 : t1 <> 0.
  Hypothesis Ht2 : t2 <> 0.

  Theorem convert_root_parametric tree :
    match convert_root swidth (with_tab c t1) tree, convert_root swidth (with_tab c t2) tree with
    | Ok (d1, n1), Ok (d2, n2) => n1 = n2 /\ exists D, d1 = inst t1 D /\ d2 = inst t2 D
    | Panic s1, Panic s2 => s1 = s2
    | _, _ => False
    end.
  Proof.
    unfold convert_root. destruct (negb _); [reflexivity|]. unfold run_m.
    pose proof (convert_markup_root_parametric swidth (with_tab c t1) (with_tab c t2)
                  eq_refl eq_refl eq_refl Ht1 Ht2 (annotate tree) ctx_default 0) as H.
    cbn [tab_spaces with_tab] in H.
    destruct (convert_markup_root swidth (with_tab c t1) (annotate tree) ctx_default 0) as [[d1 n1]|s1],
             (convert_markup_root swidth (with_tab c t2) (annotate tree) ctx_default 0) as [[d2 n2]|s2];
      try contradiction; [|exact H].
    destruct H as [Hd ->]. split; [reflexivity|]. apply rdoc_sym. exact Hd.
  Qed.

  (* the statement of the property over the model *)
  Theorem indentation_scales tree d1 n :
    convert_root swidth (with_tab c t1) tree = Ok (d1, n) ->
    exists D d2,
      convert_root swidth (with_tab c t2) tree = Ok (d2, n) /\ d1 = inst t1 D /\ d2 = inst t2 D /\
      forall es w1 w2,
        render_sym_events D = Some es -> room d1 <= w1 -> room d2 <= w2 ->
        render_events w1 d1 = Some (map (inst_event t1) es) /\
        render_events w2 d2 = Some (map (inst_event t2) es).
  Proof.
    intros H1. pose proof (convert_root_parametric tree) as H. rewrite H1 in H.
    destruct (convert_root swidth (with_tab c t2) tree) as [[d2 n2]|s2]; [|contradiction].
    destruct H as [<- [D [-> ->]]]. exists D, (inst t2 D). repeat split.
    - apply render_events_inst; assumption.
    - apply render_events_inst; assumption.
  Qed.
End Param.
