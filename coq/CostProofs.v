(* CostProofs.v — the conversion counter (C18): cost calculus for the monad M and the stylists.
   `costs m k`: running m raises the counter by at most k. *)
From TV Require Import Conv.
From Coq Require Import Lia.

Definition costs {A} (m : M A) (k : N) : Prop := forall n a n', m n = Ok (a, n') -> n' <= n + k.

Lemma costs_ret {A} (a : A) : costs (ret a) 0.
Proof. intros n a' n' H. inversion H. lia. Qed.

Lemma costs_bump : costs bump 1.
Proof. intros n a n' H. inversion H. lia. Qed.

Lemma costs_panic {A} s k : costs (@panic A s) k.
Proof. intros n a n' H. discriminate. Qed.

Lemma costs_lift {A} (r : res A) : costs (lift r) 0.
Proof. intros n a n' H. unfold lift in H. destruct r; inversion H. lia. Qed.

Lemma costs_weaken {A} (m : M A) k k' : costs m k -> k <= k' -> costs m k'.
Proof. intros H Hle n a n' E. specialize (H n a n' E). lia. Qed.

Lemma costs_bind {A B} (m : M A) (f : A -> M B) k1 k2 :
  costs m k1 -> (forall a, costs (f a) k2) -> costs (bind m f) (k1 + k2).
Proof.
  intros Hm Hf n b n' H. unfold bind in H.
  destruct (m n) as [[a n1]|] eqn:E; [|discriminate].
  specialize (Hm n a n1 E). specialize (Hf a n1 b n' H). lia.
Qed.

Lemma costs_if {A} (c : bool) (m1 m2 : M A) k : costs m1 k -> costs m2 k -> costs (if c then m1 else m2) k.
Proof. destruct c; auto. Qed.

Fixpoint sumN {A} (g : A -> N) (l : list A) : N :=
  match l with [] => 0 | x :: r => g x + sumN g r end.

Lemma sumN_app {A} (g : A -> N) a b : sumN g (a ++ b) = sumN g a + sumN g b.
Proof. induction a as [|x a IH]; cbn; [reflexivity|]. rewrite IH. lia. Qed.

Lemma costs_foldM {A S} (f : S -> A -> M S) (g : A -> N) : forall l s,
  (forall s x, In x l -> costs (f s x) (g x)) -> costs (foldM f l s) (sumN g l).
Proof.
  induction l as [|x l IH]; intros s H.
  - cbn. apply costs_ret.
  - cbn [foldM sumN]. apply costs_bind.
    + apply H. left; reflexivity.
    + intros s'. apply IH. intros s0 y Hy. apply H. right; assumption.
Qed.

Section Stylists.
  Variable swidth : str -> N.
  Variable cfg : config.

  Lemma costs_convert_comment b : costs (convert_comment swidth b) 0.
  Proof. unfold convert_comment. apply costs_lift. Qed.

  (* the flow stylist calls the producer at most once per child *)
  Lemma costs_flow_like_iter {S} (c : ctx) (children : list bundle) (s0 : S)
        (producer : S -> ctx -> bundle -> M (S * option flow_item)) (g : bundle -> N) :
    (forall s c' b, In b children -> costs (producer s c' b) (g b)) ->
    costs (flow_like_iter swidth c children s0 producer) (sumN g children).
  Proof.
    intros Hp. unfold flow_like_iter.
    replace (sumN g children) with (sumN g children + 0) by lia.
    apply costs_bind.
    - apply costs_foldM. intros st child Hin.
      destruct st as [[[fl plc] ph] s].
      destruct (is_keyword (bk child) && negb (kin (bk child) [KNone; KAuto])).
      { eapply costs_weaken; [apply costs_ret|lia]. }
      destruct (is_comment_b child).
      { replace (g child) with (0 + g child) by lia. eapply costs_weaken.
        - apply costs_bind; [apply costs_convert_comment|]. intros d. apply costs_ret.
        - lia. }
      destruct (plc && kind_eqb (bk child) KSpace && has_lb (tx child)).
      { eapply costs_weaken; [apply costs_ret|lia]. }
      destruct (kind_eqb (bk child) KHash).
      { eapply costs_weaken; [apply costs_ret|lia]. }
      replace (g child) with (g child + 0) by lia.
      apply costs_bind; [apply Hp; assumption|].
      intros [s' it]. apply costs_ret.
    - intros [[[fl plc] ph] s]. apply costs_ret.
  Qed.

  Lemma costs_flow_like (c : ctx) (children : list bundle)
        (producer : ctx -> bundle -> M (option flow_item)) (g : bundle -> N) :
    (forall c' b, In b children -> costs (producer c' b) (g b)) ->
    costs (flow_like swidth c children producer) (sumN g children).
  Proof.
    intros Hp. unfold flow_like. apply costs_flow_like_iter.
    intros s c' b Hin. replace (g b) with (g b + 0) by lia.
    apply costs_bind; [apply Hp; assumption|]. intros it. apply costs_ret.
  Qed.

  (* the list stylist calls the item checker at most once per node *)
  Lemma costs_lst_process_trivia l node : costs (lst_process_trivia swidth l node) 0.
  Proof.
    unfold lst_process_trivia.
    destruct (bk node); try apply costs_ret.
    - replace 0 with (0 + 0) by lia. apply costs_bind; [apply costs_convert_comment|]. intros d. apply costs_ret.
    - replace 0 with (0 + 0) by lia. apply costs_bind; [apply costs_convert_comment|]. intros d. apply costs_ret.
    - destruct (0 <? count_lb (tx node)); [|apply costs_ret].
      destruct (l_keep (set_can_attach (attach_or_detach_comments l) false)); [|apply costs_ret].
      match goal with |- costs (if ?b then _ else _) _ => destruct b end; apply costs_ret.
  Qed.

  Lemma costs_lst_process (l : lst) (c : ctx) (nodes : list bundle)
        (checker : ctx -> bundle -> M (option doc)) (g : bundle -> N) :
    (forall c' b, In b nodes -> costs (checker c' b) (g b)) ->
    costs (lst_process swidth l c nodes checker) (sumN g nodes).
  Proof.
    intros Hc. unfold lst_process.
    replace (sumN g nodes) with (sumN g nodes + 0) by lia.
    apply costs_bind.
    - apply costs_foldM. intros l0 node Hin.
      replace (g node) with (g node + 0) by lia.
      apply costs_bind; [apply Hc; assumption|].
      intros [body|]; [apply costs_ret|apply costs_lst_process_trivia].
    - intros l'. apply costs_ret.
  Qed.

  Lemma costs_plain_process (c : ctx) (nodes : list bundle)
        (conv : ctx -> bundle -> M (option doc)) (g : bundle -> N) :
    (forall c' b, In b nodes -> costs (conv c' b) (g b)) ->
    costs (plain_process swidth cfg c nodes conv) (sumN g nodes).
  Proof.
    intros Hc. unfold plain_process.
    replace (sumN g nodes) with (sumN g nodes + 0) by lia.
    apply costs_bind.
    - apply costs_foldM. intros [items ml] child Hin.
      assert (Hdef : costs (o <- conv c child ;;
                            match o with
                            | Some d => ret (items ++ [PItem d], ml)
                            | None => ret (items, ml)
                            end) (g child)).
      { replace (g child) with (g child + 0) by lia.
        apply costs_bind; [apply Hc; assumption|]. intros [d|]; apply costs_ret. }
      destruct (bk child); try exact Hdef.
      + replace (g child) with (0 + g child) by lia. eapply costs_weaken.
        * apply costs_bind; [apply costs_convert_comment|]. intros d. apply costs_ret.
        * lia.
      + replace (g child) with (0 + g child) by lia. eapply costs_weaken.
        * apply costs_bind; [apply costs_convert_comment|]. intros d. apply costs_ret.
        * lia.
      + destruct (0 <? count_lb (tx child)); [|eapply costs_weaken; [apply costs_ret|lia]].
        destruct items; (eapply costs_weaken; [apply costs_ret|lia]).
      + eapply costs_weaken; [apply costs_ret|lia].
    - intros [items ml]. apply costs_ret.
  Qed.
End Stylists.
