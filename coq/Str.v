(* Str.v — strings as lists of Unicode scalar values, with the Rust `str`
   operations typstyle uses (lines, trim_end, trim_start, contains, byte lengths).
   Definitions only follow the Rust standard library's documented behaviour. *)
From Coq Require Export List NArith Bool Lia.
Export ListNotations.
Open Scope N_scope.

Definition str := list N.

Definition LF : N := 10.
Definition CR : N := 13.
Definition SP : N := 32.

(* Unicode White_Space (what char::is_whitespace / str::trim* use) *)
Definition is_ws (c : N) : bool :=
  ((9 <=? c) && (c <=? 13)) || (c =? 32) || (c =? 133) || (c =? 160) || (c =? 5760)
  || ((8192 <=? c) && (c <=? 8202)) || (c =? 8232) || (c =? 8233) || (c =? 8239)
  || (c =? 8287) || (c =? 12288).

(* Typst's is_newline (typst-syntax lexer.rs): LF VT FF CR NEL LS PS *)
Definition is_typst_newline (c : N) : bool :=
  (c =? 10) || (c =? 11) || (c =? 12) || (c =? 13) || (c =? 133) || (c =? 8232) || (c =? 8233).

(* UTF-8 encoded length of a scalar value *)
Definition utf8_len (c : N) : N :=
  if c <? 128 then 1 else if c <? 2048 then 2 else if c <? 65536 then 3 else 4.

Fixpoint byte_len (s : str) : N :=
  match s with [] => 0 | c :: s' => utf8_len c + byte_len s' end.

Definition is_ascii (s : str) : bool := forallb (fun c => c <? 128) s.

Fixpoint drop_while (p : N -> bool) (s : str) : str :=
  match s with
  | [] => []
  | c :: s' => if p c then drop_while p s' else s
  end.

Fixpoint take_while (p : N -> bool) (s : str) : str :=
  match s with
  | [] => []
  | c :: s' => if p c then c :: take_while p s' else []
  end.

(* linear-time reverse (List.rev is quadratic when extracted) *)
Definition frev (l : str) : str := rev_append l [].
Lemma frev_rev l : frev l = rev l.
Proof. unfold frev. symmetry. apply rev_alt. Qed.

Definition trim_start (s : str) : str := drop_while is_ws s.
Definition trim_end (s : str) : str := frev (drop_while is_ws (frev s)).

(* s.split('\n'): always at least one piece; pieces contain no LF *)
Fixpoint split_lf (s : str) : list str :=
  match s with
  | [] => [[]]
  | c :: s' =>
      let r := split_lf s' in
      if c =? LF then [] :: r
      else match r with
           | l :: ls => (c :: l) :: ls
           | [] => [[c]]
           end
  end.

Definition strip_suffix_cr (l : str) : str :=
  match frev l with
  | c :: r => if c =? CR then frev r else l
  | [] => l
  end.

(* str::lines: split_inclusive('\n'), strip the LF and then one CR; a final
   unterminated piece keeps a trailing CR; a final empty piece is dropped. *)
Definition lines (s : str) : list str :=
  let ps := split_lf s in
  map strip_suffix_cr (removelast ps)
  ++ (match last ps [] with [] => [] | l => [l] end).

Definition has_linebreak (s : str) : bool := existsb (fun c => c =? LF) s.
Definition count_linebreaks (s : str) : N :=
  N.of_nat (length (filter (fun c => c =? LF) s)).

Fixpoint str_eqb (a b : str) : bool :=
  match a, b with
  | [], [] => true
  | x :: a', y :: b' => (x =? y) && str_eqb a' b'
  | _, _ => false
  end.

Fixpoint starts_with (p s : str) : bool :=
  match p, s with
  | [], _ => true
  | x :: p', y :: s' => (x =? y) && starts_with p' s'
  | _ :: _, [] => false
  end.

Fixpoint contains (p s : str) : bool :=
  starts_with p s || match s with [] => false | _ :: s' => contains p s' end.

(* Lexicographic comparison by scalar value (= byte order of UTF-8) *)
Fixpoint str_leb (a b : str) : bool :=
  match a, b with
  | [], _ => true
  | _ :: _, [] => false
  | x :: a', y :: b' => if x <? y then true else if y <? x then false else str_leb a' b'
  end.

Lemma str_eqb_eq a b : str_eqb a b = true <-> a = b.
Proof.
  revert b; induction a as [|x a IH]; intros [|y b]; cbn; try (split; congruence).
  rewrite andb_true_iff, N.eqb_eq, IH. split.
  - intros [-> ->]; reflexivity.
  - intros H; injection H; auto.
Qed.

Lemma str_eqb_refl a : str_eqb a a = true.
Proof. apply str_eqb_eq; reflexivity. Qed.
