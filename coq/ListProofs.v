(* ListProofs.v — C01/C06: the list stylist's printer conserves its items.  Whatever fold style and list style, and
   whatever branch of each flat_alt is taken, the atoms of the printed document are the atoms of the item documents
   (comment, body, attached comment) in item order, with nothing between them but blanks, line breaks and the
   style's own separator and delimiters. *)
From TV Require Import Render RenderProofs SeqProofs Layout Comment Conv.
From Coq Require Import Lia.

Section ListPrint.
  Variable swidth : str -> N.
  Variable tab : N.
  Variable sty : list_style.
  Notation text := (Doc.text swidth).

  (* atoms that carry no item content under this style *)
  Definition punct (a : atom) : bool :=
    match a with
    | ALine => true
    | AText s => str_eqb s [SP] || str_eqb s (ls_sep sty) || str_eqb s (ls_open sty) || str_eqb s (ls_close sty)
    end.
  Definition kept (x : list atom) : list atom := filter (fun a => negb (punct a)) x.

  Lemma kept_app x y : kept (x ++ y) = kept x ++ kept y.
  Proof. unfold kept. apply filter_app. Qed.

  (* documents all of whose atoms are punctuation *)
  Definition noise (d : doc) : Prop := forall x, seqs d x -> kept x = [].

  Lemma noise_nil : noise DNil.
  Proof. intros x H. apply seqs_nil_inv in H. subst. reflexivity. Qed.
  Lemma noise_space : noise space.
  Proof. intros x H. apply seqs_space in H. subst. reflexivity. Qed.
  Lemma noise_hardline : noise hardline.
  Proof. intros x H. apply seqs_hardline in H. subst. reflexivity. Qed.
  Lemma noise_line : noise line.
  Proof. intros x H. apply seqs_line in H. destruct H; subst; reflexivity. Qed.
  Lemma noise_line_ : noise line_.
  Proof. intros x H. apply seqs_line_ in H. destruct H; subst; reflexivity. Qed.
  Lemma noise_text s : punct (AText s) = true -> noise (text s).
  Proof.
    intros Hp x H. apply seqs_text in H. destruct H as [[_ ->]| ->]; [reflexivity|].
    unfold kept. cbn [filter]. rewrite Hp. reflexivity.
  Qed.
  Lemma noise_sep : noise (text (ls_sep sty)).
  Proof. apply noise_text. cbn. rewrite str_eqb_refl, !Bool.orb_true_r. reflexivity. Qed.
  Lemma noise_open : noise (text (ls_open sty)).
  Proof. apply noise_text. cbn. rewrite str_eqb_refl, !Bool.orb_true_r. reflexivity. Qed.
  Lemma noise_close : noise (text (ls_close sty)).
  Proof. apply noise_text. cbn. rewrite str_eqb_refl, !Bool.orb_true_r. reflexivity. Qed.
  Lemma noise_append a b : noise a -> noise b -> noise (append a b).
  Proof.
    intros Ha Hb x H. apply seqs_append in H. destruct H as (xa & xb & -> & H1 & H2).
    rewrite kept_app, (Ha _ H1), (Hb _ H2). reflexivity.
  Qed.
  Lemma noise_alt a b : noise a -> noise b -> noise (flat_alt a b).
  Proof. intros Ha Hb x H. inversion H; subst; auto. Qed.
  Lemma noise_repeat d n : noise d -> noise (repeat_n d n).
  Proof.
    intros Hd. unfold repeat_n. generalize (N.to_nat n). intros k.
    assert (H : forall acc, noise acc -> noise (repeat_n_aux d k acc)).
    { induction k as [|k IH]; intros acc Ha; cbn; [exact Ha|]. apply IH. apply noise_append; assumption. }
    apply H. apply noise_nil.
  Qed.

  (* d is a sequence of the documents ds with only noise between and around them; both branches of a flat_alt
     carry the same documents *)
  Inductive carries : doc -> list doc -> Prop :=
  | ca_noise d : noise d -> carries d []
  | ca_item d : carries d [d]
  | ca_app a b da db : carries a da -> carries b db -> carries (append a b) (da ++ db)
  | ca_alt a b ds : carries a ds -> carries b ds -> carries (flat_alt a b) ds
  | ca_group d ds : carries d ds -> carries (group d) ds
  | ca_nest k d ds : carries d ds -> carries (nest k d) ds.

  Theorem carries_conserves : forall d ds, carries d ds ->
    forall x, seqs d x -> exists xs, Forall2 seqs ds xs /\ kept x = kept (concat xs).
  Proof.
    induction 1 as [d Hn|d|a b da db Ha IHa Hb IHb|a b ds Ha IHa Hb IHb|d ds Hd IH|k d ds Hd IH]; intros x Hx.
    - exists []. split; [constructor|]. rewrite (Hn x Hx). reflexivity.
    - exists [x]. split; [constructor; [exact Hx|constructor]|]. cbn. rewrite app_nil_r. reflexivity.
    - apply seqs_append in Hx. destruct Hx as (xa & xb & -> & H1 & H2).
      destruct (IHa _ H1) as (xsa & Fa & Ea). destruct (IHb _ H2) as (xsb & Fb & Eb).
      exists (xsa ++ xsb). split; [apply Forall2_app; assumption|].
      rewrite concat_app, !kept_app, Ea, Eb. reflexivity.
    - inversion Hx; subst; auto.
    - apply seqs_group in Hx. auto.
    - apply seqs_nest in Hx. auto.
  Qed.

  Lemma carries_noise_r a b ds : carries a ds -> noise b -> carries (append a b) ds.
  Proof. intros Ha Hb. rewrite <- (app_nil_r ds). apply ca_app; [exact Ha|apply ca_noise; exact Hb]. Qed.
  Lemma carries_noise_l a b ds : noise a -> carries b ds -> carries (append a b) ds.
  Proof. intros Ha Hb. change ds with ([] ++ ds). apply ca_app; [apply ca_noise; exact Ha|exact Hb]. Qed.

  Definition item_docs (it : item) : list doc :=
    match it with
    | IComment c => [c]
    | ICommented body after => body :: match after with Some a => [a] | None => [] end
    | ILinebreak _ => []
    end.

  Lemma carries_app_opt d o ds :
    carries d ds -> carries (app_opt d o) (ds ++ match o with Some a => [a] | None => [] end).
  Proof.
    intros H. destruct o as [a|]; cbn [app_opt]; [|rewrite app_nil_r; exact H].
    apply ca_app; [exact H|apply ca_item].
  Qed.

  Let sepd := text (ls_sep sty).

  (* ---- the three loops ---- *)
  Lemma print_never_carries : forall items inner i ds0 count,
    carries inner ds0 ->
    carries (fst (fold_left (fun (acc : doc * nat) (it : item) =>
               let '(inner, i) := acc in
               let is_last := Nat.eqb (S i) count in
               let inner' :=
                 match it with
                 | IComment c => append inner (append c hardline)
                 | ICommented body after =>
                     let x := append inner (app_opt (append body sepd) after) in
                     if negb (ls_tight_delim sty) || negb is_last then append x hardline else x
                 | ILinebreak n => append inner (repeat_n hardline n)
                 end in
               (inner', S i)) items (inner, i)))
            (ds0 ++ flat_map item_docs items).
  Proof.
    induction items as [|it items IH]; intros inner i ds0 count H; cbn [fold_left flat_map].
    - rewrite app_nil_r. exact H.
    - rewrite app_assoc. apply IH.
      destruct it as [c|body after|n]; cbn [item_docs].
      + apply ca_app; [exact H|].
        change [c] with ([c] ++ []). apply ca_app; [apply ca_item|apply ca_noise, noise_hardline].
      + assert (Hx : carries (append inner (app_opt (append body sepd) after))
                             (ds0 ++ body :: match after with Some a => [a] | None => [] end)).
        { apply ca_app; [exact H|]. change (body :: ?l) with ([body] ++ l).
          apply carries_app_opt. change [body] with ([body] ++ []).
          apply ca_app; [apply ca_item|apply ca_noise, noise_sep]. }
        destruct (negb (ls_tight_delim sty) || negb (Nat.eqb (S i) count)); [|exact Hx].
        rewrite <- (app_nil_r (ds0 ++ _)). apply ca_app; [exact Hx|apply ca_noise, noise_hardline].
      + rewrite app_nil_r. rewrite <- (app_nil_r ds0). apply ca_app; [exact H|apply ca_noise, noise_repeat, noise_hardline].
  Qed.

  Lemma print_always_carries real is_single : forall items inner i seen ds0 count,
    carries inner ds0 ->
    carries (fst (fst (fold_left (fun (acc : doc * nat * N) (it : item) =>
               let '(inner, i, seen) := acc in
               let is_last := Nat.eqb (S i) count in
               match it with
               | IComment c =>
                   (append inner (if is_last && ls_tight_delim sty then c else append c space), S i, seen)
               | ICommented body after =>
                   let seen' := seen + 1 in
                   let is_last_real := seen' =? real in
                   let x := append inner (app_opt body after) in
                   let x' :=
                     if negb is_last_real then append x (append sepd space)
                     else if ls_trailing_always sty || (is_single && ls_trailing_single sty) then append x sepd
                     else x in
                   (x', S i, seen')
               | ILinebreak _ => (inner, S i, seen)
               end) items (inner, i, seen))))
            (ds0 ++ flat_map item_docs items).
  Proof.
    induction items as [|it items IH]; intros inner i seen ds0 count H; cbn [fold_left flat_map].
    - rewrite app_nil_r. exact H.
    - rewrite app_assoc.
      destruct it as [c|body after|n]; cbn [item_docs].
      + apply IH. apply ca_app; [exact H|].
        destruct (Nat.eqb (S i) count && ls_tight_delim sty); [apply ca_item|].
        change [c] with ([c] ++ []). apply ca_app; [apply ca_item|apply ca_noise, noise_space].
      + apply IH.
        assert (Hx : carries (append inner (app_opt body after))
                             (ds0 ++ body :: match after with Some a => [a] | None => [] end)).
        { apply ca_app; [exact H|]. change (body :: ?l) with ([body] ++ l). apply carries_app_opt, ca_item. }
        destruct (negb (seen + 1 =? real)).
        * rewrite <- (app_nil_r (ds0 ++ _)). apply ca_app; [exact Hx|].
          apply ca_noise, noise_append; [apply noise_sep|apply noise_space].
        * destruct (ls_trailing_always sty || (is_single && ls_trailing_single sty)); [|exact Hx].
          rewrite <- (app_nil_r (ds0 ++ _)). apply ca_app; [exact Hx|apply ca_noise, noise_sep].
      + rewrite app_nil_r. apply IH. exact H.
  Qed.

  Lemma print_fit_carries real is_single : forall items inner i seen ds0 count,
    carries inner ds0 ->
    carries (fst (fst (fold_left (fun (acc : doc * nat * N) (it : item) =>
               let '(inner, i, seen) := acc in
               let is_last := Nat.eqb (S i) count in
               match it with
               | IComment c =>
                   (append inner (if is_last && ls_tight_delim sty then c else append c hardline), S i, seen)
               | ICommented body after =>
                   let seen' := seen + 1 in
                   let is_last_real := seen' =? real in
                   let want_sep := negb is_last_real || ls_trailing_always sty || (is_single && ls_trailing_single sty) in
                   let follow :=
                     match after with
                     | Some a =>
                         let follow_break := append sepd a in
                         let follow_flat := if want_sep then append a sepd else a in
                         flat_alt follow_break follow_flat
                     | None =>
                         if is_last_real && ls_tight_delim sty then DNil
                         else if want_sep then sepd
                         else flat_alt sepd DNil
                     end in
                   let ln := if negb is_last_real then line else if ls_tight_delim sty then DNil else line_ in
                   (append inner (append (append body follow) ln), S i, seen')
               | ILinebreak n => (append inner (repeat_n line n), S i, seen)
               end) items (inner, i, seen))))
            (ds0 ++ flat_map item_docs items).
  Proof.
    induction items as [|it items IH]; intros inner i seen ds0 count H; cbn [fold_left flat_map].
    - rewrite app_nil_r. exact H.
    - rewrite app_assoc.
      destruct it as [c|body after|n]; cbn [item_docs].
      + apply IH. apply ca_app; [exact H|].
        destruct (Nat.eqb (S i) count && ls_tight_delim sty); [apply ca_item|].
        change [c] with ([c] ++ []). apply ca_app; [apply ca_item|apply ca_noise, noise_hardline].
      + apply IH. apply ca_app; [exact H|].
        rewrite <- (app_nil_r (body :: _)). apply ca_app.
        * change (body :: ?l) with ([body] ++ l). apply ca_app; [apply ca_item|].
          destruct after as [a|].
          -- apply ca_alt.
             ++ change [a] with ([] ++ [a]). apply ca_app; [apply ca_noise, noise_sep|apply ca_item].
             ++ destruct (negb (seen + 1 =? real) || ls_trailing_always sty || (is_single && ls_trailing_single sty)); [|apply ca_item].
                change [a] with ([a] ++ []). apply ca_app; [apply ca_item|apply ca_noise, noise_sep].
          -- apply ca_noise.
             destruct ((seen + 1 =? real) && ls_tight_delim sty); [apply noise_nil|].
             destruct (negb (seen + 1 =? real) || ls_trailing_always sty || (is_single && ls_trailing_single sty));
               [apply noise_sep|apply noise_alt; [apply noise_sep|apply noise_nil]].
        * apply ca_noise. destruct (negb (seen + 1 =? real)); [apply noise_line|].
          destruct (ls_tight_delim sty); [apply noise_nil|apply noise_line_].
      + rewrite app_nil_r. apply IH. rewrite <- (app_nil_r ds0).
        apply ca_app; [exact H|apply ca_noise, noise_repeat, noise_line].
  Qed.

  Lemma carries_enclose a b d ds : noise a -> noise b -> carries d ds -> carries (enclose a b d) ds.
  Proof.
    intros Ha Hb Hd. unfold enclose. rewrite <- (app_nil_r ds). apply ca_app; [|apply ca_noise; exact Hb].
    change ds with ([] ++ ds). apply ca_app; [apply ca_noise; exact Ha|exact Hd].
  Qed.

  Theorem lst_print_carries (l : lst) :
    carries (lst_print_doc swidth tab l sty) (flat_map item_docs (l_items l)).
  Proof.
    unfold lst_print_doc.
    destruct (l_items l) as [|it0 its] eqn:Ei.
    - cbn [flat_map]. apply ca_noise.
      destruct (ls_omit_empty sty); [apply noise_nil|].
      destruct (ls_add_delim_space sty);
        repeat apply noise_append; try apply noise_open; try apply noise_close; apply noise_space.
    - set (items := it0 :: its).
      destruct (if l_has_line_comment l then Never else l_fold l).
      + (* Fit *)
        assert (Hin : carries (print_fit sty sepd (l_real l) (l_real l =? 1) items) (flat_map item_docs items)).
        { unfold print_fit. change (flat_map item_docs items) with ([] ++ flat_map item_docs items).
          apply print_fit_carries. apply ca_noise. destruct (ls_tight_delim sty); [apply noise_nil|apply noise_line_]. }
        assert (Hin' : carries (if negb (ls_no_indent sty) then nest (ztab tab) (print_fit sty sepd (l_real l) (l_real l =? 1) items)
                                else print_fit sty sepd (l_real l) (l_real l =? 1) items) (flat_map item_docs items)).
        { destruct (negb (ls_no_indent sty)); [apply ca_nest|]; exact Hin. }
        destruct ((l_real l =? 1) && ls_omit_single sty); [apply ca_group; exact Hin'|].
        destruct (ls_omit_flat sty).
        { apply ca_group, carries_enclose; [apply noise_alt; [apply noise_open|apply noise_nil]|apply noise_alt; [apply noise_close|apply noise_nil]|exact Hin']. }
        destruct (ls_add_delim_space sty).
        { apply ca_group, carries_enclose; [| |exact Hin'].
          - apply noise_alt; [apply noise_open|apply noise_append; [apply noise_open|apply noise_space]].
          - apply noise_alt; [apply noise_close|apply noise_append; [apply noise_space|apply noise_close]]. }
        apply carries_enclose; [apply noise_open|apply noise_close|apply ca_group; exact Hin'].
      + (* Never *)
        assert (Hin : carries (print_never sty sepd items) (flat_map item_docs items)).
        { unfold print_never. change (flat_map item_docs items) with ([] ++ flat_map item_docs items).
          apply print_never_carries. apply ca_noise. destruct (ls_tight_delim sty); [apply noise_nil|apply noise_hardline]. }
        apply carries_enclose; [apply noise_open|apply noise_close|].
        destruct (negb (ls_no_indent sty)); [apply ca_nest|]; exact Hin.
      + (* Always *)
        assert (Hin : carries (group (print_always sty sepd (l_real l) (l_real l =? 1) items)) (flat_map item_docs items)).
        { apply ca_group. unfold print_always. change (flat_map item_docs items) with ([] ++ flat_map item_docs items).
          apply print_always_carries. apply ca_noise, noise_nil. }
        destruct (((l_real l =? 1) && ls_omit_single sty) || ls_omit_flat sty); [exact Hin|].
        destruct (ls_add_delim_space sty).
        * apply carries_enclose; [apply noise_open|apply noise_close|].
          apply carries_enclose; [apply noise_space|apply noise_space|exact Hin].
        * apply carries_enclose; [apply noise_open|apply noise_close|exact Hin].
  Qed.

  (* the printer conserves the items *)
  Theorem lst_print_conserves (l : lst) x :
    seqs (lst_print_doc swidth tab l sty) x ->
    exists xs, Forall2 seqs (flat_map item_docs (l_items l)) xs /\ kept x = kept (concat xs).
  Proof. apply carries_conserves, lst_print_carries. Qed.
End ListPrint.

(* ---------------------------------------------------------------------------------------------------------------
   The collecting side of the list stylist: what ends up in the items is what was pushed, in push order. *)
Section ListProcess.
  Variable swidth : str -> N.
  Variable tab : N.
  Variable sty : list_style.
  Notation text := (Doc.text swidth).
  Notation carries := (carries sty).
  Notation noise := (noise sty).

  (* the documents pushed so far = the documents the items carry, then the comments still waiting *)
  Definition collected (l : lst) (pushed : list doc) : Prop :=
    exists groups, Forall2 carries (flat_map item_docs (l_items l)) groups /\ pushed = concat groups ++ l_free l.

  Lemma carries_fold_sep sep : noise sep -> forall rest acc ds,
    carries acc ds -> carries (fold_left (fun a x => append (append a sep) x) rest acc) (ds ++ rest).
  Proof.
    intros Hs. induction rest as [|d rest IH]; intros acc ds H; cbn [fold_left].
    - rewrite app_nil_r. exact H.
    - replace (ds ++ d :: rest) with ((ds ++ [d]) ++ rest) by (rewrite <- app_assoc; reflexivity).
      apply IH. apply ca_app; [|apply ca_item].
      rewrite <- (app_nil_r ds). apply ca_app; [exact H|apply ca_noise; exact Hs].
  Qed.

  Lemma carries_intersperse sep ds : noise sep -> carries (intersperse ds sep) ds.
  Proof.
    intros Hs. destruct ds as [|d rest]; cbn [intersperse]; [apply ca_noise, noise_nil|].
    change (d :: rest) with ([d] ++ rest). apply carries_fold_sep; [exact Hs|].
    change [d] with ([] ++ [d]). apply ca_app; [apply ca_noise, noise_nil|apply ca_item].
  Qed.

  Lemma flat_map_comments fr : flat_map item_docs (map IComment fr) = fr.
  Proof. induction fr as [|c fr IH]; cbn; [reflexivity|]. rewrite IH. reflexivity. Qed.

  Lemma Forall2_singletons fr : Forall2 carries fr (map (fun c => [c]) fr).
  Proof. induction fr; cbn; constructor; [apply ca_item|assumption]. Qed.
  Lemma concat_singletons (fr : list doc) : concat (map (fun c => [c]) fr) = fr.
  Proof. induction fr as [|c fr IH]; cbn; [reflexivity|]. rewrite IH. reflexivity. Qed.

  Lemma collected_detach l pushed : collected l pushed -> collected (detach_comments l) pushed.
  Proof.
    intros (groups & HF & ->). unfold collected, detach_comments, set_free, set_items. cbn [l_items l_free].
    exists (groups ++ map (fun c => [c]) (l_free l)). split.
    - rewrite flat_map_app, flat_map_comments. apply Forall2_app; [exact HF|apply Forall2_singletons].
    - rewrite concat_app, concat_singletons, app_nil_r. reflexivity.
  Qed.

  Lemma Forall2_app_inv_l' {A B} (R : A -> B -> Prop) l1 l2 l' :
    Forall2 R (l1 ++ l2) l' -> exists l1' l2', Forall2 R l1 l1' /\ Forall2 R l2 l2' /\ l' = l1' ++ l2'.
  Proof. apply Forall2_app_inv_l. Qed.

  Lemma collected_try_attach l pushed :
    collected l pushed -> collected (fst (try_attach_comments l)) pushed.
  Proof.
    intros H. unfold try_attach_comments.
    destruct (l_can_attach l && negb (match l_free l with [] => true | _ => false end)); [|exact H].
    destruct (rev (l_items l)) as [|[c|body after|n] rest_rev] eqn:Er; try exact H.
    assert (Hi : l_items l = rev rest_rev ++ [ICommented body after]).
    { apply (f_equal (@rev item)) in Er. rewrite rev_involutive in Er. exact Er. }
    destruct H as (groups & HF & ->). rewrite Hi, flat_map_app in HF. cbn [flat_map item_docs] in HF.
    rewrite app_nil_r in HF.
    apply Forall2_app_inv_l in HF. destruct HF as (g1 & g2 & HF1 & HF2 & ->).
    cbn [fst]. unfold collected, set_free, set_items. cbn [l_items l_free].
    set (added := append space (intersperse (l_free l) space)).
    assert (Hadded : carries added (l_free l)).
    { unfold added. change (l_free l) with ([] ++ l_free l).
      apply ca_app; [apply ca_noise, noise_space|apply carries_intersperse, noise_space]. }
    inversion HF2 as [|b gb tl gtl Hb Htl]; subst.
    destruct after as [c|].
    - inversion Htl as [|a ga tl2 gtl2 Ha Htl2]; subst. inversion Htl2; subst.
      exists (g1 ++ [gb; ga ++ l_free l]). split.
      + rewrite flat_map_app. cbn [flat_map item_docs]. rewrite app_nil_r.
        apply Forall2_app; [exact HF1|]. constructor; [exact Hb|]. constructor; [|constructor].
        apply ca_app; [exact Ha|exact Hadded].
      + rewrite !concat_app. cbn [concat]. rewrite !app_nil_r, <- !app_assoc. reflexivity.
    - inversion Htl; subst.
      exists (g1 ++ [gb; l_free l]). split.
      + rewrite flat_map_app. cbn [flat_map item_docs]. rewrite app_nil_r.
        apply Forall2_app; [exact HF1|]. constructor; [exact Hb|]. constructor; [exact Hadded|constructor].
      + rewrite !concat_app. cbn [concat]. rewrite !app_nil_r, <- !app_assoc. reflexivity.
  Qed.

  Lemma collected_attach_or_detach l pushed :
    collected l pushed -> collected (attach_or_detach_comments l) pushed.
  Proof.
    intros H. unfold attach_or_detach_comments.
    pose proof (collected_try_attach l pushed H) as Ht.
    destruct (try_attach_comments l) as [l' ok]. cbn [fst] in Ht.
    destruct ok; [exact Ht|apply collected_detach; exact Ht].
  Qed.

  (* the hash the stylist re-emits in front of an item that followed one *)
  Definition hash_docs (l : lst) : list doc := if l_peek_hash l then [text [35]] else [].

  Lemma collected_add_item l body pushed :
    collected l pushed -> collected (lst_add_item swidth l body) (pushed ++ hash_docs l ++ [body]).
  Proof.
    intros H. unfold lst_add_item.
    set (l1 := mk_lst (l_can_attach l) (l_free l) (l_peek_hash l) (l_items l) (l_real l + 1) (l_has_comment l)
                      (l_has_line_comment l) (l_fold l) (l_no_front l) (l_no_detach l) (l_keep l)).
    assert (H1 : collected l1 pushed) by exact H.
    assert (Hh : carries (if l_peek_hash l then text [35] else DNil) (hash_docs l)).
    { unfold hash_docs. destruct (l_peek_hash l); [apply ca_item|apply ca_noise, noise_nil]. }
    assert (Hfinish : forall l2 before gb pushed2,
              collected l2 pushed2 -> l_free l2 = [] -> l_peek_hash l2 = l_peek_hash l -> carries before gb ->
              collected (set_can_attach (set_items l2 (l_items l2 ++
                           [ICommented (append (append before (if l_peek_hash l2 then text [35] else DNil)) body) None])) true)
                        (pushed2 ++ gb ++ hash_docs l ++ [body])).
    { intros l2 before gb pushed2 (groups & HF & ->) Hfree Hph Hb.
      unfold collected, set_can_attach, set_items. cbn [l_items l_free]. rewrite Hfree, app_nil_r, Hph.
      exists (groups ++ [gb ++ hash_docs l ++ [body]]). split.
      - rewrite flat_map_app. cbn [flat_map item_docs]. rewrite app_nil_r.
        apply Forall2_app; [exact HF|]. constructor; [|constructor].
        rewrite app_assoc. apply ca_app; [apply ca_app; [exact Hb|exact Hh]|apply ca_item].
      - rewrite concat_app. cbn [concat]. rewrite !app_nil_r. reflexivity. }
    destruct (l_no_front l1) eqn:Enf.
    - specialize (Hfinish (detach_comments l1) DNil [] pushed (collected_detach _ _ H1) eq_refl eq_refl (ca_noise _ _ (noise_nil _))).
      cbn [app] in Hfinish. exact Hfinish.
    - destruct (l_free l1) as [|f fr] eqn:Ef.
      + destruct H1 as (groups & HF & E). rewrite Ef, app_nil_r in E.
        assert (H1' : collected l1 pushed) by (exists groups; rewrite Ef, app_nil_r; auto).
        specialize (Hfinish l1 DNil [] pushed H1' Ef eq_refl (ca_noise _ _ (noise_nil _))).
        cbn [app] in Hfinish. exact Hfinish.
      + destruct H1 as (groups & HF & E).
        set (sep := if l_no_detach l1 then space else line).
        assert (Hsep : noise sep) by (unfold sep; destruct (l_no_detach l1); [apply noise_space|apply noise_line]).
        set (d := append (intersperse (f :: fr) sep) sep).
        assert (Hd : carries d (f :: fr)).
        { unfold d. apply carries_noise_r; [apply carries_intersperse; exact Hsep|exact Hsep]. }
        assert (Hbefore : carries (if l_no_detach l1 then d else group d) (f :: fr)).
        { destruct (l_no_detach l1); [exact Hd|apply ca_group; exact Hd]. }
        assert (H2 : collected (set_free l1 []) (concat groups)).
        { exists groups. unfold set_free. cbn [l_items l_free]. rewrite app_nil_r. auto. }
        specialize (Hfinish (set_free l1 []) _ (f :: fr) (concat groups) H2 eq_refl eq_refl Hbefore).
        rewrite E, Ef, <- app_assoc. exact Hfinish.
  Qed.

  Lemma flat_map_pop its : flat_map item_docs (rev (pop_linebreaks_rev (rev its))) = flat_map item_docs its.
  Proof.
    rewrite <- (rev_involutive its) at 2. generalize (rev its). intros r. clear its.
    induction r as [|it r IH]; [reflexivity|].
    destruct it as [c|b a|n]; cbn [pop_linebreaks_rev]; try reflexivity.
    rewrite IH. cbn [rev]. rewrite flat_map_app. cbn [flat_map item_docs]. rewrite !app_nil_r. reflexivity.
  Qed.

  Lemma collected_windup l pushed :
    collected l pushed -> collected (lst_windup l) pushed /\ l_free (lst_windup l) = [].
  Proof.
    intros H. unfold lst_windup.
    pose proof (collected_attach_or_detach l pushed H) as Ha.
    assert (Hfree : l_free (attach_or_detach_comments l) = []).
    { unfold attach_or_detach_comments, try_attach_comments.
      destruct (l_can_attach l && negb (match l_free l with [] => true | _ => false end)); [|reflexivity].
      destruct (rev (l_items l)) as [|[c|b a|n] r]; reflexivity. }
    destruct Ha as (groups & HF & E). split; [|exact Hfree].
    exists groups. unfold set_items. cbn [l_items l_free]. rewrite flat_map_pop. auto.
  Qed.

  (* ---- the stylist's operations ---- *)
  Inductive lop :=
  | LItem (body : doc)
  | LComment (d : doc) (is_line : bool)
  | LComma
  | LSpace (n : N)
  | LHash
  | LOther.

  Definition apply_lop (l : lst) (op : lop) : lst :=
    match op with
    | LItem body => set_peek_hash (lst_add_item swidth l body) false
    | _ =>
        let l := set_peek_hash l false in
        match op with
        | LComment d is_line =>
            mk_lst (l_can_attach l) (l_free l ++ [d]) (l_peek_hash l) (l_items l) (l_real l) true
                   (l_has_line_comment l || is_line) (if is_line then Never else l_fold l)
                   (l_no_front l) (l_no_detach l) (l_keep l)
        | LComma => fst (try_attach_comments l)
        | LSpace n =>
            if 0 <? n then
              let l1 := set_can_attach (attach_or_detach_comments l) false in
              match l_keep l1 with
              | Some nl =>
                  if (2 <=? n) && negb (match l_items l1 with [] => true | _ => false end)
                  then set_items l1 (l_items l1 ++ [ILinebreak (N.min (n - 1) nl)])
                  else l1
              | None => l1
              end
            else l
        | LHash => set_peek_hash l true
        | _ => l
        end
    end.

  Definition lop_docs (l : lst) (op : lop) : list doc :=
    match op with
    | LItem body => hash_docs l ++ [body]
    | LComment d _ => [d]
    | _ => []
    end.

  Lemma collected_peek l b pushed : collected l pushed -> collected (set_peek_hash l b) pushed.
  Proof. intros H. exact H. Qed.
  Lemma collected_can_attach l b pushed : collected l pushed -> collected (set_can_attach l b) pushed.
  Proof. intros H. exact H. Qed.

  Lemma collected_apply l op pushed :
    collected l pushed -> collected (apply_lop l op) (pushed ++ lop_docs l op).
  Proof.
    intros H. destruct op as [body|d is_line| |n| |]; cbn [apply_lop lop_docs]; rewrite ?app_nil_r.
    - apply collected_peek, collected_add_item, H.
    - destruct H as (groups & HF & ->). exists groups. cbn [l_items l_free set_peek_hash].
      split; [exact HF|rewrite <- app_assoc; reflexivity].
    - apply collected_try_attach, collected_peek, H.
    - destruct (0 <? n); [|apply collected_peek, H].
      pose proof (collected_can_attach _ false _ (collected_attach_or_detach _ _ (collected_peek l false _ H))) as H1.
      destruct (l_keep (set_can_attach (attach_or_detach_comments (set_peek_hash l false)) false)); [|exact H1].
      match goal with |- collected (if ?b then _ else _) _ => destruct b end; [|exact H1].
      destruct H1 as (groups & HF & E). exists groups. unfold set_items. cbn [l_items l_free].
      rewrite flat_map_app. cbn [flat_map item_docs]. rewrite !app_nil_r. auto.
    - exact H.
    - exact H.
  Qed.

  (* the documents pushed by a sequence of operations, in order *)
  Fixpoint pushed_by (l : lst) (ops : list lop) : list doc :=
    match ops with
    | [] => []
    | op :: r => lop_docs l op ++ pushed_by (apply_lop l op) r
    end.

  Theorem lst_ops_collect : forall ops l pushed,
    collected l pushed -> collected (fold_left apply_lop ops l) (pushed ++ pushed_by l ops).
  Proof.
    induction ops as [|op ops IH]; intros l pushed H; cbn [fold_left pushed_by].
    - rewrite app_nil_r. exact H.
    - rewrite app_assoc. apply IH, collected_apply, H.
  Qed.

  Lemma refine_groups : forall ds groups, Forall2 carries ds groups ->
    forall xs, Forall2 seqs ds xs ->
    exists xs', Forall2 seqs (concat groups) xs' /\ kept sty (concat xs) = kept sty (concat xs').
  Proof.
    induction 1 as [|d g ds gs Hd Hrest IH]; intros xs Hxs.
    - inversion Hxs; subst. exists []. split; [constructor|reflexivity].
    - inversion Hxs as [|d' xd ds' xs0 Hxd Hxs0]; subst.
      destruct (carries_conserves sty d g Hd xd Hxd) as (xg & Hxg & Eg).
      destruct (IH xs0 Hxs0) as (xr & Hxr & Er).
      exists (xg ++ xr). split; [cbn [concat]; apply Forall2_app; assumption|].
      cbn [concat]. rewrite concat_app, !kept_app, Eg, Er. reflexivity.
  Qed.

  (* from an empty stylist to the printed document: its atoms are those of the pushed documents, in push order *)
  Theorem lst_ops_conserve l0 ops x :
    l_items l0 = [] -> l_free l0 = [] ->
    seqs (lst_print_doc swidth tab (lst_windup (fold_left apply_lop ops l0)) sty) x ->
    exists xs, Forall2 seqs (pushed_by l0 ops) xs /\ kept sty x = kept sty (concat xs).
  Proof.
    intros Hi Hf Hx.
    assert (H0 : collected l0 []) by (exists []; rewrite Hi, Hf; split; [constructor|reflexivity]).
    pose proof (lst_ops_collect ops l0 [] H0) as H1. cbn [app] in H1.
    destruct (collected_windup _ _ H1) as [(groups & HF & E) Hfree]. rewrite Hfree, app_nil_r in E.
    destruct (lst_print_conserves swidth tab sty _ x Hx) as (xs & Hxs & Ex).
    destruct (refine_groups _ _ HF xs Hxs) as (xs' & Hxs' & Er).
    exists xs'. rewrite E. split; [exact Hxs'|]. rewrite Ex. exact Er.
  Qed.
End ListProcess.

(* ---------------------------------------------------------------------------------------------------------------
   The monadic loop of ListStylist::process_* performs one stylist operation per node, in node order. *)
Section ListLoop.
  Variable swidth : str -> N.
  Variable cfg : config.
  Let tab := tab_spaces cfg.

  Definition trivia_op (node : bundle) (op : lop) : Prop :=
    match bk node with
    | KLineComment | KBlockComment =>
        exists d, comment swidth (bt node) = Ok d /\ op = LComment d (kind_eqb (bk node) KLineComment)
    | KComma => op = LComma
    | KSpace => op = LSpace (count_lb (tx node))
    | KHash => op = LHash
    | _ => op = LOther
    end.

  Definition lop_for (checker : ctx -> bundle -> M (option doc)) (node : bundle) (op : lop) : Prop :=
    exists c' n o n', checker c' node n = Ok (o, n') /\
      match o with Some body => op = LItem body | None => trivia_op node op end.

  Lemma trivia_step l node n l' n' :
    lst_process_trivia swidth (set_peek_hash l false) node n = Ok (l', n') ->
    exists op, trivia_op node op /\ l' = apply_lop swidth l op.
  Proof.
    unfold lst_process_trivia, trivia_op. intros H.
    destruct (bk node) eqn:Ek;
      try (inversion H; subst; exists LOther; split; reflexivity).
    - (* LineComment *)
      unfold bind, convert_comment, lift in H. destruct (comment swidth (bt node)) as [d|] eqn:Ec; [|discriminate].
      cbn in H. inversion H; subst. exists (LComment d true). split; [exists d; auto|reflexivity].
    - (* BlockComment *)
      unfold bind, convert_comment, lift in H. destruct (comment swidth (bt node)) as [d|] eqn:Ec; [|discriminate].
      cbn in H. inversion H; subst. exists (LComment d false). split; [exists d; auto|reflexivity].
    - (* Space *)
      exists (LSpace (count_lb (tx node))). split; [reflexivity|]. cbn [apply_lop].
      destruct (0 <? count_lb (tx node)); [|inversion H; reflexivity].
      destruct (l_keep (set_can_attach (attach_or_detach_comments (set_peek_hash l false)) false)); [|inversion H; reflexivity].
      match type of H with (if ?b then _ else _) _ = _ => destruct b end; inversion H; reflexivity.
    - (* Hash *) inversion H; subst. exists LHash. split; reflexivity.
    - (* Comma *) inversion H; subst. exists LComma. split; reflexivity.
  Qed.

  Lemma lst_fold_ops (c : ctx) (checker : ctx -> bundle -> M (option doc)) :
    forall nodes (l : lst) n l' n',
      foldM (fun (l : lst) (node : bundle) =>
               let c' := with_mode_if c LCode (l_peek_hash l) in
               o <- checker c' node ;;
               match o with
               | Some body => ret (set_peek_hash (lst_add_item swidth l body) false)
               | None => lst_process_trivia swidth (set_peek_hash l false) node
               end) nodes l n = Ok (l', n') ->
      exists ops, Forall2 (lop_for checker) nodes ops /\ l' = fold_left (apply_lop swidth) ops l.
  Proof.
    induction nodes as [|node nodes IH]; intros l n l' n' H.
    - cbn in H. inversion H; subst. exists []. split; [constructor|reflexivity].
    - cbn [foldM] in H. unfold bind at 1 in H.
      match type of H with match ?step n with _ => _ end = _ => destruct (step n) as [[l1 n1]|] eqn:Es; [|discriminate] end.
      apply IH in H. destruct H as (ops & Hops & ->).
      unfold bind in Es.
      destruct (checker (with_mode_if c LCode (l_peek_hash l)) node n) as [[o n2]|] eqn:Ec; [|discriminate].
      destruct o as [body|].
      + inversion Es; subst. exists (LItem body :: ops). split; [|reflexivity].
        constructor; [|exact Hops]. exists (with_mode_if c LCode (l_peek_hash l)), n, (Some body), n1. auto.
      + apply trivia_step in Es. destruct Es as (op & Hop & ->).
        exists (op :: ops). split; [|reflexivity].
        constructor; [|exact Hops]. exists (with_mode_if c LCode (l_peek_hash l)), n, None, n2. auto.
  Qed.

  (* every list-based converter (array, dict, args, params, destructuring, parenthesized, code block, import items,
     equation): the printed list has exactly the atoms of what was pushed for the nodes, in node order, with only
     blanks, line breaks and the style's separator and delimiters in between *)
  Theorem lst_process_conserves (l0 : lst) (c : ctx) nodes checker n l' n' sty x :
    l_items l0 = [] -> l_free l0 = [] ->
    lst_process swidth l0 c nodes checker n = Ok (l', n') ->
    seqs (lst_doc swidth cfg l' sty) x ->
    exists ops xs, Forall2 (lop_for checker) nodes ops /\
                   Forall2 seqs (pushed_by swidth l0 ops) xs /\ kept sty x = kept sty (concat xs).
  Proof.
    intros Hi Hf H Hx. unfold lst_process in H. unfold bind at 1 in H.
    match type of H with match ?m n with _ => _ end = _ => destruct (m n) as [[l1 n1]|] eqn:Ef; [|discriminate] end.
    cbn in H. inversion H; subst. apply lst_fold_ops in Ef. destruct Ef as (ops & Hops & ->).
    unfold lst_doc in Hx.
    destruct (lst_ops_conserve swidth (tab_spaces cfg) sty l0 ops x Hi Hf Hx) as (xs & Hxs & E).
    exists ops, xs. auto.
  Qed.
End ListLoop.

(* ---------------------------------------------------------------------------------------------------------------
   The chain stylist's printer (dot chains, binary chains): bodies, operators and comments all reach the document,
   in chain order. *)
Section ChainPrint.
  Variable swidth : str -> N.
  Variable tab : N.
  Notation text := (Doc.text swidth).
  (* no style punctuation here: only blanks and line breaks are noise *)
  Definition sty0 : list_style := mk_ls [SP] [SP] [SP] false false false false false false false false.
  Notation carries := (carries sty0).
  Notation noise := (noise sty0).

  Definition chain_item_docs (it : chain_item) : list doc :=
    match it with CBody d | COp d | CComment d | CAttached d => [d] | CLinebreak => [] end.

  (* the list of documents `docs` taken together carries ds *)
  Definition docs_carry (docs : list doc) (ds : list doc) : Prop :=
    exists groups, Forall2 carries docs groups /\ ds = concat groups.

  Lemma docs_carry_push docs ds d g : docs_carry docs ds -> carries d g -> docs_carry (docs ++ [d]) (ds ++ g).
  Proof.
    intros (groups & HF & ->) Hd. exists (groups ++ [g]). split.
    - apply Forall2_app; [exact HF|constructor; [exact Hd|constructor]].
    - rewrite concat_app. cbn. rewrite app_nil_r. reflexivity.
  Qed.

  Lemma docs_carry_add_last docs ds d g : docs <> [] -> docs_carry docs ds -> carries d g ->
    docs_carry (add_to_last docs d) (ds ++ g).
  Proof.
    intros Hne (groups & HF & ->) Hd. unfold add_to_last.
    destruct (rev docs) as [|lastd r] eqn:Er.
    - apply (f_equal (@rev doc)) in Er. rewrite rev_involutive in Er. cbn in Er. contradiction.
    - assert (Hdocs : docs = rev r ++ [lastd]) by (apply (f_equal (@rev doc)) in Er; rewrite rev_involutive in Er; exact Er).
      rewrite Hdocs in HF. apply Forall2_app_inv_l in HF. destruct HF as (g1 & g2 & H1 & H2 & ->).
      inversion H2 as [|x gx tl gtl Hx Htl]; subst. inversion Htl; subst.
      exists (g1 ++ [gx ++ g]). split.
      + apply Forall2_app; [exact H1|constructor; [apply ca_app; assumption|constructor]].
      + rewrite !concat_app. cbn. rewrite !app_nil_r, <- app_assoc. reflexivity.
  Qed.

  Lemma carries_concat_docs : forall docs groups acc ga,
    Forall2 carries docs groups -> carries acc ga -> carries (fold_left append docs acc) (ga ++ concat groups).
  Proof.
    induction docs as [|d docs IH]; intros groups acc ga HF Ha; inversion HF; subst; cbn [fold_left concat].
    - rewrite app_nil_r. exact Ha.
    - rewrite app_assoc. apply IH; [assumption|]. apply ca_app; assumption.
  Qed.

  (* an attached comment is glued to the last collected document: there must be one (the chain builder only attaches
     after a body; `chain_inner_step` sets can_attach after pushing one) *)
  Fixpoint attached_ok (seen : bool) (items : list chain_item) : bool :=
    match items with
    | [] => true
    | CAttached _ :: r => seen && attached_ok seen r
    | _ :: r => attached_ok true r
    end.

  Lemma add_to_last_nonempty' docs d : docs <> [] -> add_to_last docs d <> [].
  Proof.
    intros H. unfold add_to_last. destruct (rev docs) as [|ld r] eqn:Er.
    - apply (f_equal (@rev doc)) in Er. rewrite rev_involutive in Er. cbn in Er. contradiction.
    - intros E. apply app_eq_nil in E. destruct E; discriminate.
  Qed.

  Theorem chain_print_conserves (c : chain) (csty : chain_style) d x :
    attached_ok false (ch_items c) = true ->
    chain_print_doc swidth tab c csty = Ok d -> seqs d x ->
    exists xs, Forall2 seqs (flat_map chain_item_docs (ch_items c)) xs /\ kept sty0 x = kept sty0 (concat xs).
  Proof.
    unfold chain_print_doc. intros Hok H Hx.
    match type of H with context [fold_left ?f (ch_items c) ?a] => set (step := f) in *; set (acc0 := a) in * end.
    assert (Hinv : forall items docs hb leading sa ds seen,
              docs_carry docs ds -> (leading = false -> docs <> []) -> (seen = true -> docs <> []) ->
              attached_ok seen items = true ->
              docs_carry (fst (fst (fst (fold_left step items (docs, hb, leading, sa))))) (ds ++ flat_map chain_item_docs items)).
    { induction items as [|it items IH]; intros docs hb leading sa ds seen Hc Hl Hs Ha; cbn [fold_left flat_map].
      - rewrite app_nil_r. exact Hc.
      - rewrite app_assoc.
        assert (Hsp : forall (sa' : bool) (cmt : doc), carries (if sa' then append space cmt else cmt) [cmt]).
        { intros sa' cmt. destruct sa'; [apply carries_noise_l; [apply noise_space|apply ca_item]|apply ca_item]. }
        assert (Hpushne : forall (l : list doc) y, l ++ [y] <> []).
        { intros l y E. apply app_eq_nil in E. destruct E; discriminate. }
        unfold step at 2. destruct it as [body|op|cmt|cmt|]; cbn [chain_item_docs attached_ok] in *.
        + destruct leading.
          * apply (IH _ _ _ _ _ true); [apply docs_carry_push; [exact Hc|apply ca_item]|intros _; apply Hpushne|intros _; apply Hpushne|exact Ha].
          * apply (IH _ _ _ _ _ true); [apply docs_carry_add_last; [apply Hl; reflexivity|exact Hc|apply ca_item]| | |exact Ha];
              intros _; apply add_to_last_nonempty', Hl; reflexivity.
        + assert (Hop : carries (if cs_space_around_op csty then append op (text [32]) else op) [op]).
          { destruct (cs_space_around_op csty); [|apply ca_item].
            apply carries_noise_r; [apply ca_item|]. apply noise_text. reflexivity. }
          apply (IH _ _ _ _ _ true); [|intros _; apply Hpushne|intros _; apply Hpushne|exact Ha].
          match goal with |- docs_carry ((if ?b then _ else _) ++ _) _ => destruct b end.
          * apply docs_carry_push; [|exact Hop].
            rewrite <- (app_nil_r ds). apply docs_carry_push; [exact Hc|].
            apply ca_noise. destruct (cs_space_around_op csty); [apply noise_line|apply noise_line_].
          * apply docs_carry_push; [exact Hc|exact Hop].
        + destruct leading.
          * apply (IH _ _ _ _ _ true); [apply docs_carry_push; [exact Hc|apply ca_item]|intros _; apply Hpushne|intros _; apply Hpushne|exact Ha].
          * apply (IH _ _ _ _ _ true); [apply docs_carry_add_last; [apply Hl; reflexivity|exact Hc|apply Hsp]| | |exact Ha];
              intros _; apply add_to_last_nonempty', Hl; reflexivity.
        + apply andb_prop in Ha. destruct Ha as [Hseen Ha]. subst seen.
          apply (IH _ _ _ _ _ true); [apply docs_carry_add_last; [apply Hs; reflexivity|exact Hc|apply Hsp]| | |exact Ha].
          * intros _. apply add_to_last_nonempty', Hs. reflexivity.
          * intros _. apply add_to_last_nonempty', Hs. reflexivity.
        + rewrite app_nil_r. apply (IH _ _ _ _ _ true); [|intros E; discriminate|intros _; apply Hpushne|exact Ha].
          rewrite <- (app_nil_r ds). apply docs_carry_push; [exact Hc|apply ca_noise, noise_hardline]. }
    specialize (Hinv (ch_items c) [] false true true [] false).
    unfold acc0 in H.
    destruct (fold_left step (ch_items c) ([], false, true, true)) as [[[docs hb] leading] sa] eqn:Ef.
    cbn [fst] in Hinv.
    assert (Hdc : docs_carry docs (flat_map chain_item_docs (ch_items c))).
    { apply Hinv; [exists []; split; [constructor|reflexivity]|discriminate|discriminate|exact Hok]. }
    destruct docs as [|first follow]; [discriminate|].
    destruct Hdc as (groups & HF & E). inversion HF as [|f gf fl gfl Hf Hfl]; subst.
    assert (Hfollow : carries (concat_docs follow) (concat gfl)).
    { unfold concat_docs. change (concat gfl) with ([] ++ concat gfl).
      apply carries_concat_docs; [exact Hfl|apply ca_noise, noise_nil]. }
    assert (Hd : carries d (gf ++ concat gfl)).
    { destruct ((ch_op_num c =? 1) && cs_no_break_single csty && negb (ch_has_comment c)); inversion H; subst.
      - apply ca_group, ca_app; [exact Hf|exact Hfollow].
      - apply ca_group, ca_app; [exact Hf|apply ca_nest; exact Hfollow]. }
    destruct (carries_conserves sty0 d _ Hd x Hx) as (xs & Hxs & Ex).
    exists xs. rewrite E. cbn [concat]. auto.
  Qed.
End ChainPrint.

(* the chain builder only attaches a comment after it has pushed a body: its chains satisfy attached_ok *)
From TV Require Import SafeProofs.
Section ChainAttach.
  Variable swidth : str -> N.
  Variable cfg : config.

  Lemma attached_ok_app seen items it :
    attached_ok seen (items ++ [it]) =
    attached_ok seen items && match it with CAttached _ => seen || existsb is_solid_item items | _ => true end.
  Proof.
    revert seen. induction items as [|x items IH]; intros seen; cbn [app attached_ok existsb].
    - destruct it; cbn; rewrite ?Bool.andb_true_r, ?Bool.orb_false_r; reflexivity.
    - destruct x; cbn [is_solid_item]; rewrite IH; cbn [orb];
        try (destruct it; rewrite ?Bool.orb_true_r; reflexivity).
      rewrite Bool.andb_assoc. reflexivity.
  Qed.

  Definition aok (ch : chain) (ca : bool) : Prop :=
    attached_ok false (ch_items ch) = true /\ (ca = true -> existsb is_solid_item (ch_items ch) = true).

  Lemma aok_push ch ca it ca' n hc :
    aok ch ca -> (match it with CAttached _ => ca = true | _ => True end) ->
    (ca' = true -> is_solid_item it = true \/ ca = true) ->
    aok (mk_chain (ch_items ch ++ [it]) n hc) ca'.
  Proof.
    intros [H1 H2] Hit Hca. split; cbn [ch_items].
    - rewrite attached_ok_app, H1. destruct it; try reflexivity. cbn [andb orb]. apply H2. exact Hit.
    - intros E. rewrite existsb_app. cbn [existsb]. destruct (Hca E) as [Hs|Hc].
      + rewrite Hs. rewrite Bool.orb_true_r. reflexivity.
      + rewrite (H2 Hc). reflexivity.
  Qed.

  Lemma inner_step_aok {S : Type} c (opc : S -> bundle -> S * option doc) rhs (st : chain * bool * bool * S) x :
    aok (fst (fst (fst st))) (snd (fst (fst st))) ->
    post (chain_inner_step swidth c opc rhs st x) (fun st' => aok (fst (fst (fst st'))) (snd (fst (fst st')))).
  Proof.
    destruct st as [[[ch ca] so] s]. cbn [fst snd]. intros H. unfold chain_inner_step.
    destruct (opc s x) as [s' oc]. destruct oc as [op|].
    - apply post_ret. cbn [fst snd]. eapply aok_push; [exact H|exact I|auto].
    - destruct (is_comment_b x).
      { apply (post_bind _ _ (fun _ => True)); [apply post_any|]. intros d _. apply post_ret. cbn [fst snd].
        destruct ca; (eapply aok_push; [exact H| |auto]); [reflexivity|exact I]. }
      destruct (kind_eqb (bk x) KSpace).
      { destruct (has_lb (tx x)); apply post_ret; cbn [fst snd]; [|exact H].
        destruct (chain_last_is_comment (ch_items ch)).
        - eapply aok_push; [exact H|exact I|intros E; discriminate].
        - destruct H as [H1 _]. split; [exact H1|intros E; discriminate]. }
      destruct so.
      + apply (post_bind _ _ (fun _ => True)); [apply post_any|]. intros o _.
        destruct o; apply post_ret; cbn [fst snd]; [|exact H].
        eapply aok_push; [exact H|exact I|intros _; left; reflexivity].
      + apply post_ret. exact H.
  Qed.

  Lemma inner_loop_aok {S : Type} c (opc : S -> bundle -> S * option doc) rhs : forall kids (st : chain * bool * bool * S),
    aok (fst (fst (fst st))) (snd (fst (fst st))) ->
    post (foldM (chain_inner_step swidth c opc rhs) kids st) (fun st' => aok (fst (fst (fst st'))) (snd (fst (fst st')))).
  Proof.
    intros kids st H. apply (post_foldM _ (fun st' => aok (fst (fst (fst st'))) (snd (fst (fst st'))))); [exact H|].
    intros s x _ Hs. apply inner_step_aok. exact Hs.
  Qed.

  Lemma outer_step_aok {S : Type} c pred (opc : S -> bundle -> S * option doc) rhs fb (st : chain * bool * S) node :
    aok (fst (fst st)) (snd (fst st)) ->
    post (chain_outer_step swidth c pred opc rhs fb st node) (fun st' => aok (fst (fst st')) (snd (fst st'))).
  Proof.
    destruct st as [[ch ca] s]. cbn [fst snd]. intros H. unfold chain_outer_step.
    destruct (pred node).
    - eapply post_bind; [apply (inner_loop_aok c opc rhs (bkids node) (_, ca, false, s)); exact H|].
      intros [[[ch1 ca1] so1] s1] H1. apply post_ret. exact H1.
    - eapply post_bind; [apply post_any|]. intros o _.
      destruct o as [d|]; [|apply post_ret; exact H].
      destruct (rev (ch_items ch)) as [|[body| | | |] r] eqn:Er; apply post_ret; cbn [fst snd];
        try (eapply aok_push; [exact H|exact I|intros _; left; reflexivity]).
      (* the fallback document is glued to the last body *)
      assert (Hi : ch_items ch = rev r ++ [CBody body]).
      { apply (f_equal (@rev chain_item)) in Er. rewrite rev_involutive in Er. exact Er. }
      destruct H as [H1 H2]. rewrite Hi in H1, H2. rewrite attached_ok_app in H1. rewrite existsb_app in H2.
      split; cbn [ch_items].
      + rewrite attached_ok_app. exact H1.
      + intros E. rewrite existsb_app. cbn [existsb is_solid_item]. rewrite Bool.orb_true_r. reflexivity.
  Qed.

  Theorem chain_process_attached_ok {S : Type} c nodes (s0 : S) pred opc rhs fb :
    post (chain_process swidth c nodes s0 pred opc rhs fb) (fun ch => attached_ok false (ch_items ch) = true).
  Proof.
    unfold chain_process. eapply post_bind.
    - apply (post_foldM _ (fun st' : chain * bool * S => aok (fst (fst st')) (snd (fst st')))).
      + split; [reflexivity|intros E; discriminate].
      + intros st node _ Hs. apply outer_step_aok. exact Hs.
    - intros [[ch ca] s] [H _]. apply post_ret. exact H.
  Qed.
End ChainAttach.
