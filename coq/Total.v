(* Total.v — C05: formatting a well-formed, schema-conforming source returns text: no Panic site of the
   converter is reachable, the renderer's fuel suffices, and the counter stays within 3 per node. *)
From TV Require Import Conv Format Render RenderProofs ConvProofs CostProofs SafeProofs CostBound SafeBound AttrShape SchemaShape Post.
From Coq Require Import Lia.

Section Total.
  Variable swidth : str -> N.

  Theorem convert_root_total cfg t :
    kind_of t = KMarkup -> swfc t = true ->
    exists d n, convert_root swidth cfg t = Ok (d, n) /\ n <= 3 * N.of_nat (tree_size t).
  Proof.
    intros Hk Hw. rewrite <- swfc_annotate in Hw. rewrite <- (tree_size_annotate t). unfold convert_root. rewrite Hk. cbn [kind_eqb negb].
    replace (kind_eqb KMarkup KMarkup) with true by reflexivity. cbn [negb].
    unfold run_m, convert_markup_root.
    destruct (conversions_total swidth cfg (annotate t) (RMarkup ctx_default ScDocument) 0 Hw I) as (d & n & E & Hn).
    exists d, n. split; [exact E|lia].
  Qed.

  Theorem format_total cfg t :
    erroneous t = false -> kind_of t = KMarkup -> swfc t = true ->
    exists out n, format_source swidth cfg t = FOk out n /\ n <= 3 * N.of_nat (tree_size t).
  Proof.
    intros He Hk Hw. unfold format_source. rewrite He.
    destruct (convert_root_total cfg t Hk Hw) as (d & n & -> & Hn).
    destruct (render_total (max_width cfg) d) as [s ->]. exists (strip s), n. split; [reflexivity|exact Hn].
  Qed.
End Total.
