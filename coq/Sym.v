(* Sym.v — indentation as a symbolic quantity (C12). A symbolic document carries nests of the form
   a * U + b (U = the indent unit); `inst u` instantiates it. `best_wide` is the renderer when no line needs
   wrapping (a group is flat iff its flat resolution holds no mandatory line break); `best_sym` runs the same
   machine on symbolic documents with indentation and column kept as pairs (a, b). *)
From TV Require Export Render RenderProofs.

Inductive sdoc : Type :=
| SNil
| SAppend (a b : sdoc)
| SGroup (d : sdoc)
| SFlatAlt (brk flat : sdoc)
| SNest (a b : N) (d : sdoc)       (* nest (a * U + b) *)
| SHardline
| SText (s : str)
| STextW (w : N) (s : str)
| SAlign (d : sdoc).

Fixpoint inst (u : N) (d : sdoc) : doc :=
  match d with
  | SNil => DNil
  | SAppend a b => DAppend (inst u a) (inst u b)
  | SGroup x => DGroup (inst u x)
  | SFlatAlt b f => DFlatAlt (inst u b) (inst u f)
  | SNest a b x => DNest (Z.of_N (a * u + b)) (inst u x)
  | SHardline => DHardline
  | SText s => DText s
  | STextW w s => DTextW w s
  | SAlign x => DAlign (inst u x)
  end.

(* recover the symbolic document from the documents built for the units 2 and 3 (None if they are not
   instances of one symbolic document with non-negative coefficients) *)
Fixpoint sym_of (d2 d3 : doc) : option sdoc :=
  match d2, d3 with
  | DNil, DNil => Some SNil
  | DAppend a2 b2, DAppend a3 b3 =>
      match sym_of a2 a3, sym_of b2 b3 with Some a, Some b => Some (SAppend a b) | _, _ => None end
  | DGroup x2, DGroup x3 => match sym_of x2 x3 with Some x => Some (SGroup x) | None => None end
  | DFlatAlt a2 b2, DFlatAlt a3 b3 =>
      match sym_of a2 a3, sym_of b2 b3 with Some a, Some b => Some (SFlatAlt a b) | _, _ => None end
  | DNest k2 x2, DNest k3 x3 =>
      if (0 <=? k2)%Z && (k2 <=? k3)%Z then
        let a := Z.to_N (k3 - k2) in
        if (2 * a <=? Z.to_N k2) then
          match sym_of x2 x3 with Some x => Some (SNest a (Z.to_N k2 - 2 * a) x) | None => None end
        else None
      else None
  | DHardline, DHardline => Some SHardline
  | DText s2, DText s3 => if str_eqb s2 s3 then Some (SText s2) else None
  | DTextW w2 s2, DTextW w3 s3 => if (w2 =? w3) && str_eqb s2 s3 then Some (STextW w2 s2) else None
  | DAlign x2, DAlign x3 => match sym_of x2 x3 with Some x => Some (SAlign x) | None => None end
  | _, _ => None
  end.

(* ---- the renderer when nothing needs wrapping ---- *)
Fixpoint best_wide (fuel : nat) (pos : N) (bc : list cmd) : option (list event) :=
  match fuel with
  | O => None
  | S fuel' =>
      match bc with
      | [] => Some []
      | (ind, m, d) :: bc' =>
          match d with
          | DNil => best_wide fuel' pos bc'
          | DAppend a b => best_wide fuel' pos ((ind, m, a) :: (ind, m, b) :: bc')
          | DFlatAlt b f => best_wide fuel' pos ((ind, m, match m with MBreak => b | MFlat => f end) :: bc')
          | DGroup x =>
              match m with
              | MFlat => best_wide fuel' pos ((ind, MFlat, x) :: bc')
              | MBreak => best_wide fuel' pos ((ind, (if flat_has_line x then MBreak else MFlat), x) :: bc')
              end
          | DNest k x => best_wide fuel' pos ((nest_ind ind k, m, x) :: bc')
          | DHardline =>
              let ind' := match bc' with (i, _, _) :: _ => i | [] => ind end in
              match best_wide fuel' ind' bc' with
              | None => None
              | Some es => Some (ENewline ind' :: es)
              end
          | DText s | DTextW _ s =>
              match best_wide fuel' (pos + text_width d) bc' with
              | None => None
              | Some es => Some (EText s :: es)
              end
          | DAlign x => best_wide fuel' pos ((nest_ind ind (Z.of_N pos - Z.of_N ind), m, x) :: bc')
          end
      end
  end.

Definition render_wide_events (d : doc) : option (list event) := best_wide (best_fuel d) 0 [(0, MBreak, d)].
Definition render_wide (d : doc) : option str :=
  match render_wide_events d with Some es => Some (flatten_events es) | None => None end.

(* ---- the same machine on symbolic documents ---- *)
Definition sq : Type := (N * N)%type.          (* a * U + b *)
Definition sq_val (u : N) (q : sq) : N := fst q * u + snd q.
Definition scmd : Type := (sq * mode * sdoc)%type.

Inductive sevent :=
| SEText (s : str)
| SENewline (indent : sq).

Fixpoint sflat_has_line (d : sdoc) : bool :=
  match d with
  | SNil | SText _ | STextW _ _ => false
  | SHardline => true
  | SAppend a b => sflat_has_line a || sflat_has_line b
  | SGroup x | SNest _ _ x | SAlign x => sflat_has_line x
  | SFlatAlt _ f => sflat_has_line f
  end.

Definition stext_width (d : sdoc) : N :=
  match d with SText s => byte_len s | STextW w _ => w | _ => 0 end.

Fixpoint best_sym (fuel : nat) (pos : sq) (bc : list scmd) : option (list sevent) :=
  match fuel with
  | O => None
  | S fuel' =>
      match bc with
      | [] => Some []
      | (ind, m, d) :: bc' =>
          match d with
          | SNil => best_sym fuel' pos bc'
          | SAppend a b => best_sym fuel' pos ((ind, m, a) :: (ind, m, b) :: bc')
          | SFlatAlt b f => best_sym fuel' pos ((ind, m, match m with MBreak => b | MFlat => f end) :: bc')
          | SGroup x =>
              match m with
              | MFlat => best_sym fuel' pos ((ind, MFlat, x) :: bc')
              | MBreak => best_sym fuel' pos ((ind, (if sflat_has_line x then MBreak else MFlat), x) :: bc')
              end
          | SNest a b x => best_sym fuel' pos (((fst ind + a, snd ind + b), m, x) :: bc')
          | SHardline =>
              let ind' := match bc' with (i, _, _) :: _ => i | [] => ind end in
              match best_sym fuel' ind' bc' with
              | None => None
              | Some es => Some (SENewline ind' :: es)
              end
          | SText s | STextW _ s =>
              match best_sym fuel' (fst pos, snd pos + stext_width d) bc' with
              | None => None
              | Some es => Some (SEText s :: es)
              end
          | SAlign x => best_sym fuel' pos ((pos, m, x) :: bc')
          end
      end
  end.

Fixpoint sdoc_size (d : sdoc) : nat :=
  match d with
  | SNil | SHardline | SText _ | STextW _ _ => 1
  | SAppend a b => S (sdoc_size a + sdoc_size b)
  | SGroup x => S (sdoc_size x)
  | SFlatAlt a b => S (sdoc_size a + sdoc_size b)
  | SNest _ _ x => S (sdoc_size x)
  | SAlign x => S (S (sdoc_size x))
  end.

Definition render_sym_events (d : sdoc) : option (list sevent) :=
  best_sym (S (2 * sdoc_size d)) (0, 0) [((0, 0), MBreak, d)].

Definition inst_event (u : N) (e : sevent) : event :=
  match e with
  | SEText s => EText s
  | SENewline q => ENewline (sq_val u q)
  end.

(* per output line produced by a line break of the layout: its symbolic indentation; a line is "layout
   indented" (not exempt) when the constant part is 0 *)
Fixpoint newline_indents (es : list sevent) : list sq :=
  match es with
  | [] => []
  | SENewline q :: r => q :: newline_indents r
  | SEText _ :: r => newline_indents r
  end.

(* For the oracle only (no theorem depends on it): for every line break `best_sym` emits, in the same order,
   whether the indentation it lands on was set by an `align` (a column taken from the text, as the block comment
   layout does) rather than by nests alone.  The traversal is that of `best_sym`. *)
Fixpoint newline_aligned (fuel : nat) (bc : list (bool * mode * sdoc)) : list bool :=
  match fuel with
  | O => []
  | S fuel' =>
      match bc with
      | [] => []
      | (al, m, d) :: bc' =>
          match d with
          | SNil | SText _ | STextW _ _ => newline_aligned fuel' bc'
          | SAppend a b => newline_aligned fuel' ((al, m, a) :: (al, m, b) :: bc')
          | SFlatAlt b f => newline_aligned fuel' ((al, m, match m with MBreak => b | MFlat => f end) :: bc')
          | SGroup x =>
              match m with
              | MFlat => newline_aligned fuel' ((al, MFlat, x) :: bc')
              | MBreak => newline_aligned fuel' ((al, (if sflat_has_line x then MBreak else MFlat), x) :: bc')
              end
          | SNest _ _ x => newline_aligned fuel' ((al, m, x) :: bc')
          | SHardline =>
              let al' := match bc' with (a, _, _) :: _ => a | [] => al end in
              al' :: newline_aligned fuel' bc'
          | SAlign x => newline_aligned fuel' ((true, m, x) :: bc')
          end
      end
  end.

Definition render_sym_aligned (d : sdoc) : list bool :=
  newline_aligned (S (2 * sdoc_size d)) [(false, MBreak, d)].
