(* ImportProofs.v — import.rs: items are reordered only on request, and then only permuted (C19). *)
From TV Require Import Conv.
From Coq Require Import Permutation Sorted Lia.

(* lexicographic order on scalar values = byte order of UTF-8 = Rust's Ord for str *)
Lemma str_leb_refl a : str_leb a a = true.
Proof. induction a as [|x a IH]; cbn; [reflexivity|]. rewrite N.ltb_irrefl. exact IH. Qed.

Lemma str_leb_total a b : str_leb a b = true \/ str_leb b a = true.
Proof.
  revert b; induction a as [|x a IH]; intros [|y b]; cbn; auto.
  destruct (x <? y) eqn:E1; [auto|]. destruct (y <? x) eqn:E2; [auto|]. apply IH.
Qed.

Lemma str_leb_trans a b c : str_leb a b = true -> str_leb b c = true -> str_leb a c = true.
Proof.
  revert b c; induction a as [|x a IH]; intros [|y b] [|z c]; cbn; auto; try discriminate.
  destruct (x <? y) eqn:E1.
  - intros _. destruct (y <? z) eqn:E2.
    + intros _. assert (x <? z = true) as -> by (apply N.ltb_lt in E1, E2; apply N.ltb_lt; lia). reflexivity.
    + destruct (z <? y) eqn:E3; [discriminate|]. intros _.
      apply N.ltb_lt in E1. apply N.ltb_ge in E2, E3. assert (y = z) by lia. subst.
      apply N.ltb_lt in E1. rewrite E1. reflexivity.
  - destruct (y <? x) eqn:E2; [discriminate|]. intros Hab.
    apply N.ltb_ge in E1, E2. assert (x = y) by lia. subst.
    destruct (y <? z); [reflexivity|]. destruct (z <? y); [discriminate|]. apply IH. exact Hab.
Qed.

Definition key (b : bundle) : str := into_text (bt b).
Definition key_le (x y : bundle) : Prop := str_leb (key x) (key y) = true.

Lemma insert_sorted_perm b l : Permutation (insert_sorted b l) (b :: l).
Proof.
  induction l as [|x l IH]; cbn; [reflexivity|].
  destruct (str_leb (into_text (bt x)) (into_text (bt b))).
  - rewrite IH. apply perm_swap.
  - reflexivity.
Qed.

Lemma sort_nodes_perm_aux l : forall acc, Permutation (fold_left (fun acc b => insert_sorted b acc) l acc) (l ++ acc).
Proof.
  induction l as [|x l IH]; intros acc; cbn; [reflexivity|].
  rewrite IH. rewrite insert_sorted_perm. symmetry. apply Permutation_middle.
Qed.

Theorem sort_nodes_perm l : Permutation (sort_nodes l) l.
Proof. unfold sort_nodes. rewrite sort_nodes_perm_aux. rewrite app_nil_r. reflexivity. Qed.

Lemma insert_sorted_sorted b l : StronglySorted key_le l -> StronglySorted key_le (insert_sorted b l).
Proof.
  induction 1 as [|x l Hs IH Hall]; cbn.
  - repeat constructor.
  - destruct (str_leb (into_text (bt x)) (into_text (bt b))) eqn:E.
    + constructor; [assumption|].
      eapply Permutation_Forall; [symmetry; apply insert_sorted_perm|].
      constructor; [exact E|assumption].
    + assert (Hbx : key_le b x).
      { destruct (str_leb_total (key b) (key x)) as [H1|H1]; [exact H1|]. unfold key in H1. rewrite H1 in E. discriminate. }
      constructor; [constructor; assumption|].
      constructor; [exact Hbx|].
      eapply Forall_impl; [|exact Hall]. intros y Hy. unfold key_le in *. eapply str_leb_trans; eassumption.
Qed.

Theorem sort_nodes_sorted l : StronglySorted key_le (sort_nodes l).
Proof.
  unfold sort_nodes.
  assert (H : forall acc, StronglySorted key_le acc ->
                          StronglySorted key_le (fold_left (fun acc b => insert_sorted b acc) l acc)).
  { induction l as [|x l IH]; intros acc Ha; cbn; [assumption|]. apply IH. apply insert_sorted_sorted. assumption. }
  apply H. constructor.
Qed.

Section Import.
  Variable cfg : config.

  (* off: source order *)
  Theorem import_order_off nodes :
    reorder_import_items cfg = false -> import_items_order cfg nodes = nodes.
  Proof. intros H. unfold import_items_order. rewrite H. reflexivity. Qed.

  (* a comment anywhere in the item list (also inside an item) keeps the order *)
  Theorem import_order_comment nodes :
    existsb (fun b => contains_comment (bt b)) nodes = true -> import_items_order cfg nodes = nodes.
  Proof.
    intros H. unfold import_items_order.
    assert (forallb (fun b => negb (contains_comment (bt b))) nodes = false) as ->.
    { apply existsb_exists in H. destruct H as (x & Hin & Hx).
      destruct (forallb _ nodes) eqn:E; [|reflexivity].
      rewrite forallb_forall in E. specialize (E x Hin). rewrite Hx in E. discriminate. }
    rewrite andb_false_r. reflexivity.
  Qed.

  (* a name bound twice keeps the order *)
  Theorem import_order_duplicate nodes :
    no_dup_names nodes [] = false -> import_items_order cfg nodes = nodes.
  Proof. intros H. unfold import_items_order. rewrite H, andb_false_r. reflexivity. Qed.

  (* on: whatever the gate decides, the result is a permutation of the source's nodes; when it sorts,
     the result is sorted by source text *)
  Theorem import_order_permutation nodes : Permutation (import_items_order cfg nodes) nodes.
  Proof.
    unfold import_items_order. destruct (_ && _ && _); [apply sort_nodes_perm|reflexivity].
  Qed.

  Theorem import_order_sorted_or_kept nodes :
    import_items_order cfg nodes = nodes \/ StronglySorted key_le (import_items_order cfg nodes).
  Proof.
    unfold import_items_order. destruct (_ && _ && _); [right; apply sort_nodes_sorted|left; reflexivity].
  Qed.
End Import.
