(* SchemaShape.v — the schema clauses (CostBound.wfc, SafeBound.swfc) read kinds and child structure only, so
   they hold of the annotated tree exactly when they hold of the parsed tree. *)
From TV Require Import Conv CostBound SafeBound AttrShape.
From Coq Require Import Lia.

Lemma is_expr_erase c : is_expr (erase c) = is_expr c.
Proof. unfold is_expr. rewrite kind_of_erase. reflexivity. Qed.
Lemma is_kind_erase k c : is_kind k (erase c) = is_kind k c.
Proof. unfold is_kind. rewrite kind_of_erase. reflexivity. Qed.
Lemma children_erase t : children (erase t) = map erase (children t).
Proof. destruct t; reflexivity. Qed.

Lemma existsb_erase (p : tree -> bool) cs : (forall c, p (erase c) = p c) -> existsb p (map erase cs) = existsb p cs.
Proof. intros H. induction cs as [|c cs IH]; cbn [map existsb]; [reflexivity|]. rewrite H, IH. reflexivity. Qed.

Lemma take_while_erase (p f : tree -> bool) cs :
  (forall c, p (erase c) = p c) -> (forall c, f (erase c) = f c) ->
  forallb f (take_while_tree p (map erase cs)) = forallb f (take_while_tree p cs).
Proof.
  intros Hp Hf. induction cs as [|c cs IH]; cbn [map take_while_tree]; [reflexivity|].
  rewrite Hp. destruct (p c); [|reflexivity]. cbn [forallb]. rewrite Hf, IH. reflexivity.
Qed.

Lemma wfc_node_erase t : wfc_node (erase t) = wfc_node t.
Proof.
  destruct t as [k s a|k cs a]; [reflexivity|]. cbn [erase].
  destruct k; try reflexivity; cbn [wfc_node];
    first
      [ (* Binary *)
        solve [apply take_while_erase; intros c; [rewrite is_expr_erase; reflexivity|rewrite kind_of_erase; reflexivity]]
      | (* Args *)
        solve [rewrite (existsb_erase (is_kind KLeftParen)) by (intros; apply is_kind_erase); f_equal;
               destruct cs as [|c r]; [reflexivity|]; cbn [map]; apply is_kind_erase]
      | (* MathDelimited *)
        solve [destruct cs as [|o rest]; [reflexivity|]; cbn [map]; rewrite is_expr_erase; f_equal;
               rewrite <- map_rev; destruct (rev rest) as [|c r]; [reflexivity|]; cbn [map]; apply is_expr_erase] ].
Qed.

Lemma swfc_node_erase t : swfc_node (erase t) = swfc_node t.
Proof.
  unfold swfc_node. rewrite wfc_node_erase, kind_of_erase, children_erase. f_equal.
  destruct (kind_of t); try reflexivity;
    first [ solve [destruct (children t); reflexivity]
          | solve [apply existsb_erase; intros c; apply is_kind_erase]
          | solve [apply existsb_erase; intros c; rewrite is_kind_erase, kind_of_erase; reflexivity] ].
Qed.

Lemma forallb_erase (p : tree -> bool) cs :
  Forall (fun c => p (erase c) = p c) cs -> forallb p (map erase cs) = forallb p cs.
Proof. induction 1 as [|c cs Hc _ IH]; cbn [map forallb]; [reflexivity|]. rewrite Hc, IH. reflexivity. Qed.

Lemma wfc_erase t : wfc (erase t) = wfc t.
Proof.
  induction t as [k s a|k cs a IH] using tree_ind'.
  - change (wfc (erase (Leaf k s a))) with (wfc_node (erase (Leaf k s a)) && true).
    rewrite wfc_node_erase. reflexivity.
  - change (wfc (erase (Inner k cs a))) with (wfc_node (erase (Inner k cs a)) && forallb wfc (map erase cs)).
    rewrite wfc_node_erase, (forallb_erase wfc cs IH). reflexivity.
Qed.

Lemma swfc_erase t : swfc (erase t) = swfc t.
Proof.
  induction t as [k s a|k cs a IH] using tree_ind'.
  - change (swfc (erase (Leaf k s a))) with (swfc_node (erase (Leaf k s a)) && true).
    rewrite swfc_node_erase. reflexivity.
  - change (swfc (erase (Inner k cs a))) with (swfc_node (erase (Inner k cs a)) && forallb swfc (map erase cs)).
    rewrite swfc_node_erase, (forallb_erase swfc cs IH). reflexivity.
Qed.

Theorem wfc_annotate t : wfc (annotate t) = wfc t.
Proof. rewrite <- (wfc_erase (annotate t)), erase_annotate, wfc_erase. reflexivity. Qed.
Theorem swfc_annotate t : swfc (annotate t) = swfc t.
Proof. rewrite <- (swfc_erase (annotate t)), erase_annotate, swfc_erase. reflexivity. Qed.

Lemma swfc_wfc t : swfc t = true -> wfc t = true.
Proof.
  induction t as [k s a|k cs a IH] using tree_ind'; cbn [swfc wfc]; intros H; apply andb_prop in H; destruct H as [Hn Hc].
  - rewrite (swfc_wfc_node _ Hn). reflexivity.
  - rewrite (swfc_wfc_node _ Hn). cbn [andb]. rewrite forallb_forall in *. rewrite Forall_forall in IH. auto.
Qed.
