(* ParenProofs.v — parened_expr.rs optional_paren: the delimiters appear exactly when the body is
   laid out broken; laid out flat, the body stays on one line (C01/C04 mechanism). *)
From TV Require Import Conv Render RenderProofs SeqProofs.
From Coq Require Import Lia.

Lemma lay_nil_inv m x : lay m DNil x -> x = [].
Proof. intros H; inversion H; reflexivity. Qed.

Lemma lay_append_inv m a b x :
  lay m (append a b) x -> exists xa xb, x = xa ++ xb /\ lay m a xa /\ lay m b xb.
Proof.
  unfold append. intros H.
  destruct a; try (destruct b; try (inversion H; subst; eauto; fail);
                   exists x, []; rewrite app_nil_r; repeat split; [assumption|constructor]).
  exists [], x. repeat split; [constructor|assumption].
Qed.

Lemma lay_nest_inv m k d x : lay m (nest k d) x -> lay m d x.
Proof.
  unfold nest. destruct d; try (intros H; exact H);
    destruct (Z.eqb k 0); intros H; try exact H; inversion H; assumption.
Qed.

Definition text_atoms (s : str) : list atom := match s with [] => [] | _ => [AText s] end.

Lemma lay_text m sw s x : lay m (text sw s) x -> x = text_atoms s.
Proof.
  unfold text, text_atoms. destruct s as [|c s]; intros H.
  - apply lay_nil_inv in H. assumption.
  - destruct (is_ascii (c :: s)); inversion H; reflexivity.
Qed.

Lemma lay_hardline m x : lay m hardline x -> x = [ALine].
Proof. intros H; inversion H; reflexivity. Qed.

Lemma flat_has_line_append a b : flat_has_line (append a b) = flat_has_line a || flat_has_line b.
Proof.
  unfold append. destruct a; destruct b; cbn; rewrite ?orb_false_r; reflexivity.
Qed.

Lemma flat_has_line_nest k d : flat_has_line (nest k d) = flat_has_line d.
Proof. unfold nest. destruct d; try reflexivity; destruct (Z.eqb k 0); reflexivity. Qed.

Lemma lay_flat_alt_break b f x : lay MBreak (flat_alt b f) x -> lay MBreak b x.
Proof. unfold flat_alt. intros H. inversion H. assumption. Qed.
Lemma lay_flat_alt_flat b f x : lay MFlat (flat_alt b f) x -> lay MFlat f x.
Proof. unfold flat_alt. intros H. inversion H. assumption. Qed.

Section Paren.
  Variable swidth : str -> N.
  Variable cfg : config.

  Theorem optional_paren_sound body op cl x :
    lay MBreak (optional_paren swidth cfg body op cl) x ->
    (flat_has_line body = false /\ lay MFlat body x /\ ~ In ALine x)
    \/ (exists b, lay MBreak body b /\ x = text_atoms op ++ [ALine] ++ b ++ [ALine] ++ text_atoms cl).
  Proof.
    unfold optional_paren. intros H.
    set (open := flat_alt (append (text swidth op) hardline) DNil) in *.
    set (close := flat_alt (append hardline (text swidth cl)) DNil) in *.
    assert (Hg : forall m y, lay m (append (nest (Z.of_N (tab_spaces cfg)) (append open body)) close) y ->
                 exists xo xb xc, y = xo ++ xb ++ xc /\ lay m open xo /\ lay m body xb /\ lay m close xc).
    { intros m y Hy. apply lay_append_inv in Hy. destruct Hy as (x1 & xc & -> & H1 & Hc).
      apply lay_nest_inv in H1. apply lay_append_inv in H1. destruct H1 as (xo & xb & -> & Ho & Hb).
      exists xo, xb, xc. rewrite <- app_assoc. auto. }
    assert (Hshape : exists inner, group (append (nest (Z.of_N (tab_spaces cfg)) (append open body)) close) = DGroup inner
                                   /\ inner = append (nest (Z.of_N (tab_spaces cfg)) (append open body)) close).
    { eexists. split; [|reflexivity]. unfold close, flat_alt, append at 1.
      destruct (nest (Z.of_N (tab_spaces cfg)) (append open body)) eqn:En; reflexivity. }
    destruct Hshape as (inner0 & Hgrp & ->). rewrite Hgrp in H.
    remember (append (nest (Z.of_N (tab_spaces cfg)) (append open body)) close) as inner eqn:Ei.
    inversion H; subst d x0; clear H.
    - (* flat *)
      left.
      match goal with Hf : flat_has_line _ = false |- _ => rename Hf into Hfl end.
      match goal with Hl : lay MFlat _ x |- _ => rename Hl into Hlay end.
      rewrite Ei in Hfl.
      rewrite flat_has_line_append, flat_has_line_nest, flat_has_line_append in Hfl.
      apply orb_false_elim in Hfl. destruct Hfl as [Hfl _]. apply orb_false_elim in Hfl. destruct Hfl as [_ Hfb].
      destruct (Hg _ _ Hlay) as (xo & xb & xc & -> & Ho & Hb & Hc).
      apply lay_flat_alt_flat in Ho. apply lay_flat_alt_flat in Hc.
      apply lay_nil_inv in Ho. apply lay_nil_inv in Hc. subst.
      cbn [app]. rewrite app_nil_r. split; [assumption|]. split; [assumption|].
      apply (lay_flat_one_line body); assumption.
    - (* broken *)
      right.
      match goal with Hl : lay MBreak _ x |- _ => rename Hl into Hlay end.
      destruct (Hg _ _ Hlay) as (xo & xb & xc & -> & Ho & Hb & Hc).
      apply lay_flat_alt_break in Ho. apply lay_flat_alt_break in Hc.
      apply lay_append_inv in Ho. destruct Ho as (a1 & a2 & -> & Ha1 & Ha2).
      apply lay_text in Ha1. apply lay_hardline in Ha2.
      apply lay_append_inv in Hc. destruct Hc as (c1 & c2 & -> & Hc1 & Hc2).
      apply lay_hardline in Hc1. apply lay_text in Hc2. subst.
      exists xb. split; [assumption|]. rewrite <- !app_assoc. reflexivity.
  Qed.
End Paren.
