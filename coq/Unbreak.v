(* Unbreak.v — "no rewrapping" (C08), the list half.  A document without hardline and without flat_alt has one layout
   and no line break in it: it is printed on one line at every width.  Where breaks are suppressed (a line of markup that
   holds text, everything below a Math node) `get_fold_style` answers Always for a node written on one line, and the
   list stylist then prints with `print_always`: the document of a list without comments is unbreakable as soon as the
   documents of its items are.  Stated for the stylist (`lst_process` from a comment-free child list, any checker) and
   instantiated for the import items (repair F44: they now follow `get_fold_style` like every other list). *)
From TV Require Import Render RenderProofs Doc Layout Comment Conv SafeProofs.
From Coq Require Import Lia.

Fixpoint unbreakable (d : doc) : bool :=
  match d with
  | DNil | DText _ | DTextW _ _ => true
  | DHardline | DFlatAlt _ _ => false
  | DAppend a b => unbreakable a && unbreakable b
  | DGroup x | DNest _ x | DAlign x => unbreakable x
  end.

(* an unbreakable document has no line break in any layout *)
Lemma seqs_unbreakable d x : seqs d x -> unbreakable d = true -> Forall (fun a => a <> ALine) x.
Proof.
  intros H. induction H; cbn [unbreakable]; intros U; try discriminate U; auto.
  - apply andb_prop in U. destruct U as [Ua Ub]. apply Forall_app. split; auto.
  - constructor; [discriminate|constructor].
  - constructor; [discriminate|constructor].
Qed.

(* hence the renderer emits no newline for it, whatever the width *)
Theorem unbreakable_renders_on_one_line width d es :
  unbreakable d = true -> render_events width d = Some es ->
  Forall (fun e => match e with EText _ => True | ENewline _ => False end) es.
Proof.
  intros U H. apply render_atoms in H. pose proof (seqs_unbreakable _ _ H U) as F.
  clear H U. induction es as [|e es IH]; [constructor|].
  cbn [map] in F. inversion F as [|? ? Ha Hr]; subst. constructor; [|apply IH; exact Hr].
  destruct e; [exact I|]. cbn in Ha. congruence.
Qed.

(* Width independence in general: a document without flat_alt ("rigid": hard line breaks allowed) has exactly one
   layout, so the renderer produces the same atoms at every width. *)
Fixpoint rigid (d : doc) : bool :=
  match d with
  | DNil | DText _ | DTextW _ _ | DHardline => true
  | DFlatAlt _ _ => false
  | DAppend a b => rigid a && rigid b
  | DGroup x | DNest _ x | DAlign x => rigid x
  end.
Lemma unbreakable_rigid d : unbreakable d = true -> rigid d = true.
Proof.
  induction d; cbn; intros H; try reflexivity; try discriminate; auto.
  apply andb_prop in H. destruct H as [Ha Hb]. rewrite IHd1, IHd2 by assumption. reflexivity.
Qed.
Lemma seqs_rigid_unique d x : seqs d x -> rigid d = true -> forall z, seqs d z -> x = z.
Proof.
  intros H. induction H; cbn [rigid]; intros R z Hz; try discriminate R; inversion Hz; subst; auto.
  apply andb_prop in R. destruct R as [Ra Rb]. f_equal; auto.
Qed.
Theorem rigid_width_independent w1 w2 d es1 es2 :
  rigid d = true -> render_events w1 d = Some es1 -> render_events w2 d = Some es2 ->
  map atom_of_event es1 = map atom_of_event es2.
Proof.
  intros R H1 H2. apply render_atoms in H1. apply render_atoms in H2. apply (seqs_rigid_unique _ _ H1 R _ H2).
Qed.

(* nothing below the node is written on several source lines or is a comment *)
Fixpoint calm (t : tree) : bool :=
  negb (is_comment_node t) && negb (a_multiline (attrs_of t)) &&
  match t with Leaf _ _ _ => true | Inner _ cs _ => forallb calm cs end.

Section Builders.
  Variable swidth : str -> N.
  Notation text := (Doc.text swidth).

  Lemma unb_text s : unbreakable (text s) = true.
  Proof. unfold Doc.text. destruct s; [reflexivity|]. destruct (is_ascii _); reflexivity. Qed.
  Lemma unb_append a b : unbreakable a = true -> unbreakable b = true -> unbreakable (append a b) = true.
  Proof. intros Ha Hb. unfold append. destruct a; destruct b; cbn [unbreakable] in *; rewrite ?Ha, ?Hb; auto. Qed.
  Lemma unb_group d : unbreakable d = true -> unbreakable (group d) = true.
  Proof. destruct d; cbn; auto. Qed.
  Lemma unb_nest k d : unbreakable d = true -> unbreakable (nest k d) = true.
  Proof. unfold nest. destruct d; cbn; auto; destruct (Z.eqb k 0); cbn; auto. Qed.
  Lemma unb_enclose a b d :
    unbreakable a = true -> unbreakable b = true -> unbreakable d = true -> unbreakable (enclose a b d) = true.
  Proof. intros. unfold enclose. auto using unb_append. Qed.
  Lemma unb_space : unbreakable space = true.  Proof. reflexivity. Qed.
  Lemma unb_app_opt d o :
    unbreakable d = true -> match o with Some x => unbreakable x = true | None => True end ->
    unbreakable (app_opt d o) = true.
  Proof. intros Hd Ho. destruct o; cbn [app_opt]; auto using unb_append. Qed.
End Builders.

Section ListHalf.
  Variable swidth : str -> N.
  Variable tab : N.
  Notation text := (Doc.text swidth).

  Definition item_unb (it : item) : Prop :=
    match it with
    | IComment c => unbreakable c = true
    | ICommented body after =>
        unbreakable body = true /\ match after with Some a => unbreakable a = true | None => True end
    | ILinebreak _ => True
    end.

  (* the state of a list stylist that has seen no comment *)
  Definition clean (l : lst) : Prop :=
    l_free l = [] /\ l_has_line_comment l = false /\ Forall item_unb (l_items l).

  (* --- print_always --- *)
  Lemma print_always_unb sty (sep : doc) real is_single : unbreakable sep = true -> forall items inner i seen count,
    unbreakable inner = true -> Forall item_unb items ->
    unbreakable (fst (fst (fold_left
      (fun (acc : doc * nat * N) (it : item) =>
         let '(inner, i, seen) := acc in
         let is_last := Nat.eqb (S i) count in
         match it with
         | IComment c => (append inner (if is_last && ls_tight_delim sty then c else append c space), S i, seen)
         | ICommented body after =>
             let seen' := seen + 1 in
             let is_last_real := seen' =? real in
             let x := append inner (app_opt body after) in
             let x' :=
               if negb is_last_real then append x (append sep space)
               else if ls_trailing_always sty || (is_single && ls_trailing_single sty) then append x sep
               else x in
             (x', S i, seen')
         | ILinebreak _ => (inner, S i, seen)
         end) items (inner, i, seen)))) = true.
  Proof.
    intros Hsep. induction items as [|it items IH]; intros inner i seen count Hi Hit; cbn [fold_left fst]; [exact Hi|].
    inversion Hit as [|? ? H1 H2]; subst. destruct it as [c|body after|n]; cbn [item_unb] in H1.
    - apply IH; [|exact H2]. apply unb_append; [exact Hi|].
      match goal with |- unbreakable (if ?b then _ else _) = true => destruct b end;
        [exact H1|apply unb_append; [exact H1|reflexivity]].
    - destruct H1 as [Hb Ha]. apply IH; [|exact H2].
      assert (Hx : unbreakable (append inner (app_opt body after)) = true).
      { apply unb_append; [exact Hi|]. apply unb_app_opt; assumption. }
      match goal with |- unbreakable (if ?b then _ else _) = true => destruct b end.
      + apply unb_append; [exact Hx|]. apply unb_append; [exact Hsep|reflexivity].
      + match goal with |- unbreakable (if ?b then _ else _) = true => destruct b end;
          [apply unb_append; [exact Hx|exact Hsep]|exact Hx].
    - apply IH; assumption.
  Qed.

  Lemma lst_print_always_unb (l : lst) sty :
    clean l -> l_fold l = Always -> unbreakable (lst_print_doc swidth tab l sty) = true.
  Proof.
    intros (Hf & Hlc & Hit) Hfold. unfold lst_print_doc. destruct (l_items l) as [|it0 its] eqn:Ei.
    - destruct (ls_omit_empty sty); [reflexivity|]. destruct (ls_add_delim_space sty);
        repeat apply unb_append; try apply unb_text; reflexivity.
    - rewrite Hlc, Hfold.
      assert (Hin : unbreakable (group (print_always sty (text (ls_sep sty)) (l_real l) (l_real l =? 1) (it0 :: its))) = true).
      { apply unb_group. unfold print_always. apply print_always_unb; [apply unb_text|reflexivity|exact Hit]. }
      destruct (_ || _); [exact Hin|].
      destruct (ls_add_delim_space sty).
      + apply unb_enclose; try apply unb_text. apply unb_enclose; try reflexivity. exact Hin.
      + apply unb_enclose; try apply unb_text. exact Hin.
  Qed.

  (* --- the state operations keep a clean state clean --- *)
  Lemma clean_set_peek l b : clean l -> clean (set_peek_hash l b).
  Proof. intros H. exact H. Qed.
  Lemma clean_set_can_attach l b : clean l -> clean (set_can_attach l b).
  Proof. intros H. exact H. Qed.
  Lemma detach_clean l : clean l -> detach_comments l = set_free (set_items l (l_items l)) [].
  Proof. intros (Hf & _ & _). unfold detach_comments. rewrite Hf. cbn [map]. rewrite app_nil_r. reflexivity. Qed.
  Lemma clean_detach l : clean l -> clean (detach_comments l).
  Proof. intros H. rewrite (detach_clean l H). destruct H as (Hf & Hlc & Hit). repeat split; assumption. Qed.
  Lemma try_attach_clean l : clean l -> try_attach_comments l = (l, false).
  Proof.
    intros (Hf & _ & _). unfold try_attach_comments. rewrite Hf. cbn [negb andb].
    rewrite Bool.andb_false_r. reflexivity.
  Qed.
  Lemma clean_attach_or_detach l : clean l -> clean (attach_or_detach_comments l).
  Proof. intros H. unfold attach_or_detach_comments. rewrite (try_attach_clean l H). apply clean_detach. exact H. Qed.

  Lemma fold_attach_or_detach l : clean l -> l_fold (attach_or_detach_comments l) = l_fold l.
  Proof. intros H. unfold attach_or_detach_comments. rewrite (try_attach_clean l H), (detach_clean l H). reflexivity. Qed.

  Lemma clean_add_item l body : clean l -> unbreakable body = true -> clean (lst_add_item swidth l body).
  Proof.
    intros H Hb. pose proof H as (Hf & Hlc & Hit). unfold lst_add_item.
    set (l1 := mk_lst (l_can_attach l) (l_free l) (l_peek_hash l) (l_items l) (l_real l + 1) (l_has_comment l)
                      (l_has_line_comment l) (l_fold l) (l_no_front l) (l_no_detach l) (l_keep l)).
    assert (H1 : clean l1) by (repeat split; assumption).
    destruct (l_no_front l1) eqn:Enf.
    - rewrite (detach_clean l1 H1). repeat split; cbn; try assumption.
      apply Forall_app. split; [exact Hit|]. constructor; [|constructor]. split; [|exact I].
      apply unb_append; [|exact Hb]. destruct (l_peek_hash l); reflexivity.
    - assert (E : l_free l1 = []) by exact Hf. rewrite E.
      repeat split; cbn; try assumption.
      apply Forall_app. split; [exact Hit|]. constructor; [|constructor]. split; [|exact I].
      apply unb_append; [|exact Hb]. destruct (l_peek_hash l); reflexivity.
  Qed.
  Lemma fold_add_item l body : clean l -> l_fold (lst_add_item swidth l body) = l_fold l.
  Proof.
    intros H. pose proof H as (Hf & Hlc & Hit). unfold lst_add_item.
    set (l1 := mk_lst (l_can_attach l) (l_free l) (l_peek_hash l) (l_items l) (l_real l + 1) (l_has_comment l)
                      (l_has_line_comment l) (l_fold l) (l_no_front l) (l_no_detach l) (l_keep l)).
    assert (H1 : clean l1) by (repeat split; assumption).
    destruct (l_no_front l1); [rewrite (detach_clean l1 H1); reflexivity|].
    assert (E : l_free l1 = []) by exact Hf. rewrite E. reflexivity.
  Qed.

  Lemma pop_sublist r : Forall item_unb r -> Forall item_unb (pop_linebreaks_rev r).
  Proof. induction r as [|it r IH]; intros H; [exact H|]. destruct it; try exact H. cbn. apply IH. inversion H; assumption. Qed.
  Lemma clean_windup l : clean l -> clean (lst_windup l).
  Proof.
    intros H. unfold lst_windup. pose proof (clean_attach_or_detach l H) as (Hf & Hlc & Hit).
    repeat split; cbn; try assumption. apply Forall_rev. apply pop_sublist. apply Forall_rev. exact Hit.
  Qed.
  Lemma fold_windup l : clean l -> l_fold (lst_windup l) = l_fold l.
  Proof. intros H. unfold lst_windup. cbn. apply fold_attach_or_detach. exact H. Qed.

  (* --- lst_process over children none of which is a comment --- *)
  Lemma trivia_clean (l : lst) (node : bundle) :
    clean l -> is_comment_b node = false ->
    post (lst_process_trivia swidth l node) (fun l' => clean l' /\ l_fold l' = l_fold l).
  Proof.
    intros H Hc. unfold lst_process_trivia. unfold is_comment_b, is_comment_node in Hc. unfold bk.
    destruct (kind_of (bt node)) eqn:Ek; try discriminate Hc; try (apply post_ret; split; [exact H|reflexivity]).
    - (* Space *)
      destruct (0 <? count_lb (tx node)); [|apply post_ret; split; [exact H|reflexivity]].
      pose proof (clean_attach_or_detach l H) as H1.
      assert (H2 : clean (set_can_attach (attach_or_detach_comments l) false)) by exact H1.
      assert (F2 : l_fold (set_can_attach (attach_or_detach_comments l) false) = l_fold l) by (cbn; apply fold_attach_or_detach; exact H).
      destruct (l_keep _) as [nl|]; [|apply post_ret; split; assumption].
      destruct (_ && _); [|apply post_ret; split; assumption].
      apply post_ret. split; [|exact F2]. destruct H2 as (Hf & Hlc & Hit). repeat split; cbn; try assumption.
      apply Forall_app. split; [exact Hit|]. constructor; [exact I|constructor].
    - (* Comma *) rewrite (try_attach_clean l H). apply post_ret. split; [exact H|reflexivity].
  Qed.

  Theorem lst_process_unb (l0 : lst) (c : ctx) (nodes : list bundle) (checker : ctx -> bundle -> M (option doc)) :
    clean l0 ->
    Forall (fun n => is_comment_b n = false) nodes ->
    (forall c' n, c_supp c' = c_supp c -> In n nodes ->
       post (checker c' n) (fun o => match o with Some d => unbreakable d = true | None => True end)) ->
    post (lst_process swidth l0 c nodes checker) (fun l => clean l /\ l_fold l = l_fold l0).
  Proof.
    intros H0 Hnc Hck. unfold lst_process.
    apply (post_bind _ _ (fun l => clean l /\ l_fold l = l_fold l0)).
    - apply post_foldM; [split; [exact H0|reflexivity]|].
      intros l node Hin [Hl Hfl].
      apply (post_bind _ _ (fun o => match o with Some d => unbreakable d = true | None => True end));
        [apply Hck; [destruct (l_peek_hash l); reflexivity|exact Hin]|].
      intros [body|] Ho.
      + apply post_ret. split.
        * apply clean_set_peek. apply clean_add_item; assumption.
        * cbn. rewrite fold_add_item by exact Hl. exact Hfl.
      + eapply post_weaken.
        * apply trivia_clean; [apply clean_set_peek; exact Hl|]. rewrite Forall_forall in Hnc. apply Hnc. exact Hin.
        * intros l' [Hc' Hf']. split; [exact Hc'|]. rewrite Hf'. exact Hfl.
    - intros l [Hl Hfl]. apply post_ret. split; [apply clean_windup; exact Hl|]. rewrite fold_windup by exact Hl. exact Hfl.
  Qed.
End ListHalf.

(* ---------- flows (code_flow.rs): a flow without comments joins its pieces with single blanks ---------- *)
Section Flows.
  Variable swidth : str -> N.
  Notation text := (Doc.text swidth).

  Lemma flow_push_unb fl d sb sa :
    unbreakable (f_doc fl) = true -> unbreakable d = true -> unbreakable (f_doc (flow_push_doc fl d sb sa)) = true.
  Proof.
    intros Hf Hd. unfold flow_push_doc. cbn [f_doc]. apply unb_append; [|exact Hd].
    destruct (_ && _); [apply unb_append; [exact Hf|reflexivity]|exact Hf].
  Qed.

  Theorem flow_like_iter_unb {S : Type} (c : ctx) (kids : list bundle) (s0 : S)
      (producer : S -> ctx -> bundle -> M (S * option flow_item)) :
    Forall (fun n => is_comment_b n = false) kids ->
    (forall s c' n, c_supp c' = c_supp c -> In n kids ->
       post (producer s c' n) (fun r => match snd r with Some it => unbreakable (fi_doc it) = true | None => True end)) ->
    post (flow_like_iter swidth c kids s0 producer) (fun d => unbreakable d = true).
  Proof.
    intros Hnc Hp. unfold flow_like_iter.
    apply (post_bind _ _ (fun st : flow * bool * bool * S =>
             unbreakable (f_doc (fst (fst (fst st)))) = true /\ snd (fst (fst st)) = false)).
    - apply post_foldM; [split; reflexivity|].
      intros [[[fl plc] ph] s] child Hin [Hfl Hplc]. cbn [fst snd] in Hfl, Hplc. subst plc.
      rewrite Forall_forall in Hnc. pose proof (Hnc child Hin) as Hc.
      destruct (is_keyword (bk child) && _).
      { apply post_ret. cbn [fst snd]. split; [apply flow_push_unb; [exact Hfl|apply unb_text]|reflexivity]. }
      rewrite Hc. cbn [andb].
      destruct (kind_eqb (bk child) KHash).
      { apply post_ret. cbn [fst snd]. split; [apply flow_push_unb; [exact Hfl|apply unb_text]|reflexivity]. }
      eapply post_bind; [apply Hp; [destruct ph; reflexivity|exact Hin]|]. intros [s' it] Hit. cbn [snd] in Hit.
      apply post_ret. cbn [fst snd]. split; [|reflexivity].
      destruct it as [i|]; [apply flow_push_unb; assumption|exact Hfl].
    - intros [[[fl plc] ph] s] [Hfl _]. apply post_ret. exact Hfl.
  Qed.

  Lemma flow_like_unb (c : ctx) (kids : list bundle) (producer : ctx -> bundle -> M (option flow_item)) :
    Forall (fun n => is_comment_b n = false) kids ->
    (forall c' n, c_supp c' = c_supp c -> In n kids ->
       post (producer c' n) (fun o => match o with Some it => unbreakable (fi_doc it) = true | None => True end)) ->
    post (flow_like swidth c kids producer) (fun d => unbreakable d = true).
  Proof.
    intros Hnc Hp. unfold flow_like. apply flow_like_iter_unb; [exact Hnc|].
    intros s c' n Hc Hin. eapply post_bind; [apply Hp; assumption|]. intros o Ho. apply post_ret. exact Ho.
  Qed.
End Flows.

(* ---------- a sub-language converted hereditarily: tokens, flows and comma-separated lists ---------- *)
From TV Require Import ImportProofs CostBound.
From Coq Require Import Permutation.

Definition req_ctx (r : req) : ctx :=
  match r with
  | RExpr c | RPattern c | RMarkup c _ | RMath c | RContentBlock c | RExprEmb c | RParenthesized c _ | RNamed c | RKeyed c
  | RSpread c | RParams c _ | RArgs c | RParenArgs c | RFuncArgs c _ | RImportItemPath c | RImportItemRenamed c => c
  end.

(* the requests the converters of the sub-language make *)
Definition ufit (r : req) (t : tree) : bool :=
  match r with
  | RExpr _ | RPattern _ | RExprEmb _ => true
  | RParenthesized _ _ => is_kind KParenthesized t
  | RMarkup _ _ => is_kind KMarkup t
  | RMath _ => is_kind KMath t
  | RContentBlock _ => is_kind KContentBlock t
  | RNamed _ => is_kind KNamed t
  | RKeyed _ => is_kind KKeyed t
  | RSpread _ => is_kind KSpread t
  | RParams _ _ => is_kind KParams t
  | RArgs _ | RFuncArgs _ NotTable => is_kind KArgs t
  | RImportItemPath _ => is_kind KImportItemPath t
  | RImportItemRenamed _ => is_kind KRenamedImportItem t
  | _ => false
  end.

(* a paragraph break and a comment are not calm *)
Definition okind (k : kind) : bool :=
  match k with
  | KParbreak | KLineComment | KBlockComment => false
  | _ => true
  end.
(* the callee of a call is `table` or `grid` (their argument lists have layouts of their own) *)
Definition call_is_table (t : tree) : bool :=
  match find is_expr (children t) with
  | Some cal => kind_eqb (kind_of cal) KIdent && str_in (text_of cal) TABLE_FUNCS
  | None => false
  end.
(* a code block with at most one statement (with two it is laid out on several lines whatever the width) *)
Definition block_foldable (t : tree) : bool :=
  match find (is_kind KCode) (children t) with
  | Some b => Nat.leb (length (filter is_expr (children b))) 1
  | None => true
  end.
Fixpoint rs (t : tree) : bool :=
  okind (kind_of t) && negb (a_multiline (attrs_of t)) &&
  negb (kind_eqb (kind_of t) KFuncCall && call_is_table t) &&
  (negb (kind_eqb (kind_of t) KCodeBlock) || block_foldable t) &&
  match t with
  | Leaf k s _ => negb ((kind_eqb k KSpace || kind_eqb k KRawTrimmed) && has_lb s)
  | Inner _ cs _ => forallb rs cs
  end.

Section Hereditary.
  Variable swidth : str -> N.
  Variable cfg : config.
  Notation text := (Doc.text swidth).
  Notation unb := (fun d : doc => unbreakable d = true).

  Definition uprop (b : bundle) : Prop :=
    rs (bt b) = true -> forall r, ufit r (bt b) = true -> c_supp (req_ctx r) = true -> post (bself b r) unb.
  Definition ugood (b : bundle) : Prop := good uprop b.

  Lemma rs_parts t : rs t = true ->
    okind (kind_of t) = true /\ a_multiline (attrs_of t) = false /\
    (kind_eqb (kind_of t) KFuncCall && call_is_table t) = false /\
    (negb (kind_eqb (kind_of t) KCodeBlock) || block_foldable t) = true.
  Proof.
    intros H. assert (G : (okind (kind_of t) && negb (a_multiline (attrs_of t)) &&
                           negb (kind_eqb (kind_of t) KFuncCall && call_is_table t) &&
                           (negb (kind_eqb (kind_of t) KCodeBlock) || block_foldable t)) = true).
    { destruct t; cbn [rs] in H; apply andb_prop in H; exact (proj1 H). }
    apply andb_prop in G. destruct G as [G G4]. apply andb_prop in G. destruct G as [G G3]. apply andb_prop in G. destruct G as [G1 G2].
    repeat split; [exact G1|destruct (a_multiline _); [discriminate G2|reflexivity]|
                   destruct (_ && _); [discriminate G3|reflexivity]|exact G4].
  Qed.
  Lemma rs_okind t : rs t = true -> okind (kind_of t) = true.
  Proof. intros H. apply (rs_parts t H). Qed.
  Lemma rs_calm_multi t : rs t = true -> a_multiline (attrs_of t) = false.
  Proof. intros H. apply (rs_parts t H). Qed.
  Lemma rs_not_comment t : rs t = true -> is_comment_node t = false.
  Proof.
    intros H. pose proof (rs_okind t H) as K. unfold is_comment_node. destruct (kind_of t); try discriminate K; reflexivity.
  Qed.
  Lemma rs_children t : rs t = true -> Forall (fun c => rs c = true) (children t).
  Proof.
    destruct t as [k s a|k cs a]; cbn [rs children]; intros H; [constructor|].
    apply andb_prop in H. destruct H as [_ H]. apply Forall_forall. apply (proj1 (forallb_forall _ _) H).
  Qed.
  Lemma rs_blank_nolb t : rs t = true -> kind_of t = KSpace \/ kind_of t = KRawTrimmed -> has_lb (text_of t) = false.
  Proof.
    destruct t as [k s a|k cs a]; cbn [rs kind_of text_of]; intros H E; [|reflexivity].
    apply andb_prop in H. destruct H as [_ H]. destruct E as [-> | ->]; cbn in H; (destruct (has_lb s); [discriminate H|reflexivity]).
  Qed.
  Lemma rs_space_nolb t : rs t = true -> kind_of t = KSpace -> has_lb (text_of t) = false.
  Proof. intros H E. apply rs_blank_nolb; [exact H|left; exact E]. Qed.

  Lemma verbatim_unb t : unbreakable (convert_verbatim swidth t) = true.
  Proof. apply unb_text. Qed.
  Lemma trivia_unb t : unbreakable (convert_trivia swidth t) = true.
  Proof. apply unb_text. Qed.
  Lemma post_panic {A} s (Q : A -> Prop) : post (panic s) Q.
  Proof. intros n a n' E. discriminate E. Qed.
  Lemma post_bump_then {A} (m : M A) Q : post m Q -> post (bump ;;; m) Q.
  Proof. intros H. apply (post_bind _ _ (fun _ => True)); [apply post_any|intros; exact H]. Qed.
  Lemma check_disabled_unb t m : post m unb -> post (check_disabled swidth t m) unb.
  Proof. intros H. unfold check_disabled. destruct (a_disabled _); [apply post_ret; apply verbatim_unb|exact H]. Qed.

  Section Node.
    Variable t : tree.
    Variable kids : list bundle.
    Hypothesis Hgood : Forall ugood kids.
    Hypothesis Hshape : map bt kids = children t.
    Hypothesis Hrs : rs t = true.

    Lemma kid_rs n : In n kids -> rs (bt n) = true.
    Proof.
      intros Hin. pose proof (rs_children t Hrs) as H. rewrite <- Hshape in H. rewrite Forall_forall in H.
      apply H. apply in_map. exact Hin.
    Qed.
    Lemma kids_nc : Forall (fun n => is_comment_b n = false) kids.
    Proof. apply Forall_forall. intros n Hin. unfold is_comment_b. apply rs_not_comment. apply kid_rs. exact Hin. Qed.
    Lemma kid_call n r : In n kids -> ufit r (bt n) = true -> c_supp (req_ctx r) = true -> post (call n r) unb.
    Proof.
      intros Hin Hf Hs. rewrite Forall_forall in Hgood. apply (good_here _ _ (Hgood n Hin)); [apply kid_rs; exact Hin|exact Hf|exact Hs].
    Qed.

    (* producers: one call on a child, wrapped into a flow item *)
    Ltac call_item Hin Hc Hs :=
      eapply post_bind; [apply kid_call; [exact Hin|try reflexivity|cbn [req_ctx]; rewrite Hc; exact Hs]|];
      let d := fresh "d" in let Hd := fresh "Hd" in intros d Hd; apply post_ret; cbn [snd fi_doc]; exact Hd.
    Ltac flow_case Hs :=
      first [apply flow_like_unb | apply flow_like_iter_unb]; [apply kids_nc|];
      intros; cbn beta;
      repeat match goal with
             | |- post (if ?b then _ else _) _ => destruct b eqn:?
             | |- post (match ?x with _ => _ end) _ => destruct x eqn:?
             end;
      try (apply post_ret; cbn [snd fi_doc fi_tight fi_spaced fi_tight_spaced fi_spaced_tight fi_spaced_before fi_none]; first [exact I|apply unb_text|apply trivia_unb]).

    Lemma named_unb c : c_supp c = true -> post (convert_named swidth kids c) unb.
    Proof.
      intros Hs. unfold convert_named. apply flow_like_iter_unb; [apply kids_nc|]. intros seen c' n Hc Hin.
      destruct (kind_eqb (bk n) KColon); [apply post_ret; apply unb_text|].
      destruct (is_expr (bt n)); [call_item Hin Hc Hs|].
      destruct (is_pattern (bt n)); [call_item Hin Hc Hs|]. apply post_ret. exact I.
    Qed.
    Lemma keyed_unb c : c_supp c = true -> post (convert_keyed swidth kids c) unb.
    Proof.
      intros Hs. unfold convert_keyed. apply flow_like_iter_unb; [apply kids_nc|]. intros seen c' n Hc Hin.
      destruct (kind_eqb (bk n) KColon); [apply post_ret; apply unb_text|].
      destruct (is_expr (bt n)); [call_item Hin Hc Hs|]. apply post_ret. exact I.
    Qed.
    Lemma spread_unb c : c_supp c = true -> post (convert_spread swidth kids c) unb.
    Proof.
      intros Hs. unfold convert_spread. apply flow_like_unb; [apply kids_nc|]. intros c' n Hc Hin.
      destruct (kind_eqb (bk n) KDots); [apply post_ret; apply unb_text|].
      destruct (is_expr (bt n)); [call_item Hin Hc Hs|]. apply post_ret. exact I.
    Qed.
    Lemma unary_unb c : c_supp c = true -> post (convert_unary swidth t kids c) unb.
    Proof.
      intros Hs. unfold convert_unary. apply flow_like_unb; [apply kids_nc|]. intros c' n Hc Hin.
      destruct (unop_from_kind (bk n)); [apply post_ret; apply unb_text|].
      destruct (is_expr (bt n)); [|apply post_ret; exact I].
      eapply post_bind; [apply kid_call; [exact Hin|reflexivity|cbn [req_ctx]; rewrite Hc; exact Hs]|].
      intros d Hd. apply post_ret. destruct (match unary_op t with UNot => true | _ => false end); exact Hd.
    Qed.
    Lemma expr_flow_unb c : c_supp c = true -> post (expr_flow swidth kids c) unb.
    Proof.
      intros Hs. unfold expr_flow. apply flow_like_unb; [apply kids_nc|]. intros c' n Hc Hin.
      destruct (is_expr (bt n)); [call_item Hin Hc Hs|]. apply post_ret. exact I.
    Qed.
    Lemma let_unb c : c_supp c = true -> post (convert_let_binding swidth kids c) unb.
    Proof.
      intros Hs. unfold convert_let_binding. apply flow_like_unb; [apply kids_nc|]. intros c' n Hc Hin.
      destruct (kind_eqb (bk n) KEq); [apply post_ret; apply unb_text|].
      destruct (is_pattern (bt n)); [call_item Hin Hc Hs|]. apply post_ret. exact I.
    Qed.
    Lemma destruct_assignment_unb c : c_supp c = true -> post (convert_destruct_assignment swidth kids c) unb.
    Proof.
      intros Hs. unfold convert_destruct_assignment. apply flow_like_unb; [apply kids_nc|]. intros c' n Hc Hin.
      destruct (kind_eqb (bk n) KEq); [apply post_ret; apply unb_text|].
      destruct (is_pattern (bt n)); [call_item Hin Hc Hs|].
      destruct (is_expr (bt n)); [call_item Hin Hc Hs|]. apply post_ret. exact I.
    Qed.
    Lemma show_unb c : c_supp c = true -> post (convert_show_rule swidth kids c) unb.
    Proof.
      intros Hs. unfold convert_show_rule. apply flow_like_unb; [apply kids_nc|]. intros c' n Hc Hin.
      destruct (kind_eqb (bk n) KColon); [apply post_ret; apply unb_text|].
      destruct (is_expr (bt n)); [call_item Hin Hc Hs|]. apply post_ret. exact I.
    Qed.
    Lemma import_item_path_unb c : post (convert_import_item_path swidth kids c) unb.
    Proof.
      unfold convert_import_item_path. apply flow_like_unb; [apply kids_nc|]. intros c' n _ _.
      destruct (kind_eqb (bk n) KDot); [apply post_ret; apply unb_text|].
      destruct (kind_eqb (bk n) KIdent); apply post_ret; [apply trivia_unb|exact I].
    Qed.
    Lemma import_item_renamed_unb c : c_supp c = true -> post (convert_import_item_renamed swidth kids c) unb.
    Proof.
      intros Hs. unfold convert_import_item_renamed. apply flow_like_unb; [apply kids_nc|]. intros c' n Hc Hin.
      destruct (kind_eqb (bk n) KImportItemPath) eqn:Ek.
      { eapply post_bind; [apply kid_call; [exact Hin|exact Ek|cbn [req_ctx]; rewrite Hc; exact Hs]|].
        intros d Hd. apply post_ret. exact Hd. }
      destruct (kind_eqb (bk n) KIdent); apply post_ret; [apply trivia_unb|exact I].
    Qed.

    (* --- lists --- *)
    Lemma process_always (c0 : ctx) checker :
      c_supp c0 = true ->
      (forall c' n, c_supp c' = c_supp c0 -> In n kids ->
         post (checker c' n) (fun o => match o with Some d => unbreakable d = true | None => True end)) ->
      post (lst_process swidth (lst_with_fold_style lst_new (get_fold_style c0 t)) c0 kids checker)
           (fun l => clean l /\ l_fold l = Always).
    Proof.
      intros Hs0 Hck. unfold get_fold_style. rewrite Hs0, (rs_calm_multi t Hrs).
      eapply post_weaken; [apply lst_process_unb; [repeat split; constructor|apply kids_nc|exact Hck]|].
      intros l [Hc Hf]. split; [exact Hc|]. rewrite Hf. reflexivity.
    Qed.
    Lemma item_call (f : ctx -> bundle -> M doc) (p : tree -> bool) c0 :
      (forall c' n, c_supp c' = c_supp c0 -> In n kids -> p (bt n) = true -> post (f c' n) unb) ->
      forall c' n, c_supp c' = c_supp c0 -> In n kids ->
        post (opt_conv p f c' n) (fun o => match o with Some d => unbreakable d = true | None => True end).
    Proof.
      intros Hf c' n Hc Hin. unfold opt_conv. destruct (p (bt n)) eqn:Ep; [|apply post_ret; exact I].
      eapply post_bind; [apply Hf; assumption|]. intros d Hd. apply post_ret. exact Hd.
    Qed.
    Ltac by_kind n Hin Hc Hs :=
      unfold bk; destruct (kind_of (bt n)) eqn:Ek;
      try discriminate;
      (apply kid_call; [exact Hin|first [reflexivity|unfold ufit, is_kind; rewrite Ek; reflexivity]|cbn [req_ctx]; rewrite Hc; exact Hs]).

    Lemma array_unb c : c_supp c = true -> post (convert_array swidth cfg t kids c) unb.
    Proof.
      intros Hs. unfold convert_array.
      set (c0 := if match kids with b :: _ => kind_eqb (bk b) KLeftParen | [] => false end then with_mode c LCodeCont else c).
      assert (Hs0 : c_supp c0 = true) by (unfold c0; destruct (match kids with [] => false | _ => _ end); exact Hs).
      eapply post_bind.
      - apply process_always; [exact Hs0|]. apply item_call. intros c' n Hc Hin _. rewrite Hs0 in Hc.
        unfold convert_array_item. by_kind n Hin Hc (@eq_refl bool true).
      - intros l [Hc Hf]. apply post_ret. unfold lst_doc. apply lst_print_always_unb; assumption.
    Qed.
    Lemma dict_unb c : c_supp c = true -> post (convert_dict swidth cfg t kids c) unb.
    Proof.
      intros Hs. unfold convert_dict. eapply post_bind.
      - apply process_always; [exact Hs|]. apply item_call. intros c' n Hc Hin Hp. cbn [c_supp with_mode] in Hc. rewrite Hs in Hc.
        unfold convert_dict_item, is_dict_item in *. unfold bk. destruct (kind_of (bt n)) eqn:Ek; try discriminate Hp;
          (apply kid_call; [exact Hin|unfold ufit, is_kind; rewrite Ek; reflexivity|cbn [req_ctx]; exact Hc]).
      - intros l [Hc Hf]. apply post_ret. unfold lst_doc. apply lst_print_always_unb; assumption.
    Qed.
    Lemma param_call c0 : c_supp c0 = true ->
      forall c' n, c_supp c' = c_supp c0 -> In n kids -> post (convert_param c' n) unb.
    Proof.
      intros Hs c' n Hc Hin. rewrite Hs in Hc. unfold convert_param, bk. destruct (kind_of (bt n)) eqn:Ek;
        (apply kid_call; [exact Hin|first [reflexivity|unfold ufit, is_kind; rewrite Ek; reflexivity]|cbn [req_ctx]; exact Hc]).
    Qed.
    Lemma destructuring_unb c : c_supp c = true -> post (convert_destructuring swidth cfg t kids c) unb.
    Proof.
      intros Hs. unfold convert_destructuring. eapply post_bind.
      - apply process_always; [exact Hs|]. apply item_call. intros c' n Hc Hin _. apply (param_call (with_mode c LCodeCont)); assumption.
      - intros l [Hc Hf]. apply post_ret. unfold lst_doc. apply lst_print_always_unb.
        + unfold lst_always_fold_if. destruct (_ && _); exact Hc.
        + unfold lst_always_fold_if. destruct (_ && _); [reflexivity|exact Hf].
    Qed.
    Lemma params_unb c u : c_supp c = true -> post (convert_params swidth cfg t kids c u) unb.
    Proof.
      intros Hs. unfold convert_params. eapply post_bind.
      - apply process_always; [exact Hs|]. apply item_call. intros c' n Hc Hin _. apply (param_call (with_mode c LCodeCont)); assumption.
      - intros l [Hc Hf]. apply post_ret. unfold lst_doc. apply lst_print_always_unb.
        + unfold lst_always_fold_if. destruct (_ && _); exact Hc.
        + unfold lst_always_fold_if. destruct (_ && _); [reflexivity|exact Hf].
    Qed.

    (* --- parenthesized expressions and field accesses --- *)
    Lemma parenthesized_impl_unb c emb : c_supp c = true -> post (convert_parenthesized_impl swidth cfg t kids c emb) unb.
    Proof.
      intros Hs. unfold convert_parenthesized_impl. eapply post_bind.
      - apply process_always; [exact Hs|]. apply item_call. intros c' n Hc Hin _. rewrite Hs in Hc.
        apply kid_call; [exact Hin|reflexivity|exact Hc].
      - intros l [Hc Hf]. apply post_ret. unfold lst_doc. apply lst_print_always_unb; assumption.
    Qed.
    Lemma parenthesized_unb c emb : c_supp c = true -> post (convert_parenthesized swidth cfg t kids c emb) unb.
    Proof.
      intros Hs. unfold convert_parenthesized.
      destruct (find (fun b => is_pattern (bt b)) kids) as [p|] eqn:Ef; [|apply parenthesized_impl_unb; exact Hs].
      destruct (kind_eqb (bk p) KParenthesized && _) eqn:Ep; [|apply parenthesized_impl_unb; exact Hs].
      apply find_some in Ef. apply andb_prop in Ep. destruct Ep as [Ep _].
      apply kid_call; [exact (proj1 Ef)|exact Ep|exact Hs].
    Qed.
    Lemma field_access_unb self c :
      bt self = t -> bkids self = kids -> c_supp c = true -> post (convert_field_access swidth cfg self c) unb.
    Proof.
      intros Et Ek Hs. unfold convert_field_access, try_convert_dot_chain. rewrite Hs.
      apply (post_bind _ _ (fun o => o = None)); [apply post_ret; reflexivity|]. intros o ->.
      assert (Hnc : has_comment_children_b self = false).
      { unfold has_comment_children_b. rewrite Ek. pose proof kids_nc as K. clear -K.
        induction K as [|x l Hx Hl IHl]; [reflexivity|]. cbn. rewrite Hx. exact IHl. }
      rewrite Hnc. apply (post_bind _ _ unb).
      - unfold first_kid. rewrite Ek. destruct (find (fun k => is_expr (bt k)) kids) as [tg|] eqn:Ef.
        + apply find_some in Ef. apply kid_call; [exact (proj1 Ef)|reflexivity|exact Hs].
        + apply post_bump_then. apply post_ret. apply unb_text.
      - intros d Hd. apply post_ret. apply unb_append; [apply unb_append; [exact Hd|apply unb_text]|apply trivia_unb].
    Qed.

    (* --- binary operations (under suppression: a plain flow), closures, for loops, set rules --- *)
    Lemma binary_unb self c :
      bkids self = kids -> c_supp c = true -> post (convert_binary swidth cfg self c) unb.
    Proof.
      intros Ek Hs. unfold convert_binary. rewrite Hs. cbn [negb andb]. rewrite Ek.
      apply flow_like_unb; [apply kids_nc|]. intros c' n Hc Hin.
      destruct (binop_from_kind (bk n)); [apply post_ret; apply unb_text|].
      destruct (is_expr (bt n)); [call_item Hin Hc Hs|]. apply post_ret. exact I.
    Qed.
    Lemma opt_paren_unb c' n ub : c_supp c' = true -> In n kids ->
      post (convert_expr_with_optional_paren swidth cfg c' n ub) unb.
    Proof.
      intros Hs' Hin. unfold convert_expr_with_optional_paren. rewrite Hs'. cbn [orb].
      apply kid_call; [exact Hin|reflexivity|exact Hs'].
    Qed.
    Lemma closure_unb c : c_supp c = true -> post (convert_closure swidth cfg t kids c) unb.
    Proof.
      intros Hs. unfold convert_closure. apply flow_like_iter_unb; [apply kids_nc|]. intros la c' n Hc Hin.
      rewrite Hs in Hc.
      destruct (kind_eqb (bk n) KEq); [apply post_ret; apply unb_text|].
      destruct (kind_eqb (bk n) KArrow); [apply post_ret; apply unb_text|].
      destruct la.
      - destruct (kind_eqb (bk n) KIdent); apply post_ret; [apply trivia_unb|exact I].
      - destruct (kind_eqb (bk n) KParams) eqn:Ek; [|apply post_ret; exact I].
        eapply post_bind; [apply kid_call; [exact Hin|exact Ek|exact Hc]|]. intros d Hd. apply post_ret. exact Hd.
      - destruct (is_expr (bt n)); [|apply post_ret; exact I].
        eapply post_bind; [apply opt_paren_unb; assumption|]. intros d Hd. apply post_ret. exact Hd.
    Qed.
    Lemma for_unb c : c_supp c = true -> post (convert_for_loop swidth cfg kids c) unb.
    Proof.
      intros Hs. unfold convert_for_loop. apply flow_like_iter_unb; [apply kids_nc|]. intros la c' n Hc Hin.
      rewrite Hs in Hc. destruct la.
      - destruct (is_pattern (bt n)); [|apply post_ret; exact I].
        eapply post_bind; [apply kid_call; [exact Hin|reflexivity|exact Hc]|]. intros d Hd. apply post_ret. exact Hd.
      - destruct (is_expr (bt n)); [|apply post_ret; exact I].
        eapply post_bind; [apply opt_paren_unb; assumption|]. intros d Hd. apply post_ret. exact Hd.
      - destruct (is_expr (bt n)); [|apply post_ret; exact I].
        eapply post_bind; [apply kid_call; [exact Hin|reflexivity|exact Hc]|]. intros d Hd. apply post_ret. exact Hd.
    Qed.
    Lemma set_rule_unb c : c_supp c = true -> post (convert_set_rule swidth kids c) unb.
    Proof.
      intros Hs. unfold convert_set_rule. apply flow_like_unb; [apply kids_nc|]. intros c' n Hc Hin.
      destruct (is_expr (bt n)); [call_item Hin Hc Hs|].
      destruct (kind_eqb (bk n) KArgs) eqn:Ek; [|apply post_ret; exact I].
      eapply post_bind; [apply kid_call; [exact Hin|exact Ek|cbn [req_ctx]; rewrite Hc; exact Hs]|].
      intros d Hd. apply post_ret. exact Hd.
    Qed.

    (* --- argument lists (not of a table) and calls --- *)
    Lemma In_take_until l (x : bundle) : In x (take_until_rparen l) -> In x l.
    Proof.
      induction l as [|y l IH]; cbn; [auto|]. destruct (kind_eqb (bk y) KRightParen); cbn; [intros []|].
      intros [->|H]; auto.
    Qed.
    Lemma In_skip_until k l (x : bundle) : In x (skip_until k l) -> In x l.
    Proof.
      induction l as [|y l IH]; cbn; [auto|]. destruct (kind_eqb (bk y) k); [auto|]. intros H. right. auto.
    Qed.
    Lemma additional_args_unb c hp : c_supp c = true -> post (convert_additional_args kids c hp) unb.
    Proof.
      intros Hs. unfold convert_additional_args. apply post_foldM; [reflexivity|].
      intros d b Hin Hd. apply filter_In in Hin. destruct Hin as [Hin Hk]. apply In_skip_until in Hin.
      apply (post_bind _ _ unb); [apply kid_call; [exact Hin|exact Hk|exact Hs]|].
      intros x Hx. apply post_ret. apply unb_append; assumption.
    Qed.
    Lemma arg_call c0 : c_supp c0 = true ->
      forall c' n, c_supp c' = c_supp c0 -> In n kids -> post (convert_arg c' n) unb.
    Proof.
      intros Hs c' n Hc Hin. rewrite Hs in Hc. unfold convert_arg, bk. destruct (kind_of (bt n)) eqn:Ek;
        (apply kid_call; [exact Hin|first [reflexivity|unfold ufit, is_kind; rewrite Ek; reflexivity]|cbn [req_ctx]; exact Hc]).
    Qed.
    Lemma parenthesized_args_unb c : c_supp c = true -> post (convert_parenthesized_args swidth cfg t kids c) unb.
    Proof.
      intros Hs. unfold convert_parenthesized_args. cbn [c_supp with_mode]. rewrite Hs. cbn [negb].
      unfold get_fold_style. cbn [c_supp with_mode]. rewrite Hs, (rs_calm_multi t Hrs).
      apply (post_bind _ _ (fun l => clean l /\ l_fold l = Always)).
      - eapply post_weaken.
        + apply lst_process_unb.
          * repeat split; constructor.
          * apply Forall_forall. intros n Hin. pose proof kids_nc as K. rewrite Forall_forall in K. apply K. apply In_take_until. exact Hin.
          * intros c' n Hc Hin. pose proof (In_take_until _ _ Hin) as Hin'. unfold opt_conv.
            destruct (is_arg (bt n)); [|apply post_ret; exact I].
            eapply post_bind; [apply (arg_call (with_mode c LCodeCont)); [exact Hs|exact Hc|exact Hin']|].
            intros d Hd. apply post_ret. exact Hd.
        + intros l [Hc Hf]. split; [exact Hc|]. rewrite Hf. reflexivity.
      - intros l [Hc Hf]. apply post_ret. unfold lst_doc. apply lst_print_always_unb; assumption.
    Qed.
    Lemma args_unb c : c_supp c = true -> post (convert_args swidth cfg t kids c) unb.
    Proof.
      intros Hs. unfold convert_args. apply (post_bind _ _ unb).
      - destruct (has_parenthesized_args kids); [apply parenthesized_args_unb; exact Hs|apply post_ret; reflexivity].
      - intros p Hp. apply (post_bind _ _ unb); [apply additional_args_unb; exact Hs|]. intros a Ha. apply post_ret. apply unb_append; assumption.
    Qed.
    Lemma In_firstn' {A} n (l : list A) x : In x (firstn n l) -> In x l.
    Proof. revert l. induction n as [|n IH]; intros [|y l] H; cbn in *; try contradiction. destruct H; auto. Qed.
    Lemma In_skipn' {A} n (l : list A) x : In x (skipn n l) -> In x l.
    Proof. revert l. induction n as [|n IH]; intros [|y l] H; cbn in *; try contradiction; auto. Qed.
    Lemma args_in_math_unb c : c_supp c = true -> post (convert_args_in_math swidth cfg t kids c) unb.
    Proof.
      intros Hs. unfold convert_args_in_math. rewrite (rs_calm_multi t Hrs).
      match goal with |- post (bind (flow_like_iter _ _ ?ch _ _) _) _ => set (children := ch) end.
      assert (Hsub : forall x, In x children -> In x kids).
      { intros x. unfold children. destruct (Nat.ltb _ _); [intros []|]. intros H. apply In_firstn' in H. apply In_skipn' in H. exact H. }
      apply (post_bind _ _ unb).
      - apply flow_like_iter_unb.
        + apply Forall_forall. intros n Hin. pose proof kids_nc as K. rewrite Forall_forall in K. apply K. apply Hsub. exact Hin.
        + intros pk c' n Hc Hin. pose proof (Hsub n Hin) as Hin'. unfold bk.
          destruct (kind_of (bt n)) eqn:Ek;
            try (apply post_ret; cbn [snd fi_doc fi_tight_spaced]; apply unb_text);
            try (destruct (is_arg (bt n)); [|apply post_ret; exact I];
                 eapply post_bind; [apply (arg_call c); [exact Hs|exact Hc|exact Hin']|];
                 intros d Hd; apply post_ret; exact Hd).
          * (* Space *) unfold tx. rewrite (rs_space_nolb _ (kid_rs n Hin') Ek). apply post_ret. exact I.
      - intros d Hd. apply post_ret. apply unb_enclose; try apply unb_text. exact Hd.
    Qed.
    Lemma func_call_args_unb c : c_supp c = true -> post (convert_func_call_args swidth cfg t kids c NotTable) unb.
    Proof.
      intros Hs. unfold convert_func_call_args. destruct (is_math_mode (c_mode c)); [apply args_in_math_unb; exact Hs|].
      apply (post_bind _ _ unb).
      - destruct (has_parenthesized_args kids); [apply parenthesized_args_unb; exact Hs|apply post_ret; reflexivity].
      - intros p Hp. apply (post_bind _ _ unb); [apply additional_args_unb; exact Hs|]. intros a Ha. apply post_ret. apply unb_append; assumption.
    Qed.

    Lemma find_bt (p : tree -> bool) l : find p (map bt l) = option_map bt (find (fun b => p (bt b)) l).
    Proof. induction l as [|x l IH]; cbn; [reflexivity|]. destruct (p (bt x)); [reflexivity|exact IH]. Qed.
    Lemma func_call_unb self c :
      kind_of t = KFuncCall -> bt self = t -> bkids self = kids -> c_supp c = true ->
      post (convert_func_call swidth cfg self c) unb.
    Proof.
      intros Hkt Et Ek Hs. unfold convert_func_call.
      apply (post_bind _ _ (fun o => o = None)).
      - destruct (first_kid is_expr self) as [cal|]; [|apply post_ret; reflexivity].
        destruct (kind_eqb (bk cal) KFieldAccess); [|apply post_ret; reflexivity].
        unfold try_convert_dot_chain. rewrite Hs. apply post_ret. reflexivity.
      - intros o ->. unfold convert_func_call_plain. apply (post_bind _ _ unb).
        + unfold first_kid. rewrite Ek. destruct (find (fun k => is_expr (bt k)) kids) as [cl|] eqn:Ef.
          * apply find_some in Ef. apply kid_call; [exact (proj1 Ef)|reflexivity|exact Hs].
          * apply post_bump_then. apply post_ret. apply unb_text.
        + intros cal Hcal. apply (post_bind _ _ unb).
          * unfold args_of_call, last_kid. rewrite Ek.
            destruct (find (fun k => is_kind KArgs (bt k)) (rev kids)) as [a|] eqn:Ea.
            -- apply find_some in Ea. destruct Ea as [Hin Hk]. apply in_rev in Hin.
               assert (Hnt : table_info_of self a = NotTable).
               { unfold table_info_of. assert (Hit : is_table self = false); [|rewrite Hit; reflexivity].
                 destruct (rs_parts t Hrs) as (_ & _ & Hct & _). unfold is_table, indent_func_name, first_kid. rewrite Ek.
                 unfold call_is_table in Hct. rewrite <- Hshape, find_bt in Hct.
                 destruct (find (fun k => is_expr (bt k)) kids) as [cl|]; cbn [option_map] in Hct; [|reflexivity].
                 unfold bk. destruct (kind_eqb (kind_of (bt cl)) KIdent); [|reflexivity].
                 rewrite Hkt, kind_eqb_refl in Hct. cbn [andb] in Hct. rewrite Hct. reflexivity. }
               rewrite Hnt. apply kid_call; [exact Hin|exact Hk|exact Hs].
            -- destruct (is_math_mode (c_mode c)); [apply post_panic|apply post_ret; reflexivity].
          * intros a Ha. apply post_ret. apply unb_append; assumption.
    Qed.

    (* --- markup bodies: content blocks, strong and emphasised text --- *)
    Definition calm_boundary (b : boundary) : bool :=
      match b with BBreak | BWeakBreak => false | _ => true end.
    Lemma space_nolb n : In n kids -> kind_eqb (bk n) KSpace = true -> has_lb (tx n) = false.
    Proof. intros Hin Hk. unfold tx. apply rs_space_nolb; [apply kid_rs; exact Hin|]. apply kind_eqb_eq. exact Hk. Qed.
    Lemma not_parbreak n : In n kids -> kind_eqb (bk n) KParbreak = false.
    Proof.
      intros Hin. pose proof (rs_okind _ (kid_rs n Hin)) as K. unfold bk. destruct (kind_of (bt n)); try reflexivity; discriminate K.
    Qed.
    Lemma strip_space_calm b : calm_boundary b = true -> calm_boundary (strip_space b) = true.
    Proof. destruct b; auto. Qed.

    (* the loop of collect_markup_repr never closes a line: no paragraph break, no blank with a line break *)
    Lemma repr_fold_calm : forall l lines cur sb,
      (forall n, In n l -> In n kids) ->
      lines = [] -> ml_breaks cur = 0 -> calm_boundary sb = true -> (forall n, In n (ml_nodes cur) -> In n kids) ->
      let '(lines', cur', sb') := fold_left repr_step l (lines, cur, sb) in
      lines' = [] /\ ml_breaks cur' = 0 /\ calm_boundary sb' = true /\ (forall n, In n (ml_nodes cur') -> In n kids).
    Proof.
      induction l as [|x l IH]; intros lines cur sb Hsub Hl Hb Hs Hc; cbn [fold_left]; [auto|].
      assert (Hx : In x kids) by (apply Hsub; left; reflexivity).
      assert (Hsub' : forall n, In n l -> In n kids) by (intros n Hn; apply Hsub; right; exact Hn).
      assert (Hstep : exists cur1 sb1, repr_step (lines, cur, sb) x = (lines, cur1, sb1) /\ ml_breaks cur1 = 0 /\
                        calm_boundary sb1 = true /\ (forall n, In n (ml_nodes cur1) -> In n kids)).
      { unfold repr_step. rewrite (not_parbreak x Hx).
        destruct (kind_eqb (bk x) KSpace) eqn:Ek.
        - rewrite (space_nolb x Hx Ek). cbn [andb].
          destruct (match ml_nodes cur with [] => true | _ => false end) eqn:En; cbn [andb].
          + exists cur, (boundary_from_space (tx x)). repeat split; auto.
            unfold boundary_from_space. rewrite (space_nolb x Hx Ek). reflexivity.
          + eexists _, _. split; [reflexivity|]. cbn [ml_breaks ml_nodes]. repeat split; [exact Hb| |].
            * exact Hs.
            * intros n Hn. apply in_app_or in Hn. destruct Hn as [Hn|[<-|[]]]; auto.
        - cbn [andb]. eexists _, _. split; [reflexivity|]. cbn [ml_breaks ml_nodes]. repeat split; [exact Hb| |].
          + match goal with |- calm_boundary (if ?b then _ else _) = true => destruct b end; [apply strip_space_calm|]; exact Hs.
          + intros n Hn. apply in_app_or in Hn. destruct Hn as [Hn|[<-|[]]]; auto. }
      destruct Hstep as (cur1 & sb1 & -> & Hb1 & Hs1 & Hc1). apply IH; assumption.
    Qed.

    Lemma strip_trailing_calm : forall r eb,
      (forall n, In n r -> In n kids) -> calm_boundary eb = true ->
      calm_boundary (snd (strip_trailing_spaces r eb)) = true /\ (forall n, In n (fst (strip_trailing_spaces r eb)) -> In n r).
    Proof.
      induction r as [|n r IH]; intros eb Hsub He; cbn [strip_trailing_spaces]; [auto|].
      destruct (kind_eqb (bk n) KSpace) eqn:Ek.
      - destruct (IH (boundary_from_space (tx n))) as [H1 H2].
        + intros m Hm. apply Hsub. right. exact Hm.
        + unfold boundary_from_space. rewrite (space_nolb n (Hsub n (or_introl eq_refl)) Ek). reflexivity.
        + split; [exact H1|]. intros m Hm. right. apply H2. exact Hm.
      - cbn [fst snd]. split; [|auto]. destruct (is_block_elem n); [apply strip_space_calm|]; exact He.
    Qed.

    Lemma bound_through_calm nodes : (forall n, In n nodes -> In n kids) ->
      match bound_through_comments nodes (find (fun b => negb (is_comment_b b)) nodes) with
      | Some x => calm_boundary x = true | None => True end.
    Proof.
      intros Hsub. unfold bound_through_comments.
      destruct (find (fun b => negb (is_comment_b b)) nodes) as [it|] eqn:Ef.
      - destruct (is_block_elem it); [reflexivity|]. destruct (kind_eqb (bk it) KSpace); [reflexivity|exact I].
      - destruct nodes as [|n0 nr]; [exact I|]. exfalso.
        pose proof (find_none _ _ Ef n0 (or_introl eq_refl)) as Hn. cbn beta in Hn.
        pose proof kids_nc as K. rewrite Forall_forall in K. rewrite (K n0 (Hsub n0 (or_introl eq_refl))) in Hn. discriminate Hn.
    Qed.
    Lemma bound_through_calm_rev nodes : (forall n, In n nodes -> In n kids) ->
      match bound_through_comments nodes (find (fun b => negb (is_comment_b b)) (rev nodes)) with
      | Some x => calm_boundary x = true | None => True end.
    Proof.
      intros Hsub. unfold bound_through_comments.
      destruct (find (fun b => negb (is_comment_b b)) (rev nodes)) as [it|] eqn:Ef.
      - destruct (is_block_elem it); [reflexivity|]. destruct (kind_eqb (bk it) KSpace); [reflexivity|exact I].
      - destruct nodes as [|n0 nr]; [exact I|]. exfalso.
        assert (Hin : In n0 (rev (n0 :: nr))) by (apply in_rev; rewrite rev_involutive; left; reflexivity).
        pose proof (find_none _ _ Ef n0 Hin) as Hn. cbn beta in Hn.
        pose proof kids_nc as K. rewrite Forall_forall in K. rewrite (K n0 (Hsub n0 (or_introl eq_refl))) in Hn. discriminate Hn.
    Qed.

    (* the representation of a calm markup body: at most one line, no mandatory break, edges that are not breaks *)
    Lemma repr_calm :
      let r := collect_markup_repr kids in
      calm_boundary (mr_start r) = true /\ calm_boundary (mr_end r) = true /\
      Forall (fun ln => ml_breaks ln = 0 /\ forall n, In n (ml_nodes ln) -> In n kids) (mr_lines r).
    Proof.
      unfold collect_markup_repr.
      pose proof (repr_fold_calm kids [] ml_empty BNil (fun n H => H) eq_refl eq_refl eq_refl (fun n (H : In n []) => match H with end)) as F.
      destruct (fold_left repr_step kids ([], ml_empty, BNil)) as [[lines0 cur] sb].
      destruct F as (-> & Hb & Hs & Hc). cbn [app].
      destruct (ml_nodes cur) as [|c0 cr] eqn:En.
      - cbn. destruct (boundary_eqb sb BNil); repeat split; try reflexivity; try exact Hs; constructor.
      - cbn [rev app]. rewrite Hb. cbn [N.ltb N.compare]. change (0 <? 0) with false. cbv iota.
        destruct (strip_trailing_calm (rev (ml_nodes cur)) BNil) as [He Hsubn].
        { intros n Hn. apply in_rev in Hn. apply Hc. rewrite <- En. exact Hn. }
        { reflexivity. }
        destruct (strip_trailing_spaces (rev (ml_nodes cur)) BNil) as [rn eb1] eqn:Est. cbn [fst snd] in He, Hsubn.
        cbn [app mr_start mr_end mr_lines rev].
        assert (Hnodes : forall n, In n (rev rn) -> In n kids).
        { intros n Hn. apply in_rev in Hn. apply Hsubn in Hn. apply in_rev in Hn. apply Hc. rewrite <- En. exact Hn. }
        repeat split.
        + destruct (boundary_eqb sb BNil); [|exact Hs]. cbn [ml_nodes].
          pose proof (bound_through_calm (rev rn) Hnodes) as B.
          destruct (bound_through_comments (rev rn) _); [exact B|exact Hs].
        + destruct (boundary_eqb eb1 BNil); [|exact He]. cbn [ml_nodes].
          pose proof (bound_through_calm_rev (rev rn) Hnodes) as B.
          destruct (bound_through_comments (rev rn) _); [exact B|exact He].
        + constructor; [|constructor]. cbn [ml_breaks ml_nodes]. split; [reflexivity|exact Hnodes].
    Qed.

    Lemma markup_unb c sc0 : c_supp c = true -> post (convert_markup_impl swidth t kids c sc0) unb.
    Proof.
      intros Hs. unfold convert_markup_impl. apply post_bump_then.
      destruct (is_only_one_and kids _); [apply post_ret; reflexivity|].
      destruct repr_calm as (Hsb & Heb & Hlines).
      apply (post_bind _ _ unb).
      - apply post_foldM; [reflexivity|]. intros d ln Hln Hd. rewrite Forall_forall in Hlines.
        destruct (Hlines ln Hln) as [Hbr Hnodes].
        apply (post_bind _ _ unb).
        + apply post_foldM; [exact Hd|]. intros d0 node Hin Hd0. pose proof (Hnodes node Hin) as Hk.
          apply (post_bind _ _ unb).
          * destruct (kind_eqb (bk node) KSpace); [apply post_ret; reflexivity|].
            destruct (kind_eqb (bk node) KText); [apply post_ret; apply verbatim_unb|].
            destruct (is_expr (bt node)).
            { apply kid_call; [exact Hk|reflexivity|]. cbn [req_ctx]. destruct (ml_mixed ln); [reflexivity|exact Hs]. }
            pose proof kids_nc as K. rewrite Forall_forall in K. rewrite (K node Hk). apply post_ret. apply trivia_unb.
          * intros x Hx. apply post_ret. apply unb_append; assumption.
        + intros d1 Hd1. apply post_ret. rewrite Hbr. exact Hd1.
      - intros d Hd. apply post_ret. rewrite (rs_calm_multi t Hrs).
        apply unb_enclose; [| |exact Hd].
        + destruct (scope_eqb sc0 ScDocument || scope_eqb sc0 ScItem).
          * destruct (mr_start (collect_markup_repr kids)); try discriminate Hsb; reflexivity.
          * destruct (mr_start (collect_markup_repr kids)); try discriminate Hsb; cbn [with_mode c_supp negb]; rewrite ?Hs; cbn [negb];
              rewrite ?Bool.orb_true_r, ?Bool.andb_false_r, ?Bool.orb_false_r;
              repeat match goal with |- context [if ?b then _ else _] => destruct b end; reflexivity.
        + destruct (scope_eqb sc0 ScDocument || scope_eqb sc0 ScItem).
          * destruct (mr_end (collect_markup_repr kids)); try discriminate Heb; reflexivity.
          * destruct (mr_end (collect_markup_repr kids)); try discriminate Heb; cbn [with_mode c_supp negb]; rewrite ?Hs; cbn [negb];
              rewrite ?Bool.orb_true_r, ?Bool.andb_false_r, ?Bool.orb_false_r;
              repeat match goal with |- context [if ?b then _ else _] => destruct b end; reflexivity.
    Qed.

    Lemma markup_body_unb c sc0 : c_supp c = true -> post (call_markup_body kids c sc0) unb.
    Proof.
      intros Hs. unfold call_markup_body. destruct (find (fun b => kind_eqb (bk b) KMarkup) kids) as [m|] eqn:Ef.
      - apply find_some in Ef. apply kid_call; [exact (proj1 Ef)|exact (proj2 Ef)|exact Hs].
      - apply post_bump_then. apply post_ret. reflexivity.
    Qed.
    Lemma content_block_unb c : c_supp c = true -> post (convert_content_block swidth cfg kids c) unb.
    Proof.
      intros Hs. unfold convert_content_block. apply (post_bind _ _ unb); [apply markup_body_unb; exact Hs|].
      intros d Hd. apply post_ret. apply unb_enclose; try apply unb_text. apply unb_group. apply unb_nest. exact Hd.
    Qed.
    Lemma strong_unb c : c_supp c = true -> post (convert_strong swidth kids c) unb.
    Proof.
      intros Hs. unfold convert_strong. apply (post_bind _ _ unb); [apply markup_body_unb; exact Hs|].
      intros d Hd. apply post_ret. apply unb_enclose; try apply unb_text. exact Hd.
    Qed.
    Lemma emph_unb c : c_supp c = true -> post (convert_emph swidth kids c) unb.
    Proof.
      intros Hs. unfold convert_emph. apply (post_bind _ _ unb); [apply markup_body_unb; exact Hs|].
      intros d Hd. apply post_ret. apply unb_enclose; try apply unb_text. exact Hd.
    Qed.

    (* --- math (breaks are suppressed below every Math node) --- *)
    Lemma math_unb c : post (convert_math swidth t kids c) unb.
    Proof.
      unfold convert_math. apply post_bump_then. apply check_disabled_unb.
      apply (post_bind _ _ (fun st : doc * bool => unbreakable (fst st) = true)).
      - apply post_foldM; [reflexivity|]. intros [d ah] node Hin Hd. cbn [fst] in Hd.
        destruct (is_expr (bt node)).
        { apply (post_bind _ _ unb); [apply kid_call; [exact Hin|reflexivity|destruct ah; reflexivity]|].
          intros x Hx. apply post_ret. cbn [fst]. apply unb_append; assumption. }
        destruct (kind_eqb (bk node) KSpace) eqn:Ek.
        { apply post_ret. cbn [fst]. apply unb_append; [exact Hd|]. unfold convert_space_text. rewrite (space_nolb node Hin Ek). reflexivity. }
        destruct (kind_eqb (bk node) KHash); apply post_ret; cbn [fst]; (apply unb_append; [exact Hd|]); [apply unb_text|apply trivia_unb].
      - intros [d ah] Hd. apply post_ret. exact Hd.
    Qed.
    Lemma attach_unb c : c_supp c = true -> post (convert_math_attach_like swidth kids c) unb.
    Proof.
      intros Hs. unfold convert_math_attach_like. apply flow_like_unb; [apply kids_nc|]. intros c' n Hc Hin.
      destruct (is_expr (bt n)).
      { eapply post_bind; [apply kid_call; [exact Hin|unfold math_operand_req; destruct (is_code_mode _); reflexivity|
                                              unfold math_operand_req; destruct (is_code_mode _); cbn [req_ctx]; rewrite Hc; exact Hs]|].
        intros d Hd. apply post_ret. exact Hd. }
      destruct (kind_eqb (bk n) KSpace); apply post_ret; [exact I|apply trivia_unb].
    Qed.
    Lemma frac_unb c : c_supp c = true -> post (convert_math_frac swidth kids c) unb.
    Proof.
      intros Hs. unfold convert_math_frac. apply flow_like_unb; [apply kids_nc|]. intros c' n Hc Hin.
      destruct (is_expr (bt n)).
      { eapply post_bind; [apply kid_call; [exact Hin|unfold math_operand_req; destruct (is_code_mode _); reflexivity|
                                              unfold math_operand_req; destruct (is_code_mode _); cbn [req_ctx]; rewrite Hc; exact Hs]|].
        intros d Hd. apply post_ret. exact Hd. }
      destruct (kind_eqb (bk n) KSemicolon); [apply post_ret; apply trivia_unb|].
      destruct (negb (kind_eqb (bk n) KSpace)); apply post_ret; [apply trivia_unb|exact I].
    Qed.
    Lemma In_removelast' {A} (l : list A) x : In x (removelast l) -> In x l.
    Proof.
      induction l as [|y l IH]; cbn; [auto|]. destruct l as [|z l']; [intros []|]. intros [->|H]; [left; reflexivity|right; apply IH; exact H].
    Qed.
    Lemma In_split_last {A} (l r : list A) lastx x : split_last l = Some (r, lastx) -> In x r -> In x l.
    Proof.
      unfold split_last. destruct (rev l) as [|y rl] eqn:E; [discriminate|]. intros H Hin. inversion H; subst.
      apply in_rev in Hin. apply in_rev. rewrite E. right. exact Hin.
    Qed.
    Lemma In_split_last_x {A} (l r : list A) lastx : split_last l = Some (r, lastx) -> In lastx l.
    Proof.
      unfold split_last. destruct (rev l) as [|y rl] eqn:E; [discriminate|]. intros H. inversion H; subst.
      apply in_rev. rewrite E. left. reflexivity.
    Qed.
    Lemma delimited_unb c : c_supp c = true -> post (convert_math_delimited swidth cfg kids c) unb.
    Proof.
      intros Hs. unfold convert_math_delimited. destruct kids as [|k0 rest] eqn:Ekids; [apply post_panic|].
      destruct rest as [|k1 rest']; [apply post_panic|]. rewrite <- Ekids in *.
      set (inner0 := removelast (k1 :: rest')).
      assert (H0 : forall x, In x inner0 -> In x kids).
      { intros x Hx. apply In_removelast' in Hx. rewrite Ekids. right. exact Hx. }
      assert (Hos : exists os inner1, (match inner0 with
                                       | first :: r => if kind_eqb (bk first) KSpace then (convert_space_text (tx first), r) else (DNil, inner0)
                                       | [] => (DNil, inner0) end) = (os, inner1) /\ unbreakable os = true /\ forall x, In x inner1 -> In x kids).
      { destruct inner0 as [|f r] eqn:Ei; [exists DNil, []; repeat split; auto; intros x []|].
        destruct (kind_eqb (bk f) KSpace) eqn:Ek.
        - exists (convert_space_text (tx f)), r. repeat split.
          + unfold convert_space_text. rewrite (space_nolb f (H0 f (or_introl eq_refl)) Ek). reflexivity.
          + intros x Hx. apply H0. right. exact Hx.
        - exists DNil, (f :: r). repeat split; auto. }
      destruct Hos as (os & inner1 & -> & Hos & H1).
      assert (Hcs : exists cs inner2, (match split_last inner1 with
                                       | Some (r, lastx) => if kind_eqb (bk lastx) KSpace then (convert_space_text (tx lastx), r) else (DNil, inner1)
                                       | None => (DNil, inner1) end) = (cs, inner2) /\ unbreakable cs = true /\ forall x, In x inner2 -> In x kids).
      { destruct (split_last inner1) as [[r lastx]|] eqn:Esl; [|exists DNil, inner1; repeat split; auto].
        destruct (kind_eqb (bk lastx) KSpace) eqn:Ek.
        - exists (convert_space_text (tx lastx)), r. repeat split.
          + unfold convert_space_text. rewrite (space_nolb lastx (H1 _ (In_split_last_x _ _ _ Esl)) Ek). reflexivity.
          + intros x Hx. apply H1. apply (In_split_last _ _ _ _ Esl Hx).
        - exists DNil, inner1. repeat split; auto. }
      destruct Hcs as (cs & inner2 & -> & Hcs & H2).
      apply (post_bind _ _ unb).
      - apply flow_like_unb.
        + apply Forall_forall. intros n Hin. pose proof kids_nc as K. rewrite Forall_forall in K. apply K. apply H2. exact Hin.
        + intros c' n Hc Hin. pose proof (H2 n Hin) as Hin'.
          destruct (kind_eqb (bk n) KMath) eqn:Ek.
          { eapply post_bind; [apply kid_call; [exact Hin'|exact Ek|cbn [req_ctx]; rewrite Hc; exact Hs]|]. intros d Hd. apply post_ret. exact Hd. }
          destruct (kind_eqb (bk n) KSpace) eqn:Ek2; apply post_ret; [|exact I].
          cbn [fi_tight fi_doc]. rewrite (space_nolb n Hin' Ek2). reflexivity.
      - intros body Hbody.
        assert (Hoc : forall l, (forall x, In x l -> In x kids) ->
                  post (match find (fun b => is_expr (bt b)) l with
                        | Some o => call o (RExpr c)
                        | None => bump ;;; ret (text [110; 111; 110; 101]) end) unb).
        { intros l Hl. destruct (find (fun b => is_expr (bt b)) l) as [o|] eqn:Ef.
          - apply find_some in Ef. apply kid_call; [apply Hl; exact (proj1 Ef)|reflexivity|exact Hs].
          - apply post_bump_then. apply post_ret. apply unb_text. }
        apply (post_bind _ _ unb); [apply Hoc; auto|]. intros op Hop.
        apply (post_bind _ _ unb); [apply Hoc; intros x Hx; apply in_rev in Hx; exact Hx|]. intros cl Hcl.
        apply post_ret. apply unb_enclose; [exact Hop|exact Hcl|].
        apply unb_append; [|exact Hcs]. apply unb_nest. apply unb_append; assumption.
    Qed.
    Lemma equation_unb c : c_supp c = true -> post (convert_equation swidth cfg t kids c) unb.
    Proof.
      intros Hs. unfold convert_equation. cbn [c_supp with_mode]. rewrite Hs, Bool.orb_true_r.
      apply (post_bind _ _ (fun l => clean l /\ l_fold l = Always)).
      - eapply post_weaken.
        + apply lst_process_unb; [repeat split; constructor|apply kids_nc|].
          intros c' n Hc Hin. cbn [c_supp with_mode] in Hc. rewrite Hs in Hc.
          destruct (kind_eqb (bk n) KMath && _) eqn:Ek; [|apply post_ret; exact I].
          apply andb_prop in Ek. destruct Ek as [Ek _].
          eapply post_bind; [apply kid_call; [exact Hin|exact Ek|exact Hc]|]. intros body Hb. apply post_ret.
          match goal with |- unbreakable (if ?b then _ else _) = true => destruct b end; [apply unb_append; [exact Hb|reflexivity]|exact Hb].
        + intros l [Hc Hf]. split; [exact Hc|]. rewrite Hf. reflexivity.
      - intros l [Hc Hf]. apply post_ret. unfold lst_doc. apply lst_print_always_unb; assumption.
    Qed.

    (* --- raw elements, references, headings, list/enum/term items --- *)
    Lemma raw_unb : unbreakable (convert_raw swidth t kids) = true.
    Proof.
      unfold convert_raw. destruct (negb _ && _); [apply verbatim_unb|].
      assert (G : forall l acc, (forall x, In x l -> In x kids) -> unbreakable acc = true ->
                unbreakable (fold_left (fun d child => match bk child with
                                                       | KRawDelim | KRawLang => append d (convert_trivia swidth (bt child))
                                                       | KText => append d (convert_verbatim swidth (bt child))
                                                       | KRawTrimmed => append d (if has_lb (tx child) then hardline else space)
                                                       | _ => d end) l acc) = true).
      { induction l as [|b l IH]; intros acc Hsub Ha; cbn [fold_left]; [exact Ha|].
        apply IH; [intros x Hx; apply Hsub; right; exact Hx|].
        unfold bk. destruct (kind_of (bt b)) eqn:Ek; try exact Ha;
          try (apply unb_append; [exact Ha|first [apply trivia_unb|apply verbatim_unb]]).
        apply unb_append; [exact Ha|]. unfold tx.
        rewrite (rs_blank_nolb _ (kid_rs b (Hsub b (or_introl eq_refl))) (or_intror Ek)). reflexivity. }
      apply G; [auto|reflexivity].
    Qed.
    Lemma ref_unb c : c_supp c = true -> post (convert_ref swidth t kids c) unb.
    Proof.
      intros Hs. unfold convert_ref.
      assert (Hd : unbreakable (append (text [64]) (text (ref_target t))) = true) by (apply unb_append; apply unb_text).
      destruct (find (fun b => kind_eqb (bk b) KContentBlock) (rev kids)) as [sb|] eqn:Ef; [|apply post_ret; exact Hd].
      apply find_some in Ef. destruct Ef as [Hin Hk]. apply in_rev in Hin.
      eapply post_bind; [apply kid_call; [exact Hin|exact Hk|exact Hs]|]. intros x Hx. apply post_ret. apply unb_append; assumption.
    Qed.
    Lemma heading_unb c : c_supp c = true -> post (convert_heading swidth kids c) unb.
    Proof.
      intros Hs. unfold convert_heading. apply flow_like_unb; [apply kids_nc|]. intros c' n Hc Hin.
      destruct (kind_eqb (bk n) KHeadingMarker); [apply post_ret; apply unb_text|].
      destruct (kind_eqb (bk n) KMarkup) eqn:Ek; [|apply post_ret; exact I].
      eapply post_bind; [apply kid_call; [exact Hin|exact Ek|cbn [req_ctx]; rewrite Hc; exact Hs]|]. intros d Hd. apply post_ret. exact Hd.
    Qed.
    Lemma list_item_unb c : c_supp c = true -> post (convert_list_item_like swidth cfg kids c) unb.
    Proof.
      intros Hs. unfold convert_list_item_like. apply (post_bind _ _ unb); [|intros d Hd; apply post_ret; apply unb_nest; exact Hd].
      apply flow_like_unb; [apply kids_nc|]. intros c' n Hc Hin. unfold bk.
      pose proof (not_parbreak n Hin) as Hnp. unfold bk in Hnp.
      destruct (kind_of (bt n)) eqn:Ek; try discriminate Hnp;
        try (apply post_ret; first [exact I|apply unb_text]);
        cbn [kind_eqb andb];
        try (rewrite ?kind_eqb_refl; cbn [andb]).
      - (* Markup *)
        destruct (negb _); [|apply post_ret; exact I].
        eapply post_bind; [apply kid_call; [exact Hin|unfold ufit, is_kind; rewrite Ek; apply kind_eqb_refl|cbn [req_ctx]; rewrite Hc; exact Hs]|].
        intros d Hd. apply post_ret. exact Hd.
      - (* Space *)
        unfold tx. rewrite (rs_space_nolb _ (kid_rs n Hin) Ek). apply post_ret. exact I.
    Qed.

    (* --- code blocks with at most one statement --- *)
    Lemma find_kind_bt k l : find (is_kind k) (map bt l) = option_map bt (find (fun b => kind_eqb (bk b) k) l).
    Proof. induction l as [|x l IH]; cbn; [reflexivity|]. unfold is_kind, bk. destruct (kind_eqb (kind_of (bt x)) k); [reflexivity|exact IH]. Qed.
    Lemma code_block_unb c : kind_of t = KCodeBlock -> c_supp c = true -> post (convert_code_block swidth cfg t kids c) unb.
    Proof.
      intros Hkt Hs. unfold convert_code_block.
      destruct (match find _ kids with Some b => a_disabled _ | None => false end); [apply post_ret; apply verbatim_unb|].
      set (nodes := flat_map (fun b => if kind_eqb (bk b) KCode then bkids b else [b]) kids).
      assert (Hnodes : forall n, In n nodes -> ugood n /\ rs (bt n) = true).
      { intros n Hin. unfold nodes in Hin. apply in_flat_map in Hin. destruct Hin as (b & Hb & Hn).
        destruct (kind_eqb (bk b) KCode).
        - pose proof Hgood as G. rewrite Forall_forall in G. pose proof (G b Hb) as Gb.
          pose proof (good_kids _ _ Gb) as Gk. rewrite Forall_forall in Gk. split; [apply Gk; exact Hn|].
          pose proof (rs_children _ (kid_rs b Hb)) as R. rewrite <- (good_shape _ _ Gb) in R. rewrite Forall_forall in R.
          apply R. apply in_map. exact Hn.
        - destruct Hn as [<-|[]]. pose proof Hgood as G. rewrite Forall_forall in G. split; [apply G; exact Hb|apply kid_rs; exact Hb]. }
      assert (Hcf : (Nat.leb (match find (fun b => kind_eqb (bk b) KCode) kids with
                              | Some b => length (filter (fun k => is_expr (bt k)) (bkids b)) | None => 0%nat end) 1
                     && negb (existsb is_comment_b kids)) = true).
      { apply andb_true_intro. split.
        - destruct (rs_parts t Hrs) as (_ & _ & _ & Hbf). rewrite Hkt, kind_eqb_refl in Hbf. cbn [negb orb] in Hbf.
          unfold block_foldable in Hbf. rewrite <- Hshape, find_kind_bt in Hbf.
          destruct (find (fun b => kind_eqb (bk b) KCode) kids) as [b|] eqn:Ef; cbn [option_map] in Hbf; [|reflexivity].
          apply find_some in Ef. pose proof Hgood as G. rewrite Forall_forall in G.
          rewrite <- (good_shape _ _ (G b (proj1 Ef))) in Hbf.
          assert (E : forall l, length (filter is_expr (map bt l)) = length (filter (fun k => is_expr (bt k)) l)).
          { induction l as [|x l IH]; cbn; [reflexivity|]. destruct (is_expr (bt x)); cbn; rewrite IH; reflexivity. }
          rewrite E in Hbf. exact Hbf.
        - pose proof kids_nc as K. clear -K. induction K as [|x l Hx Hl IHl]; [reflexivity|]. cbn. rewrite Hx. exact IHl. }
      rewrite Hcf. unfold get_fold_style. cbn [c_supp with_mode]. rewrite Hs, (rs_calm_multi t Hrs).
      apply (post_bind _ _ (fun l => clean l /\ l_fold l = Always)).
      - eapply post_weaken.
        + apply lst_process_unb.
          * repeat split; constructor.
          * apply Forall_forall. intros n Hin. unfold is_comment_b. apply rs_not_comment. apply Hnodes. exact Hin.
          * intros c' n Hc Hin. destruct (Hnodes n Hin) as [Gn Rn]. unfold opt_conv.
            destruct (is_expr (bt n)); [|apply post_ret; exact I].
            eapply post_bind; [apply (good_here _ _ Gn); [exact Rn|reflexivity|cbn [req_ctx]; rewrite Hc; exact Hs]|].
            intros d Hd. apply post_ret. exact Hd.
        + intros l [Hc Hf]. split; [exact Hc|]. rewrite Hf. reflexivity.
      - intros l [Hc Hf]. apply post_ret. unfold lst_doc. apply lst_print_always_unb; assumption.
    Qed.

    (* --- import --- *)
    Lemma In_firstn {A} n (l : list A) x : In x (firstn n l) -> In x l.
    Proof. revert l. induction n as [|n IH]; intros [|y l] H; cbn in *; try contradiction. destruct H; auto. Qed.
    Lemma In_skipn {A} n (l : list A) x : In x (skipn n l) -> In x l.
    Proof. revert l. induction n as [|n IH]; intros [|y l] H; cbn in *; try contradiction; auto. Qed.

    Lemma deep_facts b n : In b kids -> In n (bkids b) -> ugood n /\ rs (bt n) = true.
    Proof.
      intros Hb Hn. rewrite Forall_forall in Hgood. pose proof (Hgood b Hb) as Gb.
      pose proof (good_kids _ _ Gb) as Gk. rewrite Forall_forall in Gk. split; [apply Gk; exact Hn|].
      pose proof (rs_children _ (kid_rs b Hb)) as R. rewrite <- (good_shape _ _ Gb) in R. rewrite Forall_forall in R.
      apply R. apply in_map. exact Hn.
    Qed.

    Lemma import_unb c : c_supp c = true -> post (convert_import swidth cfg (get_fold_style c t) kids c) unb.
    Proof.
      intros Hs. unfold convert_import.
      set (divider := match position _ kids 0 with Some i => i | None => length kids end).
      set (prefix_part := match divider with O => [] | S d' => _ end).
      assert (Hpre : forall n, In n prefix_part -> In n kids).
      { intros n. unfold prefix_part. destruct divider as [|d']; [intros []|].
        destruct (nth_error kids d') as [b|]; [destruct (kind_eqb (bk b) KSpace)|]; apply In_firstn. }
      eapply post_bind.
      - apply flow_like_unb.
        + apply Forall_forall. intros n Hin. pose proof kids_nc as K. rewrite Forall_forall in K. apply K. apply Hpre. exact Hin.
        + intros c' n Hc Hin. pose proof (Hpre n Hin) as Hin'. unfold bk.
          destruct (kind_of (bt n)) eqn:Ek;
            try (apply post_ret; first [apply unb_text|apply trivia_unb]);
            (destruct (is_expr (bt n)); [|apply post_ret; exact I];
             eapply post_bind; [apply kid_call; [exact Hin'|reflexivity|cbn [req_ctx]; rewrite Hc; exact Hs]|];
             intros d Hd; apply post_ret; exact Hd).
      - intros pd Hpd. destruct (skipn divider kids) as [|i0 ir] eqn:Esk; [apply post_ret; exact Hpd|].
        set (nodes := flat_map (fun b => if kind_eqb (bk b) KImportItems then bkids b else [b]) (i0 :: ir)).
        assert (Hnodes : forall n, In n nodes -> ugood n /\ rs (bt n) = true).
        { intros n Hin. unfold nodes in Hin. apply in_flat_map in Hin. destruct Hin as (b & Hb & Hn).
          assert (Hbk : In b kids) by (apply (In_skipn divider); rewrite Esk; exact Hb).
          destruct (kind_eqb (bk b) KImportItems).
          - apply (deep_facts b n Hbk Hn).
          - destruct Hn as [<-|[]]. rewrite Forall_forall in Hgood. split; [apply Hgood; exact Hbk|apply kid_rs; exact Hbk]. }
        destruct nodes as [|n0 nr] eqn:En; [apply post_ret; exact Hpd|]. rewrite <- En in *.
        apply (post_bind _ _ unb).
        + unfold convert_import_items, get_fold_style. rewrite Hs, (rs_calm_multi t Hrs).
          apply (post_bind _ _ (fun l => clean l /\ l_fold l = Always)).
          * eapply post_weaken.
            -- apply lst_process_unb.
               ++ repeat split; constructor.
               ++ apply Forall_forall. intros n Hin. unfold is_comment_b. apply rs_not_comment.
                  apply Hnodes. unfold import_items_final in Hin. destruct (negb _); [|exact Hin].
                  apply (Permutation_in _ (import_order_permutation cfg nodes)). exact Hin.
               ++ intros c' n Hc Hin.
                  assert (Hin' : In n nodes).
                  { unfold import_items_final in Hin. destruct (negb _); [|exact Hin].
                    apply (Permutation_in _ (import_order_permutation cfg nodes)). exact Hin. }
                  destruct (Hnodes n Hin') as [Gn Rn]. unfold bk.
                  destruct (kind_of (bt n)) eqn:Ek; try (apply post_ret; exact I);
                    (eapply post_bind;
                     [apply (good_here _ _ Gn); [exact Rn|unfold ufit, is_kind; rewrite Ek; reflexivity|cbn [req_ctx]; rewrite Hc; exact Hs]|];
                     intros d Hd; apply post_ret; exact Hd).
            -- intros l [Hc Hf]. split; [exact Hc|]. rewrite Hf. reflexivity.
          * intros l [Hc Hf]. apply post_ret. unfold lst_doc. apply lst_print_always_unb; assumption.
        + intros d Hd. apply post_ret. apply unb_append; [|exact Hd]. apply unb_append; [exact Hpd|].
          match goal with |- unbreakable (if ?b then _ else _) = true => destruct b eqn:Eb end; [|reflexivity].
          (* a line comment at the end of the prefix: there is none *)
          exfalso. destruct (find _ (rev prefix_part)) as [b|] eqn:Ef; [|discriminate Eb].
          apply find_some in Ef. destruct Ef as [Hin _]. apply in_rev in Hin. apply Hpre in Hin.
          pose proof (rs_not_comment _ (kid_rs b Hin)) as Hnc. unfold is_comment_node in Hnc. unfold bk in Eb.
          destruct (kind_of (bt b)); try discriminate Eb; discriminate Hnc.
    Qed.

    (* --- every fitting, suppressed request on this node --- *)
    Lemma expr_impl_unb self c :
      bt self = t -> bkids self = kids -> c_supp c = true -> post (convert_expr_impl swidth cfg self c) unb.
    Proof.
      intros Et Ek Hs. unfold convert_expr_impl. rewrite Et, Ek. pose proof (rs_okind t Hrs) as Hok.
      destruct (kind_of t) eqn:E; try discriminate Hok;
        first [ apply post_ret; first [apply verbatim_unb|apply trivia_unb|apply unb_text]
              | apply post_panic
              | apply array_unb; exact Hs | apply dict_unb; exact Hs | apply unary_unb; exact Hs
              | apply let_unb; exact Hs | apply destruct_assignment_unb; exact Hs | apply show_unb; exact Hs
              | apply expr_flow_unb; exact Hs | apply import_unb; exact Hs
              | apply parenthesized_unb; exact Hs
              | apply field_access_unb; [exact Et|exact Ek|exact Hs]
              | apply binary_unb; [exact Ek|exact Hs] | apply closure_unb; exact Hs | apply for_unb; exact Hs
              | apply set_rule_unb; exact Hs | apply func_call_unb; [exact E|exact Et|exact Ek|exact Hs]
              | apply content_block_unb; exact Hs | apply strong_unb; exact Hs | apply emph_unb; exact Hs
              | apply math_unb | apply attach_unb; exact Hs | apply frac_unb; exact Hs | apply delimited_unb; exact Hs
              | apply equation_unb; exact Hs
              | apply post_ret; apply raw_unb | apply ref_unb; exact Hs | apply heading_unb; exact Hs
              | apply list_item_unb; exact Hs | apply code_block_unb; [exact E|exact Hs] ].
    Qed.
    Lemma expr_unb self c : bt self = t -> bkids self = kids -> c_supp c = true -> post (convert_expr swidth cfg self c) unb.
    Proof.
      intros Et Ek Hs. unfold convert_expr. apply post_bump_then. apply check_disabled_unb. apply expr_impl_unb; assumption.
    Qed.

    Lemma step_unb r : ufit r t = true -> c_supp (req_ctx r) = true -> post (step swidth cfg t kids r) unb.
    Proof.
      intros Hf Hs. unfold step. destruct r; cbn [ufit req_ctx] in Hf, Hs; try discriminate Hf.
      - apply expr_unb; [reflexivity|reflexivity|exact Hs].
      - unfold convert_pattern. apply post_bump_then. apply check_disabled_unb. cbn [bt bkids bk].
        pose proof (rs_okind t Hrs) as Hok. unfold bk. cbn [bt].
        destruct (kind_of t) eqn:E; try discriminate Hok;
          first [ apply post_ret; apply unb_text
                | apply destructuring_unb; exact Hs
                | apply parenthesized_unb; exact Hs
                | apply expr_unb; [reflexivity|reflexivity|exact Hs] ].
      - apply markup_unb; exact Hs.
      - apply math_unb.
      - apply content_block_unb; exact Hs.
      - unfold convert_embedded_expr. unfold bk. cbn [bt bkids].
        destruct (kind_eqb (kind_of t) KParenthesized);
          [apply post_bump_then; apply check_disabled_unb; apply parenthesized_unb; exact Hs
          |apply expr_unb; [reflexivity|reflexivity|exact Hs]].
      - apply parenthesized_unb; exact Hs.
      - apply named_unb; exact Hs.
      - apply keyed_unb; exact Hs.
      - apply spread_unb; exact Hs.
      - apply params_unb; exact Hs.
      - apply args_unb; exact Hs.
      - destruct ti; try discriminate Hf. apply func_call_args_unb; exact Hs.
      - apply import_item_path_unb.
      - apply import_item_renamed_unb; exact Hs.
    Qed.
  End Node.

  Theorem build_ugood t : ugood (build swidth cfg t).
  Proof.
    induction t as [k s a|k cs a IH] using tree_ind'; cbn [build].
    - apply good_intro; [|reflexivity|constructor]. intros Hr r Hf Hs. cbn [bt bself] in *.
      apply (step_unb (Leaf k s a) [] (Forall_nil _) eq_refl Hr r Hf Hs).
    - assert (Hk : Forall ugood (map (build swidth cfg) cs)).
      { induction IH as [|x l Hx Hl IHl]; cbn; constructor; assumption. }
      assert (Hshape : map bt (map (build swidth cfg) cs) = cs).
      { clear. induction cs as [|x l IHl]; cbn; [reflexivity|]. rewrite IHl. destruct x; reflexivity. }
      apply good_intro; [|exact Hshape|exact Hk]. intros Hr r Hf Hs. cbn [bt bself] in *.
      apply (step_unb (Inner k cs a) _ Hk Hshape Hr r Hf Hs).
  Qed.

  (* The hereditary statement for the sub-language `rs` (tokens, flows, comma-separated lists, imports; no node written
     on several lines, no comment): under break suppression every fitting request yields an unbreakable document. *)
  Theorem suppressed_sublanguage_unbreakable t r n d n' :
    rs t = true -> ufit r t = true -> c_supp (req_ctx r) = true ->
    call (build swidth cfg t) r n = Ok (d, n') -> unbreakable d = true.
  Proof.
    intros Hr Hf Hs H. pose proof (good_here _ _ (build_ugood t)) as P.
    assert (E : bt (build swidth cfg t) = t) by (destruct t; reflexivity). unfold uprop in P. rewrite E in P.
    apply (P Hr r Hf Hs n d n' H).
  Qed.
End Hereditary.
