(* Survive.v — C10/C07: a text atom the renderer emitted reaches the formatter's output with nothing changed
   but the White_Space before its line feeds (post-processing); without such blanks it arrives unchanged. *)
From TV Require Import Conv Format Render RenderProofs ConvProofs Post PostProofs StripLit.

Lemma atoms_text_in es v : In (EText v) es -> exists pre post, atoms_text es = pre ++ v ++ post.
Proof.
  induction es as [|e es IH]; intros H; [destruct H|].
  destruct H as [->|H].
  - exists [], (atoms_text es). reflexivity.
  - destruct (IH H) as (pre & post & E). destruct e as [s|k]; cbn [atoms_text]; rewrite E.
    + exists (s ++ pre), post. rewrite <- app_assoc. reflexivity.
    + exists (LF :: repeat SP (N.to_nat k) ++ pre), post. cbn [app]. rewrite <- app_assoc. reflexivity.
Qed.

Section Survive.
  Variable swidth : str -> N.

  Theorem emitted_text_survives cfg t out n :
    format_source swidth cfg t = FOk out n ->
    exists d es,
      convert_root swidth cfg t = Ok (d, n) /\ render_events (max_width cfg) d = Some es /\
      forall v, In (EText v) es -> ends_solid v ->
        (exists pre post, out = pre ++ trim_line_ends v ++ post) /\
        (clean v -> exists pre post, out = pre ++ v ++ post).
  Proof.
    intros H. destruct (format_output_atoms swidth cfg t out n H) as (d & es & Hc & Hr & Ho & _ & _).
    exists d, es. split; [exact Hc|split; [exact Hr|]].
    intros v Hin He. rewrite flatten_events_spec in Ho.
    destruct (atoms_text_in es v Hin) as (pre & post & E). rewrite E in Ho. subst out.
    split.
    - apply strip_keeps_trimmed. exact He.
    - intros Hcl. apply strip_keeps_clean; assumption.
  Qed.
End Survive.
