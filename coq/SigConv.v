(* SigConv.v — token conservation, part 3 (C01/C06/C10): every converter conserves the signature of its node.
   For a tree in scope (SigScope.sc) and import reordering off, the document `build` computes for a node has the
   node's signature (its leaves' texts minus blanks and delimiters, in order) and is well-signed; by Sig.seqs_sig so
   has every layout of it.  The proof follows `build`: `sgood` is the hereditary statement on bundles. *)
From TV Require Import Render RenderProofs Doc Layout Comment Conv Sig SigLayout SigTree SigScope SafeProofs ListProofs CostBound.
From Coq Require Import Lia.

Definition good_doc (target : str) (d : doc) : Prop := dsig d = target /\ wsig d = true.
Definition tsigs (bs : list bundle) : str := concat (map (fun b => tsig (bt b)) bs).
Lemma tsigs_app a b : tsigs (a ++ b) = tsigs a ++ tsigs b.
Proof. unfold tsigs. rewrite map_app, concat_app. reflexivity. Qed.
Lemma tsigs_cons x l : tsigs (x :: l) = tsig (bt x) ++ tsigs l.
Proof. reflexivity. Qed.
Lemma tsigs_one x : tsigs [x] = tsig (bt x).
Proof. unfold tsigs. cbn. apply app_nil_r. Qed.
Lemma tsigs_nil : tsigs [] = [].
Proof. reflexivity. Qed.

Lemma sig_into_text t : ascii_blanks t = true -> sig (into_text t) = tsig t.
Proof.
  induction t as [k s a|k cs a IH] using tree_ind'; cbn [into_text tsig ascii_blanks].
  - destruct (blank_kind k); [|reflexivity]. intros H. destruct (sig s); [reflexivity|discriminate].
  - intros H. pose proof (proj1 (forallb_forall _ _) H) as Hall. clear H.
    induction IH as [|c cs Hc Hcs IHcs]; cbn [map concat]; [reflexivity|].
    rewrite sig_app, Hc, IHcs; [reflexivity| |]; intros; apply Hall; [right; assumption|left; reflexivity].
Qed.

(* ---------- facts that the scope gives about a node ---------- *)
Lemma sc_token t : sc t = true -> inner_kind (kind_of t) || blank_kind (kind_of t) = false -> tsig t = sig (text_of t).
Proof.
  destruct t as [k s a|k cs a]; cbn [sc kind_of tsig text_of].
  - intros _ E. apply Bool.orb_false_elim in E. rewrite (proj2 E). reflexivity.
  - intros H E. apply Bool.orb_false_elim in E. rewrite (proj1 E) in H. discriminate.
Qed.
Lemma sc_tok_ascii t : sc t = true -> inner_kind (kind_of t) || blank_kind (kind_of t) = false -> ascii_blanks t = true.
Proof.
  destruct t as [k s a|k cs a]; cbn [sc kind_of ascii_blanks].
  - intros _ E. apply Bool.orb_false_elim in E. rewrite (proj2 E). reflexivity.
  - intros H E. apply Bool.orb_false_elim in E. rewrite (proj1 E) in H. discriminate.
Qed.
Lemma nb_by_expr k : kind_eqb k KSpace = false -> is_expr_kind k = false -> blank_kind k = false.
Proof. destruct k; cbn; intros; try reflexivity; discriminate. Qed.
Lemma sc_verbatim t : sc t = true -> verbatim_risk t = true -> ascii_blanks t = true.
Proof.
  intros H R. assert (V : verbatim_ok t = true).
  { destruct t; cbn [sc] in H; apply andb_prop in H; exact (proj2 H). }
  unfold verbatim_ok in V. rewrite R in V. exact V.
Qed.
Lemma disabled_ascii t : sc t = true -> a_disabled (attrs_of t) = true -> ascii_blanks t = true.
Proof. intros H D. apply (sc_verbatim _ H). unfold verbatim_risk. rewrite D. reflexivity. Qed.
Lemma raw_ascii t : sc t = true -> kind_of t = KRaw -> ascii_blanks t = true.
Proof.
  intros H E. destruct t as [k s a|k cs a]; cbn [kind_of] in E; subst; [reflexivity|].
  apply (sc_verbatim _ H). unfold verbatim_risk. cbn [kind_eqb]. rewrite kind_eqb_refl. apply Bool.orb_true_r.
Qed.
Lemma child_disabled_ascii t : sc t = true -> existsb (fun c => a_disabled (attrs_of c)) (children t) = true -> ascii_blanks t = true.
Proof.
  intros H E. destruct t as [k s a|k cs a]; cbn [children] in E; [discriminate E|].
  apply (sc_verbatim _ H). unfold verbatim_risk. rewrite E. rewrite !Bool.orb_true_r. reflexivity.
Qed.
Lemma sc_leaf_tok k s a : sc (Leaf k s a) = true -> inner_kind k = false -> leaf_ok k s (Leaf k s a) = true.
Proof. cbn [sc]. intros H E. rewrite E in H. apply andb_prop in H. exact (proj1 H). Qed.
Lemma sc_quiet t : sc t = true -> quiet_leaf (kind_of t) = true -> tsig t = [].
Proof.
  destruct t as [k s a|k cs a]; cbn [kind_of tsig].
  - intros H E. assert (Hi : inner_kind k = false) by (destruct k; try reflexivity; discriminate E).
    pose proof (sc_leaf_tok _ _ _ H Hi) as H1. unfold leaf_ok in H1. rewrite E in H1.
    destruct (blank_kind k); [reflexivity|]. cbn [negb andb] in H1.
    destruct (sig s); [reflexivity|discriminate].
  - cbn [sc]. intros H E. destruct k; discriminate.
Qed.
Lemma sc_fixed t lit : sc t = true -> fixed_leaf (kind_of t) = Some lit -> tsig t = sig lit.
Proof.
  destruct t as [k s a|k cs a]; cbn [kind_of tsig].
  - intros H E. assert (Hi : inner_kind k = false) by (destruct k; try reflexivity; discriminate E).
    assert (Hb : blank_kind k = false) by (destruct k; try reflexivity; discriminate E). rewrite Hb.
    pose proof (sc_leaf_tok _ _ _ H Hi) as H1. unfold leaf_ok in H1. rewrite E in H1.
    apply andb_prop in H1. destruct H1 as [H1 _]. apply andb_prop in H1. destruct H1 as [_ H1].
    apply (proj1 (str_eqb_eq _ _)) in H1. subst. reflexivity.
  - cbn [sc]. intros H E. apply andb_prop in H. destruct H as [H _]. apply andb_prop in H. destruct H as [H _].
    apply andb_prop in H. destruct H as [H _].
    destruct k; try discriminate H; discriminate E.
Qed.
Lemma sc_comment t : sc t = true -> is_comment_node t = true -> comment_sig_ok t = true.
Proof.
  destruct t as [k s a|k cs a]; unfold is_comment_node; cbn [kind_of].
  - intros H E. assert (Hi : inner_kind k = false) by (destruct k; try reflexivity; discriminate E).
    pose proof (sc_leaf_tok _ _ _ H Hi) as H1. unfold leaf_ok in H1. apply andb_prop in H1. destruct H1 as [_ H1].
    destruct k; try discriminate E; exact H1.
  - cbn [sc]. intros H E. apply andb_prop in H. destruct H as [H _]. apply andb_prop in H. destruct H as [H _].
    apply andb_prop in H. destruct H as [H _].
    destruct k; try discriminate E; discriminate H.
Qed.
Lemma sc_kids k cs a : sc (Inner k cs a) = true -> knode_ok k cs = true /\ Forall (fun c => sc c = true) cs.
Proof.
  cbn [sc]. intros H. apply andb_prop in H. destruct H as [H _]. apply andb_prop in H. destruct H as [H Hk].
  apply andb_prop in H. destruct H as [_ Hn].
  split; [exact Hn|]. apply Forall_forall. apply (proj1 (forallb_forall _ _) Hk).
Qed.

(* the comment converter's signature does not depend on the width oracle *)
Fixpoint erase_w (d : doc) : doc :=
  match d with
  | DNil => DNil | DHardline => DHardline | DText s => DText s | DTextW _ s => DTextW 0 s
  | DAppend a b => DAppend (erase_w a) (erase_w b) | DGroup x => DGroup (erase_w x)
  | DFlatAlt a b => DFlatAlt (erase_w a) (erase_w b) | DNest k x => DNest k (erase_w x) | DAlign x => DAlign (erase_w x)
  end.
Lemma erase_dsig d : dsig (erase_w d) = dsig d.
Proof. induction d; cbn; congruence. Qed.
Lemma erase_wsig d : wsig (erase_w d) = wsig d.
Proof. induction d; cbn; rewrite ?erase_dsig; congruence. Qed.
Lemma erase_text sw s : erase_w (text sw s) = text (fun _ => 0%N) s.
Proof. unfold text. destruct s; [reflexivity|]. destruct (is_ascii _); reflexivity. Qed.
Lemma erase_append a b : erase_w (append a b) = append (erase_w a) (erase_w b).
Proof. destruct a; destruct b; reflexivity. Qed.
Lemma erase_nest k d : erase_w (nest k d) = nest k (erase_w d).
Proof. unfold nest. destruct d; try reflexivity; destruct (Z.eqb k 0); reflexivity. Qed.
Lemma erase_fold sw (f : str -> str) rest acc :
  erase_w (fold_left (fun d l => append (append d hardline) (text sw (f l))) rest acc) =
  fold_left (fun d l => append (append d hardline) (text (fun _ => 0%N) (f l))) rest (erase_w acc).
Proof.
  revert acc. induction rest as [|l rest IH]; intros acc; cbn [fold_left]; [reflexivity|].
  rewrite IH, !erase_append, erase_text. reflexivity.
Qed.
Lemma comment_erase sw t d : comment sw t = Ok d -> comment (fun _ => 0%N) t = Ok (erase_w d).
Proof.
  unfold comment. destruct (kind_of t); try discriminate.
  - unfold line_comment. intros H. inversion H. rewrite erase_text. reflexivity.
  - unfold block_comment. destruct (lines (text_of t)) eqn:El.
    + intros H. inversion H. rewrite erase_text. reflexivity.
    + destruct (get_comment_style _).
      * unfold align_multiline. destruct (get_follow_leading _); [|discriminate]. rewrite El.
        intros H. inversion H. unfold align. cbn [erase_w]. rewrite erase_fold, ?erase_append, erase_text. reflexivity.
      * unfold align_multiline_simple. rewrite El. intros H. inversion H. unfold hang, align. cbn [erase_w].
        rewrite erase_nest, erase_fold, ?erase_append, erase_text. reflexivity.
Qed.

Section SigConv.
  Variable swidth : str -> N.
  Variable cfg : config.
  Hypothesis Hreorder : reorder_import_items cfg = false.
  Notation text := (Doc.text swidth).

  Lemma good_text s : good_doc (sig s) (text s).
  Proof. split; [apply dsig_text|apply wsig_text]. Qed.
  Lemma good_verbatim t : ascii_blanks t = true -> good_doc (tsig t) (convert_verbatim swidth t).
  Proof. intros H. unfold convert_verbatim. rewrite <- (sig_into_text _ H). apply good_text. Qed.
  Lemma good_nil : good_doc [] DNil.  Proof. split; reflexivity. Qed.
  Lemma good_append a b x y : good_doc x a -> good_doc y b -> good_doc (x ++ y) (append a b).
  Proof. intros [Ha Wa] [Hb Wb]. split; [rewrite dsig_append, Ha, Hb; reflexivity|apply wsig_append; assumption]. Qed.

  Lemma post_comment b : sc (bt b) = true -> is_comment_b b = true -> post (convert_comment swidth b) (good_doc (tsig (bt b))).
  Proof.
    intros Hs Hc n d n' E. unfold convert_comment, lift in E. destruct (comment swidth (bt b)) as [d0|] eqn:Ec; [|discriminate].
    inversion E; subst. pose proof (sc_comment _ Hs Hc) as Hok. unfold comment_sig_ok in Hok.
    rewrite (comment_erase _ _ _ Ec) in Hok. apply andb_prop in Hok. destruct Hok as [Hw He].
    apply (proj1 (str_eqb_eq _ _)) in He. rewrite erase_dsig in He. rewrite erase_wsig in Hw.
    split; [|exact Hw]. rewrite He. symmetry.
    apply sc_token; [exact Hs|]. unfold is_comment_b, is_comment_node in Hc. destruct (kind_of (bt b)); try discriminate; reflexivity.
  Qed.

  (* fold with an accumulating signature *)
  Lemma post_foldM_sig {A S} (f : S -> A -> M S) (msr : S -> str) (contrib : A -> str) (W : S -> Prop) : forall l s,
    W s -> (forall s x, In x l -> W s -> post (f s x) (fun s' => msr s' = msr s ++ contrib x /\ W s')) ->
    post (foldM f l s) (fun s' => msr s' = msr s ++ concat (map contrib l) /\ W s').
  Proof.
    induction l as [|x l IH]; intros s Hs Hf; cbn [foldM map concat].
    - apply post_ret. rewrite app_nil_r. auto.
    - apply (post_bind _ _ (fun s' => msr s' = msr s ++ contrib x /\ W s')); [apply Hf; [left; reflexivity|exact Hs]|].
      intros s1 [E1 W1]. eapply post_weaken; [apply IH; [exact W1|]|].
      + intros s2 y Hy. apply Hf. right. exact Hy.
      + intros s2 [E2 W2]. cbn beta in E2. rewrite E2, E1, <- app_assoc. auto.
  Qed.

  (* ---------- requests that fit a node; the hereditary statement ---------- *)
  Definition fit (r : req) (t : tree) : bool :=
    match r with
    | RExpr _ | RPattern _ | RExprEmb _ => true
    | RMarkup _ _ => is_kind KMarkup t
    | RMath _ => is_kind KMath t
    | RContentBlock _ => is_kind KContentBlock t
    | RParenthesized _ _ => is_kind KParenthesized t
    | RNamed _ => is_kind KNamed t
    | RKeyed _ => is_kind KKeyed t
    | RSpread _ => is_kind KSpread t
    | RParams _ _ => is_kind KParams t
    | RArgs _ => is_kind KArgs t
    | RParenArgs _ => is_kind KArgs t && paren_args_only (children t)
    | RFuncArgs _ ti =>
        is_kind KArgs t &&
        match ti with NotTable => true | TableNoCols => aslist_ok (children t) | TableCols _ => table_eq (children t) end
    | RImportItemPath _ => is_kind KImportItemPath t
    | RImportItemRenamed _ => is_kind KRenamedImportItem t
    end.

  Definition sprop (b : bundle) : Prop :=
    sc (bt b) = true -> forall r, fit r (bt b) = true -> post (bself b r) (good_doc (tsig (bt b))).
  Definition sgood (b : bundle) : Prop := good sprop b.

  Lemma sgood_call b r : sgood b -> sc (bt b) = true -> fit r (bt b) = true -> post (call b r) (good_doc (tsig (bt b))).
  Proof. intros H Hs Hf. apply (good_here _ _ H); assumption. Qed.

  (* ---------- convert_flow_like_iter ---------- *)
  Definition fres (target : str) (o : option flow_item) : Prop :=
    match o with Some it => good_doc target (fi_doc it) | None => target = [] end.

  (* `R s rest`: the producer's state s is consistent with the children still to come *)
  Definition fchild {S} (producer : S -> ctx -> bundle -> M (S * option flow_item)) (R : S -> list bundle -> Prop)
      (child : bundle) (rest : list bundle) : Prop :=
    sc (bt child) = true /\
    (is_generic (bt child) || kind_eqb (bk child) KSpace = true -> forall s, R s (child :: rest) -> R s rest) /\
    (is_generic (bt child) = false ->
     forall s c, R s (child :: rest) ->
       post (producer s c child) (fun r => fres (tsig (bt child)) (snd r) /\ R (fst r) rest)).

  Fixpoint fchildren {S} (producer : S -> ctx -> bundle -> M (S * option flow_item)) (R : S -> list bundle -> Prop)
      (l : list bundle) : Prop :=
    match l with
    | [] => True
    | child :: rest => fchild producer R child rest /\ fchildren producer R rest
    end.

  Lemma generic_cases t :
    is_generic t = false ->
    (is_keyword (kind_of t) && negb (kin (kind_of t) [KNone; KAuto])) = false /\ is_comment_node t = false /\
    kind_eqb (kind_of t) KHash = false.
  Proof.
    unfold is_generic. intros H. apply Bool.orb_false_elim in H. destruct H as [H H3].
    apply Bool.orb_false_elim in H. destruct H as [H1 H2].
    repeat split; try assumption. destruct (kind_of t); try reflexivity; try exact H1.
  Qed.

  Theorem flow_like_iter_sig {S} c children (s0 : S) producer R :
    fchildren producer R children -> R s0 children ->
    post (flow_like_iter swidth c children s0 producer) (good_doc (tsigs children)).
  Proof.
    intros Hch HR. unfold flow_like_iter.
    set (step := fun (st : flow * bool * bool * S) (child : bundle) => _).
    assert (G : forall l fl plc ph s, fchildren producer R l -> R s l -> wsig (f_doc fl) = true ->
                post (foldM step l (fl, plc, ph, s))
                     (fun st => dsig (f_doc (fst (fst (fst st)))) = dsig (f_doc fl) ++ tsigs l /\ wsig (f_doc (fst (fst (fst st)))) = true)).
    { induction l as [|child rest IH]; intros fl plc ph s Hl Hs Hw; cbn [foldM].
      - apply post_ret. cbn [fst]. unfold tsigs. cbn. rewrite app_nil_r. auto.
      - destruct Hl as [[Hsc [Hskip Hprod]] Hrest]. rewrite tsigs_cons.
        assert (Hnext : forall st', R (snd st') rest -> wsig (f_doc (fst (fst (fst st')))) = true ->
                          dsig (f_doc (fst (fst (fst st')))) = dsig (f_doc fl) ++ tsig (bt child) ->
                          post (foldM step rest st')
                               (fun st => dsig (f_doc (fst (fst (fst st)))) = dsig (f_doc fl) ++ tsig (bt child) ++ tsigs rest /\
                                          wsig (f_doc (fst (fst (fst st)))) = true)).
        { intros [[[fl' plc'] ph'] s'] Hs' Hw' E. cbn [fst snd] in *. eapply post_weaken; [apply IH; assumption|].
          intros st [E2 W2]. rewrite E2, E, <- app_assoc. auto. }
        assert (Hstep : post (step (fl, plc, ph, s) child)
                             (fun st' => R (snd st') rest /\ wsig (f_doc (fst (fst (fst st')))) = true /\
                                         dsig (f_doc (fst (fst (fst st')))) = dsig (f_doc fl) ++ tsig (bt child))).
        { unfold step. cbv beta iota.
          destruct (is_keyword (bk child) && _) eqn:Ek.
          { assert (Hg : is_generic (bt child) = true).
            { unfold is_generic. unfold bk in Ek. apply andb_prop in Ek. destruct Ek as [Ek1 Ek2].
              destruct (kind_of (bt child)); try discriminate Ek1; try discriminate Ek2; reflexivity. }
            apply post_ret. cbn [fst snd]. split; [apply Hskip; [rewrite Hg; reflexivity|exact Hs]|].
            split; [apply flow_push_doc_wsig; [exact Hw|apply wsig_text]|].
            rewrite flow_push_doc_sig, dsig_text. f_equal. symmetry. apply sc_token; [exact Hsc|].
            apply andb_prop in Ek. destruct Ek as [Ek _]. unfold bk in Ek. destruct (kind_of (bt child)); try discriminate Ek; reflexivity. }
          destruct (is_comment_b child) eqn:Ec.
          { assert (Hg : is_generic (bt child) = true).
            { unfold is_generic. unfold is_comment_b in Ec. rewrite Ec, Bool.orb_true_r. reflexivity. }
            apply (post_bind _ _ (good_doc (tsig (bt child)))); [apply post_comment; assumption|].
            intros d [Hd Wd]. apply post_ret. cbn [fst snd]. split; [apply Hskip; [rewrite Hg; reflexivity|exact Hs]|].
            split; [apply flow_push_comment_wsig; assumption|]. rewrite flow_push_comment_sig, Hd. reflexivity. }
          destruct (plc && kind_eqb (bk child) KSpace && has_lb (tx child)) eqn:El.
          { apply andb_prop in El. destruct El as [El _]. apply andb_prop in El. destruct El as [_ El].
            assert (Hq : tsig (bt child) = []).
            { apply sc_quiet; [exact Hsc|]. unfold bk in El. destruct (kind_of (bt child)); try discriminate El; reflexivity. }
            apply post_ret. cbn [fst snd]. split; [apply Hskip; [rewrite El; apply Bool.orb_true_r|exact Hs]|].
            unfold flow_enter_new_line. cbn [f_doc]. split; [apply flow_push_doc_wsig; [exact Hw|reflexivity]|].
            rewrite flow_push_doc_sig, Hq. reflexivity. }
          destruct (kind_eqb (bk child) KHash) eqn:Eh.
          { assert (Hg : is_generic (bt child) = true).
            { unfold is_generic. unfold bk in Eh. rewrite Eh, Bool.orb_true_r. reflexivity. }
            apply post_ret. cbn [fst snd]. split; [apply Hskip; [rewrite Hg; reflexivity|exact Hs]|].
            split; [apply flow_push_doc_wsig; [exact Hw|apply wsig_text]|].
            rewrite flow_push_doc_sig, dsig_text. f_equal. symmetry.
            apply (sc_fixed _ [35]); [exact Hsc|]. unfold bk in Eh. destruct (kind_of (bt child)); try discriminate Eh; reflexivity. }
          assert (Hgen : is_generic (bt child) = false).
          { unfold is_generic. unfold bk, is_comment_b in *. rewrite Ec, Eh, !Bool.orb_false_r.
            destruct (kind_of (bt child)); try reflexivity; discriminate Ek. }
          apply (post_bind _ _ (fun r => fres (tsig (bt child)) (snd r) /\ R (fst r) rest)); [apply Hprod; assumption|].
          intros [s1 it] [Hit HR1]. cbn [fst snd] in *. apply post_ret. cbn [fst snd]. split; [exact HR1|].
          destruct it as [i|]; cbn [fres] in Hit.
          + destruct Hit as [Hd Wd]. split; [apply flow_push_doc_wsig; assumption|]. rewrite flow_push_doc_sig, Hd. reflexivity.
          + rewrite Hit, app_nil_r. auto. }
        apply (post_bind _ _ _ _ Hstep). intros st' (H1 & H2 & H3). apply Hnext; assumption. }
    apply (post_bind _ _ (fun st : flow * bool * bool * S =>
             dsig (f_doc (fst (fst (fst st)))) = [] ++ tsigs children /\ wsig (f_doc (fst (fst (fst st)))) = true)).
    - apply G; [exact Hch|exact HR|reflexivity].
    - intros [[[fl plc] ph] s] [E W]. apply post_ret. cbn [fst] in *. split; [exact E|exact W].
  Qed.

  (* stateless producers *)
  Lemma fchildren_stateless {S} (producer : S -> ctx -> bundle -> M (S * option flow_item)) l :
    Forall (fun child => sc (bt child) = true /\
                         (is_generic (bt child) = false -> forall s c, post (producer s c child) (fun r => fres (tsig (bt child)) (snd r)))) l ->
    fchildren producer (fun _ _ => True) l.
  Proof.
    induction 1 as [|child rest [Hs Hp] H IH]; cbn [fchildren]; [exact I|]. split; [|exact IH].
    split; [exact Hs|]. split; [auto|]. intros Hg s c _. eapply post_weaken; [apply Hp; exact Hg|]. auto.
  Qed.

  Theorem flow_like_sig c children producer :
    Forall (fun child => sc (bt child) = true /\
                         (is_generic (bt child) = false -> forall c, post (producer c child) (fres (tsig (bt child))))) children ->
    post (flow_like swidth c children producer) (good_doc (tsigs children)).
  Proof.
    intros H. unfold flow_like. apply (flow_like_iter_sig _ _ _ _ (fun _ _ => True)); [|exact I].
    apply fchildren_stateless. eapply Forall_impl; [|exact H]. intros child [Hs Hp]. split; [exact Hs|]. intros Hg s c0.
    apply (post_bind _ _ (fres (tsig (bt child)))); [apply Hp; exact Hg|]. intros it Hit. apply post_ret. exact Hit.
  Qed.

  (* ---------- ListStylist::process ---------- *)
  Fixpoint lwalk (acc : bundle -> bool) (l : list bundle) (pend : bool) : Prop :=
    match l with
    | [] => pend = false
    | n :: r =>
        sc (bt n) = true /\
        if acc n then lwalk acc r false
        else pend = false /\
             (if is_comment_b n then lwalk acc r false
              else if kind_eqb (bk n) KHash then lwalk acc r true
              else tsig (bt n) = [] /\ lwalk acc r false)
    end.

  Lemma lsig_set_peek l b : lsig (set_peek_hash l b) = lsig l.  Proof. reflexivity. Qed.
  Lemma lwsig_set_peek l b : lwsig l -> lwsig (set_peek_hash l b).  Proof. intros H; exact H. Qed.
  Lemma lsig_set_can_attach l b : lsig (set_can_attach l b) = lsig l.  Proof. reflexivity. Qed.
  Lemma attach_or_detach_peek l : l_peek_hash (attach_or_detach_comments l) = l_peek_hash l.
  Proof.
    unfold attach_or_detach_comments. pose proof (try_attach_peek l) as H.
    destruct (try_attach_comments l) as [l' ok]. cbn in H. destruct ok; [exact H|]. cbn. exact H.
  Qed.

  Lemma lst_process_trivia_sig l n :
    sc (bt n) = true -> lwsig l -> l_peek_hash l = false ->
    (is_comment_b n = false -> kind_eqb (bk n) KHash = false -> tsig (bt n) = []) ->
    post (lst_process_trivia swidth l n)
         (fun l' => lsig l' ++ hsig l' = lsig l ++ tsig (bt n) /\ lwsig l' /\
                    l_peek_hash l' = (negb (is_comment_b n) && kind_eqb (bk n) KHash)).
  Proof.
    intros Hsc Hw Hp Hother. unfold lst_process_trivia.
    assert (Hcm : forall isl, is_comment_b n = true ->
              post (d <- convert_comment swidth n ;;
                    ret (mk_lst (l_can_attach l) (l_free l ++ [d]) (l_peek_hash l) (l_items l) (l_real l) true
                                (l_has_line_comment l || isl) (if isl then Never else l_fold l) (l_no_front l) (l_no_detach l) (l_keep l)))
                   (fun l' => lsig l' ++ hsig l' = lsig l ++ tsig (bt n) /\ lwsig l' /\ l_peek_hash l' = false)).
    { intros isl Hc. apply (post_bind _ _ (good_doc (tsig (bt n)))); [apply post_comment; assumption|].
      intros d [Hd Wd]. apply post_ret. unfold lsig, hsig. cbn [l_items l_free l_peek_hash]. rewrite Hp, app_nil_r.
      rewrite dsigs_app, dsigs_one, Hd, app_assoc. split; [reflexivity|]. split; [|reflexivity].
      destruct Hw as [Hi Hf]. split; cbn [l_items l_free]; [exact Hi|]. apply Forall_app. split; [exact Hf|constructor; [exact Wd|constructor]]. }
    assert (Hquiet : forall l', lsig l' = lsig l -> lwsig l' -> l_peek_hash l' = false -> is_comment_b n = false ->
                                kind_eqb (bk n) KHash = false ->
                                lsig l' ++ hsig l' = lsig l ++ tsig (bt n) /\ lwsig l' /\
                                l_peek_hash l' = (negb (is_comment_b n) && kind_eqb (bk n) KHash)).
    { intros l' E W P Hc Hh. unfold hsig. rewrite P, E, (Hother Hc Hh), Hc, Hh. auto. }
    unfold is_comment_b, is_comment_node, bk in *.
    destruct (kind_of (bt n)) eqn:Ek;
      try (apply post_ret; apply Hquiet; auto; fail).
    - (* LineComment *) eapply post_weaken; [apply (Hcm true); reflexivity|]. intros l' (E & W & P). rewrite P. auto.
    - (* BlockComment *) eapply post_weaken; [apply (Hcm false); reflexivity|]. intros l' (E & W & P). rewrite P. auto.
    - (* Space *)
      match goal with |- post (if ?b then _ else _) _ => destruct b end; [|apply post_ret; apply Hquiet; auto].
      set (l1 := set_can_attach (attach_or_detach_comments l) false).
      assert (E1 : lsig l1 = lsig l) by (unfold l1; rewrite lsig_set_can_attach; apply attach_or_detach_sig).
      assert (W1 : lwsig l1) by (unfold l1; apply attach_or_detach_wsig; exact Hw).
      assert (P1 : l_peek_hash l1 = false) by (unfold l1; cbn; rewrite attach_or_detach_peek; exact Hp).
      destruct (l_keep l1); [|apply post_ret; apply Hquiet; auto].
      match goal with |- post (if ?b then _ else _) _ => destruct b end; apply post_ret; [|apply Hquiet; auto]. apply Hquiet; auto.
      + unfold lsig, set_items. cbn [l_items l_free]. rewrite isigs_app, isigs_one. cbn [isig]. rewrite app_nil_r. exact E1.
      + destruct W1 as [Hi Hf]. split; cbn [set_items l_items l_free]; [|exact Hf].
        apply Forall_app. split; [exact Hi|constructor; [reflexivity|constructor]].
    - (* Hash *)
      apply post_ret. unfold hsig. cbn [set_peek_hash l_peek_hash]. rewrite lsig_set_peek.
      rewrite (sc_fixed _ [35] Hsc) by (rewrite Ek; reflexivity). auto.
    - (* Comma *)
      apply post_ret. apply Hquiet; auto; [apply try_attach_sig|apply try_attach_wsig; exact Hw|rewrite try_attach_peek; exact Hp].
  Qed.

  Theorem lst_process_sig l0 c nodes checker acc :
    lwsig l0 -> lwalk acc nodes (l_peek_hash l0) ->
    (forall c n, In n nodes -> acc n = true -> post (checker c n) (fun o => exists d, o = Some d /\ good_doc (tsig (bt n)) d)) ->
    (forall c n, In n nodes -> acc n = false -> post (checker c n) (fun o => o = None)) ->
    post (lst_process swidth l0 c nodes checker)
         (fun l => lsig l = lsig l0 ++ hsig l0 ++ tsigs nodes /\ lwsig l /\ l_free l = []).
  Proof.
    intros Hw0 Hwalk Hacc Hrej. unfold lst_process.
    set (step := fun (l : lst) (node : bundle) => _).
    assert (G : forall ns l, (forall n, In n ns -> In n nodes) -> lwsig l -> lwalk acc ns (l_peek_hash l) ->
                post (foldM step ns l) (fun l' => lsig l' = lsig l ++ hsig l ++ tsigs ns /\ lwsig l' /\ l_peek_hash l' = false)).
    { induction ns as [|n ns IH]; intros l Hsub Hw Hwk; cbn [foldM].
      - apply post_ret. cbn in Hwk. unfold hsig. rewrite Hwk. unfold tsigs. cbn. rewrite app_nil_r. auto.
      - cbn [lwalk] in Hwk. destruct Hwk as [Hsc Hwk]. rewrite tsigs_cons.
        assert (Hnext : forall l1, lsig l1 ++ hsig l1 = lsig l ++ hsig l ++ tsig (bt n) -> lwsig l1 -> lwalk acc ns (l_peek_hash l1) ->
                          post (foldM step ns l1)
                               (fun l' => lsig l' = lsig l ++ hsig l ++ tsig (bt n) ++ tsigs ns /\ lwsig l' /\ l_peek_hash l' = false)).
        { intros l1 E W K. eapply post_weaken; [apply IH; [intros; apply Hsub; right; assumption|exact W|exact K]|].
          intros l' (E' & W' & P'). rewrite E', app_assoc, E, <- !app_assoc. auto. }
        assert (Hstep : post (step l n) (fun l1 => lsig l1 ++ hsig l1 = lsig l ++ hsig l ++ tsig (bt n) /\ lwsig l1 /\
                                                   lwalk acc ns (l_peek_hash l1))).
        { unfold step. cbv beta.
          destruct (acc n) eqn:Ea.
          + apply (post_bind _ _ (fun o => exists d, o = Some d /\ good_doc (tsig (bt n)) d)); [apply Hacc; [apply Hsub; left; reflexivity|exact Ea]|].
            intros o (d & -> & [Hd Wd]). apply post_ret. split; [|split].
            * rewrite lsig_set_peek, add_item_sig, Hd. change (hsig (set_peek_hash (lst_add_item swidth l d) false)) with (@nil N). rewrite app_nil_r. reflexivity.
            * apply lwsig_set_peek, add_item_wsig; assumption.
            * exact Hwk.
          + destruct Hwk as [Hp Hwk].
            apply (post_bind _ _ (fun o => o = None)); [apply Hrej; [apply Hsub; left; reflexivity|exact Ea]|].
            intros o ->.
            eapply post_weaken; [apply lst_process_trivia_sig; [exact Hsc|apply lwsig_set_peek; exact Hw|reflexivity|]|].
            * intros Hc Hh. rewrite Hc, Hh in Hwk. apply Hwk.
            * intros l1 (E & W & P). split; [|split; [exact W|]].
              -- rewrite E, lsig_set_peek. unfold hsig. rewrite Hp. reflexivity.
              -- rewrite P. destruct (is_comment_b n); [exact Hwk|]. destruct (kind_eqb (bk n) KHash); [exact Hwk|apply Hwk]. }
        apply (post_bind _ _ _ _ Hstep). intros l1 (E & W & K). apply Hnext; assumption. }
    apply (post_bind _ _ (fun l' => lsig l' = lsig l0 ++ hsig l0 ++ tsigs nodes /\ lwsig l' /\ l_peek_hash l' = false)).
    - apply G; auto.
    - intros l' (E & W & P). apply post_ret. rewrite windup_sig, E. split; [reflexivity|]. split; [apply windup_wsig; exact W|apply windup_free].
  Qed.

  Lemma lst_doc_good l sty target :
    quiet sty -> lsig l = target -> lwsig l -> l_free l = [] -> good_doc target (lst_doc swidth cfg l sty).
  Proof.
    intros Hq E [Hi Hf] Hfree. unfold lst_doc. split.
    - rewrite lst_print_sig by exact Hq. rewrite <- E. unfold lsig. rewrite Hfree. cbn. rewrite app_nil_r. reflexivity.
    - apply lst_print_wsig; assumption.
  Qed.

  Lemma post_bump_then' {A} (m : M A) Q : post m Q -> post (bump ;;; m) Q.
  Proof. intros H. apply (post_bind _ _ (fun _ => True)); [apply post_any|intros; exact H]. Qed.

  (* ---------- tactics for producers ---------- *)
  Lemma keq k1 k2 : kind_eqb k1 k2 = true -> k1 = k2.
  Proof. apply kind_eqb_eq. Qed.

  Lemma kept_cases kept t :
    (is_generic t || kept t || sig_empty t) = true -> is_generic t = false -> kept t = false -> tsig t = [].
  Proof.
    intros H Hg Hk. rewrite Hg, Hk in H. cbn in H. unfold sig_empty in H. destruct (tsig t); [reflexivity|discriminate].
  Qed.

  Lemma all_kept_in kept cs t : all_kept kept cs = true -> In t cs -> (is_generic t || kept t || sig_empty t) = true.
  Proof. unfold all_kept. intros H Hin. apply (proj1 (forallb_forall _ _) H). exact Hin. Qed.

  Lemma good_lit_quiet child lit :
    sc (bt child) = true -> quiet_leaf (bk child) = true -> sig lit = [] -> good_doc (tsig (bt child)) (text lit).
  Proof. intros Hs Hq Hl. rewrite (sc_quiet _ Hs Hq), <- Hl. apply good_text. Qed.
  Lemma good_lit_fixed child lit :
    sc (bt child) = true -> fixed_leaf (bk child) = Some lit -> good_doc (tsig (bt child)) (text lit).
  Proof. intros Hs Hq. rewrite (sc_fixed _ lit Hs Hq). apply good_text. Qed.
  Lemma good_tx child :
    sc (bt child) = true -> inner_kind (bk child) || blank_kind (bk child) = false -> good_doc (tsig (bt child)) (text (tx child)).
  Proof. intros Hs Hq. rewrite (sc_token _ Hs Hq). apply good_text. Qed.
  Lemma good_trivia child :
    sc (bt child) = true -> inner_kind (bk child) || blank_kind (bk child) = false -> good_doc (tsig (bt child)) (convert_trivia swidth (bt child)).
  Proof. apply good_tx. Qed.

  (* the environment of a producer obligation: child, its sgood, its scope, the parent's keep clause *)
  Ltac kinds_subst :=
    repeat match goal with
           | H : kind_eqb (bk ?b) ?k = true |- _ => apply keq in H
           | H : kind_eqb (kind_of (bt ?b)) ?k = true |- _ => apply keq in H
           end.
  Ltac krw := kinds_subst; unfold bk in *;
    first [ match goal with H : kind_of (bt _) = _ |- _ => rewrite H end; reflexivity
          | match goal with |- context [kind_of (bt ?b)] => destruct (kind_of (bt b)); try discriminate; reflexivity end ].
  Ltac lit_solve Hsc :=
    first [ apply (good_lit_quiet _ _ Hsc); [krw|reflexivity]
          | apply (good_lit_fixed _ _ Hsc); krw
          | apply (good_tx _ Hsc); krw ].
  Ltac fsimp := unfold fi_spaced, fi_spaced_before, fi_tight_spaced, fi_spaced_tight, fi_tight, fi_none; cbn [snd fst fres fi_doc].
  Ltac pstep Hsg Hsc :=
    lazymatch goal with
    | |- post (ret _) _ => apply post_ret
    | |- post (bind (call ?b ?r) _) _ =>
        apply (post_bind _ _ (good_doc (tsig (bt b)))); [apply (sgood_call _ _ Hsg Hsc); first [reflexivity | unfold fit, is_kind, bk in *; assumption] | intros ? [? ?]]
    | |- post (if ?c then _ else _) _ => destruct c eqn:?
    | |- post (match ?x with _ => _ end) _ => destruct x eqn:?
    end.

  Section Flows.
    Variable kids : list bundle.
    Hypothesis Hgood : Forall sgood kids.
    Hypothesis Hscope : Forall (fun b => sc (bt b) = true) kids.

    Lemma kid_facts child : In child kids -> sgood child /\ sc (bt child) = true.
    Proof. intros Hin. rewrite Forall_forall in Hgood, Hscope. auto. Qed.

    Ltac flow_setup kept :=
      let child := fresh "child" in let Hin := fresh "Hin" in
      apply Forall_forall; intros child Hin;
      destruct (kid_facts child Hin) as [Hsg Hsc];
      match goal with Hk : all_kept _ _ = true |- _ =>
        pose proof (all_kept_in _ _ (bt child) Hk (in_map bt _ _ Hin)) as Hkeep end;
      split; [exact Hsc|]; intros Hgen.

    Ltac none_solve Hkeep Hgen :=
      unfold bk in *; rewrite ?Hgen in Hkeep;
      repeat match goal with
             | H : _ = false |- _ => rewrite H in Hkeep
             | H : _ = None |- _ => rewrite H in Hkeep
             end;
      cbn [orb] in Hkeep; unfold sig_empty in Hkeep;
      match goal with |- ?x = [] => destruct x; [reflexivity|discriminate Hkeep] end.
    Ltac leaf_solve :=
      cbn [snd fst];
      repeat match goal with |- fres _ (if ?b then _ else _) => destruct b end;
      fsimp;
      match goal with
      | Hsc : sc (bt ?child) = true, Hkeep : _ = true, Hgen : is_generic (bt ?child) = false |- _ =>
          first [ split; assumption | lit_solve Hsc | none_solve Hkeep Hgen ]
      end.
    Ltac flow_body :=
      match goal with Hsg : sgood ?child, Hsc : sc (bt ?child) = true |- _ =>
        repeat (pstep Hsg Hsc); try leaf_solve end.
    Ltac flow_conv name :=
      intros Hk; unfold name;
      first [ apply flow_like_sig | apply (flow_like_iter_sig _ _ _ _ (fun _ _ => True)); [|exact I]; apply fchildren_stateless ];
      flow_setup tt; intros; flow_body.

    Lemma cons_convert_named c :
      all_kept (fun c => is_expr c || is_pattern c) (map bt kids) = true ->
      post (convert_named swidth kids c) (good_doc (tsigs kids)).
    Proof. flow_conv convert_named. Qed.
    Lemma cons_convert_keyed c :
      all_kept is_expr (map bt kids) = true -> post (convert_keyed swidth kids c) (good_doc (tsigs kids)).
    Proof. flow_conv convert_keyed. Qed.
    Lemma cons_convert_spread c :
      all_kept (fun c => kind_eqb (kind_of c) KDots || is_expr c) (map bt kids) = true ->
      post (convert_spread swidth kids c) (good_doc (tsigs kids)).
    Proof. flow_conv convert_spread. Qed.
    Lemma cons_convert_unary t c :
      all_kept (fun c => match unop_from_kind (kind_of c) with Some _ => true | None => is_expr c end) (map bt kids) = true ->
      post (convert_unary swidth t kids c) (good_doc (tsigs kids)).
    Proof. flow_conv convert_unary. Qed.
    Lemma cons_expr_flow c :
      all_kept is_expr (map bt kids) = true -> post (expr_flow swidth kids c) (good_doc (tsigs kids)).
    Proof. flow_conv expr_flow. Qed.
    Lemma cons_convert_let_binding c :
      all_kept (fun c => kind_eqb (kind_of c) KEq || is_pattern c) (map bt kids) = true ->
      post (convert_let_binding swidth kids c) (good_doc (tsigs kids)).
    Proof. flow_conv convert_let_binding. Qed.
    Lemma cons_convert_destruct_assignment c :
      all_kept (fun c => kind_eqb (kind_of c) KEq || is_pattern c) (map bt kids) = true ->
      post (convert_destruct_assignment swidth kids c) (good_doc (tsigs kids)).
    Proof. flow_conv convert_destruct_assignment. Qed.
    Lemma cons_convert_set_rule c :
      all_kept (fun c => is_expr c || kind_eqb (kind_of c) KArgs) (map bt kids) = true ->
      post (convert_set_rule swidth kids c) (good_doc (tsigs kids)).
    Proof. flow_conv convert_set_rule. Qed.
    Lemma cons_convert_show_rule c :
      all_kept is_expr (map bt kids) = true -> post (convert_show_rule swidth kids c) (good_doc (tsigs kids)).
    Proof. flow_conv convert_show_rule. Qed.
    Lemma cons_convert_heading c :
      all_kept (fun c => kind_eqb (kind_of c) KHeadingMarker || kind_eqb (kind_of c) KMarkup) (map bt kids) = true ->
      post (convert_heading swidth kids c) (good_doc (tsigs kids)).
    Proof. flow_conv convert_heading. Qed.
    Lemma cons_convert_import_item_path c :
      all_kept (fun c => kind_eqb (kind_of c) KDot || kind_eqb (kind_of c) KIdent) (map bt kids) = true ->
      post (convert_import_item_path swidth kids c) (good_doc (tsigs kids)).
    Proof. flow_conv convert_import_item_path. Qed.
    Lemma cons_convert_import_item_renamed c :
      all_kept (fun c => kind_eqb (kind_of c) KImportItemPath || kind_eqb (kind_of c) KIdent) (map bt kids) = true ->
      post (convert_import_item_renamed swidth kids c) (good_doc (tsigs kids)).
    Proof. flow_conv convert_import_item_renamed. Qed.
  End Flows.
  (* ---------- list-based converters ---------- *)
  Lemma lwalkb_lwalk accp nodes pend :
    Forall (fun b => sc (bt b) = true) nodes -> lwalkb accp (map bt nodes) pend = true ->
    lwalk (fun b => accp (bt b)) nodes pend.
  Proof.
    intros Hs. revert pend. induction Hs as [|n r Hn Hr IH]; intros pend H; cbn [map lwalkb lwalk] in *.
    - destruct pend; [discriminate|reflexivity].
    - split; [exact Hn|]. destruct (accp (bt n)); [apply IH; exact H|].
      apply andb_prop in H. destruct H as [Hp H]. split; [destruct pend; [discriminate|reflexivity]|].
      unfold is_comment_b, bk. destruct (is_comment_node (bt n)); [apply IH; exact H|].
      destruct (kind_eqb (kind_of (bt n)) KHash); [apply IH; exact H|].
      apply andb_prop in H. destruct H as [He H]. split; [|apply IH; exact H].
      unfold sig_empty in He. destruct (tsig (bt n)); [reflexivity|discriminate].
  Qed.

  Lemma always_fold_if_inv l p : lsig (lst_always_fold_if l p) = lsig l /\ (lwsig l -> lwsig (lst_always_fold_if l p)) /\
                                 l_free (lst_always_fold_if l p) = l_free l.
  Proof. unfold lst_always_fold_if. match goal with |- context [if ?b then _ else _] => destruct b end; (split; [reflexivity|split; [intros H; exact H|reflexivity]]). Qed.

  Definition fresh_list (l : lst) : Prop := l_items l = [] /\ l_free l = [] /\ l_peek_hash l = false.
  Lemma fresh_new : fresh_list lst_new.  Proof. repeat split. Qed.
  Lemma fresh_fold l f : fresh_list l -> fresh_list (lst_with_fold_style l f).
  Proof. intros H; exact H. Qed.
  Lemma fresh_keep l n : fresh_list l -> fresh_list (lst_keep_linebreak l n).
  Proof. intros H; exact H. Qed.
  Lemma fresh_front l : fresh_list l -> fresh_list (lst_disallow_front_comment l).
  Proof. intros H; exact H. Qed.

  Theorem list_conv_sig l0 c nodes p f :
    fresh_list l0 ->
    Forall (fun b => sc (bt b) = true) nodes -> lwalkb p (map bt nodes) false = true ->
    (forall c b, In b nodes -> p (bt b) = true -> post (f c b) (good_doc (tsig (bt b)))) ->
    post (lst_process swidth l0 c nodes (opt_conv p f))
         (fun l => lsig l = tsigs nodes /\ lwsig l /\ l_free l = []).
  Proof.
    intros (Hi & Hf & Hp) Hs Hw Hconv.
    eapply post_weaken.
    - apply (lst_process_sig l0 c nodes (opt_conv p f) (fun b => p (bt b))).
      + split; [rewrite Hi|rewrite Hf]; constructor.
      + rewrite Hp. apply lwalkb_lwalk; assumption.
      + intros c0 n Hin Ha. unfold opt_conv. rewrite Ha.
        apply (post_bind _ _ (good_doc (tsig (bt n)))); [apply Hconv; assumption|].
        intros d Hd. apply post_ret. exists d. auto.
      + intros c0 n Hin Ha. unfold opt_conv. rewrite Ha. apply post_ret. reflexivity.
    - intros l (E & W & F). unfold lsig, hsig in E. rewrite Hi, Hf, Hp in E. cbn in E. auto.
  Qed.

  Section Lists.
    Variable kids : list bundle.
    Hypothesis Hgood : Forall sgood kids.
    Hypothesis Hscope : Forall (fun b => sc (bt b) = true) kids.

    Lemma kid_facts' child : In child kids -> sgood child /\ sc (bt child) = true.
    Proof. intros Hin. rewrite Forall_forall in Hgood, Hscope. auto. Qed.

    Lemma cons_arg_like (f : ctx -> bundle -> M doc) :
      (forall c b, exists r, f c b = call b r /\ fit r (bt b) = true) ->
      forall c b, In b kids -> post (f c b) (good_doc (tsig (bt b))).
    Proof.
      intros Hf c b Hin. destruct (Hf c b) as (r & -> & Hfit). destruct (kid_facts' b Hin) as [Hsg Hsc].
      apply sgood_call; assumption.
    Qed.
    Lemma arg_shape c b : exists r, convert_arg c b = call b r /\ fit r (bt b) = true.
    Proof.
      unfold convert_arg, bk. destruct (kind_of (bt b)) eqn:E; eexists; (split; [reflexivity|]); cbn; unfold is_kind; rewrite ?E; reflexivity.
    Qed.
    Lemma array_item_shape c b : exists r, convert_array_item c b = call b r /\ fit r (bt b) = true.
    Proof.
      unfold convert_array_item, bk. destruct (kind_of (bt b)) eqn:E; eexists; (split; [reflexivity|]); cbn; unfold is_kind; rewrite ?E; reflexivity.
    Qed.
    Lemma param_shape c b : exists r, convert_param c b = call b r /\ fit r (bt b) = true.
    Proof.
      unfold convert_param, bk. destruct (kind_of (bt b)) eqn:E; eexists; (split; [reflexivity|]); cbn; unfold is_kind; rewrite ?E; reflexivity.
    Qed.
    Lemma dict_item_shape c b : is_dict_item (bt b) = true -> exists r, convert_dict_item c b = call b r /\ fit r (bt b) = true.
    Proof.
      unfold convert_dict_item, is_dict_item, bk. destruct (kind_of (bt b)) eqn:E; try discriminate; intros _;
        eexists; (split; [reflexivity|]); cbn; unfold is_kind; rewrite ?E; reflexivity.
    Qed.

    Ltac list_finish sty :=
      let l := fresh "l" in let E := fresh "E" in let W := fresh "W" in let F := fresh "F" in
      intros l (E & W & F); apply post_ret;
      first [ apply lst_doc_good; [repeat split; reflexivity|exact E|exact W|exact F]
            | destruct (always_fold_if_inv l sty) as (E1 & W1 & F1);
              apply lst_doc_good; [repeat split; reflexivity|rewrite E1; exact E|apply W1; exact W|rewrite F1; exact F] ].

    Lemma cons_convert_array t c :
      lwalkb is_array_item (map bt kids) false = true -> post (convert_array swidth cfg t kids c) (good_doc (tsigs kids)).
    Proof.
      intros Hw. unfold convert_array.
      eapply post_bind; [apply list_conv_sig; [apply fresh_fold, fresh_new|exact Hscope|exact Hw|]|].
      - intros c0 b Hin _. apply (cons_arg_like convert_array_item array_item_shape); exact Hin.
      - intros l (E & W & F). apply post_ret. apply lst_doc_good; [|exact E|exact W|exact F].
        repeat split; cbn; destruct (match kids with [] => false | b :: _ => kind_eqb (bk b) KLeftParen end); reflexivity.
    Qed.

    Lemma cons_convert_dict t c :
      lwalkb is_dict_item (map bt kids) false = true -> post (convert_dict swidth cfg t kids c) (good_doc (tsigs kids)).
    Proof.
      intros Hw. unfold convert_dict.
      eapply post_bind; [apply list_conv_sig; [apply fresh_fold, fresh_new|exact Hscope|exact Hw|]|].
      - intros c0 b Hin Hp. destruct (dict_item_shape c0 b Hp) as (r & -> & Hfit). destruct (kid_facts' b Hin) as [Hsg Hsc].
        apply sgood_call; assumption.
      - intros l (E & W & F). apply post_ret. apply lst_doc_good; [|exact E|exact W|exact F].
        repeat split; cbn; destruct (forallb _ _); reflexivity.
    Qed.

    Lemma cons_convert_destructuring t c :
      lwalkb is_destructuring_item (map bt kids) false = true ->
      post (convert_destructuring swidth cfg t kids c) (good_doc (tsigs kids)).
    Proof.
      intros Hw. unfold convert_destructuring.
      eapply post_bind; [apply list_conv_sig; [apply fresh_fold, fresh_new|exact Hscope|exact Hw|]|].
      - intros c0 b Hin _. apply (cons_arg_like convert_param param_shape); exact Hin.
      - intros l (E & W & F). apply post_ret.
        match goal with |- good_doc _ (lst_doc _ _ (lst_always_fold_if l ?p) _) => destruct (always_fold_if_inv l p) as (E1 & W1 & F1) end.
        apply lst_doc_good; [repeat split; reflexivity|rewrite E1; exact E|apply W1; exact W|rewrite F1; exact F].
    Qed.

    Lemma cons_convert_params t c u :
      lwalkb is_param (map bt kids) false = true -> post (convert_params swidth cfg t kids c u) (good_doc (tsigs kids)).
    Proof.
      intros Hw. unfold convert_params.
      eapply post_bind; [apply list_conv_sig; [apply fresh_fold, fresh_new|exact Hscope|exact Hw|]|].
      - intros c0 b Hin _. apply (cons_arg_like convert_param param_shape); exact Hin.
      - intros l (E & W & F). apply post_ret.
        match goal with |- good_doc _ (lst_doc _ _ (lst_always_fold_if l ?p) _) => destruct (always_fold_if_inv l p) as (E1 & W1 & F1) end.
        apply lst_doc_good; [repeat split; reflexivity|rewrite E1; exact E|apply W1; exact W|rewrite F1; exact F].
    Qed.

    Lemma cons_convert_parenthesized_impl t c emb :
      lwalkb is_pattern (map bt kids) false = true ->
      post (convert_parenthesized_impl swidth cfg t kids c emb) (good_doc (tsigs kids)).
    Proof.
      intros Hw. unfold convert_parenthesized_impl.
      eapply post_bind; [apply list_conv_sig; [apply fresh_fold, fresh_new|exact Hscope|exact Hw|]|].
      - intros c0 b Hin _. destruct (kid_facts' b Hin) as [Hsg Hsc]. apply (sgood_call _ (RPattern c0)); auto.
      - intros l (E & W & F). apply post_ret. apply lst_doc_good; [repeat split; reflexivity|exact E|exact W|exact F].
    Qed.
    Lemma find_map_bt (p : tree -> bool) l : find p (map bt l) = option_map bt (find (fun b => p (bt b)) l).
    Proof. induction l as [|x l IH]; cbn; [reflexivity|]. destruct (p (bt x)); [reflexivity|exact IH]. Qed.
    Lemma existsb_map_bt (p : tree -> bool) l : existsb p (map bt l) = existsb (fun b => p (bt b)) l.
    Proof. induction l as [|x l IH]; cbn; [reflexivity|]. rewrite IH. reflexivity. Qed.
    Lemma tsigl_map l : tsigl (map bt l) = tsigs l.
    Proof. unfold tsigl, tsigs. rewrite map_map. reflexivity. Qed.

    Lemma cons_convert_parenthesized t c emb :
      lwalkb is_pattern (map bt kids) false &&
      match find is_pattern (map bt kids) with
      | Some p => if kind_eqb (kind_of p) KParenthesized && negb (existsb is_comment_node (map bt kids))
                  then str_eqb (tsigl (map bt kids)) (tsig p) else true
      | None => true
      end = true ->
      post (convert_parenthesized swidth cfg t kids c emb) (good_doc (tsigs kids)).
    Proof.
      intros H. apply andb_prop in H. destruct H as [Hw Hn]. unfold convert_parenthesized.
      rewrite find_map_bt, existsb_map_bt in Hn. unfold is_comment_b.
      destruct (find (fun b => is_pattern (bt b)) kids) as [p|] eqn:Ef; cbn [option_map] in Hn;
        [|apply cons_convert_parenthesized_impl; exact Hw].
      unfold bk. destruct (kind_eqb (kind_of (bt p)) KParenthesized && _) eqn:Ec; [|apply cons_convert_parenthesized_impl; exact Hw].
      apply (proj1 (str_eqb_eq _ _)) in Hn. rewrite tsigl_map in Hn. rewrite Hn.
      apply find_some in Ef. destruct Ef as [Hin _]. destruct (kid_facts' p Hin) as [Hsg Hsc].
      apply sgood_call; [exact Hsg|exact Hsc|]. apply andb_prop in Ec. destruct Ec as [Ec _]. exact Ec.
    Qed.
  End Lists.
  (* ---------- markup.rs ---------- *)
  Definition msig (lines : list markup_line) : str := tsigs (flat_map ml_nodes lines).
  Lemma msig_app a b : msig (a ++ b) = msig a ++ msig b.
  Proof. unfold msig. rewrite flat_map_app, tsigs_app. reflexivity. Qed.
  Lemma msig_one ln : msig [ln] = tsigs (ml_nodes ln).
  Proof. unfold msig. cbn. rewrite app_nil_r. reflexivity. Qed.

  Lemma msig_concat lines : msig lines = concat (map (fun ln => tsigs (ml_nodes ln)) lines).
  Proof.
    induction lines as [|ln l IH]; [reflexivity|]. change (ln :: l) with ([ln] ++ l). rewrite msig_app, msig_one, IH. reflexivity.
  Qed.

  Definition blank_quiet (b : bundle) : Prop :=
    (kind_eqb (bk b) KSpace = true \/ kind_eqb (bk b) KParbreak = true) -> tsig (bt b) = [].
  Lemma sc_blank_quiet b : sc (bt b) = true -> blank_quiet b.
  Proof.
    intros Hs [H|H]; apply sc_quiet; try exact Hs; unfold bk in H; apply keq in H; rewrite H; reflexivity.
  Qed.

  Definition all_mnodes (P : bundle -> Prop) (lines : list markup_line) : Prop := Forall (fun ln => Forall P (ml_nodes ln)) lines.

  Lemma repr_step_inv (P : bundle -> Prop) st node :
    blank_quiet node -> P node ->
    all_mnodes P (fst (fst st)) -> Forall P (ml_nodes (snd (fst st))) ->
    let st' := repr_step st node in
    msig (fst (fst st')) ++ tsigs (ml_nodes (snd (fst st'))) = msig (fst (fst st)) ++ tsigs (ml_nodes (snd (fst st))) ++ tsig (bt node) /\
    all_mnodes P (fst (fst st')) /\ Forall P (ml_nodes (snd (fst st'))).
  Proof.
    intros Hq Hp Hl Hc. destruct st as [[lines cur] sb]. cbn [fst snd] in *. unfold repr_step.
    destruct (kind_eqb (bk node) KParbreak) eqn:E1.
    { cbn [fst snd ml_nodes ml_empty]. rewrite msig_app, msig_one. cbn [ml_nodes]. rewrite (Hq (or_intror E1)).
      rewrite tsigs_nil, !app_nil_r. split; [reflexivity|]. split; [|constructor].
      unfold all_mnodes. apply Forall_app. split; [exact Hl|constructor; [exact Hc|constructor]]. }
    destruct (kind_eqb (bk node) KSpace && _) eqn:E2.
    { apply andb_prop in E2. destruct E2 as [E2 _]. cbn [fst snd]. rewrite (Hq (or_introl E2)), app_nil_r. auto. }
    destruct (kind_eqb (bk node) KSpace && has_lb (tx node)) eqn:E3.
    { apply andb_prop in E3. destruct E3 as [E3 _]. cbn [fst snd ml_nodes ml_empty]. rewrite msig_app, msig_one. cbn [ml_nodes].
      rewrite (Hq (or_introl E3)), tsigs_nil, !app_nil_r. split; [reflexivity|]. split; [|constructor].
      unfold all_mnodes. apply Forall_app. split; [exact Hl|constructor; [exact Hc|constructor]]. }
    cbn [fst snd ml_nodes]. rewrite tsigs_app, tsigs_one. split; [reflexivity|].
    split; [exact Hl|]. apply Forall_app. split; [exact Hc|constructor; [exact Hp|constructor]].
  Qed.

  Lemma strip_trailing_spaces_inv (P : bundle -> Prop) rn eb :
    Forall blank_quiet rn -> Forall P rn ->
    tsigs (rev (fst (strip_trailing_spaces rn eb))) = tsigs (rev rn) /\ Forall P (fst (strip_trailing_spaces rn eb)).
  Proof.
    intros Hq. revert eb. induction Hq as [|n r Hn Hr IH]; intros eb Hp; cbn [strip_trailing_spaces].
    - split; [reflexivity|constructor].
    - inversion Hp as [|? ? Hpn Hpr]; subst. destruct (kind_eqb (bk n) KSpace) eqn:E.
      + destruct (IH (boundary_from_space (tx n)) Hpr) as [E1 P1]. split; [|exact P1].
        rewrite E1. cbn [rev]. rewrite tsigs_app. unfold tsigs at 3. cbn. rewrite (Hn (or_introl E)), !app_nil_r. reflexivity.
      + cbn [fst]. split; [reflexivity|exact Hp].
  Qed.

  Lemma collect_markup_repr_inv (P : bundle -> Prop) kids :
    (forall b, P b -> blank_quiet b) -> Forall P kids ->
    msig (mr_lines (collect_markup_repr kids)) = tsigs kids /\ all_mnodes P (mr_lines (collect_markup_repr kids)).
  Proof.
    intros HPq Hp. unfold collect_markup_repr.
    assert (G : forall l st, Forall P l -> all_mnodes P (fst (fst st)) -> Forall P (ml_nodes (snd (fst st))) ->
              let st' := fold_left repr_step l st in
              msig (fst (fst st')) ++ tsigs (ml_nodes (snd (fst st'))) = msig (fst (fst st)) ++ tsigs (ml_nodes (snd (fst st))) ++ tsigs l /\
              all_mnodes P (fst (fst st')) /\ Forall P (ml_nodes (snd (fst st')))).
    { induction l as [|n l IH]; intros st Hpl Hl Hc; cbn [fold_left].
      - rewrite tsigs_nil, !app_nil_r. auto.
      - inversion Hpl; subst.
        destruct (repr_step_inv P st n) as (E1 & L1 & C1); try assumption; [apply HPq; assumption|].
        destruct (IH (repr_step st n)) as (E2 & L2 & C2); try assumption.
        cbv zeta in *. rewrite E2, app_assoc, E1, tsigs_cons, <- !app_assoc. auto. }
    destruct (G kids ([], ml_empty, BNil) Hp (Forall_nil _) (Forall_nil _)) as (E & L & C). cbv zeta in *.
    destruct (fold_left repr_step kids ([], ml_empty, BNil)) as [[lines0 cur] sb]. cbn [fst snd] in *.
    change (msig []) with (@nil N) in E. change (tsigs (ml_nodes ml_empty)) with (@nil N) in E. cbn [app] in E.
    set (lines1 := match ml_nodes cur with [] => lines0 | _ => lines0 ++ [cur] end).
    assert (H1 : msig lines1 = tsigs kids /\ all_mnodes P lines1).
    { unfold lines1. destruct (ml_nodes cur) as [|x r] eqn:Ec.
      - rewrite tsigs_nil, app_nil_r in E. auto.
      - rewrite msig_app, msig_one, Ec. split; [exact E|]. unfold all_mnodes. apply Forall_app. split; [exact L|constructor; [rewrite Ec; exact C|constructor]]. }
    clearbody lines1. destruct H1 as [E1 L1].
    set (X := match rev lines1 with
              | last :: r =>
                  let '(breaks, eb0) := if 0 <? ml_breaks last then (ml_breaks last - 1, BBreak) else (ml_breaks last, BNil) in
                  let '(rn, eb1) := strip_trailing_spaces (rev (ml_nodes last)) eb0 in
                  (rev r ++ [mk_ml (rev rn) breaks (ml_mixed last)], eb1)
              | [] => ([], BNil)
              end).
    assert (H2 : msig (fst X) = tsigs kids /\ all_mnodes P (fst X)).
    { unfold X. destruct (rev lines1) as [|last r] eqn:Er.
      - assert (lines1 = []) by (rewrite <- (rev_involutive lines1), Er; reflexivity). subst. auto.
      - assert (El : lines1 = rev r ++ [last]) by (rewrite <- (rev_involutive lines1), Er; reflexivity).
        rewrite El in E1, L1. unfold all_mnodes in L1. apply Forall_app in L1. destruct L1 as [Lr Ll]. inversion Ll as [|? ? Hlast _]; subst.
        destruct (if 0 <? ml_breaks last then _ else _) as [breaks eb0].
        assert (Hplast : Forall P (rev (ml_nodes last))) by (apply Forall_rev; exact Hlast).
        assert (Hqlast : Forall blank_quiet (rev (ml_nodes last))) by (eapply Forall_impl; [apply HPq|exact Hplast]).
        destruct (strip_trailing_spaces_inv P _ eb0 Hqlast Hplast) as [Es Ps].
        destruct (strip_trailing_spaces (rev (ml_nodes last)) eb0) as [rn eb1]. cbn [fst] in *.
        rewrite rev_involutive in Es. rewrite msig_app, msig_one. cbn [ml_nodes]. rewrite Es.
        rewrite msig_app, msig_one in E1. split; [exact E1|].
        unfold all_mnodes. apply Forall_app. split; [exact Lr|constructor; [cbn [ml_nodes]; apply Forall_rev; exact Ps|constructor]]. }
    clearbody X. destruct X as [lines2 eb]. cbn [fst] in H2. cbn [mr_lines]. exact H2.
  Qed.

  Theorem cons_convert_markup_impl t kids c scp :
    Forall sgood kids -> Forall (fun b => sc (bt b) = true) kids ->
    forallb (fun c => is_expr c || is_comment_node c || negb (inner_kind (kind_of c))) (map bt kids) = true ->
    post (convert_markup_impl swidth t kids c scp) (good_doc (tsigs kids)).
  Proof.
    intros Hg Hs Hcl. unfold convert_markup_impl. apply post_bump_then'.
    set (P := fun b => sgood b /\ sc (bt b) = true /\
                       (is_expr (bt b) || is_comment_node (bt b) || negb (inner_kind (bk b))) = true).
    assert (HP : Forall P kids).
    { apply Forall_forall. intros b Hin. rewrite Forall_forall in Hg, Hs. split; [apply Hg; exact Hin|split; [apply Hs; exact Hin|]].
      apply (proj1 (forallb_forall _ _) Hcl (bt b)). apply in_map. exact Hin. }
    assert (HPq : forall b, P b -> blank_quiet b) by (intros b (_ & Hb & _); apply sc_blank_quiet; exact Hb).
    destruct (is_only_one_and kids _) eqn:Eone.
    { apply post_ret. destruct kids as [|x [|y r]]; try discriminate Eone. cbn in Eone.
      inversion HP as [|? ? (_ & Hx & _) _]; subst. unfold tsigs. cbn. rewrite app_nil_r.
      rewrite (sc_quiet _ Hx) by (unfold bk in Eone; apply keq in Eone; rewrite Eone; reflexivity). split; reflexivity. }
    destruct (collect_markup_repr_inv P kids HPq HP) as [Em Lm].
    set (repr := collect_markup_repr kids) in *. clearbody repr.
    apply (post_bind _ _ (good_doc (tsigs kids))).
    - rewrite <- Em.
      eapply post_weaken.
      + apply (post_foldM_sig _ dsig (fun ln => tsigs (ml_nodes ln)) (fun d => wsig d = true)); [reflexivity|].
        intros d ln Hin Hw. unfold all_mnodes in Lm. rewrite Forall_forall in Lm. pose proof (Lm ln Hin) as Hln.
        apply (post_bind _ _ (fun d1 => dsig d1 = dsig d ++ tsigs (ml_nodes ln) /\ wsig d1 = true)).
        * eapply post_weaken; [apply (post_foldM_sig _ dsig (fun b => tsig (bt b)) (fun d => wsig d = true)); [exact Hw|]|].
          -- intros d0 node Hin2 Hw0. rewrite Forall_forall in Hln. destruct (Hln node Hin2) as (Hsg & Hsc & Hk).
             apply (post_bind _ _ (good_doc (tsig (bt node)))).
             ++ destruct (kind_eqb (bk node) KSpace) eqn:E1.
                { apply post_ret. rewrite (sc_quiet _ Hsc) by (unfold bk in E1; apply keq in E1; rewrite E1; reflexivity). split; reflexivity. }
                destruct (kind_eqb (bk node) KText) eqn:E2.
                { apply post_ret. apply good_verbatim. apply (sc_tok_ascii _ Hsc). unfold bk in E2. apply keq in E2. rewrite E2. reflexivity. }
                destruct (is_expr (bt node)) eqn:E3; [apply sgood_call; [exact Hsg|exact Hsc|reflexivity]|].
                destruct (is_comment_b node) eqn:E4; [apply post_comment; assumption|].
                apply post_ret. apply good_trivia; [exact Hsc|]. unfold is_comment_b in E4. rewrite ?E3, ?E4 in Hk. cbn in Hk.
                rewrite (nb_by_expr _ E1 E3). destruct (inner_kind (bk node)); [discriminate|reflexivity].
             ++ intros x [Hx Wx]. apply post_ret. rewrite dsig_append, Hx. split; [reflexivity|apply wsig_append; assumption].
          -- intros d1 [E1 W1]. unfold tsigs. auto.
        * intros d1 [E1 W1]. apply post_ret. destruct (0 <? ml_breaks ln).
          -- rewrite dsig_append, dsig_repeat_quiet, app_nil_r by reflexivity. split; [exact E1|].
             apply wsig_append; [exact W1|apply wsig_repeat; reflexivity].
          -- auto.
      + intros d [E W]. split; [|exact W]. rewrite E. cbn [dsig app]. symmetry. apply msig_concat.
    - intros d [Hd Wd]. apply post_ret.
      match goal with |- good_doc _ (enclose ?a ?b d) =>
        assert (Ha : dsig a = [] /\ wsig a = true) by (repeat match goal with |- context [if ?x then _ else _] => destruct x | |- context [match ?x with _ => _ end] => destruct x end; split; reflexivity);
        assert (Hb : dsig b = [] /\ wsig b = true) by (repeat match goal with |- context [if ?x then _ else _] => destruct x | |- context [match ?x with _ => _ end] => destruct x end; split; reflexivity)
      end.
      destruct Ha as [Ha Wa], Hb as [Hb Wb]. split; [rewrite dsig_enclose, Ha, Hb, Hd, app_nil_r; reflexivity|apply wsig_enclose; assumption].
  Qed.

  Lemma tsig_kids' t kids : map bt kids = children t -> inner_kind (kind_of t) = true -> sc t = true -> tsig t = tsigs kids.
  Proof.
    intros Hm Hk Hs. destruct t as [k s a|k cs a]; cbn [children kind_of tsig sc] in *.
    - rewrite Hk in Hs. destruct s; [|discriminate]. destruct kids; [destruct (blank_kind k); reflexivity|discriminate].
    - unfold tsigs. rewrite <- Hm, map_map. reflexivity.
  Qed.
  (* ---------- content blocks, strong, emph, raw, ref ---------- *)
  Section Blocks.
    Variable kids : list bundle.
    Hypothesis Hgood : Forall sgood kids.
    Hypothesis Hscope : Forall (fun b => sc (bt b) = true) kids.

    Lemma cons_call_markup_body c scp :
      post (call_markup_body kids c scp)
           (good_doc (match find (fun c => kind_eqb (kind_of c) KMarkup) (map bt kids) with Some m => tsig m | None => [] end)).
    Proof.
      unfold call_markup_body. rewrite (find_map_bt (fun c => kind_eqb (kind_of c) KMarkup)).
      unfold bk. destruct (find (fun b => kind_eqb (kind_of (bt b)) KMarkup) kids) as [m|] eqn:Ef; cbn [option_map].
      - apply find_some in Ef. destruct Ef as [Hin Hk]. rewrite Forall_forall in Hgood, Hscope.
        apply sgood_call; [apply Hgood; exact Hin|apply Hscope; exact Hin|exact Hk].
      - apply post_bump_then'. apply post_ret. apply good_nil.
    Qed.

    Lemma cons_convert_content_block c :
      str_eqb (tsigl (map bt kids)) (match find (fun c => kind_eqb (kind_of c) KMarkup) (map bt kids) with Some m => tsig m | None => [] end) = true ->
      post (convert_content_block swidth cfg kids c) (good_doc (tsigs kids)).
    Proof.
      intros H. apply (proj1 (str_eqb_eq _ _)) in H. rewrite tsigl_map in H. rewrite H. unfold convert_content_block.
      eapply post_bind; [apply cons_call_markup_body|]. intros d [Hd Wd]. apply post_ret. split.
      - rewrite dsig_enclose, dsig_group, dsig_nest, !dsig_text, Hd. cbn. rewrite app_nil_r. reflexivity.
      - apply wsig_enclose; try apply wsig_text. rewrite wsig_group, wsig_nest. exact Wd.
    Qed.
    Lemma cons_convert_strong c :
      str_eqb (tsigl (map bt kids)) ([42] ++ (match find (fun c => kind_eqb (kind_of c) KMarkup) (map bt kids) with Some m => tsig m | None => [] end) ++ [42]) = true ->
      post (convert_strong swidth kids c) (good_doc (tsigs kids)).
    Proof.
      intros H. apply (proj1 (str_eqb_eq _ _)) in H. rewrite tsigl_map in H. rewrite H. unfold convert_strong.
      eapply post_bind; [apply cons_call_markup_body|]. intros d [Hd Wd]. apply post_ret. split.
      - rewrite dsig_enclose, !dsig_text, Hd. reflexivity.
      - apply wsig_enclose; try apply wsig_text. exact Wd.
    Qed.
    Lemma cons_convert_emph c :
      str_eqb (tsigl (map bt kids)) ([95] ++ (match find (fun c => kind_eqb (kind_of c) KMarkup) (map bt kids) with Some m => tsig m | None => [] end) ++ [95]) = true ->
      post (convert_emph swidth kids c) (good_doc (tsigs kids)).
    Proof.
      intros H. apply (proj1 (str_eqb_eq _ _)) in H. rewrite tsigl_map in H. rewrite H. unfold convert_emph.
      eapply post_bind; [apply cons_call_markup_body|]. intros d [Hd Wd]. apply post_ret. split.
      - rewrite dsig_enclose, !dsig_text, Hd. reflexivity.
      - apply wsig_enclose; try apply wsig_text. exact Wd.
    Qed.

    Lemma good_convert_raw t :
      forallb (fun c => match kind_of c with KRawDelim | KRawLang | KText | KRawTrimmed => true | _ => sig_empty c end) (map bt kids) = true ->
      map bt kids = children t -> inner_kind (kind_of t) = true -> sc t = true -> kind_of t = KRaw ->
      good_doc (tsigs kids) (convert_raw swidth t kids).
    Proof.
      intros Hcl Hshape Hk Hsct Hraw. unfold convert_raw. destruct (negb _ && _).
      { rewrite <- (tsig_kids' t kids Hshape Hk Hsct). apply good_verbatim. apply raw_ascii; assumption. }
      assert (G : forall l acc, Forall (fun b => sc (bt b) = true) l ->
                forallb (fun c => match kind_of c with KRawDelim | KRawLang | KText | KRawTrimmed => true | _ => sig_empty c end) (map bt l) = true ->
                wsig acc = true ->
                good_doc (dsig acc ++ tsigs l)
                  (fold_left (fun d child => match bk child with
                                             | KRawDelim | KRawLang => append d (convert_trivia swidth (bt child))
                                             | KText => append d (convert_verbatim swidth (bt child))
                                             | KRawTrimmed => append d (if has_lb (tx child) then hardline else space)
                                             | _ => d end) l acc)).
      { induction l as [|b l IH]; intros acc Hs Hc Hw; cbn [fold_left].
        - rewrite tsigs_nil, app_nil_r. split; [reflexivity|exact Hw].
        - inversion Hs as [|? ? Hb Hl]; subst. cbn [map forallb] in Hc. apply andb_prop in Hc. destruct Hc as [Hcb Hcl'].
          rewrite tsigs_cons, app_assoc. unfold bk in *.
          destruct (kind_of (bt b)) eqn:Ekb;
            try (unfold sig_empty in Hcb; destruct (tsig (bt b)) eqn:Et; [|discriminate Hcb]; rewrite app_nil_r; apply IH; assumption).
          + (* Text *) destruct (good_verbatim (bt b)) as [Hv Wv]; [apply (sc_tok_ascii _ Hb); rewrite Ekb; reflexivity|].
            pose proof (IH (append acc (convert_verbatim swidth (bt b))) Hl Hcl' (wsig_append _ _ Hw Wv)) as G1.
            rewrite dsig_append, Hv in G1. exact G1.
          + (* RawLang *) destruct (good_trivia b Hb) as [Hv Wv]; [unfold bk; rewrite Ekb; reflexivity|].
            pose proof (IH (append acc (convert_trivia swidth (bt b))) Hl Hcl' (wsig_append _ _ Hw Wv)) as G1.
            rewrite dsig_append, Hv in G1. exact G1.
          + (* RawDelim *) destruct (good_trivia b Hb) as [Hv Wv]; [unfold bk; rewrite Ekb; reflexivity|].
            pose proof (IH (append acc (convert_trivia swidth (bt b))) Hl Hcl' (wsig_append _ _ Hw Wv)) as G1.
            rewrite dsig_append, Hv in G1. exact G1.
          + (* RawTrimmed *)
            assert (Wx : wsig (if has_lb (text_of (bt b)) then hardline else space) = true) by (destruct (has_lb _); reflexivity).
            assert (Dx : dsig (if has_lb (text_of (bt b)) then hardline else space) = []) by (destruct (has_lb _); reflexivity).
            pose proof (IH (append acc (if has_lb (text_of (bt b)) then hardline else space)) Hl Hcl' (wsig_append _ _ Hw Wx)) as G1.
            rewrite dsig_append, Dx, app_nil_r in G1. rewrite (sc_quiet _ Hb) by (rewrite Ekb; reflexivity). rewrite app_nil_r. exact G1. }
      apply (G kids DNil Hscope Hcl eq_refl).
    Qed.

    Lemma cons_convert_ref t c :
      map bt kids = children t ->
      str_eqb (tsigl (map bt kids))
              (sig ([64] ++ ref_target (Inner KRef (map bt kids) no_attrs)) ++
               match find (fun c => kind_eqb (kind_of c) KContentBlock) (rev (map bt kids)) with Some m => tsig m | None => [] end) = true ->
      post (convert_ref swidth t kids c) (good_doc (tsigs kids)).
    Proof.
      intros Hshape H. apply (proj1 (str_eqb_eq _ _)) in H. rewrite tsigl_map in H. rewrite H. unfold convert_ref.
      assert (Et : ref_target t = ref_target (Inner KRef (map bt kids) no_attrs)).
      { unfold ref_target. cbn [children]. rewrite Hshape. reflexivity. }
      rewrite <- map_rev, (find_map_bt (fun c => kind_eqb (kind_of c) KContentBlock)). unfold bk.
      assert (Hd : good_doc (sig ([64] ++ ref_target t)) (append (text [64]) (text (ref_target t)))).
      { rewrite sig_app. apply good_append; apply good_text. }
      rewrite <- Et.
      destruct (find (fun b => kind_eqb (kind_of (bt b)) KContentBlock) (rev kids)) as [m|] eqn:Ef; cbn [option_map].
      - apply find_some in Ef. destruct Ef as [Hin Hk]. apply in_rev in Hin. rewrite Forall_forall in Hgood, Hscope.
        eapply post_bind; [apply (sgood_call m (RContentBlock c)); [apply Hgood; exact Hin|apply Hscope; exact Hin|exact Hk]|].
        intros x Hx. apply post_ret. apply good_append; assumption.
      - apply post_ret. rewrite app_nil_r. exact Hd.
    Qed.
  End Blocks.

  (* ---------- func_call.rs: arguments ---------- *)
  Lemma take_until_map l : map bt (take_until_rparen l) = take_until_rparen_t (map bt l).
  Proof. induction l as [|b l IH]; cbn; [reflexivity|]. unfold bk. destruct (kind_eqb _ _); cbn; [reflexivity|rewrite IH; reflexivity]. Qed.
  Lemma skip_until_map k l : map bt (skip_until k l) = skip_until_t k (map bt l).
  Proof. induction l as [|b l IH]; cbn; [reflexivity|]. unfold bk. destruct (kind_eqb _ _); cbn; [reflexivity|exact IH]. Qed.
  Lemma filter_map_bt (p : tree -> bool) l : map bt (filter (fun b => p (bt b)) l) = filter p (map bt l).
  Proof. induction l as [|b l IH]; cbn; [reflexivity|]. destruct (p (bt b)); cbn; rewrite IH; reflexivity. Qed.
  Lemma has_paren_map l : has_parenthesized_args l = has_paren_t (map bt l).
  Proof. destruct l; reflexivity. Qed.
  Lemma Forall_take_until (P : bundle -> Prop) l : Forall P l -> Forall P (take_until_rparen l).
  Proof. induction 1 as [|b l Hb Hl IH]; cbn; [constructor|]. destruct (kind_eqb _ _); constructor; assumption. Qed.
  Lemma Forall_skip_until (P : bundle -> Prop) k l : Forall P l -> Forall P (skip_until k l).
  Proof. induction 1 as [|b l Hb Hl IH]; cbn; [constructor|]. destruct (kind_eqb _ _); [constructor; assumption|exact IH]. Qed.
  Lemma Forall_filter (P : bundle -> Prop) p l : Forall P l -> Forall P (filter p l).
  Proof. induction 1 as [|b l Hb Hl IH]; cbn; [constructor|]. destruct (p b); [constructor; assumption|exact IH]. Qed.

  Lemma Forall_firstn (P : bundle -> Prop) n l : Forall P l -> Forall P (firstn n l).
  Proof. intros H. revert n. induction H; intros [|n]; cbn; constructor; auto. Qed.
  Lemma Forall_skipn (P : bundle -> Prop) n l : Forall P l -> Forall P (skipn n l).
  Proof. intros H. revert n. induction H; intros [|n]; cbn; try constructor; auto. Qed.

  Section Args.
    Variable kids : list bundle.
    Hypothesis Hgood : Forall sgood kids.
    Hypothesis Hscope : Forall (fun b => sc (bt b) = true) kids.

    Lemma cons_convert_arg_in l c b : Forall sgood l -> Forall (fun b => sc (bt b) = true) l -> In b l ->
      post (convert_arg c b) (good_doc (tsig (bt b))).
    Proof.
      intros Hg Hs Hin. destruct (arg_shape c b) as (r & -> & Hfit). rewrite Forall_forall in Hg, Hs.
      apply sgood_call; auto.
    Qed.

    Lemma cons_convert_parenthesized_args t c :
      lwalkb is_arg (take_until_rparen_t (map bt kids)) false = true ->
      post (convert_parenthesized_args swidth cfg t kids c) (good_doc (tsigs (take_until_rparen kids))).
    Proof.
      intros Hw. unfold convert_parenthesized_args.
      eapply post_bind.
      - apply list_conv_sig; [apply fresh_fold, fresh_keep, fresh_new|apply Forall_take_until; exact Hscope|rewrite take_until_map; exact Hw|].
        intros c0 b Hin _. apply (cons_convert_arg_in (take_until_rparen kids)); [apply Forall_take_until; exact Hgood|apply Forall_take_until; exact Hscope|exact Hin].
      - intros l (E & W & F). apply post_ret. apply lst_doc_good; [repeat split; reflexivity|exact E|exact W|exact F].
    Qed.

    Lemma cons_convert_additional_args c hp :
      post (convert_additional_args kids c hp)
           (good_doc (tsigs (filter (fun b => kind_eqb (bk b) KContentBlock) (skip_until (if hp then KRightParen else KContentBlock) kids)))).
    Proof.
      unfold convert_additional_args.
      set (l := filter _ (skip_until _ kids)).
      assert (Hl : Forall (fun b => sgood b /\ sc (bt b) = true /\ kind_eqb (bk b) KContentBlock = true) l).
      { unfold l. apply Forall_forall. intros b Hin. apply filter_In in Hin. destruct Hin as [Hin Hk].
        assert (Hin' : In b kids).
        { clear - Hin. induction kids as [|x r IH]; cbn in Hin; [contradiction|]. destruct (kind_eqb _ _); [exact Hin|right; apply IH; exact Hin]. }
        rewrite Forall_forall in Hgood, Hscope. auto. }
      clearbody l.
      eapply post_weaken.
      - apply (post_foldM_sig _ dsig (fun b => tsig (bt b)) (fun d => wsig d = true)); [reflexivity|].
        intros d b Hin Hw. rewrite Forall_forall in Hl. destruct (Hl b Hin) as (Hsg & Hsc & Hk).
        eapply post_bind; [apply (sgood_call b (RContentBlock c) Hsg Hsc Hk)|].
        intros x [Hx Wx]. apply post_ret. rewrite dsig_append, Hx. split; [reflexivity|apply wsig_append; assumption].
      - intros d [E W]. split; [exact E|exact W].
    Qed.

    Lemma args_sig_eq :
      args_ok (map bt kids) = true ->
      tsigs kids = tsigs (if has_parenthesized_args kids then take_until_rparen kids else []) ++
                   tsigs (filter (fun b => kind_eqb (bk b) KContentBlock)
                                 (skip_until (if has_parenthesized_args kids then KRightParen else KContentBlock) kids)).
    Proof.
      intros H. unfold args_ok in H. apply andb_prop in H. destruct H as [H _]. apply (proj1 (str_eqb_eq _ _)) in H.
      rewrite tsigl_map in H. rewrite H. unfold args_main, args_extra. rewrite <- has_paren_map.
      f_equal.
      - destruct (has_parenthesized_args kids); [rewrite <- take_until_map, tsigl_map; reflexivity|reflexivity].
      - rewrite <- skip_until_map. rewrite <- (filter_map_bt (fun b => kind_eqb (kind_of b) KContentBlock)), tsigl_map. reflexivity.
    Qed.

    Lemma cons_convert_args t c :
      args_ok (map bt kids) = true -> post (convert_args swidth cfg t kids c) (good_doc (tsigs kids)).
    Proof.
      intros H. rewrite (args_sig_eq H). unfold convert_args.
      unfold args_ok in H. apply andb_prop in H. destruct H as [_ Hw]. unfold args_main in Hw. rewrite <- has_paren_map in Hw.
      apply (post_bind _ _ (good_doc (tsigs (if has_parenthesized_args kids then take_until_rparen kids else [])))).
      - destruct (has_parenthesized_args kids); [apply cons_convert_parenthesized_args; exact Hw|apply post_ret; apply good_nil].
      - intros p Hp. eapply post_bind; [apply cons_convert_additional_args|]. intros a Ha. apply post_ret. apply good_append; assumption.
    Qed.

    Lemma math_slice_eq :
      (let len := length kids in
       let i := match position (fun b => negb (kin (bk b) [KLeftParen; KSpace])) kids 0 with Some i => i | None => 0%nat end in
       let j := match position (fun b => negb (kin (bk b) [KRightParen; KSpace])) (rev kids) 0 with
                | Some r => (len - 1 - r)%nat | None => (len - 1)%nat end in
       if Nat.ltb j i then [] else firstn (j + 1 - i) (skipn i kids)) = math_slice bk kids.
    Proof.
      unfold math_slice. cbv zeta.
      assert (P1 : forall l i, position (fun b => negb (kin (bk b) [KLeftParen; KSpace])) l i =
                               (fix pos (l : list bundle) (i : nat) := match l with [] => None | x :: r =>
                                  if negb (match bk x with KLeftParen | KSpace => true | _ => false end) then Some i else pos r (S i) end) l i).
      { induction l as [|x r IH]; intros i; cbn [position]; [reflexivity|]. rewrite IH. destruct (bk x); reflexivity. }
      assert (P2 : forall l i, position (fun b => negb (kin (bk b) [KRightParen; KSpace])) l i =
                               (fix pos (l : list bundle) (i : nat) := match l with [] => None | x :: r =>
                                  if negb (match bk x with KRightParen | KSpace => true | _ => false end) then Some i else pos r (S i) end) l i).
      { induction l as [|x r IH]; intros i; cbn [position]; [reflexivity|]. rewrite IH. destruct (bk x); reflexivity. }
      rewrite P1, P2. reflexivity.
    Qed.

    Lemma math_slice_map : map bt (math_slice bk kids) = math_slice kind_of (map bt kids).
    Proof.
      unfold math_slice. rewrite map_length, <- map_rev.
      assert (P : forall (f : kind -> bool) l i,
                (fix pos (l : list bundle) (i : nat) := match l with [] => None | x :: r => if negb (f (bk x)) then Some i else pos r (S i) end) l i =
                (fix pos (l : list tree) (i : nat) := match l with [] => None | x :: r => if negb (f (kind_of x)) then Some i else pos r (S i) end) (map bt l) i).
      { induction l as [|x r IH]; intros i; cbn; [reflexivity|]. rewrite IH. reflexivity. }
      rewrite <- (P (fun k => match k with KLeftParen | KSpace => true | _ => false end)).
      rewrite <- (P (fun k => match k with KRightParen | KSpace => true | _ => false end)).
      match goal with |- map bt (if ?b then _ else _) = _ => destruct b end; [reflexivity|].
      rewrite <- firstn_map, <- skipn_map. reflexivity.
    Qed.

    Lemma slice_incl (P : bundle -> Prop) : Forall P kids -> Forall P (math_slice bk kids).
    Proof.
      intros H. unfold math_slice. match goal with |- Forall P (if ?b then _ else _) => destruct b end; [constructor|].
      apply Forall_firstn, Forall_skipn. exact H.
    Qed.

    Lemma cons_convert_args_in_math t c :
      margs_ok (map bt kids) = true -> post (convert_args_in_math swidth cfg t kids c) (good_doc (tsigs kids)).
    Proof.
      intros H. unfold margs_ok in H. apply andb_prop in H. destruct H as [He Hk]. apply (proj1 (str_eqb_eq _ _)) in He.
      rewrite tsigl_map, <- math_slice_map, tsigl_map in He. rewrite <- math_slice_map in Hk.
      unfold convert_args_in_math. cbv zeta. pose proof math_slice_eq as Hms. cbv zeta in Hms. rewrite Hms. clear Hms. rewrite He.
      set (sl := math_slice bk kids) in *.
      assert (Hg : Forall sgood sl) by (apply slice_incl; exact Hgood).
      assert (Hs : Forall (fun b => sc (bt b) = true) sl) by (apply slice_incl; exact Hscope).
      clearbody sl.
      eapply post_bind.
      - apply (flow_like_iter_sig _ _ _ _ (fun _ _ => True)); [|exact I]. apply fchildren_stateless.
        apply Forall_forall. intros child Hin. rewrite Forall_forall in Hg, Hs. pose proof (Hg child Hin) as Hsg. pose proof (Hs child Hin) as Hsc.
        pose proof (proj1 (forallb_forall _ _) Hk (bt child) (in_map bt _ _ Hin)) as Hkeep. cbn beta in Hkeep.
        split; [exact Hsc|]. intros Hgen peek c0. unfold bk.
        assert (Hdef : is_arg (bt child) = true \/ (is_arg (bt child) = false /\ tsig (bt child) = []) ->
                       post (if is_arg (bt child)
                             then d <- convert_arg c0 child ;; ret (is_ends_with_hashed_expr child, fi_spaced d)
                             else ret (false, fi_none))
                            (fun r => fres (tsig (bt child)) (snd r))).
        { intros [Ea|[Ea Ht]]; rewrite Ea.
          - eapply post_bind; [apply (cons_convert_arg_in sl); [apply Forall_forall; exact Hg|apply Forall_forall; exact Hs|exact Hin]|].
            intros d Hd. apply post_ret. fsimp. exact Hd.
          - apply post_ret. fsimp. exact Ht. }
        assert (Hcase : is_arg (bt child) = true \/ (is_arg (bt child) = false /\ tsig (bt child) = []) \/
                        kind_eqb (kind_of (bt child)) KComma = true \/ kind_eqb (kind_of (bt child)) KSemicolon = true).
        { rewrite Hgen in Hkeep. cbn [orb] in Hkeep. destruct (kind_eqb (kind_of (bt child)) KComma); [auto|].
          destruct (kind_eqb (kind_of (bt child)) KSemicolon); [auto|]. cbn [orb] in Hkeep.
          destruct (is_arg (bt child)); [auto|]. cbn [orb] in Hkeep. right. left. split; [reflexivity|].
          unfold sig_empty in Hkeep. destruct (tsig (bt child)); [reflexivity|discriminate]. }
        destruct (kind_of (bt child)) eqn:Ekc;
          lazymatch type of Ekc with
          | _ = KComma => apply post_ret; fsimp; rewrite (sc_quiet _ Hsc) by (rewrite Ekc; reflexivity); exact (good_text [44])
          | _ = KSemicolon => apply post_ret; fsimp; rewrite (sc_quiet _ Hsc) by (rewrite Ekc; reflexivity); exact (good_text [59])
          | _ = KSpace =>
              apply post_ret; cbn [snd]; destruct (has_lb _); fsimp;
              rewrite (sc_quiet _ Hsc) by (rewrite Ekc; reflexivity); [split; reflexivity|reflexivity]
          | _ => apply Hdef; destruct Hcase as [H1|[H1|[H1|H1]]]; [left; exact H1|right; exact H1|discriminate H1|discriminate H1]
          end.
      - intros inner [Hi Wi]. destruct (a_multiline _); apply post_ret; split.
        + rewrite dsig_enclose, dsig_group, !dsig_append, dsig_nest, dsig_append, !dsig_text, Hi. cbn. rewrite !app_nil_r. reflexivity.
        + apply wsig_enclose; try apply wsig_text. rewrite wsig_group. apply wsig_append; [|reflexivity]. rewrite wsig_nest. apply wsig_append; [reflexivity|exact Wi].
        + rewrite dsig_enclose, !dsig_text, Hi. cbn. rewrite !app_nil_r. reflexivity.
        + apply wsig_enclose; try apply wsig_text. exact Wi.
    Qed.

    Lemma cons_convert_func_call_args t c :
      args_ok (map bt kids) && margs_ok (map bt kids) = true ->
      post (convert_func_call_args swidth cfg t kids c NotTable) (good_doc (tsigs kids)).
    Proof.
      intros H. apply andb_prop in H. destruct H as [Ha Hm]. unfold convert_func_call_args.
      destruct (is_math_mode _); [apply cons_convert_args_in_math; exact Hm|].
      rewrite (args_sig_eq Ha). unfold args_ok in Ha. apply andb_prop in Ha. destruct Ha as [_ Hw]. unfold args_main in Hw. rewrite <- has_paren_map in Hw.
      apply (post_bind _ _ (good_doc (tsigs (if has_parenthesized_args kids then take_until_rparen kids else [])))).
      - destruct (has_parenthesized_args kids); [apply cons_convert_parenthesized_args; exact Hw|apply post_ret; apply good_nil].
      - intros p Hp. eapply post_bind; [apply cons_convert_additional_args|]. intros a Ha'. apply post_ret. apply good_append; assumption.
    Qed.
  End Args.


  Lemma sc_inner' t : sc t = true -> inner_kind (kind_of t) = true ->
    knode_ok (kind_of t) (children t) = true /\ Forall (fun c => sc c = true) (children t).
  Proof.
    destruct t as [k s a|k cs a]; cbn [kind_of children]; intros Hs Hk.
    - cbn [sc] in Hs. rewrite Hk in Hs. apply andb_prop in Hs. destruct Hs as [Hs _]. apply andb_prop in Hs. destruct Hs as [_ Hs]. split; [exact Hs|constructor].
    - apply (sc_kids _ _ _ Hs).
  Qed.
  (* ---------- code blocks ---------- *)
  Section CodeBlock.
    Variable kids : list bundle.
    Hypothesis Hgood : Forall sgood kids.
    Hypothesis Hscope : Forall (fun b => sc (bt b) = true) kids.

    Definition cb_nodes : list bundle := flat_map (fun b => if kind_eqb (bk b) KCode then bkids b else [b]) kids.

    Lemma cb_nodes_good : Forall sgood cb_nodes /\ Forall (fun b => sc (bt b) = true) cb_nodes /\
                          map bt cb_nodes = flat_map (fun c => if kind_eqb (kind_of c) KCode then children c else [c]) (map bt kids) /\
                          tsigs cb_nodes = tsigs kids.
    Proof.
      unfold cb_nodes. induction kids as [|b l IH]; cbn [flat_map map]; [repeat split; constructor|].
      inversion Hgood as [|? ? Hb Hl]; subst. inversion Hscope as [|? ? Hsb Hsl]; subst.
      destruct (IH Hl Hsl) as (G & S & M & T). unfold bk at 1 3 5 7.
      destruct (kind_eqb (kind_of (bt b)) KCode) eqn:E.
      - pose proof (good_kids _ _ Hb) as Hgk. pose proof (good_shape _ _ Hb) as Hsh.
        assert (Hk : inner_kind (kind_of (bt b)) = true) by (apply keq in E; rewrite E; reflexivity).
        destruct (sc_inner' _ Hsb Hk) as [_ Hck]. rewrite <- Hsh in Hck.
        repeat split.
        + apply Forall_app. split; assumption.
        + apply Forall_app. split; [|exact S]. apply Forall_forall. intros x Hin. rewrite Forall_forall in Hck. apply Hck. apply in_map. exact Hin.
        + rewrite map_app, M, Hsh. reflexivity.
        + rewrite tsigs_app, T, tsigs_cons. f_equal. symmetry. apply tsig_kids'; assumption.
      - repeat split.
        + cbn [app]. constructor; assumption.
        + cbn [app]. constructor; assumption.
        + cbn [app map]. rewrite M. reflexivity.
        + cbn [app]. rewrite !tsigs_cons, T. reflexivity.
    Qed.

    Lemma cons_convert_code_block t c :
      map bt kids = children t -> inner_kind (kind_of t) = true -> sc t = true ->
      lwalkb is_expr (flat_map (fun c => if kind_eqb (kind_of c) KCode then children c else [c]) (map bt kids)) false = true ->
      post (convert_code_block swidth cfg t kids c) (good_doc (tsigs kids)).
    Proof.
      intros Hshape Hk Hsct Hw. unfold convert_code_block.
      match goal with |- post (if ?b then _ else _) _ => destruct b eqn:Edis end.
      { apply post_ret. rewrite <- (tsig_kids' t kids Hshape Hk Hsct). apply good_verbatim.
        apply (child_disabled_ascii _ Hsct). rewrite <- Hshape.
        destruct (find (fun b => kind_eqb (bk b) KCode) kids) as [b|] eqn:Ef; [|discriminate Edis].
        apply find_some in Ef. apply existsb_exists. exists (bt b). split; [apply in_map; exact (proj1 Ef)|exact Edis]. }
      destruct cb_nodes_good as (G & S & M & T). fold cb_nodes. rewrite <- T.
      eapply post_bind.
      - apply list_conv_sig; [apply fresh_keep, fresh_fold, fresh_front, fresh_new|exact S|rewrite M; exact Hw|].
        intros c0 b Hin _. rewrite Forall_forall in G, S. apply (sgood_call b (RExpr c0)); auto.
      - intros l (E & W & F). apply post_ret. apply lst_doc_good; [repeat split; reflexivity|exact E|exact W|exact F].
    Qed.
  End CodeBlock.

  (* ---------- math.rs ---------- *)
  Section Math.
    Variable kids : list bundle.
    Hypothesis Hgood : Forall sgood kids.
    Hypothesis Hscope : Forall (fun b => sc (bt b) = true) kids.

    Lemma cons_convert_math t c :
      map bt kids = children t -> inner_kind (kind_of t) = true -> sc t = true ->
      forallb (fun c => is_expr c || negb (inner_kind (kind_of c))) (map bt kids) = true ->
      post (convert_math swidth t kids c) (good_doc (tsigs kids)).
    Proof.
      intros Hshape Hk Hsct Hcl. unfold convert_math. apply post_bump_then'. unfold check_disabled.
      destruct (a_disabled _) eqn:Edis. { apply post_ret. rewrite <- (tsig_kids' t kids Hshape Hk Hsct). apply good_verbatim. apply disabled_ascii; assumption. }
      eapply post_bind.
      - apply (post_foldM_sig _ (fun st : doc * bool => dsig (fst st)) (fun b => tsig (bt b)) (fun st => wsig (fst st) = true)); [reflexivity|].
        intros [d ah] b Hin Hw. cbn [fst] in *. rewrite Forall_forall in Hgood, Hscope.
        pose proof (Hgood b Hin) as Hsg. pose proof (Hscope b Hin) as Hsb.
        pose proof (proj1 (forallb_forall _ _) Hcl (bt b) (in_map bt _ _ Hin)) as Hkb. cbn beta in Hkb.
        destruct (is_expr (bt b)) eqn:E1.
        { eapply post_bind; [apply (sgood_call b (RExprEmb _) Hsg Hsb); reflexivity|].
          intros x [Hx Wx]. apply post_ret. cbn [fst]. rewrite dsig_append, Hx. split; [reflexivity|apply wsig_append; assumption]. }
        assert (Htok : inner_kind (bk b) = false).
        { unfold bk. destruct (inner_kind (kind_of (bt b))); [cbn in Hkb; discriminate Hkb|reflexivity]. }
        destruct (kind_eqb (bk b) KSpace) eqn:E2.
        { apply post_ret. cbn [fst]. rewrite dsig_append.
          rewrite (sc_quiet _ Hsb) by (unfold bk in E2; apply keq in E2; rewrite E2; reflexivity).
          unfold convert_space_text. destruct (has_lb _); cbn; rewrite app_nil_r; (split; [reflexivity|apply wsig_append; [exact Hw|reflexivity]]). }
        destruct (kind_eqb (bk b) KHash) eqn:E3.
        { apply post_ret. cbn [fst]. rewrite dsig_append, dsig_text.
          rewrite (sc_fixed _ [35] Hsb) by (unfold bk in E3; apply keq in E3; rewrite E3; reflexivity).
          split; [reflexivity|apply wsig_append; [exact Hw|apply wsig_text]]. }
        assert (Htok' : inner_kind (bk b) || blank_kind (bk b) = false) by (rewrite Htok; apply (nb_by_expr _ E2 E1)).
        apply post_ret. cbn [fst]. destruct (good_trivia b Hsb Htok') as [Hd Wd]. rewrite dsig_append, Hd.
        split; [reflexivity|apply wsig_append; assumption].
      - intros [d ah] [E W]. apply post_ret. cbn [fst] in *. split; [exact E|exact W].
    Qed.

    Lemma cons_convert_equation t c :
      lwalkb (fun c => kind_eqb (kind_of c) KMath && negb (match children c with [] => true | _ => false end)) (map bt kids) false = true ->
      post (convert_equation swidth cfg t kids c) (good_doc (tsigs kids)).
    Proof.
      intros Hw. unfold convert_equation.
      set (acc := fun b : bundle => kind_eqb (bk b) KMath && negb (match bkids b with [] => true | _ => false end)).
      assert (Hacc : forall b, In b kids -> acc b = (kind_eqb (kind_of (bt b)) KMath && negb (match children (bt b) with [] => true | _ => false end))).
      { intros b Hin. unfold acc, bk. rewrite Forall_forall in Hgood. rewrite <- (good_shape _ _ (Hgood b Hin)).
        destruct (bkids b); reflexivity. }
      eapply post_bind.
      - eapply post_weaken.
        + apply (lst_process_sig _ _ kids _ acc).
          * split; constructor.
          * cbn [l_peek_hash lst_with_fold_style lst_new].
            assert (G : forall l pend, (forall b, In b l -> In b kids) ->
                      lwalkb (fun c => kind_eqb (kind_of c) KMath && negb (match children c with [] => true | _ => false end)) (map bt l) pend = true ->
                      lwalk acc l pend).
            { induction l as [|n r IH]; intros pend Hsub H; cbn [map lwalkb lwalk] in *.
              - destruct pend; [discriminate|reflexivity].
              - rewrite Forall_forall in Hscope. split; [apply Hscope, Hsub; left; reflexivity|].
                rewrite (Hacc n) by (apply Hsub; left; reflexivity).
                destruct (kind_eqb (kind_of (bt n)) KMath && _); [apply IH; [intros; apply Hsub; right; assumption|exact H]|].
                apply andb_prop in H. destruct H as [Hp H]. split; [destruct pend; [discriminate|reflexivity]|].
                unfold is_comment_b, bk. destruct (is_comment_node (bt n)); [apply IH; [intros; apply Hsub; right; assumption|exact H]|].
                destruct (kind_eqb (kind_of (bt n)) KHash); [apply IH; [intros; apply Hsub; right; assumption|exact H]|].
                apply andb_prop in H. destruct H as [He H]. split; [|apply IH; [intros; apply Hsub; right; assumption|exact H]].
                unfold sig_empty in He. destruct (tsig (bt n)); [reflexivity|discriminate]. }
            apply G; auto.
          * intros c0 n Hin Ha. unfold acc in Ha. rewrite Ha.
            apply andb_prop in Ha. destruct Ha as [Hk _]. rewrite Forall_forall in Hgood, Hscope.
            eapply post_bind; [apply (sgood_call n (RMath c0)); [apply Hgood; exact Hin|apply Hscope; exact Hin|exact Hk]|].
            intros body [Hb Wb]. apply post_ret. eexists. split; [reflexivity|].
            match goal with |- good_doc _ (if ?b then _ else _) => destruct b end; [|split; assumption].
            split; [rewrite dsig_append, Hb; cbn; rewrite app_nil_r; reflexivity|apply wsig_append; [exact Wb|reflexivity]].
          * intros c0 n Hin Ha. unfold acc in Ha. rewrite Ha. apply post_ret. reflexivity.
        + intros l H. exact H.
      - intros l (E & W & F). apply post_ret. apply lst_doc_good; [|exact E|exact W|exact F].
        repeat split; reflexivity.
    Qed.

    Lemma math_child_facts child :
      forallb (fun c => is_generic c || is_expr c || negb (inner_kind (kind_of c))) (map bt kids) = true ->
      In child kids -> is_generic (bt child) = false -> is_expr (bt child) = false -> inner_kind (bk child) = false.
    Proof.
      intros Hcl Hin Hg He. pose proof (proj1 (forallb_forall _ _) Hcl (bt child) (in_map bt _ _ Hin)) as H. cbn beta in H.
      rewrite Hg, He in H. unfold bk. destruct (inner_kind (kind_of (bt child))); [cbn in H; discriminate H|reflexivity].
    Qed.

    Lemma cons_convert_math_attach_like c :
      forallb (fun c => is_generic c || is_expr c || negb (inner_kind (kind_of c))) (map bt kids) = true ->
      post (convert_math_attach_like swidth kids c) (good_doc (tsigs kids)).
    Proof.
      intros Hcl. unfold convert_math_attach_like. apply flow_like_sig.
      apply Forall_forall. intros child Hin. rewrite Forall_forall in Hgood, Hscope.
      pose proof (Hgood child Hin) as Hsg. pose proof (Hscope child Hin) as Hsc.
      split; [exact Hsc|]. intros Hgen c0.
      destruct (is_expr (bt child)) eqn:E1.
      { unfold math_operand_req. destruct (is_code_mode (c_mode c0)); pstep Hsg Hsc; apply post_ret; fsimp; split; assumption. }
      destruct (kind_eqb (bk child) KSpace) eqn:E2.
      { apply post_ret. fsimp. apply (sc_quiet _ Hsc). unfold bk in E2. apply keq in E2. rewrite E2. reflexivity. }
      apply post_ret. fsimp. apply good_trivia; [exact Hsc|]. rewrite (math_child_facts child) by assumption. apply (nb_by_expr _ E2 E1).
    Qed.

    Lemma cons_convert_math_frac c :
      forallb (fun c => is_generic c || is_expr c || negb (inner_kind (kind_of c))) (map bt kids) = true ->
      post (convert_math_frac swidth kids c) (good_doc (tsigs kids)).
    Proof.
      intros Hcl. unfold convert_math_frac. apply flow_like_sig.
      apply Forall_forall. intros child Hin. rewrite Forall_forall in Hgood, Hscope.
      pose proof (Hgood child Hin) as Hsg. pose proof (Hscope child Hin) as Hsc.
      split; [exact Hsc|]. intros Hgen c0.
      destruct (is_expr (bt child)) eqn:E1.
      { unfold math_operand_req. destruct (is_code_mode (c_mode c0)); pstep Hsg Hsc; apply post_ret; fsimp; split; assumption. }
      destruct (kind_eqb (bk child) KSemicolon) eqn:E0.
      { apply post_ret. fsimp. apply good_trivia; [exact Hsc|]. unfold bk in E0. apply keq in E0. unfold bk. rewrite E0. reflexivity. }
      destruct (kind_eqb (bk child) KSpace) eqn:E2; cbn [negb].
      { apply post_ret. fsimp. apply (sc_quiet _ Hsc). unfold bk in E2. apply keq in E2. rewrite E2. reflexivity. }
      apply post_ret. fsimp. apply good_trivia; [exact Hsc|]. rewrite (math_child_facts child) by assumption. apply (nb_by_expr _ E2 E1).
    Qed.
  End Math.

  (* ---------- math.rs: delimited groups ---------- *)
  Lemma removelast_map {A B} (f : A -> B) l : map f (removelast l) = removelast (map f l).
  Proof. induction l as [|x l IH]; [reflexivity|]. destruct l; [reflexivity|]. cbn [removelast map] in *. rewrite IH. reflexivity. Qed.
  Lemma split_last_t_map {A B} (f : A -> B) l :
    split_last_t (map f l) = option_map (fun p => (map f (fst p), f (snd p))) (split_last_t l).
  Proof. unfold split_last_t. rewrite <- map_rev. destruct (rev l); cbn; [reflexivity|]. rewrite map_rev. reflexivity. Qed.
  Lemma delimited_inner_map l : delimited_inner kind_of (map bt l) = map bt (delimited_inner bk l).
  Proof.
    unfold delimited_inner. destruct l as [|x [|y r]]; [reflexivity|reflexivity|]. cbn [map].
    change (bt y :: map bt r) with (map bt (y :: r)). rewrite <- removelast_map.
    destruct (removelast (y :: r)) as [|f q] eqn:E0; cbn [map].
    - reflexivity.
    - unfold bk. destruct (kind_eqb (kind_of (bt f)) KSpace).
      + rewrite split_last_t_map. destruct (split_last_t q) as [[q' l']|]; cbn [option_map fst snd]; [|reflexivity].
        destruct (kind_eqb (kind_of (bt l')) KSpace); reflexivity.
      + change (bt f :: map bt q) with (map bt (f :: q)). rewrite split_last_t_map.
        destruct (split_last_t (f :: q)) as [[q' l']|]; cbn [option_map fst snd]; [|reflexivity].
        destruct (kind_eqb (kind_of (bt l')) KSpace); reflexivity.
  Qed.
  Lemma Forall_removelast (P : bundle -> Prop) l : Forall P l -> Forall P (removelast l).
  Proof. induction 1 as [|x l Hx Hl IH]; [constructor|]. destruct l; [constructor|]. cbn [removelast] in *. constructor; assumption. Qed.
  Lemma Forall_split_last (P : bundle -> Prop) l q x : Forall P l -> split_last_t l = Some (q, x) -> Forall P q.
  Proof.
    intros H E. unfold split_last_t in E. destruct (rev l) as [|y r] eqn:Er; [discriminate|]. inversion E; subst.
    apply Forall_rev. apply Forall_rev in H. rewrite Er in H. inversion H; assumption.
  Qed.
  Lemma Forall_delimited_inner (P : bundle -> Prop) l : Forall P l -> Forall P (delimited_inner bk l).
  Proof.
    intros H. unfold delimited_inner. destruct l as [|x [|y r]]; [constructor|constructor|].
    inversion H as [|? ? _ Hr]; subst. pose proof (Forall_removelast P _ Hr) as H0.
    destruct (removelast (y :: r)) as [|f q]; [constructor|].
    inversion H0 as [|? ? _ Hq]; subst.
    destruct (kind_eqb (bk f) KSpace).
    - destruct (split_last_t q) as [[q' l']|] eqn:Es; [|exact Hq]. destruct (kind_eqb (bk l') KSpace); [|exact Hq].
      apply (Forall_split_last P q q' l' Hq Es).
    - destruct (split_last_t (f :: q)) as [[q' l']|] eqn:Es; [|exact H0]. destruct (kind_eqb (bk l') KSpace); [|exact H0].
      apply (Forall_split_last P (f :: q) q' l' H0 Es).
  Qed.

  Section Delimited.
    Variable kids : list bundle.
    Hypothesis Hgood : Forall sgood kids.
    Hypothesis Hscope : Forall (fun b => sc (bt b) = true) kids.

    Lemma space_text_quiet s : dsig (convert_space_text s) = [] /\ wsig (convert_space_text s) = true.
    Proof. unfold convert_space_text. destruct (has_lb s); split; reflexivity. Qed.

    Lemma cons_delimited_body c inner :
      Forall sgood inner -> Forall (fun b => sc (bt b) = true) inner ->
      all_kept (fun c => kind_eqb (kind_of c) KMath) (map bt inner) = true ->
      post (flow_like swidth c inner (fun c node =>
              if kind_eqb (bk node) KMath then d <- call node (RMath c) ;; ret (fi_tight d)
              else if kind_eqb (bk node) KSpace then ret (fi_tight (if has_lb (tx node) then line else space))
              else ret fi_none)) (good_doc (tsigs inner)).
    Proof.
      intros Hg Hs Hk. apply flow_like_sig. apply Forall_forall. intros child Hin. rewrite Forall_forall in Hg, Hs.
      pose proof (Hg child Hin) as Hsg. pose proof (Hs child Hin) as Hsc.
      pose proof (all_kept_in _ _ (bt child) Hk (in_map bt _ _ Hin)) as Hkeep.
      split; [exact Hsc|]. intros Hgen c0.
      destruct (kind_eqb (bk child) KMath) eqn:E1.
      { pstep Hsg Hsc. apply post_ret. fsimp. split; assumption. }
      destruct (kind_eqb (bk child) KSpace) eqn:E2.
      { apply post_ret. fsimp. rewrite (sc_quiet _ Hsc) by (unfold bk in E2; apply keq in E2; rewrite E2; reflexivity).
        destruct (has_lb _); split; reflexivity. }
      apply post_ret. fsimp. unfold bk in E1. rewrite Hgen, E1 in Hkeep. cbn in Hkeep. unfold sig_empty in Hkeep.
      destruct (tsig (bt child)); [reflexivity|discriminate].
    Qed.

    Lemma cons_convert_math_delimited c :
      match find is_expr (map bt kids), find is_expr (rev (map bt kids)) with
      | Some o, Some cl =>
          let inner := delimited_inner kind_of (map bt kids) in
          str_eqb (tsigl (map bt kids)) (tsig o ++ tsigl inner ++ tsig cl) &&
          all_kept (fun c => kind_eqb (kind_of c) KMath) inner
      | _, _ => false
      end = true ->
      post (convert_math_delimited swidth cfg kids c) (good_doc (tsigs kids)).
    Proof.
      intros Hcl. rewrite <- map_rev, !find_map_bt in Hcl.
      destruct (find (fun b => is_expr (bt b)) kids) as [o|] eqn:Eo; cbn [option_map] in Hcl; [|discriminate].
      destruct (find (fun b => is_expr (bt b)) (rev kids)) as [cl|] eqn:Ec; cbn [option_map] in Hcl; [|discriminate].
      cbv zeta in Hcl. apply andb_prop in Hcl. destruct Hcl as [He Hk]. apply (proj1 (str_eqb_eq _ _)) in He.
      rewrite delimited_inner_map, !tsigl_map in He. rewrite delimited_inner_map in Hk.
      pose proof (Forall_delimited_inner _ _ Hgood) as Hgi. pose proof (Forall_delimited_inner _ _ Hscope) as Hsi.
      pose proof (find_some _ _ Eo) as [Hoin _]. pose proof (find_some _ _ Ec) as [Hcin _]. apply in_rev in Hcin.
      rewrite Forall_forall in Hgood, Hscope.
      unfold convert_math_delimited. destruct kids as [|k0 [|k1 r]]; [intros n d n' H; discriminate H|intros n d n' H; discriminate H|].
      rewrite He. rewrite Eo, Ec.
      (* the code's inner2 is delimited_inner, whatever blanks it peels off *)
      unfold delimited_inner in Hgi, Hsi, Hk |- *. fold (@split_last bundle).
      change (@split_last_t bundle) with (@split_last bundle) in *.
      set (inner0 := removelast (k1 :: r)) in *. clearbody inner0.
      assert (Hfin : forall os cs inner2, dsig os = [] -> wsig os = true -> dsig cs = [] -> wsig cs = true ->
                Forall sgood inner2 -> Forall (fun b => sc (bt b) = true) inner2 ->
                all_kept (fun c => kind_eqb (kind_of c) KMath) (map bt inner2) = true ->
                post (body <- flow_like swidth c inner2 (fun c node =>
                                if kind_eqb (bk node) KMath then d <- call node (RMath c) ;; ret (fi_tight d)
                                else if kind_eqb (bk node) KSpace then ret (fi_tight (if has_lb (tx node) then line else space))
                                else ret fi_none) ;;
                      open <- call o (RExpr c) ;; close <- call cl (RExpr c) ;;
                      ret (enclose open close (append (nest (Z.of_N (tab_spaces cfg)) (append os body)) cs)))
                     (good_doc (tsig (bt o) ++ tsigs inner2 ++ tsig (bt cl)))).
      { intros os cs inner2 Ho Wo Hc Wc Hg2 Hs2 Hk2.
        eapply post_bind; [apply cons_delimited_body; assumption|]. intros body [Hb Wb].
        eapply post_bind; [apply (sgood_call o (RExpr c)); [apply Hgood; exact Hoin|apply Hscope; exact Hoin|reflexivity]|]. intros op [Hop Wop].
        eapply post_bind; [apply (sgood_call cl (RExpr c)); [apply Hgood; exact Hcin|apply Hscope; exact Hcin|reflexivity]|]. intros clo [Hclo Wclo].
        apply post_ret. split.
        - rewrite dsig_enclose, dsig_append, dsig_nest, dsig_append, Ho, Hc, Hb, Hop, Hclo. cbn [app]. rewrite app_nil_r. reflexivity.
        - apply wsig_enclose; try assumption. apply wsig_append; [|exact Wc]. rewrite wsig_nest. apply wsig_append; assumption. }
      destruct inner0 as [|f q].
      - cbn [split_last rev] in *. apply (Hfin DNil DNil []); auto; reflexivity.
      - destruct (kind_eqb (bk f) KSpace) eqn:Ef.
        + destruct (space_text_quiet (tx f)) as [Hs1 Hs2].
          destruct (split_last q) as [[q' l']|] eqn:Es.
          * destruct (kind_eqb (bk l') KSpace) eqn:El.
            -- destruct (space_text_quiet (tx l')) as [Hs3 Hs4]. apply Hfin; auto.
            -- apply Hfin; auto; reflexivity.
          * apply Hfin; auto; reflexivity.
        + destruct (split_last (f :: q)) as [[q' l']|] eqn:Es.
          * destruct (kind_eqb (bk l') KSpace) eqn:El.
            -- destruct (space_text_quiet (tx l')) as [Hs3 Hs4]. apply Hfin; auto; reflexivity.
            -- apply Hfin; auto; reflexivity.
          * apply Hfin; auto; reflexivity.
    Qed.
  End Delimited.

  (* ---------- list items ---------- *)
  Section Items.
    Variable kids : list bundle.
    Hypothesis Hgood : Forall sgood kids.
    Hypothesis Hscope : Forall (fun b => sc (bt b) = true) kids.

    Lemma cons_convert_list_item_like c :
      all_kept (fun c => match kind_of c with
                         | KListMarker | KEnumMarker | KTermMarker | KColon | KParbreak => true
                         | KMarkup => negb (match children c with [] => true | _ => false end)
                         | _ => false end) (map bt kids) = true ->
      post (convert_list_item_like swidth cfg kids c) (good_doc (tsigs kids)).
    Proof.
      intros Hk. unfold convert_list_item_like. eapply post_bind.
      - apply flow_like_sig. apply Forall_forall. intros child Hin. rewrite Forall_forall in Hgood, Hscope.
        pose proof (Hgood child Hin) as Hsg. pose proof (Hscope child Hin) as Hsc.
        pose proof (all_kept_in _ _ (bt child) Hk (in_map bt _ _ Hin)) as Hkeep. cbn beta in Hkeep.
        split; [exact Hsc|]. intros Hgen c0. rewrite Hgen in Hkeep. cbn [orb] in Hkeep.
        assert (Hkids : (match bkids child with [] => true | _ => false end) = (match children (bt child) with [] => true | _ => false end)).
        { rewrite <- (good_shape _ _ Hsg). destruct (bkids child); reflexivity. }
        unfold bk in *. destruct (kind_of (bt child)) eqn:Ekc;
          lazymatch type of Ekc with
          | _ = KListMarker => apply post_ret; fsimp; apply good_tx; [exact Hsc|unfold bk; rewrite Ekc; reflexivity]
          | _ = KEnumMarker => apply post_ret; fsimp; apply good_tx; [exact Hsc|unfold bk; rewrite Ekc; reflexivity]
          | _ = KTermMarker => apply post_ret; fsimp; apply good_tx; [exact Hsc|unfold bk; rewrite Ekc; reflexivity]
          | _ = KColon => apply post_ret; fsimp; apply good_tx; [exact Hsc|unfold bk; rewrite Ekc; reflexivity]
          | _ = KParbreak =>
              apply post_ret; fsimp; rewrite (sc_quiet _ Hsc) by (rewrite Ekc; reflexivity);
              split; [apply dsig_repeat_quiet; reflexivity|apply wsig_repeat; reflexivity]
          | _ = KSpace =>
              cbn [kind_eqb andb]; destruct (has_lb _); apply post_ret; fsimp;
              rewrite (sc_quiet _ Hsc) by (rewrite Ekc; reflexivity); [split; reflexivity|reflexivity]
          | _ = KMarkup =>
              cbn [kind_eqb andb]; rewrite Hkids; destruct (children (bt child)) eqn:Ech; cbn [negb];
              [ apply post_ret; fsimp; cbn in Hkeep; unfold sig_empty in Hkeep; destruct (tsig (bt child)); [reflexivity|discriminate Hkeep]
              | eapply post_bind; [apply (sgood_call child (RMarkup c0 ScItem) Hsg Hsc); cbn; unfold is_kind; rewrite Ekc; reflexivity|];
                intros d Hd; apply post_ret; fsimp; exact Hd ]
          | _ =>
              cbn [kind_eqb andb]; apply post_ret; fsimp; cbn in Hkeep; unfold sig_empty in Hkeep;
              destruct (tsig (bt child)); [reflexivity|discriminate Hkeep]
          end.
      - intros d [Hd Wd]. apply post_ret. split; [rewrite dsig_nest; exact Hd|rewrite wsig_nest; exact Wd].
    Qed.
  End Items.

  (* ---------- closures and for loops (look-ahead state machines) ---------- *)
  Section Stateful.
    Variable kids : list bundle.
    Hypothesis Hgood : Forall sgood kids.
    Hypothesis Hscope : Forall (fun b => sc (bt b) = true) kids.

    Lemma cons_optional_paren_expr c child ub :
      sgood child -> sc (bt child) = true ->
      post (convert_expr_with_optional_paren swidth cfg c child ub) (good_doc (tsig (bt child))).
    Proof.
      intros Hsg Hsc. unfold convert_expr_with_optional_paren.
      destruct (c_supp c || _); [apply (sgood_call child (RExpr c) Hsg Hsc); reflexivity|].
      assert (Hop : forall d op cl, sig op = [] -> sig cl = [] -> good_doc (tsig (bt child)) d ->
                                    good_doc (tsig (bt child)) (optional_paren swidth cfg d op cl)).
      { intros d op cl Ho Hc [Hd Wd]. unfold optional_paren. split.
        - rewrite dsig_group, dsig_append, dsig_nest, dsig_append. cbn [dsig flat_alt]. rewrite Hd. cbn. rewrite app_nil_r. reflexivity.
        - rewrite wsig_group. apply wsig_append; [rewrite wsig_nest; apply wsig_append; [|exact Wd]|].
          + apply wsig_flat_alt; [rewrite dsig_append, dsig_text, Ho; reflexivity|apply wsig_append; [apply wsig_text|reflexivity]|reflexivity].
          + apply wsig_flat_alt; [rewrite dsig_append, dsig_text, Hc; reflexivity|apply wsig_append; [reflexivity|apply wsig_text]|reflexivity]. }
      destruct ub; (eapply post_bind; [apply (sgood_call child (RExpr _) Hsg Hsc); reflexivity|]); intros d Hd; apply post_ret; apply Hop; auto.
    Qed.

    Definition la_code (la : closure_la) : nat := match la with LaName => 0 | LaParams => 1 | LaBody => 2 end.

    Lemma cons_convert_closure t c :
      closure_okb (map bt kids) (match closure_name t with Some _ => 0%nat | None => 1%nat end) = true ->
      post (convert_closure swidth cfg t kids c) (good_doc (tsigs kids)).
    Proof.
      intros Hok. unfold convert_closure.
      apply (flow_like_iter_sig _ _ _ _ (fun la rest => closure_okb (map bt rest) (la_code la) = true)).
      2:{ destruct (closure_name t); exact Hok. }
      clear Hok. induction kids as [|child rest IH]; cbn [fchildren]; [exact I|].
      inversion Hgood as [|? ? Hsg Hgr]; subst. inversion Hscope as [|? ? Hsc Hsr]; subst.
      split; [|apply IH; assumption]. split; [exact Hsc|]. split.
      - (* skipped children keep the state *)
        intros Hskip la Hla. cbn [map closure_okb] in Hla.
        apply Bool.orb_true_iff in Hskip. destruct Hskip as [Hg|Hsp].
        + rewrite Hg in Hla. cbn in Hla. exact Hla.
        + unfold bk in Hsp. apply keq in Hsp. unfold is_generic, is_comment_node, is_expr in Hla. rewrite !Hsp in Hla. cbn in Hla.
          destruct la; cbn in Hla; apply andb_prop in Hla; apply Hla.
      - intros Hgen la c0 Hla. cbn [map closure_okb] in Hla. rewrite Hgen in Hla. cbn [orb] in Hla. unfold bk.
        destruct (kind_eqb (kind_of (bt child)) KEq) eqn:E1.
        { apply post_ret. cbn [fst snd]. split; [fsimp; apply (good_lit_fixed _ _ Hsc); unfold bk; apply keq in E1; rewrite E1; reflexivity|exact Hla]. }
        destruct (kind_eqb (kind_of (bt child)) KArrow) eqn:E2.
        { apply post_ret. cbn [fst snd]. split; [fsimp; apply (good_lit_fixed _ _ Hsc); unfold bk; apply keq in E2; rewrite E2; reflexivity|exact Hla]. }
        cbn [orb] in Hla.
        destruct la; cbn [la_code] in Hla.
        + destruct (kind_eqb (kind_of (bt child)) KIdent) eqn:E3.
          * apply post_ret. cbn [fst snd]. split; [fsimp; apply good_trivia; [exact Hsc|unfold bk; apply keq in E3; rewrite E3; reflexivity]|exact Hla].
          * apply andb_prop in Hla. destruct Hla as [He Hla]. apply post_ret. cbn [fst snd]. split; [fsimp|exact Hla].
            unfold sig_empty in He. destruct (tsig (bt child)); [reflexivity|discriminate].
        + destruct (kind_eqb (kind_of (bt child)) KParams) eqn:E3.
          * eapply post_bind; [apply (sgood_call child (RParams c0 _) Hsg Hsc); cbn; unfold is_kind; exact E3|].
            intros d Hd. apply post_ret. cbn [fst snd]. split; [fsimp; exact Hd|exact Hla].
          * apply andb_prop in Hla. destruct Hla as [He Hla]. apply post_ret. cbn [fst snd]. split; [fsimp|exact Hla].
            unfold sig_empty in He. destruct (tsig (bt child)); [reflexivity|discriminate].
        + destruct (is_expr (bt child)) eqn:E3.
          * eapply post_bind; [apply cons_optional_paren_expr; assumption|].
            intros d Hd. apply post_ret. cbn [fst snd]. split; [fsimp; exact Hd|exact Hla].
          * apply andb_prop in Hla. destruct Hla as [He Hla]. apply post_ret. cbn [fst snd]. split; [fsimp|exact Hla].
            unfold sig_empty in He. destruct (tsig (bt child)); [reflexivity|discriminate].
    Qed.

    Definition for_code (la : for_la) : nat := match la with LaPattern => 0 | LaIterable => 1 | LaForBody => 2 end.

    Lemma cons_convert_for_loop c :
      for_okb (map bt kids) 0 = true -> post (convert_for_loop swidth cfg kids c) (good_doc (tsigs kids)).
    Proof.
      intros Hok. unfold convert_for_loop.
      apply (flow_like_iter_sig _ _ _ _ (fun la rest => for_okb (map bt rest) (for_code la) = true)); [|exact Hok].
      clear Hok. induction kids as [|child rest IH]; cbn [fchildren]; [exact I|].
      inversion Hgood as [|? ? Hsg Hgr]; subst. inversion Hscope as [|? ? Hsc Hsr]; subst.
      split; [|apply IH; assumption]. split; [exact Hsc|]. split.
      - intros Hskip la Hla. cbn [map for_okb] in Hla.
        apply Bool.orb_true_iff in Hskip. destruct Hskip as [Hg|Hsp].
        + rewrite Hg in Hla. exact Hla.
        + unfold bk in Hsp. apply keq in Hsp. unfold is_generic, is_comment_node, is_pattern, is_expr in Hla. rewrite !Hsp in Hla. cbn in Hla.
          destruct la; cbn in Hla; apply andb_prop in Hla; apply Hla.
      - intros Hgen la c0 Hla. cbn [map for_okb] in Hla. rewrite Hgen in Hla.
        destruct la; cbn [for_code] in Hla.
        + destruct (is_pattern (bt child)) eqn:E3.
          * eapply post_bind; [apply (sgood_call child (RPattern c0) Hsg Hsc); reflexivity|].
            intros d Hd. apply post_ret. cbn [fst snd]. split; [fsimp; exact Hd|exact Hla].
          * apply andb_prop in Hla. destruct Hla as [He Hla]. apply post_ret. cbn [fst snd]. split; [fsimp|exact Hla].
            unfold sig_empty in He. destruct (tsig (bt child)); [reflexivity|discriminate].
        + destruct (is_expr (bt child)) eqn:E3.
          * eapply post_bind; [apply cons_optional_paren_expr; assumption|].
            intros d Hd. apply post_ret. cbn [fst snd]. split; [fsimp; exact Hd|exact Hla].
          * apply andb_prop in Hla. destruct Hla as [He Hla]. apply post_ret. cbn [fst snd]. split; [fsimp|exact Hla].
            unfold sig_empty in He. destruct (tsig (bt child)); [reflexivity|discriminate].
        + destruct (is_expr (bt child)) eqn:E3.
          * eapply post_bind; [apply (sgood_call child (RExpr c0) Hsg Hsc); reflexivity|].
            intros d Hd. apply post_ret. cbn [fst snd]. split; [fsimp; exact Hd|exact Hla].
          * apply andb_prop in Hla. destruct Hla as [He Hla]. apply post_ret. cbn [fst snd]. split; [fsimp|exact Hla].
            unfold sig_empty in He. destruct (tsig (bt child)); [reflexivity|discriminate].
    Qed.
  End Stateful.

  (* ---------- code_chain.rs: dot chains ---------- *)
  Lemma post_and {A} (m : M A) P Q : post m P -> post m Q -> post m (fun a => P a /\ Q a).
  Proof. intros HP HQ n a n' E. split; [apply (HP n a n' E)|apply (HQ n a n' E)]. Qed.

  Lemma foldM_app_run {A S} (f : S -> A -> M S) l1 l2 : forall s n a n',
    foldM f (l1 ++ l2) s n = Ok (a, n') ->
    exists s' n1, foldM f l1 s n = Ok (s', n1) /\ foldM f l2 s' n1 = Ok (a, n').
  Proof.
    induction l1 as [|x l1 IH]; intros s n a n' E; cbn [app foldM] in *.
    - exists s, n. split; [reflexivity|exact E].
    - unfold bind in *. destruct (f s x n) as [[s1 n1]|]; [|discriminate]. apply IH. exact E.
  Qed.
  Lemma post_foldM_app {A S} (f : S -> A -> M S) l1 l2 s (P Q : S -> Prop) :
    post (foldM f l1 s) P -> (forall s', P s' -> post (foldM f l2 s') Q) -> post (foldM f (l1 ++ l2) s) Q.
  Proof.
    intros H1 H2 n a n' E. destruct (foldM_app_run f l1 l2 s n a n' E) as (s' & n1 & E1 & E2).
    apply (H2 s' (H1 n s' n1 E1) n1 a n' E2).
  Qed.

  Definition cw_all (ch : chain) : Prop := Forall (fun it => cwsig it = true) (ch_items ch).
  Lemma csigs_one x : csigs [x] = csig x.
  Proof. unfold csigs. cbn. apply app_nil_r. Qed.
  Lemma csigs_snoc its x : csigs (its ++ [x]) = csigs its ++ csig x.
  Proof. rewrite csigs_app, csigs_one. reflexivity. Qed.
  Lemma cw_snoc its x : Forall (fun it => cwsig it = true) its -> cwsig x = true -> Forall (fun it => cwsig it = true) (its ++ [x]).
  Proof. intros H Hx. apply Forall_app. split; [exact H|constructor; [exact Hx|constructor]]. Qed.

  Definition dot_opc (s : unit) (child : bundle) : unit * option doc :=
    (s, if kind_eqb (bk child) KDot then Some (text [46]) else None).
  Definition dot_rhs (_ : ctx) (child : bundle) : M (option doc) :=
    if kind_eqb (bk child) KIdent then ret (Some (convert_trivia swidth (bt child))) else ret None.

  Definition sim_dot_step (c : tree) (seen : bool) : str * bool :=
    if kind_eqb (kind_of c) KDot then ([46], true)
    else if is_comment_node c then (tsig c, seen)
    else if kind_eqb (kind_of c) KSpace then ([], seen)
    else if seen then ((if kind_eqb (kind_of c) KIdent then tsig c else []), seen)
    else ([], seen).
  Lemma sim_dot_cons c r seen : sim_dot (c :: r) seen = fst (sim_dot_step c seen) ++ sim_dot r (snd (sim_dot_step c seen)).
  Proof.
    cbn [sim_dot]. unfold sim_dot_step. destruct (kind_eqb (kind_of c) KDot); [reflexivity|].
    destruct (is_comment_node c); [reflexivity|]. destruct (kind_eqb (kind_of c) KSpace); [reflexivity|].
    destruct seen; reflexivity.
  Qed.

  Lemma dot_inner_step_sig c k ch ca seen :
    sc (bt k) = true -> cw_all ch ->
    post (chain_inner_step swidth c dot_opc dot_rhs (ch, ca, seen, tt) k)
         (fun st => csigs (ch_items (fst (fst (fst st)))) = csigs (ch_items ch) ++ fst (sim_dot_step (bt k) seen) /\
                    cw_all (fst (fst (fst st))) /\ snd (fst st) = snd (sim_dot_step (bt k) seen) /\ snd st = tt).
  Proof.
    intros Hk Hw. unfold chain_inner_step, dot_opc, sim_dot_step, bk, is_comment_b.
    destruct (kind_eqb (kind_of (bt k)) KDot) eqn:E1.
    { apply post_ret. cbn [fst snd ch_items]. rewrite csigs_snoc. cbn [csig]. rewrite dsig_text.
      repeat split. apply cw_snoc; [exact Hw|apply wsig_text]. }
    destruct (is_comment_node (bt k)) eqn:E2.
    { eapply post_bind; [apply post_comment; assumption|]. intros d [Hd Wd]. apply post_ret. cbn [fst snd ch_items].
      rewrite csigs_snoc. repeat split; [destruct ca; cbn [csig]; rewrite Hd; reflexivity|].
      apply cw_snoc; [exact Hw|destruct ca; exact Wd]. }
    destruct (kind_eqb (kind_of (bt k)) KSpace) eqn:E3.
    { destruct (has_lb _); apply post_ret; cbn [fst snd]; [|rewrite app_nil_r; auto].
      destruct (chain_last_is_comment _); cbn [ch_items]; [|rewrite app_nil_r; auto].
      rewrite csigs_snoc. cbn [csig]. repeat split. apply cw_snoc; [exact Hw|reflexivity]. }
    destruct seen.
    - unfold dot_rhs, bk. destruct (kind_eqb (kind_of (bt k)) KIdent) eqn:E4.
      + eapply post_bind; [apply post_ret; exact eq_refl|]. intros o <-. apply post_ret. cbn [fst snd ch_items].
        destruct (good_trivia k Hk) as [Hd Wd]; [unfold bk; apply keq in E4; rewrite E4; reflexivity|].
        rewrite csigs_snoc. cbn [csig]. rewrite Hd. repeat split. apply cw_snoc; assumption.
      + eapply post_bind; [apply post_ret; exact eq_refl|]. intros o <-. apply post_ret. cbn [fst snd]. rewrite app_nil_r. auto.
    - apply post_ret. cbn [fst snd]. rewrite app_nil_r. auto.
  Qed.

  Lemma dot_inner_sig c ks : forall ch ca seen,
    Forall (fun b => sc (bt b) = true) ks -> cw_all ch ->
    post (foldM (chain_inner_step swidth c dot_opc dot_rhs) ks (ch, ca, seen, tt))
         (fun st => csigs (ch_items (fst (fst (fst st)))) = csigs (ch_items ch) ++ sim_dot (map bt ks) seen /\ cw_all (fst (fst (fst st)))).
  Proof.
    induction ks as [|k ks IH]; intros ch ca seen Hs Hw; cbn [foldM map].
    - apply post_ret. cbn [fst sim_dot]. rewrite app_nil_r. auto.
    - inversion Hs as [|? ? Hk Hks]; subst. rewrite sim_dot_cons.
      eapply post_bind; [apply dot_inner_step_sig; assumption|].
      intros [[[ch1 ca1] seen1] []] (E1 & W1 & S1 & _). cbn [fst snd] in *. subst seen1.
      eapply post_weaken; [apply IH; assumption|]. intros st [E W]. rewrite E, E1, <- app_assoc. auto.
  Qed.

  Lemma tree_height_child c k cs a : In c cs -> (tree_height c < tree_height (Inner k cs a))%nat.
  Proof.
    cbn [tree_height]. induction cs as [|x r IH]; intros Hin; [contradiction|]. cbn [fold_right].
    destruct Hin as [->|Hin]; [lia|]. specialize (IH Hin). lia.
  Qed.
  Lemma tree_height_pos t : (1 <= tree_height t)%nat.
  Proof. destruct t; cbn; lia. Qed.

  Definition cg (b : bundle) : Prop := sgood b /\ sc (bt b) = true /\ is_expr (bt b) = true.

  Lemma cg_kid b k : sgood b -> sc (bt b) = true -> inner_kind (bk b) = true -> In k (bkids b) -> sgood k /\ sc (bt k) = true.
  Proof.
    intros Hg Hs Hk Hin. split.
    - pose proof (good_kids _ _ Hg) as H. rewrite Forall_forall in H. apply H. exact Hin.
    - destruct (sc_inner' _ Hs Hk) as [_ Hc]. rewrite <- (good_shape _ _ Hg) in Hc. rewrite Forall_forall in Hc.
      apply Hc. apply in_map. exact Hin.
  Qed.

  Definition dot_fb (c : ctx) (node : bundle) : M (option doc) :=
    if kind_eqb (bk node) KFuncCall then
      match args_of_call node with
      | Some a => d <- call a (RArgs c) ;; ret (Some d)
      | None => ret (Some DNil)
      end
    else if is_expr (bt node) then d <- call node (RExpr c) ;; ret (Some d)
    else ret None.
  Definition dot_pred (node : bundle) : bool := kind_eqb (bk node) KFieldAccess.

  Lemma csigs_glue r body fb : csigs (rev r ++ [CBody (append body fb)]) = csigs (rev r ++ [CBody body]) ++ dsig fb.
  Proof. rewrite !csigs_snoc. cbn [csig]. rewrite dsig_append, app_assoc. reflexivity. Qed.

  Lemma first_kid_hd b e rest :
    map bt (bkids b) = e :: rest -> is_expr e = true ->
    exists b', first_kid is_expr b = Some b' /\ bt b' = e /\ In b' (bkids b).
  Proof.
    intros Hm He. unfold first_kid. destruct (bkids b) as [|x l]; [discriminate|]. cbn in Hm. inversion Hm; subst.
    cbn [find]. rewrite He. exists x. repeat split. left. reflexivity.
  Qed.

  Lemma dot_outer_step_sig c b ch ca :
    cg b -> cw_all ch ->
    match dot_chain_next b with Some b' => csigs (ch_items ch) = tsig (bt b') | None => ch_items ch = [] end ->
    post (chain_outer_step swidth c dot_pred dot_opc dot_rhs dot_fb (ch, ca, tt) b)
         (fun st => csigs (ch_items (fst (fst st))) = tsig (bt b) /\ cw_all (fst (fst st)) /\ snd st = tt).
  Proof.
    intros (Hg & Hs & He) Hw Hprev. unfold chain_outer_step, dot_pred, dot_chain_next in *. unfold bk in *.
    pose proof (good_shape _ _ Hg) as Hshape.
    destruct (kind_eqb (kind_of (bt b)) KFieldAccess) eqn:Efa.
    - apply keq in Efa. rewrite Efa in Hprev.
      assert (Hk : inner_kind (kind_of (bt b)) = true) by (rewrite Efa; reflexivity).
      destruct (sc_inner' _ Hs Hk) as [Hcl Hck]. rewrite Efa in Hcl. cbn [knode_ok] in Hcl.
      destruct (children (bt b)) as [|e rest] eqn:Ecs; [discriminate|].
      apply andb_prop in Hcl. destruct Hcl as [Hcl _]. apply andb_prop in Hcl. destruct Hcl as [Hcl _].
      apply andb_prop in Hcl. destruct Hcl as [Hie Heq]. apply (proj1 (str_eqb_eq _ _)) in Heq.
      destruct (first_kid_hd b e rest Hshape Hie) as (b' & Hfk & Hbt & Hin). rewrite Hfk in Hprev.
      eapply post_bind.
      + apply (dot_inner_sig c (bkids b) (mk_chain (ch_items ch) (ch_op_num ch + 1) (ch_has_comment ch)) ca false); [|exact Hw].
        rewrite <- Hshape in Hck. apply Forall_forall. intros k Hink. rewrite Forall_forall in Hck. apply Hck. apply in_map. exact Hink.
      + intros [[[ch1 ca1] so1] s1] [E W]. cbn [fst snd ch_items] in *. apply post_ret. cbn [fst snd]. destruct s1.
        assert (Hsh0 : map bt (bkids b) = children (bt b)) by (rewrite Ecs; exact Hshape).
        split; [|auto]. rewrite E, Hprev, Hbt, Hshape, <- Heq.
        rewrite (tsig_kids' (bt b) (bkids b) Hsh0 Hk Hs). rewrite <- tsigl_map, Hshape. reflexivity.
    - unfold dot_fb, bk. destruct (kind_eqb (kind_of (bt b)) KFuncCall) eqn:Efc.
      + apply keq in Efc. rewrite Efc in Hprev.
        assert (Hk : inner_kind (kind_of (bt b)) = true) by (rewrite Efc; reflexivity).
        destruct (sc_inner' _ Hs Hk) as [Hcl Hck]. rewrite Efc in Hcl. cbn [knode_ok] in Hcl. rewrite <- Hshape in Hcl.
        rewrite find_map_bt in Hcl. unfold first_kid in Hprev.
        destruct (find (fun k => is_expr (bt k)) (bkids b)) as [cal|] eqn:Ef; cbn [option_map] in Hcl; [|discriminate].
        apply andb_prop in Hcl. destruct Hcl as [_ Heq]. apply (proj1 (str_eqb_eq _ _)) in Heq.
        rewrite tsigl_map, <- map_rev, (find_map_bt (fun c => kind_eqb (kind_of c) KArgs)) in Heq.
        rewrite (tsig_kids' (bt b) (bkids b) Hshape Hk Hs), Heq.
        unfold args_of_call, last_kid, is_kind.
        assert (Hglue : forall fb X, good_doc X fb ->
                  post (match rev (ch_items ch) with
                        | CBody body :: r => ret (mk_chain (rev r ++ [CBody (append body fb)]) (ch_op_num ch) (ch_has_comment ch), ca, tt)
                        | _ => ret (mk_chain (ch_items ch ++ [CBody fb]) (ch_op_num ch) (ch_has_comment ch), ca, tt)
                        end)
                       (fun st => csigs (ch_items (fst (fst st))) = tsig (bt cal) ++ X /\ cw_all (fst (fst st)) /\ snd st = tt)).
        { intros fb X [Hd Wd]. destruct (rev (ch_items ch)) as [|it r] eqn:Er.
          - apply post_ret. cbn [fst snd ch_items]. rewrite csigs_snoc, Hprev. cbn [csig]. rewrite Hd. repeat split. apply cw_snoc; assumption.
          - assert (Ei : ch_items ch = rev r ++ [it]) by (rewrite <- (rev_involutive (ch_items ch)), Er; reflexivity).
            destruct it; try (apply post_ret; cbn [fst snd ch_items]; rewrite csigs_snoc, Hprev; cbn [csig]; rewrite Hd; repeat split; apply cw_snoc; assumption).
            apply post_ret. cbn [fst snd ch_items]. rewrite csigs_glue, <- Ei, Hprev, Hd. repeat split.
            unfold cw_all in *. cbn [ch_items]. rewrite Ei in Hw. apply Forall_app in Hw. destruct Hw as [Hr Hl]. inversion Hl; subst.
            apply cw_snoc; [exact Hr|]. cbn [cwsig] in *. apply wsig_append; assumption. }
        destruct (find (fun k => kind_eqb (kind_of (bt k)) KArgs) (rev (bkids b))) as [a|] eqn:Ea; cbn [option_map].
        * pose proof (find_some _ _ Ea) as [Hain Hak]. apply in_rev in Hain. destruct (cg_kid b a Hg Hs Hk Hain) as [Hga Hsa].
          apply (post_bind _ _ (fun o => exists d, o = Some d /\ good_doc (tsig (bt a)) d)).
          -- eapply post_bind; [apply (sgood_call a (RArgs c) Hga Hsa); exact Hak|]. intros d Hd. apply post_ret. exists d. auto.
          -- intros o (d & -> & Hd). apply Hglue. exact Hd.
        * apply (post_bind _ _ (fun o => o = Some DNil)); [apply post_ret; reflexivity|]. intros o ->.
          apply (Hglue DNil []). apply good_nil.
      + (* any other expression: the innermost node of the chain *)
        assert (Hnone : ch_items ch = []).
        { destruct (kind_of (bt b)); try exact Hprev; discriminate. }
        rewrite He. apply (post_bind _ _ (fun o => exists d, o = Some d /\ good_doc (tsig (bt b)) d)).
        * eapply post_bind; [apply (sgood_call b (RExpr c) Hg Hs); reflexivity|]. intros d Hd. apply post_ret. exists d. auto.
        * intros o (d & -> & [Hd Wd]). rewrite Hnone. cbn [rev app]. apply post_ret. cbn [fst snd ch_items].
          rewrite csigs_one. cbn [csig]. repeat split; [exact Hd|]. constructor; [exact Wd|constructor].
  Qed.

  Lemma dot_chain_fold_sig c : forall d b,
    (tree_height (bt b) <= d)%nat -> cg b ->
    post (foldM (chain_outer_step swidth c dot_pred dot_opc dot_rhs dot_fb) (rev (resolve_chain dot_chain_next d b)) (chain_new, false, tt))
         (fun st => csigs (ch_items (fst (fst st))) = tsig (bt b) /\ cw_all (fst (fst st)) /\ snd st = tt).
  Proof.
    induction d as [|d IH]; intros b Hh Hcg.
    - pose proof (tree_height_pos (bt b)). lia.
    - cbn [resolve_chain]. destruct (dot_chain_next b) as [b'|] eqn:En.
      + cbn [rev].
        assert (Hkid : In b' (bkids b) /\ is_expr (bt b') = true /\ inner_kind (bk b) = true).
        { unfold dot_chain_next, first_kid in En. unfold bk in *.
          destruct (kind_of (bt b)) eqn:Ekb; try discriminate En; apply find_some in En; destruct En; repeat split; auto. }
        destruct Hkid as (Hin & Hie & Hik). destruct Hcg as (Hg & Hs & He). destruct (cg_kid b b' Hg Hs Hik Hin) as [Hg' Hs'].
        assert (Hh' : (tree_height (bt b') <= d)%nat).
        { pose proof (good_shape _ _ Hg) as Hsh. destruct (bt b) as [k s a|k cs a] eqn:Eb; cbn [children] in Hsh.
          - destruct (bkids b); [contradiction|discriminate].
          - assert (In (bt b') cs) by (rewrite <- Hsh; apply in_map; exact Hin).
            pose proof (tree_height_child (bt b') k cs a H). lia. }
        eapply post_foldM_app; [apply (IH b' Hh'); exact (conj Hg' (conj Hs' Hie))|].
        intros [[ch ca] s] (E & W & Es). cbn [fst snd] in *. subst s. cbn [foldM].
        eapply post_bind; [apply dot_outer_step_sig; [exact (conj Hg (conj Hs He))|exact W|rewrite En; exact E]|].
        intros st H. apply post_ret. exact H.
      + cbn [rev app foldM]. eapply post_bind; [apply dot_outer_step_sig; [exact Hcg|constructor|rewrite En; reflexivity]|].
        intros st H. apply post_ret. exact H.
  Qed.

  Theorem cons_convert_dot_chain self c :
    cg self -> post (convert_dot_chain swidth cfg self c) (good_doc (tsig (bt self))).
  Proof.
    intros Hcg. unfold convert_dot_chain.
    eapply post_bind.
    - apply post_and; [|apply (chain_process_attached_ok swidth)].
      unfold chain_process. apply (post_bind _ _ (fun st : chain * bool * unit => csigs (ch_items (fst (fst st))) = tsig (bt self) /\ cw_all (fst (fst st)))).
      + eapply post_weaken; [apply (dot_chain_fold_sig c (tree_height (bt self)) self (le_n _) Hcg)|]. intros st (E & W & _). auto.
      + intros [[ch ca] s] [E W]. apply post_ret. cbn [fst] in *. exact (conj E W).
    - intros ch [[E W] Hatt]. unfold chain_doc, lift. intros n d n' H.
      destruct (chain_print_doc swidth (tab_spaces cfg) ch (mk_cs true false)) as [d0|] eqn:Ep; [|discriminate].
      inversion H; subst. destruct (chain_print_sig swidth (tab_spaces cfg) ch _ d Hatt Ep) as [Hd Hwd].
      split; [rewrite Hd; exact E|apply Hwd; exact W].
  Qed.

  (* ---------- try_convert_dot_chain_plain ---------- *)
  Lemma field_token b : sc (bt b) = true -> inner_kind (kind_of (bt b)) = true -> tsig (field_of b) = sig (text_of (field_of b)).
  Proof.
    intros Hs Hk. unfold field_of, field_access_field, cast_last, find_last, or_default.
    destruct (find (is_kind KIdent) (rev (children (bt b)))) as [x|] eqn:Ef; [|reflexivity].
    apply find_some in Ef. destruct Ef as [Hin Hkx]. apply in_rev in Hin.
    destruct (sc_inner' _ Hs Hk) as [_ Hc]. rewrite Forall_forall in Hc.
    apply sc_token; [apply Hc; exact Hin|]. unfold is_kind in Hkx. apply keq in Hkx. rewrite Hkx. reflexivity.
  Qed.

  Lemma last_nonempty {A} (l : list A) d1 d2 : l <> [] -> last l d1 = last l d2.
  Proof. induction l as [|x l IH]; intros H; [contradiction|]. destruct l; [reflexivity|]. cbn [last] in *. apply IH. discriminate. Qed.
  Lemma last_cons_ne {A} (x : A) l d1 d2 : l <> [] -> last (x :: l) d1 = last l d2.
  Proof. intros H. destruct l; [contradiction|]. cbn [last]. apply (last_nonempty (a :: l)). discriminate. Qed.
  Lemma resolve_chain_ne next d b : resolve_chain next d b <> [].
  Proof. destruct d; cbn; [discriminate|]. destruct (next b); discriminate. Qed.

  Definition plain_step (d : doc) (b : bundle) : doc :=
    if kind_eqb (bk b) KFieldAccess then append d (append (text [46]) (convert_trivia swidth (field_of b))) else d.

  (* along a resolved chain (outermost first) whose members other than the first are field accesses without comments
     and whose innermost node is an identifier, the plain document has the signature of the member it stops at *)
  Lemma plain_fold_sig : forall d b,
    (tree_height (bt b) <= d)%nat -> sgood b -> sc (bt b) = true ->
    existsb has_comment_children_b (resolve_chain dot_chain_next d b) = false ->
    forallb (fun x => negb (kind_eqb (bk x) KFuncCall)) (resolve_chain dot_chain_next d b) = true ->
    kind_eqb (bk (last (resolve_chain dot_chain_next d b) b)) KIdent = true ->
    good_doc (tsig (bt b)) (fold_left plain_step (rev (resolve_chain dot_chain_next d b)) (convert_trivia swidth (bt (last (resolve_chain dot_chain_next d b) b)))).
  Proof.
    induction d as [|d IH]; intros b Hh Hg Hs; [pose proof (tree_height_pos (bt b)); lia|].
    cbn [resolve_chain]. destruct (dot_chain_next b) as [b'|] eqn:En.
    - intros Hnc Hnf Hid. cbn [existsb forallb] in Hnc, Hnf.
      apply Bool.orb_false_elim in Hnc. destruct Hnc as [Hncb Hnc]. apply andb_prop in Hnf. destruct Hnf as [Hnfb Hnf].
      assert (Hkid : In b' (bkids b) /\ inner_kind (bk b) = true /\ kind_of (bt b) = KFieldAccess).
      { unfold dot_chain_next, first_kid in En. unfold bk in *.
        destruct (kind_of (bt b)) eqn:Ekb; try discriminate En; try discriminate Hnfb; apply find_some in En; destruct En; repeat split; auto. }
      destruct Hkid as (Hin & Hik & Efa). destruct (cg_kid b b' Hg Hs Hik Hin) as [Hg' Hs'].
      pose proof (good_shape _ _ Hg) as Hshape.
      assert (Hh' : (tree_height (bt b') <= d)%nat).
      { destruct (bt b) as [k s a|k cs a] eqn:Eb; cbn [children] in Hshape.
        - destruct (bkids b); [contradiction|discriminate].
        - assert (In (bt b') cs) by (rewrite <- Hshape; apply in_map; exact Hin).
          pose proof (tree_height_child (bt b') k cs a H). lia. }
      assert (Hlast : last (b :: resolve_chain dot_chain_next d b') b = last (resolve_chain dot_chain_next d b') b').
      { apply last_cons_ne. apply resolve_chain_ne. }
      rewrite Hlast in *. cbn [rev]. rewrite fold_left_app. cbn [fold_left].
      destruct (IH b' Hh' Hg' Hs' Hnc Hnf Hid) as [Hd Wd].
      unfold plain_step at 1. unfold bk at 1. rewrite Efa. rewrite kind_eqb_refl.
      (* the clause of the field access b *)
      destruct (sc_inner' _ Hs Hik) as [Hcl _]. unfold bk in Hik. rewrite Efa in Hcl. cbn [knode_ok] in Hcl.
      destruct (children (bt b)) as [|e rest] eqn:Ecs; [discriminate|].
      apply andb_prop in Hcl. destruct Hcl as [Hcl _]. apply andb_prop in Hcl. destruct Hcl as [Hcl Hnoc].
      apply andb_prop in Hcl. destruct Hcl as [Hie Heq]. apply (proj1 (str_eqb_eq _ _)) in Heq.
      assert (Hsh0 : map bt (bkids b) = children (bt b)) by (rewrite Ecs; exact Hshape).
      destruct (first_kid_hd b e rest Hshape Hie) as (b2 & Hfk & Hbt & _).
      assert (b2 = b') by (unfold dot_chain_next in En; unfold bk in En; rewrite Efa in En; congruence). subst b2.
      unfold has_comment_children_b, is_comment_b in Hncb. rewrite <- (existsb_map_bt is_comment_node), Hshape in Hncb.
      rewrite Hncb in Hnoc. cbn [orb] in Hnoc. apply (proj1 (str_eqb_eq _ _)) in Hnoc.
      assert (Hf : field_of b = field_access_field (Inner KFieldAccess (e :: rest) no_attrs)).
      { unfold field_of, field_access_field, cast_last. cbn [children]. rewrite Ecs. reflexivity. }
      assert (Hfield : good_doc (tsig (field_of b)) (convert_trivia swidth (field_of b))).
      { unfold convert_trivia. rewrite (field_token b Hs Hik). apply good_text. }
      split.
      + rewrite !dsig_append, dsig_text, Hd. destruct Hfield as [Hfd _]. rewrite Hfd.
        rewrite (tsig_kids' (bt b) (bkids b) Hsh0 Hik Hs), <- tsigl_map, Hshape, Heq, Hnoc, Hbt, Hf. reflexivity.
      + apply wsig_append; [exact Wd|]. apply wsig_append; [apply wsig_text|apply Hfield].
    - intros Hnc Hnf Hid. cbn [last rev app fold_left] in *.
      apply keq in Hid. unfold plain_step, bk in *. rewrite Hid. replace (kind_eqb KIdent KFieldAccess) with false by reflexivity.
      apply good_trivia; [exact Hs|]. unfold bk. rewrite Hid. reflexivity.
  Qed.

  Definition opt_good (target : str) (o : option doc) : Prop := match o with Some d => good_doc target d | None => True end.

  Lemma filter_len1_tail (p : bundle -> bool) x l : p x = true -> length (filter p (x :: l)) = 1%nat -> forallb (fun y => negb (p y)) l = true.
  Proof.
    intros Hx H. cbn [filter] in H. rewrite Hx in H. cbn in H. inversion H as [H0]. clear H.
    induction l as [|y l IH]; [reflexivity|]. cbn [filter forallb] in *. destruct (p y); [discriminate|]. cbn. apply IH. exact H0.
  Qed.

  Lemma funcall_eq self :
    sgood self -> sc (bt self) = true -> kind_of (bt self) = KFuncCall ->
    exists cal, first_kid is_expr self = Some cal /\ In cal (bkids self) /\
      tsig (bt self) = tsig (bt cal) ++ match args_of_call self with Some a => tsig (bt a) | None => [] end /\
      (forall a, args_of_call self = Some a -> In a (bkids self) /\ kind_eqb (kind_of (bt a)) KArgs = true).
  Proof.
    intros Hg Hs Ek. pose proof (good_shape _ _ Hg) as Hshape.
    assert (Hk : inner_kind (kind_of (bt self)) = true) by (rewrite Ek; reflexivity).
    destruct (sc_inner' _ Hs Hk) as [Hcl _]. rewrite Ek in Hcl. cbn [knode_ok] in Hcl. rewrite <- Hshape in Hcl.
    rewrite find_map_bt in Hcl. unfold first_kid.
    destruct (find (fun k => is_expr (bt k)) (bkids self)) as [cal|] eqn:Ef; cbn [option_map] in Hcl; [|discriminate].
    apply andb_prop in Hcl. destruct Hcl as [_ Heq]. apply (proj1 (str_eqb_eq _ _)) in Heq.
    rewrite tsigl_map, <- map_rev, (find_map_bt (fun c => kind_eqb (kind_of c) KArgs)) in Heq.
    exists cal. split; [reflexivity|]. split; [apply (find_some _ _ Ef)|]. split.
    - rewrite (tsig_kids' _ _ Hshape Hk Hs), Heq. unfold args_of_call, last_kid, is_kind.
      destruct (find (fun k => kind_eqb (kind_of (bt k)) KArgs) (rev (bkids self))); reflexivity.
    - intros a Ha. unfold args_of_call, last_kid, is_kind in Ha. apply find_some in Ha. destruct Ha as [Hin Hk']. apply in_rev in Hin. auto.
  Qed.

  Lemma cons_try_plain self c :
    cg self ->
    existsb has_comment_children_b (resolve_dot_chain self) = false ->
    length (filter (fun b => kind_eqb (bk b) KFuncCall) (resolve_dot_chain self)) = 1%nat ->
    post (try_convert_dot_chain_plain swidth cfg c (resolve_dot_chain self)) (opt_good (tsig (bt self))).
  Proof.
    intros (Hg & Hs & He) Hnc Hcn. unfold try_convert_dot_chain_plain, resolve_dot_chain in *.
    destruct (tree_height (bt self)) as [|d] eqn:Eh; [pose proof (tree_height_pos (bt self)); lia|].
    cbn [resolve_chain] in *. destruct (dot_chain_next self) as [cal|] eqn:En.
    2:{ cbn [rev app]. destruct (kind_eqb (bk self) KFuncCall) eqn:E1; cbn [andb]; [|apply post_ret; exact I].
        destruct (kind_eqb (bk self) KIdent) eqn:E2; [|apply post_ret; exact I].
        apply keq in E1. apply keq in E2. congruence. }
    set (L' := resolve_chain dot_chain_next d cal) in *.
    cbn [rev].
    destruct (rev L') as [|inner r] eqn:Er.
    { exfalso. apply (resolve_chain_ne dot_chain_next d cal). fold L'. rewrite <- (rev_involutive L'), Er. reflexivity. }
    cbn [app]. cbn [rev]. rewrite rev_app_distr. cbn [rev app tl].
    destruct (kind_eqb (bk self) KFuncCall) eqn:E1; cbn [andb]; [|apply post_ret; exact I].
    destruct (kind_eqb (bk inner) KIdent) eqn:E2; [|apply post_ret; exact I].
    match goal with |- post (if ?b then _ else _) _ => destruct b end; [apply post_ret; exact I|].
    unfold bk in E1. apply keq in E1.
    destruct (funcall_eq self Hg Hs E1) as (cal' & Hfk & Hcin & Heq & Hargs).
    assert (cal' = cal) by (unfold dot_chain_next, bk in En; rewrite E1 in En; congruence). subst cal'.
    assert (Hik : inner_kind (bk self) = true) by (unfold bk; rewrite E1; reflexivity).
    destruct (cg_kid self cal Hg Hs Hik Hcin) as [Hgc Hsc].
    assert (Hlast : last L' cal = inner).
    { rewrite <- (rev_involutive L'), Er. cbn [rev]. apply last_last. }
    assert (Hh' : (tree_height (bt cal) <= d)%nat).
    { pose proof (good_shape _ _ Hg) as Hsh. destruct (bt self) as [k s a|k cs a] eqn:Eb; cbn [children] in Hsh.
      - destruct (bkids self); [contradiction|discriminate].
      - assert (In (bt cal) cs) by (rewrite <- Hsh; apply in_map; exact Hcin).
        pose proof (tree_height_child (bt cal) k cs a H). cbn [tree_height] in Eh. cbn [tree_height] in H0. lia. }
    cbn [existsb] in Hnc. apply Bool.orb_false_elim in Hnc. destruct Hnc as [_ Hnc].
    pose proof (filter_len1_tail (fun b => kind_eqb (bk b) KFuncCall) self L' ltac:(unfold bk; rewrite E1; reflexivity) Hcn) as Hnf.
    pose proof (plain_fold_sig d cal Hh' Hgc Hsc Hnc Hnf) as Hplain. fold L' in Hplain. rewrite Hlast in Hplain. specialize (Hplain E2).
    rewrite Er in Hplain. cbn [fold_left] in Hplain.
    (* the code folds over inner :: r ++ [self]; self is a call, so the last step changes nothing *)
    cbn [fold_left]. rewrite !fold_left_app. cbn [fold_left].
    cbv beta delta [plain_step] in Hplain. cbv beta delta [plain_step].
    replace (kind_eqb (bk self) KFieldAccess) with false by (unfold bk; rewrite E1; reflexivity).
    rewrite Heq.
    destruct (args_of_call self) as [a|] eqn:Ea.
    - destruct (Hargs a eq_refl) as [Hain Hak]. destruct (cg_kid self a Hg Hs Hik Hain) as [Hga Hsa].
      eapply post_bind; [apply (sgood_call a (RArgs c) Hga Hsa); exact Hak|]. intros x Hx. apply post_ret. cbn [opt_good].
      apply good_append; assumption.
    - apply post_ret. cbn [opt_good]. rewrite app_nil_r. exact Hplain.
  Qed.

  Lemma cons_try_convert_dot_chain self c :
    cg self -> post (try_convert_dot_chain swidth cfg self c) (opt_good (tsig (bt self))).
  Proof.
    intros Hcg. unfold try_convert_dot_chain. destruct (c_supp c); [apply post_ret; exact I|].
    apply (post_bind _ _ (opt_good (tsig (bt self)))).
    - match goal with |- post (if ?b then _ else _) _ => destruct b eqn:Eb end; [|apply post_ret; exact I].
      apply andb_prop in Eb. destruct Eb as [Eb Hnc]. apply andb_prop in Eb. destruct Eb as [_ Hcn].
      apply cons_try_plain; [exact Hcg|destruct (existsb _ _); [discriminate|reflexivity]|apply Nat.eqb_eq; exact Hcn].
    - intros o Ho. destruct o as [d|]; [apply post_ret; exact Ho|].
      match goal with |- post (if ?b then _ else _) _ => destruct b end.
      + eapply post_bind.
        * unfold parenthesize_if_necessary. destruct (is_code_cont _); [apply cons_convert_dot_chain; exact Hcg|].
          eapply post_bind; [apply cons_convert_dot_chain; exact Hcg|]. intros d [Hd Wd]. apply post_ret.
          unfold optional_paren. split.
          -- rewrite dsig_group, dsig_append, dsig_nest, dsig_append. cbn [dsig flat_alt]. rewrite Hd. cbn. rewrite app_nil_r. reflexivity.
          -- rewrite wsig_group. apply wsig_append; [rewrite wsig_nest; apply wsig_append; [|exact Wd]|]; apply wsig_flat_alt; try reflexivity;
               first [apply wsig_append; [apply wsig_text|reflexivity] | apply wsig_append; [reflexivity|apply wsig_text]].
        * intros d Hd. apply post_ret. exact Hd.
      + destruct (is_code_mode _); [|apply post_ret; exact I].
        eapply post_bind; [apply cons_convert_dot_chain; exact Hcg|]. intros d Hd. apply post_ret. exact Hd.
  Qed.

  (* ---------- the table layouts of an argument list ---------- *)
  Section Tables.
    Variable kids : list bundle.
    Hypothesis Hgood : Forall sgood kids.
    Hypothesis Hscope : Forall (fun b => sc (bt b) = true) kids.

    Lemma psigs_snoc its x : psigs (its ++ [x]) = psigs its ++ psig x.
    Proof. rewrite psigs_app. unfold psigs at 2. cbn. rewrite app_nil_r. reflexivity. Qed.
    Definition pw_all (its : list plain_item) : Prop := Forall (fun it => pwsig it = true) its.
    Lemma pw_snoc its x : pw_all its -> pwsig x = true -> pw_all (its ++ [x]).
    Proof. intros H Hx. apply Forall_app. split; [exact H|constructor; [exact Hx|constructor]]. Qed.

    Lemma psigs_pop r : psigs (rev (pop_plain_linebreaks_rev r)) = psigs (rev r).
    Proof.
      induction r as [|x r IH]; [reflexivity|]. destruct x; try reflexivity.
      cbn [pop_plain_linebreaks_rev rev]. rewrite IH, psigs_snoc. cbn [psig]. rewrite app_nil_r. reflexivity.
    Qed.
    Lemma pop_plain_incl r : incl (pop_plain_linebreaks_rev r) r.
    Proof. induction r as [|x r IH]; [apply incl_refl|]. destruct x; try apply incl_refl. cbn. apply incl_tl. exact IH. Qed.

    Lemma plain_process_sig c nodes :
      Forall sgood nodes -> Forall (fun b => sc (bt b) = true) nodes ->
      forallb (fun c => kind_eqb (kind_of c) KComma || kind_eqb (kind_of c) KSpace || is_comment_node c || is_arg c || sig_empty c)
              (map bt nodes) = true ->
      post (plain_process swidth cfg c nodes (opt_conv is_arg convert_arg))
           (fun r => psigs (fst r) = tsigs nodes /\ pw_all (fst r)).
    Proof.
      intros Hg Hs Hcl. unfold plain_process.
      eapply post_bind.
      - apply (post_foldM_sig _ (fun st : list plain_item * bool => psigs (fst st)) (fun b => tsig (bt b)) (fun st => pw_all (fst st))); [constructor|].
        intros [its ml] b Hin Hw. cbn [fst] in *. rewrite Forall_forall in Hg, Hs.
        pose proof (Hg b Hin) as Hsg. pose proof (Hs b Hin) as Hsb.
        pose proof (proj1 (forallb_forall _ _) Hcl (bt b) (in_map bt _ _ Hin)) as Hk. cbn beta in Hk.
        assert (Hdef : kind_eqb (kind_of (bt b)) KComma = false -> kind_eqb (kind_of (bt b)) KSpace = false -> is_comment_node (bt b) = false ->
                       post (o <- opt_conv is_arg convert_arg c b ;;
                             match o with Some d => ret (its ++ [PItem d], ml) | None => ret (its, ml) end)
                            (fun s' => psigs (fst s') = psigs its ++ tsig (bt b) /\ pw_all (fst s'))).
        { intros E1 E2 E3. rewrite E1, E2, E3 in Hk. cbn [orb] in Hk. unfold opt_conv.
          destruct (is_arg (bt b)) eqn:Ea.
          - apply (post_bind _ _ (fun o => exists d, o = Some d /\ good_doc (tsig (bt b)) d)).
            + eapply post_bind; [destruct (arg_shape c b) as (r & -> & Hfit); apply (sgood_call b r Hsg Hsb Hfit)|].
              intros d Hd. apply post_ret. exists d. auto.
            + intros o (d & -> & [Hd Wd]). apply post_ret. cbn [fst]. rewrite psigs_snoc. cbn [psig]. rewrite Hd.
              split; [reflexivity|apply pw_snoc; assumption].
          - apply (post_bind _ _ (fun o => o = None)); [apply post_ret; reflexivity|]. intros o ->. apply post_ret. cbn [fst].
            cbn [orb] in Hk. unfold sig_empty in Hk. destruct (tsig (bt b)); [rewrite app_nil_r; auto|discriminate]. }
        unfold bk, tx. destruct (kind_of (bt b)) eqn:Ekb;
          lazymatch type of Ekb with
          | _ = KComma => apply post_ret; cbn [fst]; rewrite psigs_snoc; cbn [psig]; rewrite (sc_quiet _ Hsb) by (rewrite Ekb; reflexivity);
                          split; [reflexivity|apply pw_snoc; [exact Hw|reflexivity]]
          | _ = KSpace =>
              rewrite (sc_quiet _ Hsb) by (rewrite Ekb; reflexivity);
              destruct (0 <? _); [destruct its; apply post_ret; cbn [fst]; rewrite ?psigs_snoc; cbn [psig]; rewrite ?app_nil_r;
                                  (split; [reflexivity|try apply pw_snoc; auto])
                                 |apply post_ret; cbn [fst]; rewrite app_nil_r; auto]
          | _ = KLineComment =>
              eapply post_bind; [apply post_comment; [exact Hsb|unfold is_comment_b, is_comment_node; rewrite Ekb; reflexivity]|];
              intros d [Hd Wd]; apply post_ret; cbn [fst]; rewrite psigs_snoc; cbn [psig]; rewrite Hd; split; [reflexivity|apply pw_snoc; assumption]
          | _ = KBlockComment =>
              eapply post_bind; [apply post_comment; [exact Hsb|unfold is_comment_b, is_comment_node; rewrite Ekb; reflexivity]|];
              intros d [Hd Wd]; apply post_ret; cbn [fst]; rewrite psigs_snoc; cbn [psig]; rewrite Hd; split; [reflexivity|apply pw_snoc; assumption]
          | _ => apply Hdef; unfold is_comment_node; rewrite ?Ekb; reflexivity
          end.
      - intros [its ml] [E W]. cbn [fst] in *. apply post_ret. cbn [fst]. change (psigs []) with (@nil N) in E. cbn [app] in E.
        split; [rewrite psigs_pop, rev_involutive; exact E|].
        unfold pw_all in *. rewrite Forall_forall in *. intros x Hx. apply W. apply in_rev in Hx. apply pop_plain_incl in Hx. apply in_rev. exact Hx.
    Qed.

    Lemma aslist_slice_map : map bt (if has_parenthesized_args kids then take_until_rparen (skip_until KLeftParen kids) else []) = aslist_slice (map bt kids).
    Proof. unfold aslist_slice. rewrite <- has_paren_map. destruct (has_parenthesized_args kids); [rewrite take_until_map, skip_until_map; reflexivity|reflexivity]. Qed.

    Lemma extra_map (hp : bool) : map bt (filter (fun b => kind_eqb (bk b) KContentBlock) (skip_until (if hp then KRightParen else KContentBlock) kids)) =
                         filter (fun b => kind_eqb (kind_of b) KContentBlock) (skip_until_t (if hp then KRightParen else KContentBlock) (map bt kids)).
    Proof. rewrite <- skip_until_map. apply (filter_map_bt (fun b => kind_eqb (kind_of b) KContentBlock)). Qed.

    Lemma cons_as_list c :
      forallb (fun c => kind_eqb (kind_of c) KComma || kind_eqb (kind_of c) KSpace || is_comment_node c || is_arg c || sig_empty c)
              (take_until_rparen_t (skip_until_t KLeftParen (map bt kids))) = true ->
      post (convert_parenthesized_args_as_list swidth cfg kids c) (good_doc (tsigs (take_until_rparen (skip_until KLeftParen kids)))).
    Proof.
      intros Hcl. unfold convert_parenthesized_args_as_list.
      eapply post_bind.
      - apply plain_process_sig; [apply Forall_take_until, Forall_skip_until; exact Hgood|apply Forall_take_until, Forall_skip_until; exact Hscope|].
        rewrite take_until_map, skip_until_map. exact Hcl.
      - intros [its ml] [E W]. cbn [fst] in *. apply post_ret. destruct (plain_print_sig swidth its ml) as [Hd Hw]. split.
        + rewrite dsig_enclose, dsig_nest, !dsig_text, Hd, E. cbn. rewrite app_nil_r. reflexivity.
        + apply wsig_enclose; try apply wsig_text. rewrite wsig_nest. apply Hw. exact W.
    Qed.

    (* convert_table: the rows are the positional arguments in order, whatever the number of columns *)
    Lemma table_rows_concat (columns : N) (pos : list bundle) :
      let step := fun (st : list (list bundle) * list bundle) (arg : bundle) =>
        let '(table, row) := st in
        let row1 := row ++ [arg] in
        let '(table1, row2) := if N.of_nat (length row1) =? columns then (table ++ [row1], []) else (table, row1) in
        if kind_eqb (bk arg) KFuncCall && str_in (callee_text_of_call arg) HEADER_FOOTER
        then (table1 ++ [row2], []) else (table1, row2) in
      forall st, concat (fst (fold_left step pos st)) ++ snd (fold_left step pos st) = concat (fst st) ++ snd st ++ pos.
    Proof.
      intros step. induction pos as [|a pos IH]; intros [table row]; cbn [fold_left fst snd].
      - rewrite app_nil_r. reflexivity.
      - rewrite IH.
        assert (Hs : concat (fst (step (table, row) a)) ++ snd (step (table, row) a) = concat table ++ row ++ [a]).
        { unfold step. cbv beta iota zeta.
          destruct (N.of_nat (length (row ++ [a])) =? columns);
            match goal with |- context [if ?b then _ else _] => destruct b end; cbn [fst snd];
            rewrite ?concat_app; cbn [concat]; rewrite ?app_nil_r, <- ?app_assoc; reflexivity. }
        rewrite app_assoc, Hs, <- !app_assoc. reflexivity.
    Qed.

    Lemma cons_convert_table c n :
      post (convert_table swidth cfg kids c n)
           (good_doc (tsigs (filter (fun b => kind_eqb (bk b) KNamed) (filter (fun b => is_arg (bt b)) kids)) ++
                      tsigs (filter (fun b => is_arg (bt b) && negb (kin (bk b) [KNamed; KSpread])) (take_until_rparen kids)))).
    Proof.
      unfold convert_table.
      set (named := filter (fun b => kind_eqb (bk b) KNamed) (filter (fun b => is_arg (bt b)) kids)).
      set (pos := filter (fun b => is_arg (bt b) && negb (kin (bk b) [KNamed; KSpread])) (take_until_rparen kids)).
      assert (Hnamed : Forall (fun b => sgood b /\ sc (bt b) = true /\ kind_eqb (bk b) KNamed = true) named).
      { unfold named. apply Forall_forall. intros b Hin. apply filter_In in Hin. destruct Hin as [Hin Hk]. apply filter_In in Hin. destruct Hin as [Hin _].
        rewrite Forall_forall in Hgood, Hscope. auto. }
      assert (Hpos : Forall (fun b => sgood b /\ sc (bt b) = true) pos).
      { unfold pos. apply Forall_filter. apply Forall_take_until. apply Forall_forall. intros b Hin. rewrite Forall_forall in Hgood, Hscope. auto. }
      clearbody named pos.
      apply (post_bind _ _ (good_doc (tsigs named))).
      { eapply post_weaken.
        - apply (post_foldM_sig _ dsig (fun b => tsig (bt b)) (fun d => wsig d = true)); [reflexivity|].
          intros d b Hin Hw. rewrite Forall_forall in Hnamed. destruct (Hnamed b Hin) as (Hsg & Hsb & Hk).
          eapply post_bind; [apply (sgood_call b (RNamed _) Hsg Hsb Hk)|]. intros x [Hx Wx]. apply post_ret.
          rewrite !dsig_append, dsig_text, Hx. cbn. rewrite !app_nil_r. split; [reflexivity|].
          apply wsig_append; [exact Hw|apply wsig_append; [apply wsig_append; [exact Wx|first [apply wsig_text|reflexivity]]|reflexivity]].
        - intros d [E W]. split; [exact E|exact W]. }
      intros d0 [Hd0 Wd0].
      match goal with |- context [fold_left ?f pos ?a] =>
        pose proof (table_rows_concat n pos a) as Hrows; cbv zeta in Hrows; set (F := fold_left f pos a) in * end.
      cbn [fst snd concat app] in Hrows. clearbody F.
      destruct F as [table0 lastrow]. cbn [fst snd] in Hrows.
      set (table := match lastrow with [] => table0 | _ => table0 ++ [lastrow] end).
      assert (Htab : concat table = pos).
      { unfold table. destruct lastrow; [rewrite app_nil_r in Hrows; exact Hrows|]. rewrite concat_app. cbn [concat]. rewrite app_nil_r. exact Hrows. }
      clearbody table. clear Hrows. subst pos.
      assert (Hcells : Forall (fun row => Forall (fun b => sgood b /\ sc (bt b) = true) row) table).
      { clear - Hpos. induction table as [|row tb IH]; [constructor|]. cbn [concat] in Hpos. apply Forall_app in Hpos. destruct Hpos. constructor; auto. }
      apply (post_bind _ _ (fun r : doc * nat => dsig (fst r) = tsigs named ++ tsigs (concat table) /\ wsig (fst r) = true)).
      - eapply post_weaken.
        + apply (post_foldM_sig _ (fun st : doc * nat => dsig (fst st)) (fun row => tsigs row) (fun st => wsig (fst st) = true)); [exact Wd0|].
          intros [d ri] row Hin Hw. cbn [fst] in *. rewrite Forall_forall in Hcells. pose proof (Hcells row Hin) as Hrow.
          apply (post_bind _ _ (fun rr : doc * nat => dsig (fst rr) = tsigs row /\ wsig (fst rr) = true)).
          * eapply post_weaken.
            -- apply (post_foldM_sig _ (fun st : doc * nat => dsig (fst st)) (fun b => tsig (bt b)) (fun st => wsig (fst st) = true)); [reflexivity|].
               intros [rd ci] cell Hinc Hwc. cbn [fst] in *. rewrite Forall_forall in Hrow. destruct (Hrow cell Hinc) as [Hsg Hsb].
               eapply post_bind; [destruct (arg_shape (with_mode c LCodeCont) cell) as (r & -> & Hfit); apply (sgood_call cell r Hsg Hsb Hfit)|].
               intros x [Hx Wx]. apply post_ret. cbn [fst].
               assert (Hl : forall (b1 b2 : bool), dsig (if b1 then line else if b2 then line_ else DNil) = [] /\ wsig (if b1 then line else if b2 then line_ else DNil) = true)
                 by (intros [] []; split; reflexivity).
               destruct (Hl (negb (Nat.eqb (S ci) (length row))) (negb (Nat.eqb (S ri) (length table)))) as [Hl1 Hl2].
               rewrite !dsig_append, dsig_text, Hx, Hl1. cbn. rewrite !app_nil_r. split; [reflexivity|].
               apply wsig_append; [apply wsig_append; [apply wsig_append; [exact Hwc|exact Wx]|first [apply wsig_text|reflexivity]]|exact Hl2].
            -- intros rr [E W]. cbn in E. unfold tsigs. auto.
          * intros [rr k] [Hrr Wrr]. cbn [fst] in *. apply post_ret. cbn [fst]. rewrite !dsig_append, dsig_group, Hrr.
            assert (Hh : forall b : bool, dsig (if b then hardline else DNil) = [] /\ wsig (if b then hardline else DNil) = true) by (intros []; split; reflexivity).
            destruct (Hh (negb (Nat.eqb (S ri) (length table)))) as [Hh1 Hh2]. rewrite Hh1, app_nil_r. split; [reflexivity|].
            apply wsig_append; [exact Hw|apply wsig_append; [rewrite wsig_group; exact Wrr|exact Hh2]].
        + intros r [E W]. cbn [fst] in E. rewrite E, Hd0. split; [|exact W]. f_equal.
          clear. induction table as [|row tb IH]; [reflexivity|]. cbn [map concat]. rewrite tsigs_app, IH. reflexivity.
      - intros [r k] [E W]. cbn [fst] in *. apply post_ret. split.
        + rewrite dsig_enclose, dsig_append, dsig_nest, !dsig_text, E. cbn. rewrite !app_nil_r. reflexivity.
        + apply wsig_enclose; try first [apply wsig_text|reflexivity]. apply wsig_append; [rewrite wsig_nest; exact W|reflexivity].
    Qed.
    Lemma table_named_map : map bt (filter (fun b => kind_eqb (bk b) KNamed) (filter (fun b => is_arg (bt b)) kids)) = table_named (map bt kids).
    Proof. unfold table_named. rewrite <- (filter_map_bt is_arg), <- (filter_map_bt (fun c => kind_eqb (kind_of c) KNamed)). reflexivity. Qed.
    Lemma table_pos_map :
      map bt (filter (fun b => is_arg (bt b) && negb (kin (bk b) [KNamed; KSpread])) (take_until_rparen kids)) = table_pos (map bt kids).
    Proof.
      unfold table_pos. rewrite <- take_until_map.
      rewrite <- (filter_map_bt (fun c => is_arg c && negb (match kind_of c with KNamed | KSpread => true | _ => false end))).
      f_equal. apply filter_ext. intros b. unfold bk. destruct (kind_of (bt b)); reflexivity.
    Qed.

    Lemma cons_func_call_args_cols t c n :
      table_eq (map bt kids) = true -> margs_ok (map bt kids) = true ->
      post (convert_func_call_args swidth cfg t kids c (TableCols n)) (good_doc (tsigs kids)).
    Proof.
      intros He Hm. unfold convert_func_call_args.
      destruct (is_math_mode _); [apply cons_convert_args_in_math; assumption|].
      unfold table_eq in He. apply (proj1 (str_eqb_eq _ _)) in He.
      rewrite tsigl_map, <- table_named_map, <- table_pos_map, !tsigl_map in He. unfold args_extra in He.
      rewrite <- has_paren_map, <- extra_map, tsigl_map in He. rewrite He, app_assoc.
      eapply post_bind; [apply cons_convert_table; assumption|]. intros d Hd.
      eapply post_bind; [apply cons_convert_additional_args; assumption|]. intros a Ha. apply post_ret. apply good_append; assumption.
    Qed.

    Lemma cons_func_call_args_nocols t c :
      aslist_ok (map bt kids) = true -> margs_ok (map bt kids) = true ->
      post (convert_func_call_args swidth cfg t kids c TableNoCols) (good_doc (tsigs kids)).
    Proof.
      intros Ha Hm. unfold convert_func_call_args.
      destruct (is_math_mode _); [apply cons_convert_args_in_math; assumption|].
      unfold aslist_ok in Ha. apply andb_prop in Ha. destruct Ha as [He Hcl]. apply (proj1 (str_eqb_eq _ _)) in He.
      rewrite <- aslist_slice_map in He, Hcl. unfold args_extra in He. rewrite tsigl_map, <- has_paren_map, <- extra_map, !tsigl_map in He. rewrite He.
      apply (post_bind _ _ (good_doc (tsigs (if has_parenthesized_args kids then take_until_rparen (skip_until KLeftParen kids) else [])))).
      - destruct (has_parenthesized_args kids); [|apply post_ret; apply good_nil].
        apply cons_as_list; try assumption. rewrite <- skip_until_map, <- take_until_map. exact Hcl.
      - intros d Hd. eapply post_bind; [apply cons_convert_additional_args; assumption|]. intros a Ha'. apply post_ret. apply good_append; assumption.
    Qed.
  End Tables.

  (* ---------- field access and calls, with or without a chain ---------- *)
  Lemma cons_convert_field_access self c :
    cg self -> kind_of (bt self) = KFieldAccess ->
    post (convert_field_access swidth cfg self c) (good_doc (tsig (bt self))).
  Proof.
    intros Hcg Efa. pose proof Hcg as (Hg & Hs & He). unfold convert_field_access.
    eapply post_bind; [apply cons_try_convert_dot_chain; exact Hcg|].
    intros o Ho. destruct o as [d|]; [apply post_ret; exact Ho|].
    pose proof (good_shape _ _ Hg) as Hshape.
    assert (Hk : inner_kind (kind_of (bt self)) = true) by (rewrite Efa; reflexivity).
    destruct (sc_inner' _ Hs Hk) as [Hcl Hck]. rewrite Efa in Hcl. cbn [knode_ok] in Hcl.
    destruct (children (bt self)) as [|e rest] eqn:Ecs; [discriminate|].
    assert (Hsh0 : map bt (bkids self) = children (bt self)) by (rewrite Ecs; exact Hshape).
    apply andb_prop in Hcl. destruct Hcl as [Hcl Hkeep]. apply andb_prop in Hcl. destruct Hcl as [Hcl Hnoc].
    apply andb_prop in Hcl. destruct Hcl as [Hie Heq]. apply (proj1 (str_eqb_eq _ _)) in Heq.
    assert (Hkids : Forall sgood (bkids self) /\ Forall (fun b => sc (bt b) = true) (bkids self)).
    { split; [apply (good_kids _ _ Hg)|]. apply Forall_forall. intros k Hin. apply (cg_kid self k Hg Hs Hk Hin). }
    destruct Hkids as [Hgk Hsk].
    destruct (has_comment_children_b self) eqn:Ehc.
    - rewrite (tsig_kids' _ _ Hsh0 Hk Hs).
      apply flow_like_sig. apply Forall_forall. intros child Hin. rewrite Forall_forall in Hgk, Hsk.
      pose proof (Hgk child Hin) as Hsg. pose proof (Hsk child Hin) as Hsc.
      rewrite <- Hshape in Hkeep. pose proof (all_kept_in _ _ (bt child) Hkeep (in_map bt _ _ Hin)) as Hkp. cbn beta in Hkp.
      split; [exact Hsc|]. intros Hgen c0.
      destruct (kind_eqb (bk child) KDot) eqn:E1.
      { apply post_ret. fsimp. apply (good_lit_fixed _ _ Hsc). unfold bk in *. apply keq in E1. rewrite E1. reflexivity. }
      destruct (is_expr (bt child)) eqn:E2.
      { pstep Hsg Hsc. apply post_ret. fsimp. split; assumption. }
      apply post_ret. fsimp. unfold bk in E1. rewrite ?Hgen, ?E1, ?E2 in Hkp. cbn in Hkp. unfold sig_empty in Hkp.
      destruct (tsig (bt child)); [reflexivity|discriminate].
    - unfold has_comment_children_b, is_comment_b in Ehc. rewrite <- (existsb_map_bt is_comment_node), Hshape in Ehc.
      rewrite Ehc in Hnoc. cbn [orb] in Hnoc. apply (proj1 (str_eqb_eq _ _)) in Hnoc.
      destruct (first_kid_hd self e rest Hshape Hie) as (b' & Hfk & Hbt & Hin). rewrite Hfk.
      rewrite Forall_forall in Hgk, Hsk.
      eapply post_bind; [apply (sgood_call b' (RExpr c)); [apply Hgk; exact Hin|apply Hsk; exact Hin|reflexivity]|].
      intros tgt [Ht Wt]. apply post_ret.
      assert (Hf : field_of self = field_access_field (Inner KFieldAccess (e :: rest) no_attrs)).
      { unfold field_of, field_access_field, cast_last. cbn [children]. rewrite Ecs. reflexivity. }
      split.
      + rewrite !dsig_append, dsig_text, Ht. unfold convert_trivia. rewrite dsig_text, <- (field_token self Hs Hk).
        rewrite (tsig_kids' _ _ Hsh0 Hk Hs), <- tsigl_map, Hshape, Heq, Hnoc, Hbt, Hf, <- app_assoc. reflexivity.
      + apply wsig_append; [apply wsig_append; [exact Wt|apply wsig_text]|apply wsig_text].
  Qed.

  Lemma formatable_no_spread a :
    is_formatable a = true ->
    existsb (fun b => kind_eqb (bk b) KSpread) (filter (fun b => is_arg (bt b)) (take_until_rparen (skip_until KLeftParen (bkids a)))) = false.
  Proof.
    unfold is_formatable. intros H. apply andb_prop in H. destruct H as [_ H].
    set (l := filter (fun b => is_arg (bt b)) (take_until_rparen (skip_until KLeftParen (bkids a)))) in *. clearbody l.
    match type of H with (let '(ok, seen) := fold_left ?f l ?st in _) = true => set (step := f) in * end.
    assert (G : forall l ok seen, fst (fold_left step l (ok, seen)) = true ->
                ok = true /\ existsb (fun b => kind_eqb (bk b) KSpread) l = false).
    { induction l0 as [|x r IH]; intros ok seen Hf; cbn [fold_left existsb] in *; [auto|].
      unfold step at 2 in Hf. cbv beta iota in Hf. destruct (bk x) eqn:Ek;
        try (destruct (IH _ _ Hf) as [Hok Hr]; apply andb_prop in Hok; destruct Hok as [Hok _]; split; [exact Hok|rewrite Hr; reflexivity]; fail).
      destruct (IH _ _ Hf) as [Hok _]. discriminate. }
    destruct (fold_left step l (true, false)) as [ok seen] eqn:Ef. apply andb_prop in H. destruct H as [Hok _]. subst ok.
    apply (G l true false). rewrite Ef. reflexivity.
  Qed.

  Lemma cons_convert_func_call_any self c :
    cg self -> kind_of (bt self) = KFuncCall ->
    post (convert_func_call swidth cfg self c) (good_doc (tsig (bt self))).
  Proof.
    intros Hcg Efc. pose proof Hcg as (Hg & Hs & He).
    destruct (funcall_eq self Hg Hs Efc) as (cal & Hfk & Hcin & Heq & Hargs).
    assert (Hik : inner_kind (bk self) = true) by (unfold bk; rewrite Efc; reflexivity).
    destruct (cg_kid self cal Hg Hs Hik Hcin) as [Hgc Hsc].
    (* the table clause *)
    pose proof (good_shape _ _ Hg) as Hshape.
    destruct (sc_inner' _ Hs Hik) as [Hcl _]. unfold bk in Hik. rewrite Efc in Hcl. cbn [knode_ok] in Hcl. rewrite <- Hshape in Hcl.
    rewrite find_map_bt in Hcl. unfold first_kid in Hfk. rewrite Hfk in Hcl. cbn [option_map] in Hcl.
    apply andb_prop in Hcl. destruct Hcl as [Hnt _].
    rewrite <- map_rev, (find_map_bt (fun c => kind_eqb (kind_of c) KArgs)) in Hnt.
    unfold convert_func_call. unfold first_kid. rewrite Hfk.
    assert (Hplain : post (convert_func_call_plain swidth self c) (good_doc (tsig (bt self)))).
    { unfold convert_func_call_plain, first_kid. rewrite Hfk, Heq.
      eapply post_bind; [apply (sgood_call cal (RExpr c) Hgc Hsc); reflexivity|]. intros dc Hdc.
      destruct (args_of_call self) as [a|] eqn:Ea.
      - destruct (Hargs a eq_refl) as [Hain Hak]. destruct (cg_kid self a Hg Hs ltac:(unfold bk; rewrite Efc; reflexivity) Hain) as [Hga Hsa].
        assert (Hfit : fit (RFuncArgs c (table_info_of self a)) (bt a) = true).
        { cbn [fit]. unfold is_kind. rewrite Hak. cbn [andb].
          unfold table_info_of, is_table, indent_func_name, first_kid. rewrite Hfk. unfold bk.
          unfold args_of_call, last_kid, is_kind in Ea. rewrite Ea in Hnt. cbn [option_map] in Hnt.
          destruct (kind_eqb (kind_of (bt cal)) KIdent); [|reflexivity].
          unfold str_in. destruct (existsb (str_eqb (text_of (bt cal))) TABLE_FUNCS); [|reflexivity].
          cbn [negb orb] in Hnt. apply andb_prop in Hnt. destruct Hnt as [Hal Hte].
          destruct (is_formatable a) eqn:Efm; [|exact Hal].
          destruct (get_table_columns a); [|exact Hal].
          (* formatable: no comment among the arguments *)
          pose proof Efm as Efm'. unfold is_formatable in Efm. apply andb_prop in Efm. destruct Efm as [Hnc _].
          unfold is_comment_b in Hnc. rewrite <- (existsb_map_bt is_comment_node), (good_shape _ _ Hga) in Hnc.
          destruct (existsb is_comment_node (children (bt a))); [discriminate|]. rewrite Bool.orb_false_r in Hte.
          (* formatable: no spread argument either *)
          pose proof (formatable_no_spread a Efm') as Hns.
          rewrite <- (good_shape _ _ Hga), <- skip_until_map, <- take_until_map, <- (filter_map_bt is_arg), existsb_map_bt in Hte.
          unfold bk in Hns. rewrite Hns, Bool.orb_false_r in Hte. rewrite (good_shape _ _ Hga) in Hte. exact Hte. }
        eapply post_bind; [apply (sgood_call a _ Hga Hsa Hfit)|].
        intros da Hda. apply post_ret. apply good_append; assumption.
      - destruct (is_math_mode _); [intros n d n' H; discriminate H|].
        eapply post_bind; [apply post_ret; apply good_nil|]. intros da Hda. apply post_ret. apply good_append; assumption. }
    unfold bk. destruct (kind_eqb (kind_of (bt cal)) KFieldAccess).
    - eapply post_bind; [apply cons_try_convert_dot_chain; exact Hcg|].
      intros o Ho. destruct o as [d|]; [apply post_ret; exact Ho|exact Hplain].
    - apply (post_bind _ _ (fun o => o = None)); [apply post_ret; reflexivity|]. intros o ->. exact Hplain.
  Qed.

  (* ---------- code_chain.rs: binary chains ---------- *)
  Definition bin_opc (seen_not : bool) (child : bundle) : bool * option doc :=
    if kind_eqb (bk child) KNot then (true, None)
    else if kind_eqb (bk child) KIn && seen_not then (false, Some (text (binop_as_str BNotIn)))
    else match binop_from_kind (bk child) with
         | Some o => (seen_not, Some (text (binop_as_str o)))
         | None => (seen_not, None)
         end.
  Definition bin_rhs : ctx -> bundle -> M (option doc) := opt_conv is_expr (fun c b => call b (RExpr c)).

  Definition sim_bin_step (c : tree) (so sn : bool) : str * bool * bool :=
    let '(sn', oc) := bin_opsig sn (kind_of c) in
    match oc with
    | Some x => (x, true, sn')
    | None =>
        if is_comment_node c then (tsig c, so, sn')
        else if kind_eqb (kind_of c) KSpace then ([], so, sn')
        else if so then ((if is_expr c then tsig c else []), so, sn')
        else ([], so, sn')
    end.
  Lemma sim_bin_cons c r so sn :
    sim_bin (c :: r) so sn =
    (fst (fst (sim_bin_step c so sn)) ++ fst (sim_bin r (snd (fst (sim_bin_step c so sn))) (snd (sim_bin_step c so sn))),
     snd (sim_bin r (snd (fst (sim_bin_step c so sn))) (snd (sim_bin_step c so sn)))).
  Proof.
    cbn [sim_bin]. unfold sim_bin_step. destruct (bin_opsig sn (kind_of c)) as [sn' [x|]].
    - cbn [fst snd]. destruct (sim_bin r true sn'); reflexivity.
    - destruct (is_comment_node c); [cbn [fst snd]; destruct (sim_bin r so sn'); reflexivity|].
      destruct (kind_eqb (kind_of c) KSpace); [cbn [fst snd app]; destruct (sim_bin r so sn'); reflexivity|].
      destruct so; cbn [fst snd app]; destruct (sim_bin r _ sn'); reflexivity.
  Qed.

  Lemma bin_opc_sig sn k :
    fst (bin_opc sn k) = fst (bin_opsig sn (bk k)) /\
    match snd (bin_opc sn k), snd (bin_opsig sn (bk k)) with
    | Some d, Some x => dsig d = x /\ wsig d = true
    | None, None => True
    | _, _ => False
    end.
  Proof.
    unfold bin_opc, bin_opsig. destruct (kind_eqb (bk k) KNot); [cbn; auto|].
    destruct (kind_eqb (bk k) KIn && sn); [cbn [fst snd]; split; [reflexivity|split; [apply dsig_text|apply wsig_text]]|].
    destruct (binop_from_kind (bk k)); cbn [fst snd]; split; auto. split; [apply dsig_text|apply wsig_text].
  Qed.

  Lemma bin_inner_step_sig c k ch ca so sn :
    sgood k -> sc (bt k) = true -> cw_all ch ->
    post (chain_inner_step swidth c bin_opc bin_rhs (ch, ca, so, sn) k)
         (fun st => csigs (ch_items (fst (fst (fst st)))) = csigs (ch_items ch) ++ fst (fst (sim_bin_step (bt k) so sn)) /\
                    cw_all (fst (fst (fst st))) /\ snd (fst st) = snd (fst (sim_bin_step (bt k) so sn)) /\
                    snd st = snd (sim_bin_step (bt k) so sn)).
  Proof.
    intros Hg Hk Hw. unfold chain_inner_step, sim_bin_step.
    destruct (bin_opc_sig sn k) as [Hf Hs]. unfold bk in Hf, Hs.
    destruct (bin_opc sn k) as [sn1 oc]. destruct (bin_opsig sn (kind_of (bt k))) as [sn2 os]. cbn [fst snd] in Hf, Hs. subst sn2.
    destruct oc as [op|], os as [x|]; try contradiction.
    { destruct Hs as [Hd Wd]. apply post_ret. cbn [fst snd ch_items]. rewrite csigs_snoc. cbn [csig]. rewrite Hd.
      repeat split. apply cw_snoc; assumption. }
    unfold is_comment_b, bk. destruct (is_comment_node (bt k)) eqn:E2.
    { eapply post_bind; [apply post_comment; assumption|]. intros d [Hd Wd]. apply post_ret. cbn [fst snd ch_items].
      rewrite csigs_snoc. repeat split; [destruct ca; cbn [csig]; rewrite Hd; reflexivity|].
      apply cw_snoc; [exact Hw|destruct ca; exact Wd]. }
    destruct (kind_eqb (kind_of (bt k)) KSpace) eqn:E3.
    { destruct (has_lb _); apply post_ret; cbn [fst snd]; [|rewrite app_nil_r; auto].
      destruct (chain_last_is_comment _); cbn [ch_items]; [|rewrite app_nil_r; auto].
      rewrite csigs_snoc. cbn [csig]. repeat split. apply cw_snoc; [exact Hw|reflexivity]. }
    destruct so.
    - unfold bin_rhs, opt_conv. destruct (is_expr (bt k)) eqn:E4.
      + apply (post_bind _ _ (fun o => exists d, o = Some d /\ good_doc (tsig (bt k)) d)).
        * eapply post_bind; [apply (sgood_call k (RExpr c) Hg Hk); reflexivity|]. intros d Hd. apply post_ret. exists d. auto.
        * intros o (d & -> & [Hd Wd]). apply post_ret. cbn [fst snd ch_items]. rewrite csigs_snoc. cbn [csig]. rewrite Hd.
          repeat split. apply cw_snoc; assumption.
      + apply (post_bind _ _ (fun o => o = None)); [apply post_ret; reflexivity|]. intros o ->. apply post_ret. cbn [fst snd]. rewrite app_nil_r. auto.
    - apply post_ret. cbn [fst snd]. rewrite app_nil_r. auto.
  Qed.

  Lemma bin_inner_sig c ks : forall ch ca so sn,
    Forall sgood ks -> Forall (fun b => sc (bt b) = true) ks -> cw_all ch ->
    post (foldM (chain_inner_step swidth c bin_opc bin_rhs) ks (ch, ca, so, sn))
         (fun st => csigs (ch_items (fst (fst (fst st)))) = csigs (ch_items ch) ++ fst (sim_bin (map bt ks) so sn) /\
                    cw_all (fst (fst (fst st))) /\ snd st = snd (sim_bin (map bt ks) so sn)).
  Proof.
    induction ks as [|k ks IH]; intros ch ca so sn Hg Hs Hw; cbn [foldM map].
    - apply post_ret. cbn [fst snd sim_bin]. rewrite app_nil_r. auto.
    - inversion Hg; subst. inversion Hs; subst. rewrite sim_bin_cons. cbn [fst snd].
      eapply post_bind; [apply bin_inner_step_sig; assumption|].
      intros [[[ch1 ca1] so1] sn1] (E1 & W1 & S1 & N1). cbn [fst snd] in *. subst so1 sn1.
      eapply post_weaken; [apply IH; assumption|]. intros st (E & W & N). rewrite E, E1, <- app_assoc. auto.
  Qed.

  Section BinChain.
    Variable prec : N.
    Definition bin_pred (node : bundle) : bool := kind_eqb (bk node) KBinary && (binop_precedence (binary_op (bt node)) =? prec).
    Definition bin_next := binary_chain_next prec.

    Lemma bin_outer_step_sig c b ch ca :
      cg b -> cw_all ch ->
      match bin_next b with Some b' => csigs (ch_items ch) = tsig (bt b') | None => ch_items ch = [] end ->
      post (chain_outer_step swidth c bin_pred bin_opc bin_rhs bin_rhs (ch, ca, false) b)
           (fun st => csigs (ch_items (fst (fst st))) = tsig (bt b) /\ cw_all (fst (fst st)) /\ snd st = false).
    Proof.
      intros (Hg & Hs & He) Hw Hprev. unfold chain_outer_step, bin_pred, bin_next, binary_chain_next in *. unfold bk in *.
      pose proof (good_shape _ _ Hg) as Hshape.
      destruct (kind_eqb (kind_of (bt b)) KBinary && (binop_precedence (binary_op (bt b)) =? prec)) eqn:Epred.
      - apply andb_prop in Epred. destruct Epred as [Efa _]. apply keq in Efa.
        assert (Hk : inner_kind (kind_of (bt b)) = true) by (rewrite Efa; reflexivity).
        destruct (sc_inner' _ Hs Hk) as [Hcl Hck]. rewrite Efa in Hcl. cbn [knode_ok] in Hcl.
        destruct (children (bt b)) as [|e rest] eqn:Ecs; [discriminate|].
        assert (Hsh0 : map bt (bkids b) = children (bt b)) by (rewrite Ecs; exact Hshape).
        apply andb_prop in Hcl. destruct Hcl as [Hcl _]. apply andb_prop in Hcl. destruct Hcl as [Hcl Hsn].
        apply andb_prop in Hcl. destruct Hcl as [Hie Heq]. apply (proj1 (str_eqb_eq _ _)) in Heq.
        destruct (first_kid_hd b e rest Hshape Hie) as (b' & Hfk & Hbt & Hin). rewrite Hfk in Hprev.
        assert (Hkids : Forall sgood (bkids b) /\ Forall (fun k => sc (bt k) = true) (bkids b)).
        { split; [apply (good_kids _ _ Hg)|]. apply Forall_forall. intros k Hink. apply (cg_kid b k Hg Hs Hk Hink). }
        eapply post_bind.
        + apply (bin_inner_sig c (bkids b) (mk_chain (ch_items ch) (ch_op_num ch + 1) (ch_has_comment ch)) ca false false); [apply Hkids|apply Hkids|exact Hw].
        + intros [[[ch1 ca1] so1] s1] (E & W & N). cbn [fst snd ch_items] in *. apply post_ret. cbn [fst snd].
          rewrite Hshape in E, N. split; [|split; [exact W|]].
          * rewrite E, Hprev, Hbt, <- Heq. rewrite (tsig_kids' (bt b) (bkids b) Hsh0 Hk Hs), <- tsigl_map, Hshape. reflexivity.
          * rewrite N. destruct (snd (sim_bin (e :: rest) false false)); [discriminate|reflexivity].
      - (* the innermost node of the chain: any expression *)
        assert (Hnone : ch_items ch = []) by exact Hprev.
        unfold bin_rhs, opt_conv. rewrite He.
        apply (post_bind _ _ (fun o => exists d, o = Some d /\ good_doc (tsig (bt b)) d)).
        + eapply post_bind; [apply (sgood_call b (RExpr c) Hg Hs); reflexivity|]. intros d Hd. apply post_ret. exists d. auto.
        + intros o (d & -> & [Hd Wd]). rewrite Hnone. cbn [rev app]. apply post_ret. cbn [fst snd ch_items].
          rewrite csigs_one. cbn [csig]. repeat split; [exact Hd|]. constructor; [exact Wd|constructor].
    Qed.

    Lemma bin_chain_fold_sig c : forall d b,
      (tree_height (bt b) <= d)%nat -> cg b ->
      post (foldM (chain_outer_step swidth c bin_pred bin_opc bin_rhs bin_rhs) (rev (resolve_chain bin_next d b)) (chain_new, false, false))
           (fun st => csigs (ch_items (fst (fst st))) = tsig (bt b) /\ cw_all (fst (fst st)) /\ snd st = false).
    Proof.
      induction d as [|d IH]; intros b Hh Hcg.
      - pose proof (tree_height_pos (bt b)). lia.
      - cbn [resolve_chain]. destruct (bin_next b) as [b'|] eqn:En.
        + cbn [rev].
          assert (Hkid : In b' (bkids b) /\ is_expr (bt b') = true /\ inner_kind (bk b) = true).
          { unfold bin_next, binary_chain_next, first_kid in En. unfold bk in *.
            destruct (kind_eqb (kind_of (bt b)) KBinary) eqn:Ekb; cbn [andb] in En; [|discriminate].
            destruct (_ =? prec); [|discriminate]. apply find_some in En. destruct En. apply keq in Ekb. rewrite Ekb. repeat split; auto. }
          destruct Hkid as (Hin & Hie & Hik). destruct Hcg as (Hg & Hs & He). destruct (cg_kid b b' Hg Hs Hik Hin) as [Hg' Hs'].
          assert (Hh' : (tree_height (bt b') <= d)%nat).
          { pose proof (good_shape _ _ Hg) as Hsh. destruct (bt b) as [k s a|k cs a] eqn:Eb; cbn [children] in Hsh.
            - destruct (bkids b); [contradiction|discriminate].
            - assert (In (bt b') cs) by (rewrite <- Hsh; apply in_map; exact Hin).
              pose proof (tree_height_child (bt b') k cs a H). lia. }
          eapply post_foldM_app; [apply (IH b' Hh'); exact (conj Hg' (conj Hs' Hie))|].
          intros [[ch ca] s] (E & W & Es). cbn [fst snd] in *. subst s. cbn [foldM].
          eapply post_bind; [apply bin_outer_step_sig; [exact (conj Hg (conj Hs He))|exact W|rewrite En; exact E]|].
          intros st H. apply post_ret. exact H.
        + cbn [rev app foldM]. eapply post_bind; [apply bin_outer_step_sig; [exact Hcg|constructor|rewrite En; reflexivity]|].
          intros st H. apply post_ret. exact H.
    Qed.
  End BinChain.

  Theorem cons_convert_binary_chain self c :
    cg self -> post (convert_binary_chain swidth cfg self c) (good_doc (tsig (bt self))).
  Proof.
    intros Hcg. unfold convert_binary_chain.
    eapply post_bind.
    - apply post_and; [|apply (chain_process_attached_ok swidth)].
      unfold chain_process.
      apply (post_bind _ _ (fun st : chain * bool * bool => csigs (ch_items (fst (fst st))) = tsig (bt self) /\ cw_all (fst (fst st)))).
      + eapply post_weaken; [apply (bin_chain_fold_sig (binop_precedence (binary_op (bt self))) c (tree_height (bt self)) self (le_n _) Hcg)|].
        intros st (E & W & _). auto.
      + intros [[ch ca] s] [E W]. apply post_ret. cbn [fst] in *. exact (conj E W).
    - intros ch [[E W] Hatt]. unfold chain_doc, lift. intros n d n' H.
      destruct (chain_print_doc swidth (tab_spaces cfg) ch (mk_cs false true)) as [d0|] eqn:Ep; [|discriminate].
      inversion H; subst. destruct (chain_print_sig swidth (tab_spaces cfg) ch _ d Hatt Ep) as [Hd Hwd].
      split; [rewrite Hd; exact E|apply Hwd; exact W].
  Qed.

  Lemma cons_convert_binary self c :
    cg self -> kind_of (bt self) = KBinary -> post (convert_binary swidth cfg self c) (good_doc (tsig (bt self))).
  Proof.
    intros Hcg Eb. pose proof Hcg as (Hg & Hs & He). unfold convert_binary.
    destruct (negb (c_supp c) && _).
    - unfold parenthesize_if_necessary. destruct (is_code_cont _); [apply cons_convert_binary_chain; exact Hcg|].
      eapply post_bind; [apply cons_convert_binary_chain; exact Hcg|]. intros d [Hd Wd]. apply post_ret.
      unfold optional_paren. split.
      + rewrite dsig_group, dsig_append, dsig_nest, dsig_append. cbn [dsig flat_alt]. rewrite Hd. cbn. rewrite app_nil_r. reflexivity.
      + rewrite wsig_group. apply wsig_append; [rewrite wsig_nest; apply wsig_append; [|exact Wd]|]; apply wsig_flat_alt; try reflexivity;
          first [apply wsig_append; [apply wsig_text|reflexivity] | apply wsig_append; [reflexivity|apply wsig_text]].
    - pose proof (good_shape _ _ Hg) as Hshape.
      assert (Hk : inner_kind (kind_of (bt self)) = true) by (rewrite Eb; reflexivity).
      destruct (sc_inner' _ Hs Hk) as [Hcl _]. rewrite Eb in Hcl. cbn [knode_ok] in Hcl.
      destruct (children (bt self)) as [|e rest] eqn:Ecs; [discriminate|].
      assert (Hsh0 : map bt (bkids self) = children (bt self)) by (rewrite Ecs; exact Hshape).
      apply andb_prop in Hcl. destruct Hcl as [_ Hkeep]. rewrite <- Hshape in Hkeep.
      rewrite (tsig_kids' _ _ Hsh0 Hk Hs).
      apply flow_like_sig. apply Forall_forall. intros child Hin.
      destruct (cg_kid self child Hg Hs Hk Hin) as [Hsg Hsc].
      pose proof (all_kept_in _ _ (bt child) Hkeep (in_map bt _ _ Hin)) as Hkp. cbn beta in Hkp.
      split; [exact Hsc|]. intros Hgen c0. unfold bk.
      destruct (binop_from_kind (kind_of (bt child))) eqn:E1.
      { apply post_ret. fsimp. apply good_tx; [exact Hsc|]. unfold bk. destruct (kind_of (bt child)); try discriminate E1; reflexivity. }
      destruct (is_expr (bt child)) eqn:E2.
      { pstep Hsg Hsc. apply post_ret. fsimp. split; assumption. }
      apply post_ret. fsimp. rewrite ?Hgen, ?E1, ?E2 in Hkp. cbn in Hkp. unfold sig_empty in Hkp.
      destruct (tsig (bt child)); [reflexivity|discriminate].
  Qed.

  (* ---------- import.rs ---------- *)
  Section Import.
    Variable kids : list bundle.
    Hypothesis Hgood : Forall sgood kids.
    Hypothesis Hscope : Forall (fun b => sc (bt b) = true) kids.

    Lemma import_split_map :
      import_split kind_of children (map bt kids) =
      (map bt (fst (import_split bk bkids kids)), map bt (snd (import_split bk bkids kids))).
    Proof.
      unfold import_split. cbn [fst snd]. rewrite map_length.
      assert (P : forall l i,
                (fix pos (l : list tree) (i : nat) := match l with [] => None | x :: r =>
                   if (match kind_of x with KLeftParen | KImportItems => true | _ => false end) then Some i else pos r (S i) end) (map bt l) i =
                (fix pos (l : list bundle) (i : nat) := match l with [] => None | x :: r =>
                   if (match bk x with KLeftParen | KImportItems => true | _ => false end) then Some i else pos r (S i) end) l i).
      { induction l as [|x r IH]; intros i; cbn; [reflexivity|]. rewrite IH. reflexivity. }
      rewrite P. set (dv := match _ with Some i => i | None => length kids end). f_equal.
      - destruct dv as [|d']; [reflexivity|]. rewrite nth_error_map. destruct (nth_error kids d') as [b|]; cbn [option_map].
        + unfold bk. destruct (kind_eqb _ _); rewrite firstn_map; reflexivity.
        + rewrite firstn_map. reflexivity.
      - rewrite skipn_map.
        assert (Hs : Forall sgood (skipn dv kids)) by (apply Forall_skipn; exact Hgood).
        induction Hs as [|x l Hx Hl IHl]; cbn [map flat_map]; [reflexivity|]. rewrite map_app, IHl. f_equal.
        unfold bk. destruct (kind_eqb _ _); [symmetry; apply (good_shape _ _ Hx)|reflexivity].
    Qed.

    Lemma import_split_eq :
      let divider := match position (fun b => kin (bk b) [KLeftParen; KImportItems]) kids 0 with Some i => i | None => length kids end in
      (match divider with
       | S d' => match nth_error kids d' with
                 | Some b => if kind_eqb (bk b) KSpace then firstn d' kids else firstn divider kids
                 | None => firstn divider kids
                 end
       | O => []
       end,
       flat_map (fun b => if kind_eqb (bk b) KImportItems then bkids b else [b]) (skipn divider kids)) = import_split bk bkids kids.
    Proof.
      intros divider. unfold import_split, divider.
      assert (P : forall l i, position (fun b => kin (bk b) [KLeftParen; KImportItems]) l i =
                (fix pos (l : list bundle) (i : nat) := match l with [] => None | x :: r =>
                   if (match bk x with KLeftParen | KImportItems => true | _ => false end) then Some i else pos r (S i) end) l i).
      { induction l as [|x r IH]; intros i; cbn [position]; [reflexivity|]. rewrite IH. destruct (bk x); reflexivity. }
      rewrite P. reflexivity.
    Qed.

    Lemma Forall_split (P : bundle -> Prop) :
      Forall P kids -> (forall b, In b kids -> kind_eqb (bk b) KImportItems = true -> Forall P (bkids b)) ->
      Forall P (fst (import_split bk bkids kids)) /\ Forall P (snd (import_split bk bkids kids)).
    Proof.
      intros H Hsub. unfold import_split. cbn [fst snd]. set (dv := match _ with Some i => i | None => length kids end). split.
      - destruct dv as [|d']; [constructor|]. destruct (nth_error kids d'); [destruct (kind_eqb _ _)|]; apply Forall_firstn; exact H.
      - assert (Hs : Forall P (skipn dv kids)) by (apply Forall_skipn; exact H).
        assert (Hin : forall b, In b (skipn dv kids) -> In b kids).
        { intros b Hb. rewrite <- (firstn_skipn dv kids). apply in_or_app. right. exact Hb. }
        induction (skipn dv kids) as [|x l IHl]; cbn [flat_map]; [constructor|]. inversion Hs; subst.
        apply Forall_app. split; [|apply IHl; [assumption|intros; apply Hin; right; assumption]].
        destruct (kind_eqb (bk x) KImportItems) eqn:E; [apply Hsub; [apply Hin; left; reflexivity|exact E]|constructor; [assumption|constructor]].
    Qed.

    Lemma cons_convert_import fs c :
      (let '(p, n) := import_split kind_of children (map bt kids) in
       str_eqb (tsigl (map bt kids)) (tsigl p ++ tsigl n) &&
       all_kept (fun c => match kind_of c with KColon | KStar | KIdent => true | _ => is_expr c end) p &&
       lwalkb (fun c => match kind_of c with KRenamedImportItem | KImportItemPath => true | _ => false end) n false) = true ->
      post (convert_import swidth cfg fs kids c) (good_doc (tsigs kids)).
    Proof.
      intros Hcl. rewrite import_split_map in Hcl.
      apply andb_prop in Hcl. destruct Hcl as [Hcl Hw]. apply andb_prop in Hcl. destruct Hcl as [Heq Hkeep].
      apply (proj1 (str_eqb_eq _ _)) in Heq. rewrite !tsigl_map in Heq. rewrite Heq.
      assert (HsubG : forall b, In b kids -> kind_eqb (bk b) KImportItems = true -> Forall sgood (bkids b)).
      { intros b Hin _. rewrite Forall_forall in Hgood. apply (good_kids _ _ (Hgood b Hin)). }
      assert (HsubS : forall b, In b kids -> kind_eqb (bk b) KImportItems = true -> Forall (fun k => sc (bt k) = true) (bkids b)).
      { intros b Hin Hk. rewrite Forall_forall in Hgood, Hscope. apply Forall_forall. intros k Hink.
        apply (cg_kid b k (Hgood b Hin) (Hscope b Hin)); [unfold bk in *; apply keq in Hk; rewrite Hk; reflexivity|exact Hink]. }
      destruct (Forall_split sgood Hgood HsubG) as [Hgp Hgn]. destruct (Forall_split _ Hscope HsubS) as [Hsp Hsn].
      unfold convert_import. cbv zeta. pose proof import_split_eq as Hsplit. cbv zeta in Hsplit.
      pose proof (f_equal fst Hsplit) as Hp. pose proof (f_equal snd Hsplit) as Hn. cbn [fst snd] in Hp, Hn. clear Hsplit.
      set (sp := import_split bk bkids kids) in *.
      rewrite Hp. 
      eapply post_bind.
      - apply flow_like_sig. apply Forall_forall. intros child Hin. rewrite Forall_forall in Hgp, Hsp.
        pose proof (Hgp child Hin) as Hsg. pose proof (Hsp child Hin) as Hsc.
        pose proof (all_kept_in _ _ (bt child) Hkeep (in_map bt _ _ Hin)) as Hkp. cbn beta in Hkp.
        split; [exact Hsc|]. intros Hgen c0. rewrite Hgen in Hkp. cbn [orb] in Hkp. unfold bk in *.
        destruct (kind_of (bt child)) eqn:Ekc;
          lazymatch type of Ekc with
          | _ = KColon => apply post_ret; fsimp; rewrite (sc_quiet _ Hsc) by (rewrite Ekc; reflexivity); exact (good_text [58])
          | _ = KStar => apply post_ret; fsimp; apply (good_lit_fixed _ _ Hsc); unfold bk; rewrite Ekc; reflexivity
          | _ = KIdent => apply post_ret; fsimp; apply good_trivia; [exact Hsc|unfold bk; rewrite Ekc; reflexivity]
          | _ =>
              destruct (is_expr (bt child)) eqn:Ee;
              [ eapply post_bind; [apply (sgood_call child (RExpr c0) Hsg Hsc); reflexivity|]; intros d Hd; apply post_ret; fsimp; exact Hd
              | apply post_ret; fsimp; unfold is_expr in Ee; rewrite Ekc in Ee; cbn in Hkp; unfold is_expr in Hkp; rewrite ?Ekc in Hkp; cbn in Hkp;
                unfold sig_empty in Hkp; destruct (tsig (bt child)); [reflexivity|discriminate Hkp] ]
          end.
      - intros pd [Hpd Wpd].
        assert (Hnodes : snd sp = [] -> tsigs (snd sp) = []) by (intros ->; reflexivity).
        destruct (skipn _ kids) as [|i0 ir] eqn:Esk.
        { cbn [flat_map] in Hn. rewrite <- Hn. rewrite tsigs_nil, app_nil_r. apply post_ret. split; assumption. }
        rewrite Hn. destruct (snd sp) as [|n0 nr] eqn:Esn.
        { rewrite tsigs_nil, app_nil_r. apply post_ret. split; assumption. }
        eapply post_bind.
        + unfold convert_import_items, import_items_final, import_items_order. rewrite Hreorder. cbn [andb].
          assert (Hlp : forall nodes', nodes' = n0 :: nr ->
                    post (l <- lst_process swidth (lst_with_fold_style lst_new fs) c nodes'
                                 (fun (c0 : ctx) (child : bundle) =>
                                  match bk child with
                                  | KRenamedImportItem => d <- call child (RImportItemRenamed c0) ;; ret (Some d)
                                  | KImportItemPath => d <- call child (RImportItemPath c0) ;; ret (Some d)
                                  | _ => ret None
                                  end) ;;
                          ret (lst_doc swidth cfg l (mk_ls [44] [40] [41] false false false false false true true false)))
                         (good_doc (tsigs (n0 :: nr)))).
          { intros nodes' ->. eapply post_bind.
            - eapply post_weaken.
              + apply (lst_process_sig (lst_with_fold_style lst_new fs) c (n0 :: nr) _ (fun b => match bk b with KRenamedImportItem | KImportItemPath => true | _ => false end)).
                * split; cbn [l_items l_free lst_new lst_with_fold_style]; apply Forall_nil.
                * cbn [l_peek_hash lst_new lst_with_fold_style].
                  apply (lwalkb_lwalk (fun c => match kind_of c with KRenamedImportItem | KImportItemPath => true | _ => false end)); [exact Hsn|exact Hw].
                * intros c0 b Hin Ha. rewrite Forall_forall in Hgn, Hsn. unfold bk in *.
                  destruct (kind_of (bt b)) eqn:Ekb; try discriminate Ha;
                    (eapply post_bind; [apply (sgood_call b _ (Hgn b Hin) (Hsn b Hin)); cbn; unfold is_kind; rewrite Ekb; reflexivity|];
                     intros d Hd; apply post_ret; exists d; auto).
                * intros c0 b Hin Ha. unfold bk in *. destruct (kind_of (bt b)); try discriminate Ha; apply post_ret; reflexivity.
              + intros l H. exact H.
            - intros l (E & W & F). apply post_ret. apply lst_doc_good; [repeat split; reflexivity|exact E|exact W|exact F]. }
          match goal with |- post (bind (lst_process _ _ _ (if ?b then _ else _) _) _) _ => destruct b end; apply Hlp; reflexivity.
        + intros d [Hd Wd]. apply post_ret. split.
          * rewrite !dsig_append, Hpd, Hd. match goal with |- context [if ?b then hardline else space] => destruct b end;
              [change (dsig hardline) with (@nil N)|change (dsig space) with (@nil N)]; rewrite app_nil_r; reflexivity.
          * apply wsig_append; [apply wsig_append; [exact Wpd|]|exact Wd]. match goal with |- context [if ?b then hardline else space] => destruct b end; reflexivity.
    Qed.
  End Import.

  (* ---------- dispatch, step, build ---------- *)
  Lemma tsig_kids t kids : map bt kids = children t -> inner_kind (kind_of t) = true -> sc t = true -> tsig t = tsigs kids.
  Proof.
    intros Hm Hk Hs. destruct t as [k s a|k cs a]; cbn [children kind_of tsig sc] in *.
    - rewrite Hk in Hs. destruct s; [|discriminate]. destruct kids; [destruct (blank_kind k); reflexivity|discriminate].
    - unfold tsigs. rewrite <- Hm, map_map. reflexivity.
  Qed.

  Lemma sc_inner t : sc t = true -> inner_kind (kind_of t) = true ->
    knode_ok (kind_of t) (children t) = true /\ Forall (fun c => sc c = true) (children t).
  Proof.
    destruct t as [k s a|k cs a]; cbn [kind_of children]; intros Hs Hk.
    - cbn [sc] in Hs. rewrite Hk in Hs. apply andb_prop in Hs. destruct Hs as [Hs _]. apply andb_prop in Hs. destruct Hs as [_ Hs]. split; [exact Hs|constructor].
    - apply (sc_kids _ _ _ Hs).
  Qed.


  Section Node.
    Variable t : tree.
    Variable kids : list bundle.
    Hypothesis Hgood : Forall sgood kids.
    Hypothesis Hshape : map bt kids = children t.
    Hypothesis Hsc : sc t = true.

    Lemma kids_scope : inner_kind (kind_of t) = true -> Forall (fun b => sc (bt b) = true) kids.
    Proof.
      intros Hk. destruct (sc_inner t Hsc Hk) as [_ Hc]. rewrite <- Hshape in Hc.
      apply Forall_forall. intros b Hin. rewrite Forall_forall in Hc. apply Hc. apply in_map. exact Hin.
    Qed.
    Lemma node_clause : inner_kind (kind_of t) = true -> knode_ok (kind_of t) (map bt kids) = true.
    Proof. intros Hk. rewrite Hshape. apply (sc_inner t Hsc Hk). Qed.

    Ltac inner_case lemma :=
      let Hk := fresh "Hk" in
      match goal with E : kind_of t = ?K |- _ =>
        assert (Hk : inner_kind (kind_of t) = true) by (rewrite E; reflexivity);
        rewrite (tsig_kids t kids Hshape Hk Hsc);
        pose proof (node_clause Hk) as Hclause; rewrite E in Hclause; cbn [knode_ok] in Hclause;
        apply lemma; [exact Hgood|apply kids_scope; exact Hk|try exact Hclause]
      end.

    Lemma leaf_token_good : inner_kind (kind_of t) || blank_kind (kind_of t) = false -> good_doc (tsig t) (convert_trivia swidth t).
    Proof. intros Hk. unfold convert_trivia. rewrite (sc_token t Hsc Hk). apply good_text. Qed.

    Lemma cons_convert_expr_impl self c :
      sgood self -> bt self = t -> bkids self = kids -> post (convert_expr_impl swidth cfg self c) (good_doc (tsig t)).
    Proof.
      intros Hself Et Ek. unfold convert_expr_impl. rewrite Et, Ek.
      destruct (kind_of t) eqn:E;
        lazymatch goal with
        | E : kind_of t = KParbreak |- _ =>
            apply post_ret; unfold convert_parbreak; split; [|apply wsig_repeat; reflexivity];
            rewrite dsig_repeat_quiet by reflexivity; symmetry; apply sc_quiet; [exact Hsc|rewrite E; reflexivity]
        | E : kind_of t = KNone |- _ =>
            apply post_ret; rewrite (sc_fixed t [110; 111; 110; 101] Hsc) by (rewrite E; reflexivity); apply good_text
        | E : kind_of t = KAuto |- _ =>
            apply post_ret; rewrite (sc_fixed t [97; 117; 116; 111] Hsc) by (rewrite E; reflexivity); apply good_text
        | E : kind_of t = KHeading |- _ => inner_case cons_convert_heading
        | E : kind_of t = KStrong |- _ => inner_case cons_convert_strong
        | E : kind_of t = KEmph |- _ => inner_case cons_convert_emph
        | E : kind_of t = KContentBlock |- _ => inner_case cons_convert_content_block
        | E : kind_of t = KRaw |- _ =>
            let Hk := fresh "Hk" in
            assert (Hk : inner_kind (kind_of t) = true) by (rewrite E; reflexivity);
            pose proof (node_clause Hk) as Hclause; rewrite E in Hclause; cbn [knode_ok] in Hclause;
            apply post_ret; rewrite (tsig_kids t kids Hshape Hk Hsc);
            apply good_convert_raw; [apply kids_scope; exact Hk|exact Hclause|exact Hshape|exact Hk|exact Hsc|exact E]
        | E : kind_of t = KRef |- _ =>
            let Hk := fresh "Hk" in
            assert (Hk : inner_kind (kind_of t) = true) by (rewrite E; reflexivity);
            pose proof (node_clause Hk) as Hclause; rewrite E in Hclause; cbn [knode_ok] in Hclause;
            rewrite (tsig_kids t kids Hshape Hk Hsc);
            apply cons_convert_ref; [exact Hgood|apply kids_scope; exact Hk|exact Hshape|exact Hclause]
        | E : kind_of t = KMathPrimes |- _ =>
            let Hk := fresh "Hk" in
            assert (Hk : inner_kind (kind_of t) = true) by (rewrite E; reflexivity);
            pose proof (node_clause Hk) as Hclause; rewrite E in Hclause; cbn [knode_ok] in Hclause;
            apply (proj1 (str_eqb_eq _ _)) in Hclause; rewrite tsigl_map in Hclause;
            apply post_ret; rewrite (tsig_kids t kids Hshape Hk Hsc), Hclause; unfold convert_math_primes;
            replace (math_primes_count t) with (math_primes_count (Inner KMathPrimes (map bt kids) no_attrs))
              by (unfold math_primes_count; cbn [children]; rewrite Hshape; reflexivity);
            apply good_text
        | E : kind_of t = KParenthesized |- _ => inner_case cons_convert_parenthesized
        | E : kind_of t = KFuncCall |- _ =>
            let Hcgs := fresh "Hcgs" in
            assert (Hcgs : cg self) by (unfold cg; rewrite Et; split; [exact Hself|split; [exact Hsc|unfold is_expr; rewrite E; reflexivity]]);
            rewrite <- Et; apply cons_convert_func_call_any; [exact Hcgs|rewrite Et; exact E]
        | E : kind_of t = KBinary |- _ =>
            let Hcgs := fresh "Hcgs" in
            assert (Hcgs : cg self) by (unfold cg; rewrite Et; split; [exact Hself|split; [exact Hsc|unfold is_expr; rewrite E; reflexivity]]);
            rewrite <- Et; apply cons_convert_binary; [exact Hcgs|rewrite Et; exact E]
        | E : kind_of t = KFieldAccess |- _ =>
            let Hcgs := fresh "Hcgs" in
            assert (Hcgs : cg self) by (unfold cg; rewrite Et; split; [exact Hself|split; [exact Hsc|unfold is_expr; rewrite E; reflexivity]]);
            rewrite <- Et; apply cons_convert_field_access; [exact Hcgs|rewrite Et; exact E]
        | E : kind_of t = KCodeBlock |- _ =>
            let Hk := fresh "Hk" in
            assert (Hk : inner_kind (kind_of t) = true) by (rewrite E; reflexivity);
            pose proof (node_clause Hk) as Hclause; rewrite E in Hclause; cbn [knode_ok] in Hclause;
            rewrite (tsig_kids t kids Hshape Hk Hsc);
            apply cons_convert_code_block; [exact Hgood|apply kids_scope; exact Hk|exact Hshape|exact Hk|exact Hsc|exact Hclause]
        | E : kind_of t = KMath |- _ =>
            let Hk := fresh "Hk" in
            assert (Hk : inner_kind (kind_of t) = true) by (rewrite E; reflexivity);
            pose proof (node_clause Hk) as Hclause; rewrite E in Hclause; cbn [knode_ok] in Hclause;
            rewrite (tsig_kids t kids Hshape Hk Hsc);
            apply cons_convert_math; [exact Hgood|apply kids_scope; exact Hk|exact Hshape|exact Hk|exact Hsc|exact Hclause]
        | E : kind_of t = KEquation |- _ => inner_case cons_convert_equation
        | E : kind_of t = KMathDelimited |- _ => inner_case cons_convert_math_delimited
        | E : kind_of t = KMathAttach |- _ => inner_case cons_convert_math_attach_like
        | E : kind_of t = KMathRoot |- _ => inner_case cons_convert_math_attach_like
        | E : kind_of t = KMathFrac |- _ => inner_case cons_convert_math_frac
        | E : kind_of t = KListItem |- _ => inner_case cons_convert_list_item_like
        | E : kind_of t = KEnumItem |- _ => inner_case cons_convert_list_item_like
        | E : kind_of t = KTermItem |- _ => inner_case cons_convert_list_item_like
        | E : kind_of t = KLoopBreak |- _ =>
            let Hk := fresh "Hk" in
            assert (Hk : inner_kind (kind_of t) = true) by (rewrite E; reflexivity);
            pose proof (node_clause Hk) as Hclause; rewrite E in Hclause; cbn [knode_ok] in Hclause;
            apply (proj1 (str_eqb_eq _ _)) in Hclause; rewrite tsigl_map in Hclause;
            apply post_ret; rewrite (tsig_kids t kids Hshape Hk Hsc), Hclause; exact (good_text [98; 114; 101; 97; 107])
        | E : kind_of t = KLoopContinue |- _ =>
            let Hk := fresh "Hk" in
            assert (Hk : inner_kind (kind_of t) = true) by (rewrite E; reflexivity);
            pose proof (node_clause Hk) as Hclause; rewrite E in Hclause; cbn [knode_ok] in Hclause;
            apply (proj1 (str_eqb_eq _ _)) in Hclause; rewrite tsigl_map in Hclause;
            apply post_ret; rewrite (tsig_kids t kids Hshape Hk Hsc), Hclause; exact (good_text [99; 111; 110; 116; 105; 110; 117; 101])
        | E : kind_of t = KClosure |- _ =>
            let Hk := fresh "Hk" in
            assert (Hk : inner_kind (kind_of t) = true) by (rewrite E; reflexivity);
            pose proof (node_clause Hk) as Hclause; rewrite E in Hclause; cbn [knode_ok] in Hclause;
            rewrite (tsig_kids t kids Hshape Hk Hsc);
            apply cons_convert_closure; [exact Hgood|apply kids_scope; exact Hk|];
            replace (closure_name t) with (closure_name (Inner KClosure (map bt kids) no_attrs))
              by (unfold closure_name; cbn [children]; rewrite Hshape; reflexivity);
            exact Hclause
        | E : kind_of t = KForLoop |- _ => inner_case cons_convert_for_loop
        | E : kind_of t = KModuleImport |- _ => inner_case cons_convert_import
        | E : kind_of t = KArray |- _ => inner_case cons_convert_array
        | E : kind_of t = KDict |- _ => inner_case cons_convert_dict
        | E : kind_of t = KUnary |- _ => inner_case cons_convert_unary
        | E : kind_of t = KLetBinding |- _ => inner_case cons_convert_let_binding
        | E : kind_of t = KSetRule |- _ => inner_case cons_convert_set_rule
        | E : kind_of t = KShowRule |- _ => inner_case cons_convert_show_rule
        | E : kind_of t = KContextual |- _ => inner_case cons_expr_flow
        | E : kind_of t = KConditional |- _ => inner_case cons_expr_flow
        | E : kind_of t = KWhileLoop |- _ => inner_case cons_expr_flow
        | E : kind_of t = KModuleInclude |- _ => inner_case cons_expr_flow
        | E : kind_of t = KFuncReturn |- _ => inner_case cons_expr_flow
        | E : kind_of t = KDestructAssignment |- _ => inner_case cons_convert_destruct_assignment
        | _ =>
            first [ apply post_ret; first [apply good_verbatim; apply (sc_tok_ascii _ Hsc); rewrite E; reflexivity | apply leaf_token_good; rewrite E; reflexivity]
                  | intros n d n' H; discriminate H
                  | exfalso; destruct t as [k0 s0 a0|k0 cs0 a0]; cbn in E; subst; cbn in Hsc; try (destruct s0); cbn in Hsc; discriminate Hsc ]
        end.
    Qed.
  End Node.
  Section Node2.
    Variable t : tree.
    Variable kids : list bundle.
    Hypothesis Hgood : Forall sgood kids.
    Hypothesis Hshape : map bt kids = children t.
    Hypothesis Hsc : sc t = true.

    Lemma post_bump_then {A} (m : M A) Q : post m Q -> post (bump ;;; m) Q.
    Proof. intros H. apply (post_bind _ _ (fun _ => True)); [apply post_any|intros; exact H]. Qed.

    Lemma cons_check_disabled m : post m (good_doc (tsig t)) -> post (check_disabled swidth t m) (good_doc (tsig t)).
    Proof. intros H. unfold check_disabled. destruct (a_disabled _) eqn:Edis; [apply post_ret; apply good_verbatim; apply disabled_ascii; assumption|exact H]. Qed.

    Lemma cons_convert_expr self c :
      sgood self -> bt self = t -> bkids self = kids -> post (convert_expr swidth cfg self c) (good_doc (tsig t)).
    Proof.
      intros Hself Et Ek. unfold convert_expr. apply post_bump_then. rewrite Et. apply cons_check_disabled.
      apply (cons_convert_expr_impl t kids Hgood Hshape Hsc); assumption.
    Qed.

    Ltac inner_case2 lemma :=
      let Hk := fresh "Hk" in
      match goal with E : kind_of t = ?K |- _ =>
        assert (Hk : inner_kind (kind_of t) = true) by (rewrite E; reflexivity);
        rewrite (tsig_kids t kids Hshape Hk Hsc);
        pose proof (node_clause t kids Hshape Hsc Hk) as Hclause; rewrite E in Hclause; cbn [knode_ok] in Hclause;
        apply lemma; [exact Hgood|apply (kids_scope t kids Hshape Hsc); exact Hk|try exact Hclause]
      end.

    Lemma cons_convert_pattern self c :
      sgood self -> bt self = t -> bkids self = kids -> post (convert_pattern swidth cfg self c) (good_doc (tsig t)).
    Proof.
      intros Hself Et Ek. unfold convert_pattern. apply post_bump_then. rewrite Et. apply cons_check_disabled.
      unfold bk. rewrite Et, Ek. destruct (kind_of t) eqn:E; try (apply cons_convert_expr; assumption).
      - (* Underscore *) apply post_ret. rewrite (sc_fixed t [95] Hsc) by (rewrite E; reflexivity). apply good_text.
      - (* Parenthesized *) inner_case2 cons_convert_parenthesized.
      - (* Destructuring *) inner_case2 cons_convert_destructuring.
    Qed.

    Lemma cons_convert_embedded_expr self c :
      sgood self -> bt self = t -> bkids self = kids -> post (convert_embedded_expr swidth cfg self c) (good_doc (tsig t)).
    Proof.
      intros Hself Et Ek. unfold convert_embedded_expr. unfold bk. rewrite Et, Ek.
      destruct (kind_eqb (kind_of t) KParenthesized) eqn:E0; [|apply cons_convert_expr; assumption].
      apply keq in E0. apply post_bump_then. apply cons_check_disabled. rename E0 into E. inner_case2 cons_convert_parenthesized.
    Qed.

    Theorem step_sig r : fit r t = true -> post (step swidth cfg t kids r) (good_doc (tsig t)).
    Proof.
      intros Hfit. unfold step.
      assert (Hpself : sgood (Bundle t (fun _ => panic SBadRequest) kids)).
      { apply good_intro; [intros _ r0 _ n d n' H; discriminate H|exact Hshape|exact Hgood]. }
      destruct r; cbn [fit] in Hfit; unfold is_kind in Hfit; try apply keq in Hfit;
        lazymatch goal with
        | |- post (convert_expr _ _ _ _) _ => apply cons_convert_expr; [exact Hpself|reflexivity|reflexivity]
        | |- post (convert_pattern _ _ _ _) _ => apply cons_convert_pattern; [exact Hpself|reflexivity|reflexivity]
        | |- post (convert_embedded_expr _ _ _ _) _ => apply cons_convert_embedded_expr; [exact Hpself|reflexivity|reflexivity]
        | |- post (convert_markup_impl _ _ _ _ _) _ => rename Hfit into E; inner_case2 cons_convert_markup_impl
        | |- post (convert_content_block _ _ _ _) _ => rename Hfit into E; inner_case2 cons_convert_content_block
        | |- post (convert_math _ _ _ _) _ =>
            rename Hfit into E;
            let Hk := fresh "Hk" in
            assert (Hk : inner_kind (kind_of t) = true) by (rewrite E; reflexivity);
            pose proof (node_clause t kids Hshape Hsc Hk) as Hclause; rewrite E in Hclause; cbn [knode_ok] in Hclause;
            rewrite (tsig_kids t kids Hshape Hk Hsc);
            apply cons_convert_math; [exact Hgood|apply (kids_scope t kids Hshape Hsc); exact Hk|exact Hshape|exact Hk|exact Hsc|exact Hclause]
        | |- post (convert_parenthesized _ _ _ _ _ _) _ => rename Hfit into E; inner_case2 cons_convert_parenthesized
        | |- post (convert_named _ _ _) _ => rename Hfit into E; inner_case2 cons_convert_named
        | |- post (convert_keyed _ _ _) _ => rename Hfit into E; inner_case2 cons_convert_keyed
        | |- post (convert_spread _ _ _) _ => rename Hfit into E; inner_case2 cons_convert_spread
        | |- post (convert_params _ _ _ _ _ _) _ => rename Hfit into E; inner_case2 cons_convert_params
        | |- post (convert_args _ _ _ _ _) _ =>
            rename Hfit into E; inner_case2 cons_convert_args; apply andb_prop in Hclause; apply Hclause
        | |- post (convert_func_call_args _ _ _ _ _ ?ti) _ =>
            apply andb_prop in Hfit; destruct Hfit as [E Hti]; apply keq in E;
            let Hk := fresh "Hk" in
            assert (Hk : inner_kind (kind_of t) = true) by (rewrite E; reflexivity);
            pose proof (node_clause t kids Hshape Hsc Hk) as Hclause; rewrite E in Hclause; cbn [knode_ok] in Hclause;
            rewrite (tsig_kids t kids Hshape Hk Hsc); rewrite <- Hshape in Hti;
            destruct ti;
            [ apply cons_convert_func_call_args; [exact Hgood|apply (kids_scope t kids Hshape Hsc); exact Hk|exact Hclause]
            | apply andb_prop in Hclause; apply cons_func_call_args_nocols; [exact Hgood|apply (kids_scope t kids Hshape Hsc); exact Hk|exact Hti|apply Hclause]
            | apply andb_prop in Hclause; apply cons_func_call_args_cols; [exact Hgood|apply (kids_scope t kids Hshape Hsc); exact Hk|exact Hti|apply Hclause] ]
        | |- post (convert_parenthesized_args _ _ _ _ _) _ =>
            apply andb_prop in Hfit; destruct Hfit as [E Hpo]; apply keq in E;
            let Hk := fresh "Hk" in
            assert (Hk : inner_kind (kind_of t) = true) by (rewrite E; reflexivity);
            pose proof (node_clause t kids Hshape Hsc Hk) as Hclause; rewrite E in Hclause; cbn [knode_ok] in Hclause;
            apply andb_prop in Hclause; destruct Hclause as [Hao _];
            rewrite (tsig_kids t kids Hshape Hk Hsc), (args_sig_eq kids Hao);
            unfold paren_args_only in Hpo; rewrite <- Hshape in Hpo; apply andb_prop in Hpo; destruct Hpo as [Hhp Hex];
            rewrite (has_paren_map kids), Hhp;
            unfold args_extra in Hex; rewrite Hhp in Hex;
            rewrite <- skip_until_map, <- (filter_map_bt (fun b => kind_eqb (kind_of b) KContentBlock)) in Hex;
            destruct (filter (fun b => kind_eqb (kind_of (bt b)) KContentBlock) (skip_until KRightParen kids)) eqn:Efl; [|discriminate Hex];
            unfold bk; rewrite Efl, tsigs_nil, app_nil_r;
            apply cons_convert_parenthesized_args; [exact Hgood|apply (kids_scope t kids Hshape Hsc); exact Hk|];
            unfold args_ok in Hao; apply andb_prop in Hao; destruct Hao as [_ Hw]; unfold args_main in Hw; rewrite Hhp in Hw; exact Hw
        | |- post (convert_import_item_path _ _ _) _ => rename Hfit into E; inner_case2 cons_convert_import_item_path
        | |- post (convert_import_item_renamed _ _ _) _ => rename Hfit into E; inner_case2 cons_convert_import_item_renamed
        | _ => exfalso; destruct t as [k0 s0 a0|k0 cs0 a0]; cbn in Hfit; subst; cbn in Hsc; try (destruct s0); cbn in Hsc; discriminate Hsc
        end.
    Qed.
  End Node2.

  Theorem build_sgood t : sgood (build swidth cfg t).
  Proof.
    induction t as [k s a|k cs a IH] using tree_ind'; cbn [build].
    - apply good_intro; [|reflexivity|constructor]. intros Hs r Hf. cbn [bt bself] in *.
      apply (step_sig (Leaf k s a) [] (Forall_nil _) eq_refl Hs r Hf).
    - assert (Hk : Forall sgood (map (build swidth cfg) cs)).
      { induction IH as [|x l Hx Hl IHl]; cbn; constructor; assumption. }
      assert (Hshape : map bt (map (build swidth cfg) cs) = cs).
      { clear. induction cs as [|x l IHl]; cbn; [reflexivity|]. rewrite IHl. destruct x; reflexivity. }
      apply good_intro; [|exact Hshape|exact Hk]. intros Hs r Hf. cbn [bt bself] in *.
      apply (step_sig (Inner k cs a) _ Hk Hshape Hs r Hf).
  Qed.
(*PART*)
End SigConv.

From TV Require Import Attr AttrShape Format.

Lemma tsig_erase t : tsig (erase t) = tsig t.
Proof.
  induction t as [k s a|k cs a IH] using tree_ind'; [reflexivity|]. cbn [erase tsig]. rewrite map_map.
  induction IH as [|c l Hc Hl IHl]; cbn [map concat]; [reflexivity|]. rewrite Hc, IHl. reflexivity.
Qed.
Lemma tsig_annotate t : tsig (annotate t) = tsig t.
Proof. rewrite <- (tsig_erase (annotate t)), erase_annotate. apply tsig_erase. Qed.

(* the converter conserves the signature of every tree in scope *)
Theorem convert_root_conserves swidth cfg t d n :
  reorder_import_items cfg = false -> sc (annotate t) = true ->
  convert_root swidth cfg t = Ok (d, n) -> dsig d = tsig t /\ wsig d = true.
Proof.
  intros Hre Hsc H. unfold convert_root in H. destruct (negb (kind_eqb (kind_of t) KMarkup)) eqn:Ek; [discriminate|].
  unfold run_m, convert_markup_root in H.
  pose proof (build_sgood swidth cfg Hre (annotate t)) as Hg.
  assert (Hbt : bt (build swidth cfg (annotate t)) = annotate t) by (destruct (annotate t); reflexivity).
  pose proof (sgood_call _ (RMarkup ctx_default ScDocument) Hg) as Hp. rewrite Hbt in Hp.
  assert (Hfit : fit (RMarkup ctx_default ScDocument) (annotate t) = true).
  { cbn. unfold is_kind. rewrite kind_of_annotate. destruct (kind_eqb (kind_of t) KMarkup); [reflexivity|discriminate]. }
  destruct (Hp Hsc Hfit 0%N d n H) as [Hd Hw]. rewrite tsig_annotate in Hd. auto.
Qed.
