(* SigScope.v — the scope of the conservation theorem (SigConv.v), as a computable predicate on the syntax tree.
   `sc t` collects, node by node, what the proof of "the converter of this node conserves its signature" needs of the
   node's shape (tokens are leaves with their fixed spelling, blanks are ASCII blanks, children a converter skips carry
   no signature, ...).  It is extracted and evaluated on every tree the parser hands over; the check reports how many
   trees are in scope.  A kind whose converter is not yet proved has `knode_ok = false`. *)
From TV Require Import Tree Ast Doc Sig SigTree Comment.
From TV.gen Require Import Kind Tables.

(* kinds of inner nodes; every other kind is a token (a leaf) *)
Definition inner_kind (k : kind) : bool :=
  match k with
  | KMarkup | KStrong | KEmph | KRaw | KRef | KHeading | KListItem | KEnumItem | KTermItem | KEquation | KMath
  | KMathDelimited | KMathAttach | KMathPrimes | KMathFrac | KMathRoot | KCode | KCodeBlock | KContentBlock
  | KParenthesized | KArray | KDict | KNamed | KKeyed | KUnary | KBinary | KFieldAccess | KFuncCall | KArgs | KSpread
  | KClosure | KParams | KLetBinding | KSetRule | KShowRule | KContextual | KConditional | KWhileLoop | KForLoop
  | KModuleImport | KImportItems | KImportItemPath | KRenamedImportItem | KModuleInclude | KLoopBreak | KLoopContinue
  | KFuncReturn | KDestructuring | KDestructAssignment => true
  | _ => false
  end.

(* tokens whose text is all noise (blanks or delimiters) *)
Definition quiet_leaf (k : kind) : bool :=
  match k with
  | KSpace | KParbreak | KRawTrimmed | KLeftParen | KRightParen | KLeftBracket | KRightBracket | KLeftBrace | KRightBrace
  | KDollar | KComma | KSemicolon | KColon => true
  | _ => false
  end.

(* tokens with a fixed spelling that a converter writes out as a literal *)
Definition fixed_leaf (k : kind) : option str :=
  match k with
  | KHash => Some [35] | KEq => Some [61] | KArrow => Some [61; 62] | KDots => Some [46; 46] | KDot => Some [46]
  | KStar => Some [42] | KUnderscore => Some [95]
  | KNone => Some [110; 111; 110; 101] | KAuto => Some [97; 117; 116; 111]
  | KBreak => Some [98; 114; 101; 97; 107] | KContinue => Some [99; 111; 110; 116; 105; 110; 117; 101]
  | KNot => Some [110; 111; 116]
  | _ => match binop_from_kind k with Some o => Some (binop_as_str o) | None => None end
  end.

Definition leaf_ok (k : kind) (s : str) (t : tree) : bool :=
  (if quiet_leaf k && negb (blank_kind k) then match sig s with [] => true | _ => false end else true) &&
  (match fixed_leaf k with Some lit => str_eqb s lit | None => true end) &&
  (match k with KLineComment | KBlockComment => comment_sig_ok t | _ => true end).

Definition sig_empty (t : tree) : bool := match tsig t with [] => true | _ => false end.
Definition is_generic (t : tree) : bool :=
  let k := kind_of t in
  (is_keyword k && negb (match k with KNone | KAuto => true | _ => false end)) || is_comment_node t || kind_eqb k KHash.

(* the list stylist's walk: a child is accepted by the converter's checker, or is a comment, or a hash directly
   followed by an accepted child, or carries no signature *)
Fixpoint lwalkb (accp : tree -> bool) (cs : list tree) (pend : bool) : bool :=
  match cs with
  | [] => negb pend
  | n :: r =>
      if accp n then lwalkb accp r false
      else negb pend &&
           (if is_comment_node n then lwalkb accp r false
            else if kind_eqb (kind_of n) KHash then lwalkb accp r true
            else sig_empty n && lwalkb accp r false)
  end.

Definition tsigl (cs : list tree) : str := concat (map tsig cs).

(* Args: the shapes func_call.rs takes apart *)
Fixpoint take_until_rparen_t (l : list tree) : list tree :=
  match l with
  | b :: r => if kind_eqb (kind_of b) KRightParen then [] else b :: take_until_rparen_t r
  | [] => []
  end.
Fixpoint skip_until_t (k : kind) (l : list tree) : list tree :=
  match l with
  | b :: r => if kind_eqb (kind_of b) k then l else skip_until_t k r
  | [] => []
  end.
Definition has_paren_t (cs : list tree) : bool :=
  match cs with b :: _ => kind_eqb (kind_of b) KLeftParen | [] => false end.
Definition args_main (cs : list tree) : list tree := if has_paren_t cs then take_until_rparen_t cs else [].
Definition args_extra (cs : list tree) : list tree :=
  filter (fun b => kind_eqb (kind_of b) KContentBlock) (skip_until_t (if has_paren_t cs then KRightParen else KContentBlock) cs).
Fixpoint position_t (p : tree -> bool) (l : list tree) (i : nat) : option nat :=
  match l with
  | [] => None
  | x :: r => if p x then Some i else position_t p r (S i)
  end.
Definition math_slice {A} (kof : A -> kind) (cs : list A) : list A :=
  let len := length cs in
  let i := match (fix pos (l : list A) (i : nat) := match l with [] => None | x :: r =>
                    if negb (match kof x with KLeftParen | KSpace => true | _ => false end) then Some i else pos r (S i) end) cs 0%nat with
           | Some i => i | None => 0%nat end in
  let j := match (fix pos (l : list A) (i : nat) := match l with [] => None | x :: r =>
                    if negb (match kof x with KRightParen | KSpace => true | _ => false end) then Some i else pos r (S i) end) (rev cs) 0%nat with
           | Some r => (len - 1 - r)%nat | None => (len - 1)%nat end in
  if Nat.ltb j i then [] else firstn (j + 1 - i) (skipn i cs).

Definition paren_args_only (cs : list tree) : bool :=
  has_paren_t cs && match args_extra cs with [] => true | _ => false end.
Definition args_ok (cs : list tree) : bool :=
  str_eqb (tsigl cs) (tsigl (args_main cs) ++ tsigl (args_extra cs)) && lwalkb is_arg (args_main cs) false.
Definition margs_ok (cs : list tree) : bool :=
  let sl := math_slice kind_of cs in
  str_eqb (tsigl cs) (tsigl sl) &&
  forallb (fun c => is_generic c || kind_eqb (kind_of c) KComma || kind_eqb (kind_of c) KSemicolon || is_arg c || sig_empty c) sl.

(* math.rs convert_math_delimited: the children between the delimiters, minus one blank at each end *)
Definition split_last_t {A} (l : list A) : option (list A * A) :=
  match rev l with x :: r => Some (rev r, x) | [] => None end.
Definition delimited_inner {A} (kof : A -> kind) (cs : list A) : list A :=
  match cs with
  | [] | [_] => []
  | _ :: rest =>
      let inner0 := removelast rest in
      let inner1 := match inner0 with
                    | first :: r => if kind_eqb (kof first) KSpace then r else inner0
                    | [] => inner0 end in
      match split_last_t inner1 with
      | Some (r, last) => if kind_eqb (kof last) KSpace then r else inner1
      | None => inner1
      end
  end.

(* the look-ahead state machines of convert_closure (0 name, 1 params, 2 body) and convert_for_loop (0 pattern, 1 iterable, 2 body) *)
Fixpoint closure_okb (cs : list tree) (st : nat) : bool :=
  match cs with
  | [] => true
  | c :: r =>
      if is_generic c || kind_eqb (kind_of c) KEq || kind_eqb (kind_of c) KArrow then closure_okb r st
      else match st with
           | O => if kind_eqb (kind_of c) KIdent then closure_okb r 1%nat else sig_empty c && closure_okb r 0%nat
           | S O => if kind_eqb (kind_of c) KParams then closure_okb r 2%nat else sig_empty c && closure_okb r 1%nat
           | _ => if is_expr c then closure_okb r 2%nat else sig_empty c && closure_okb r 2%nat
           end
  end.
Fixpoint for_okb (cs : list tree) (st : nat) : bool :=
  match cs with
  | [] => true
  | c :: r =>
      if is_generic c then for_okb r st
      else match st with
           | O => if is_pattern c then for_okb r 1%nat else sig_empty c && for_okb r 0%nat
           | S O => if is_expr c then for_okb r 2%nat else sig_empty c && for_okb r 1%nat
           | _ => if is_expr c then for_okb r 2%nat else sig_empty c && for_okb r 2%nat
           end
  end.

(* layout/chain.rs at the level of signatures: what the chain builder collects from the children of one field access *)
Fixpoint sim_dot (cs : list tree) (seen : bool) : str :=
  match cs with
  | [] => []
  | c :: r =>
      if kind_eqb (kind_of c) KDot then [46] ++ sim_dot r true
      else if is_comment_node c then tsig c ++ sim_dot r seen
      else if kind_eqb (kind_of c) KSpace then sim_dot r seen
      else if seen then (if kind_eqb (kind_of c) KIdent then tsig c else []) ++ sim_dot r seen
      else sim_dot r seen
  end.

(* the binary chain's operator conversion with its `not` look-behind, at the level of signatures *)
Definition bin_opsig (seen_not : bool) (k : kind) : bool * option str :=
  if kind_eqb k KNot then (true, None)
  else if kind_eqb k KIn && seen_not then (false, Some (sig (binop_as_str BNotIn)))
  else match binop_from_kind k with
       | Some o => (seen_not, Some (sig (binop_as_str o)))
       | None => (seen_not, None)
       end.
Fixpoint sim_bin (cs : list tree) (seen_op seen_not : bool) : str * bool :=
  match cs with
  | [] => ([], seen_not)
  | c :: r =>
      let '(sn, oc) := bin_opsig seen_not (kind_of c) in
      match oc with
      | Some x => let '(y, f) := sim_bin r true sn in (x ++ y, f)
      | None =>
          if is_comment_node c then let '(y, f) := sim_bin r seen_op sn in (tsig c ++ y, f)
          else if kind_eqb (kind_of c) KSpace then sim_bin r seen_op sn
          else if seen_op then let '(y, f) := sim_bin r seen_op sn in ((if is_expr c then tsig c else []) ++ y, f)
          else sim_bin r seen_op sn
      end
  end.

(* import.rs convert_import: the prefix (up to the item list, minus one blank) and the item nodes *)
Definition import_split {A} (kof : A -> kind) (sub : A -> list A) (cs : list A) : list A * list A :=
  let divider := match (fix pos (l : list A) (i : nat) := match l with [] => None | x :: r =>
                          if (match kof x with KLeftParen | KImportItems => true | _ => false end) then Some i else pos r (S i) end) cs 0%nat with
                 | Some i => i | None => length cs end in
  let items_part := skipn divider cs in
  let prefix :=
    match divider with
    | S d' => match nth_error cs d' with
              | Some b => if kind_eqb (kof b) KSpace then firstn d' cs else firstn divider cs
              | None => firstn divider cs
              end
    | O => []
    end in
  (prefix, flat_map (fun b => if kind_eqb (kof b) KImportItems then sub b else [b]) items_part).

(* table.rs / func_call.rs: the two table layouts of an argument list *)
Definition aslist_slice (cs : list tree) : list tree :=
  if has_paren_t cs then take_until_rparen_t (skip_until_t KLeftParen cs) else [].
Definition aslist_ok (cs : list tree) : bool :=
  str_eqb (tsigl cs) (tsigl (aslist_slice cs) ++ tsigl (args_extra cs)) &&
  forallb (fun c => kind_eqb (kind_of c) KComma || kind_eqb (kind_of c) KSpace || is_comment_node c || is_arg c || sig_empty c)
          (aslist_slice cs).
Definition table_named (cs : list tree) : list tree :=
  filter (fun c => kind_eqb (kind_of c) KNamed) (filter is_arg cs).
Definition table_pos (cs : list tree) : list tree :=
  filter (fun c => is_arg c && negb (match kind_of c with KNamed | KSpread => true | _ => false end)) (take_until_rparen_t cs).
Definition table_eq (cs : list tree) : bool :=
  str_eqb (tsigl cs) (tsigl (table_named cs) ++ tsigl (table_pos cs) ++ tsigl (args_extra cs)).

Section NodeOk.
  (* per kind: the children a converter does not hand on carry no signature; see SigConv.v for the use of each clause *)
  Definition all_kept (kept : tree -> bool) (cs : list tree) : bool :=
    forallb (fun c => is_generic c || kept c || sig_empty c) cs.

  Definition knode_ok (k : kind) (cs : list tree) : bool :=
    match k with
    | KNamed => all_kept (fun c => is_expr c || is_pattern c) cs
    | KKeyed => all_kept (fun c => is_expr c) cs
    | KSpread => all_kept (fun c => kind_eqb (kind_of c) KDots || is_expr c) cs
    | KUnary => all_kept (fun c => match unop_from_kind (kind_of c) with Some _ => true | None => is_expr c end) cs
    | KContextual | KConditional | KWhileLoop | KFuncReturn | KModuleInclude => all_kept is_expr cs
    | KLetBinding => all_kept (fun c => kind_eqb (kind_of c) KEq || is_pattern c) cs
    | KDestructAssignment => all_kept (fun c => kind_eqb (kind_of c) KEq || is_pattern c) cs
    | KSetRule => all_kept (fun c => is_expr c || kind_eqb (kind_of c) KArgs) cs
    | KShowRule => all_kept is_expr cs
    | KHeading => all_kept (fun c => kind_eqb (kind_of c) KHeadingMarker || kind_eqb (kind_of c) KMarkup) cs
    | KImportItemPath => all_kept (fun c => kind_eqb (kind_of c) KDot || kind_eqb (kind_of c) KIdent) cs
    | KRenamedImportItem => all_kept (fun c => kind_eqb (kind_of c) KImportItemPath || kind_eqb (kind_of c) KIdent) cs
    | KMarkup => forallb (fun c => is_expr c || is_comment_node c || negb (inner_kind (kind_of c))) cs
    | KContentBlock =>
        str_eqb (tsigl cs) (match find (fun c => kind_eqb (kind_of c) KMarkup) cs with Some m => tsig m | None => [] end)
    | KStrong =>
        str_eqb (tsigl cs) ([42] ++ (match find (fun c => kind_eqb (kind_of c) KMarkup) cs with Some m => tsig m | None => [] end) ++ [42])
    | KEmph =>
        str_eqb (tsigl cs) ([95] ++ (match find (fun c => kind_eqb (kind_of c) KMarkup) cs with Some m => tsig m | None => [] end) ++ [95])
    | KRaw =>
        forallb (fun c => match kind_of c with KRawDelim | KRawLang | KText | KRawTrimmed => true | _ => sig_empty c end) cs
    | KRef =>
        str_eqb (tsigl cs)
                (sig ([64] ++ ref_target (Inner KRef cs no_attrs)) ++
                 match find (fun c => kind_eqb (kind_of c) KContentBlock) (rev cs) with Some m => tsig m | None => [] end)
    | KMathPrimes => str_eqb (tsigl cs) (sig (repeat 39 (N.to_nat (math_primes_count (Inner KMathPrimes cs no_attrs)))))
    | KMath => forallb (fun c => is_expr c || negb (inner_kind (kind_of c))) cs
    | KEquation => lwalkb (fun c => kind_eqb (kind_of c) KMath && negb (match children c with [] => true | _ => false end)) cs false
    | KMathAttach | KMathRoot | KMathFrac => forallb (fun c => is_generic c || is_expr c || negb (inner_kind (kind_of c))) cs
    | KMathDelimited =>
        match find is_expr cs, find is_expr (rev cs) with
        | Some o, Some cl =>
            let inner := delimited_inner kind_of cs in
            str_eqb (tsigl cs) (tsig o ++ tsigl inner ++ tsig cl) &&
            all_kept (fun c => kind_eqb (kind_of c) KMath) inner
        | _, _ => false
        end
    | KLoopBreak => str_eqb (tsigl cs) [98; 114; 101; 97; 107]
    | KLoopContinue => str_eqb (tsigl cs) [99; 111; 110; 116; 105; 110; 117; 101]
    | KListItem | KEnumItem | KTermItem =>
        all_kept (fun c => match kind_of c with
                           | KListMarker | KEnumMarker | KTermMarker | KColon | KParbreak => true
                           | KMarkup => negb (match children c with [] => true | _ => false end)
                           | _ => false end) cs
    | KClosure => closure_okb cs (match closure_name (Inner KClosure cs no_attrs) with Some _ => 0%nat | None => 1%nat end)
    | KForLoop => for_okb cs 0%nat
    | KFieldAccess =>
        match cs with
        | e :: _ =>
            is_expr e &&
            str_eqb (tsigl cs) (tsig e ++ sim_dot cs false) &&
            (existsb is_comment_node cs ||
             str_eqb (sim_dot cs false) ([46] ++ tsig (field_access_field (Inner KFieldAccess cs no_attrs)))) &&
            all_kept (fun c => kind_eqb (kind_of c) KDot || is_expr c) cs
        | [] => false
        end
    | KBinary =>
        match cs with
        | e :: _ =>
            is_expr e &&
            str_eqb (tsigl cs) (tsig e ++ fst (sim_bin cs false false)) && negb (snd (sim_bin cs false false)) &&
            all_kept (fun c => match binop_from_kind (kind_of c) with Some _ => true | None => is_expr c end) cs
        | [] => false
        end
    | KImportItems => true
    | KModuleImport =>
        let '(p, n) := import_split kind_of children cs in
        str_eqb (tsigl cs) (tsigl p ++ tsigl n) &&
        all_kept (fun c => match kind_of c with KColon | KStar | KIdent => true | _ => is_expr c end) p &&
        lwalkb (fun c => match kind_of c with KRenamedImportItem | KImportItemPath => true | _ => false end) n false
    | KCode => true
    | KCodeBlock => lwalkb is_expr (flat_map (fun c => if kind_eqb (kind_of c) KCode then children c else [c]) cs) false
    | KArgs => args_ok cs && margs_ok cs
    | KFuncCall =>
        match find is_expr cs with
        | Some cal =>
            (negb (match (if kind_eqb (kind_of cal) KIdent then Some (text_of cal) else None) with
                   | Some n => existsb (str_eqb n) TABLE_FUNCS | None => false end) ||
             match find (fun c => kind_eqb (kind_of c) KArgs) (rev cs) with
             | Some a => aslist_ok (children a) &&
                         (table_eq (children a) || existsb is_comment_node (children a) ||
                          existsb (fun c => kind_eqb (kind_of c) KSpread)
                                  (filter is_arg (take_until_rparen_t (skip_until_t KLeftParen (children a)))))
             | None => true
             end) &&
            str_eqb (tsigl cs) (tsig cal ++ match find (fun c => kind_eqb (kind_of c) KArgs) (rev cs) with Some a => tsig a | None => [] end)
        | None => false
        end
    | KArray => lwalkb is_array_item cs false
    | KDict => lwalkb is_dict_item cs false
    | KDestructuring => lwalkb is_destructuring_item cs false
    | KParams => lwalkb is_param cs false
    | KParenthesized =>
        lwalkb is_pattern cs false &&
        match find is_pattern cs with
        | Some p => if kind_eqb (kind_of p) KParenthesized && negb (existsb is_comment_node cs)
                    then str_eqb (tsigl cs) (tsig p) else true
        | None => true
        end
    | _ => false
    end.
End NodeOk.

Fixpoint sc (t : tree) : bool :=
  match t with
  | Leaf k s _ =>
      (* a node of an inner kind without children is dumped as a leaf with empty text *)
      (if inner_kind k then (match s with [] => true | _ => false end) && knode_ok k [] else leaf_ok k s t) && verbatim_ok t
  | Inner k cs _ => inner_kind k && knode_ok k cs && forallb sc cs && verbatim_ok t
  end.
