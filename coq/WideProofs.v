(* WideProofs.v — C12 (theorem B): when the width is at least `room d` (all text widths plus all positive nests of
   the document), pretty's renderer makes the choices of the wide renderer: a group is laid out flat exactly when
   its flat resolution holds no mandatory line break.  So "a width large enough that no line needs wrapping" has a
   computable meaning, and the symbolic-indentation theorems about `best_wide` are theorems about `render`. *)
From TV Require Import Render RenderProofs Sym SymProofs.
From Coq Require Import Lia.

Fixpoint room (d : doc) : N :=
  match d with
  | DNil | DHardline => 0
  | DText _ | DTextW _ _ => text_width d
  | DAppend a b => room a + room b
  | DFlatAlt b f => room b + room f
  | DNest k x => Z.to_N k + room x
  | DGroup x | DAlign x => room x
  end.
Definition room_list (l : list doc) : N := fold_right (fun d n => room d + n) 0 l.
Definition room_stack (bc : list cmd) : N := fold_right (fun (c : cmd) n => room (snd c) + n) 0 bc.

Lemma room_list_cons d l : room_list (d :: l) = room d + room_list l.  Proof. reflexivity. Qed.
Lemma room_list_nil : room_list [] = 0.  Proof. reflexivity. Qed.
Lemma room_stack_cons i m d bc : room_stack ((i, m, d) :: bc) = room d + room_stack bc.  Proof. reflexivity. Qed.
Lemma room_stack_nil : room_stack [] = 0.  Proof. reflexivity. Qed.
Ltac rooms := rewrite ?room_list_cons, ?room_list_nil, ?room_stack_cons, ?room_stack_nil in *; cbn [room text_width] in *.

(* with room to spare, `fitting` can only fail on a mandatory line break met in flat mode *)
Lemma fitting_false_has_line : forall fuel width pos ind m cur bc,
  pos + room_list cur + room_stack bc <= width ->
  fitting fuel width pos ind m cur bc = Some false ->
  m = MFlat /\ existsb flat_has_line cur = true.
Proof.
  induction fuel as [|fuel IH]; intros width pos ind m cur bc Hb H; [discriminate|].
  cbn [fitting] in H. destruct cur as [|d cur'].
  - destruct bc as [|[[i m0] d0] bc']; [discriminate|].
    apply IH in H; [destruct H as [H _]; discriminate|]. rooms. lia.
  - destruct d; cbn [existsb flat_has_line].
    + apply IH in H; [exact H|rooms; lia].
    + apply IH in H; [|rooms; lia].
      cbn [existsb] in H. rewrite Bool.orb_assoc in H. exact H.
    + (* DGroup *) apply IH in H; [|rooms; lia]. exact H.
    + (* DFlatAlt *)
      apply IH in H; [|destruct m; rooms; lia].
      destruct H as [-> H]. split; [reflexivity|exact H].
    + (* DNest *) apply IH in H; [|rooms; lia]. exact H.
    + (* DHardline *) destruct m; [discriminate|]. split; reflexivity.
    + (* DText *)
      rooms. destruct (width <? pos + byte_len s) eqn:E; [apply N.ltb_lt in E; lia|].
      apply IH in H; [exact H|rooms; lia].
    + (* DTextW *)
      rooms. destruct (width <? pos + w) eqn:E; [apply N.ltb_lt in E; lia|].
      apply IH in H; [exact H|rooms; lia].
    + (* DAlign *) apply IH in H; [|rooms; lia]. exact H.
Qed.

Fixpoint stack_ok (B : N) (bc : list cmd) : Prop :=
  match bc with
  | [] => True
  | (ind, _, d) :: r => ind + room d + room_stack r <= B /\ stack_ok B r
  end.

Lemma nest_ind_le ind k : nest_ind ind k <= ind + Z.to_N k.
Proof. unfold nest_ind. destruct (0 <=? k)%Z; lia. Qed.

Theorem best_is_wide : forall fuel width pos bc es,
  pos + room_stack bc <= width -> stack_ok width bc ->
  best fuel width pos bc = Some es -> best_wide fuel pos bc = Some es.
Proof.
  induction fuel as [|fuel IH]; intros width pos bc es Hp Hs H; [discriminate|].
  cbn [best] in H. cbn [best_wide].
  destruct bc as [|[[ind m] d] bc']; [exact H|].
  cbn [stack_ok] in Hs. destruct Hs as [Hi Hs]. rooms.
  destruct d; rooms.
  - (* DNil *) apply (IH width); [lia|exact Hs|exact H].
  - (* DAppend *)
    apply (IH width); [rooms; lia| |exact H].
    cbn [stack_ok]. rooms. repeat split; [lia|lia|exact Hs].
  - (* DGroup *)
    destruct m.
    + destruct (fitting fuel width pos ind MFlat [d] bc') as [[|]|] eqn:Ef; [| |discriminate].
      * apply fitting_true_no_line in Ef. cbn [existsb] in Ef. rewrite Bool.orb_false_r in Ef. rewrite Ef.
        apply (IH width); [rooms; lia| |exact H].
        cbn [stack_ok]. split; [exact Hi|exact Hs].
      * apply fitting_false_has_line in Ef; [|rooms; lia].
        destruct Ef as [_ Ef]. cbn [existsb] in Ef. rewrite Bool.orb_false_r in Ef. rewrite Ef.
        apply (IH width); [rooms; lia| |exact H].
        cbn [stack_ok]. split; [exact Hi|exact Hs].
    + apply (IH width); [rooms; lia| |exact H].
      cbn [stack_ok]. split; [exact Hi|exact Hs].
  - (* DFlatAlt *)
    apply (IH width); [destruct m; rooms; lia| |exact H].
    cbn [stack_ok]. split; [destruct m; lia|exact Hs].
  - (* DNest *)
    apply (IH width); [rooms; lia| |exact H].
    cbn [stack_ok]. split; [pose proof (nest_ind_le ind k); lia|exact Hs].
  - (* DHardline *)
    destruct (best fuel width (match bc' with (i, _, _) :: _ => i | [] => ind end) bc') as [es'|] eqn:Eb; [|discriminate].
    inversion H; subst. erewrite (IH width); [reflexivity| |exact Hs|exact Eb].
    destruct bc' as [|[[i m0] d0] r]; [rooms; lia|]. cbn [stack_ok] in Hs. destruct Hs as [Hi0 _]. rooms. lia.
  - (* DText *)
    destruct (best fuel width (pos + byte_len s) bc') as [es'|] eqn:Eb; [|discriminate].
    inversion H; subst. erewrite (IH width); [reflexivity| |exact Hs|exact Eb]. lia.
  - (* DTextW *)
    destruct (best fuel width (pos + w) bc') as [es'|] eqn:Eb; [|discriminate].
    inversion H; subst. erewrite (IH width); [reflexivity| |exact Hs|exact Eb]. lia.
  - (* DAlign *)
    apply (IH width); [rooms; lia| |exact H].
    cbn [stack_ok]. split; [rewrite SymProofs.nest_ind_align; lia|exact Hs].
Qed.

Theorem render_is_wide width d es :
  room d <= width -> render_events width d = Some es -> render_wide_events d = Some es.
Proof.
  intros Hw H. unfold render_events in H. unfold render_wide_events.
  assert (E : room_stack [(0, MBreak, d)] = room d) by (unfold room_stack; cbn [fold_right snd]; apply N.add_0_r).
  apply (best_is_wide _ width); [rewrite E; cbn; exact Hw| |exact H].
  cbn [stack_ok]. split; [|exact I]. replace (room_stack []) with 0 by reflexivity.
  rewrite N.add_0_l, N.add_0_r. exact Hw.
Qed.

Corollary render_wide_total_eq width d :
  room d <= width -> render width d = render_wide d.
Proof.
  intros Hw. unfold render, render_wide.
  destruct (render_events width d) as [es|] eqn:E.
  - rewrite (render_is_wide width d es Hw E). reflexivity.
  - exfalso. destruct (render_total width d) as (s & Hs). unfold render in Hs. rewrite E in Hs. discriminate.
Qed.

(* the two halves together: at any width with room for the instance, pretty's renderer lays the instance of a
   symbolic document out as the instance of the symbolic layout: same texts, every line break indented by a*u+b *)
Theorem render_events_inst u (D : sdoc) es width :
  render_sym_events D = Some es -> room (inst u D) <= width ->
  render_events width (inst u D) = Some (map (inst_event u) es).
Proof.
  intros Hs Hw. pose proof (render_wide_events_inst u D es Hs) as Hwide.
  destruct (render_events width (inst u D)) as [es'|] eqn:E.
  - rewrite (render_is_wide width _ es' Hw E) in Hwide. exact Hwide.
  - exfalso. destruct (render_total width (inst u D)) as (s & Hr). unfold render in Hr. rewrite E in Hr. discriminate.
Qed.
