(* Extract.v — extraction of the executable model to OCaml (ExtrOcamlBasic only).
   Compiled by bin/vcheck with the build directory as working directory; not part of the proof build. *)
From Coq Require Extraction.
From Coq Require Import ExtrOcamlBasic.
From TV Require Import Str Post Tree Ast Attr Doc Render Config Cli Conv Format Partial Sym SymProofs WideProofs CostBound SafeBound Sig SigTree SigScope.
Extraction Blacklist String List Nat Int Char Bool.
Extraction "model.ml" strip hygiene_b render doc_eqb Cli.run format_with_width to_config cfg_default annotate flags kind_of_N convert_root format_source erroneous chain_width format_range sym_of inst render_sym_events render_wide sdoc_size wfc swfc tree_size range_node render_sym_aligned room sig_check tsig dsig wsig sig_scope sc leaf_ok knode_ok inner_kind.
