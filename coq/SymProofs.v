(* SymProofs.v — the wide renderer on an instance of a symbolic document emits exactly the instances of the
   symbolic renderer's events: texts are independent of the unit, and every layout line break is followed by
   a * u + b blanks with (a, b) independent of the unit (C12). *)
From TV Require Import Sym.
From Coq Require Import Lia.
Arguments N.mul : simpl never.
Arguments N.add : simpl never.
Arguments N.sub : simpl never.

Definition inst_cmd (u : N) (c : scmd) : cmd :=
  let '(q, m, d) := c in (sq_val u q, m, inst u d).

Lemma flat_has_line_inst u d : flat_has_line (inst u d) = sflat_has_line d.
Proof.
  induction d; cbn; try reflexivity; try assumption.
  rewrite IHd1, IHd2. reflexivity.
Qed.

Lemma text_width_inst u d : text_width (inst u d) = stext_width d.
Proof. destruct d; reflexivity. Qed.

Lemma nest_ind_inst u q a b :
  nest_ind (sq_val u q) (Z.of_N (a * u + b)) = sq_val u (fst q + a, snd q + b).
Proof.
  unfold nest_ind, sq_val. cbn [fst snd].
  destruct (0 <=? Z.of_N (a * u + b))%Z eqn:E.
  - rewrite N2Z.id. lia.
  - apply Z.leb_gt in E. lia.
Qed.

(* Align: pretty computes nest(col - current nest) with a signed offset, which lands exactly on the column,
   whether the column lies right or left of the current indentation. *)
Lemma nest_ind_align (i p : N) : nest_ind i (Z.of_N p - Z.of_N i) = p.
Proof.
  unfold nest_ind.
  destruct (0 <=? Z.of_N p - Z.of_N i)%Z eqn:E.
  - apply Z.leb_le in E. rewrite Z2N.inj_sub; [|lia]. rewrite !N2Z.id. lia.
  - apply Z.leb_gt in E.
    replace (- (Z.of_N p - Z.of_N i))%Z with (Z.of_N i - Z.of_N p)%Z by lia.
    rewrite Z2N.inj_sub; [|lia]. rewrite !N2Z.id. lia.
Qed.

Lemma sq_val_mono u q p : fst q <= fst p -> snd q <= snd p -> sq_val u q <= sq_val u p.
Proof. unfold sq_val. intros H1 H2. nia. Qed.

Theorem best_wide_inst u : forall fuel pos bc es,
  best_sym fuel pos bc = Some es ->
  best_wide fuel (sq_val u pos) (map (inst_cmd u) bc) = Some (map (inst_event u) es).
Proof.
  induction fuel as [|fuel IH]; intros pos bc es H; [discriminate|].
  cbn [best_sym] in H.
  destruct bc as [|[[ind m] d] bc']; [inversion H; reflexivity|].
  cbn [map inst_cmd best_wide].
  destruct d; cbn [inst].
  - apply IH; assumption.
  - apply (IH pos ((ind, m, d1) :: (ind, m, d2) :: bc')); assumption.
  - rewrite flat_has_line_inst. destruct m.
    + apply (IH pos ((ind, (if sflat_has_line d then MBreak else MFlat), d) :: bc')); assumption.
    + apply (IH pos ((ind, MFlat, d) :: bc')); assumption.
  - destruct m.
    + apply (IH pos ((ind, MBreak, d1) :: bc')); assumption.
    + apply (IH pos ((ind, MFlat, d2) :: bc')); assumption.
  - rewrite nest_ind_inst. apply (IH pos (((fst ind + a, snd ind + b), m, d) :: bc')); assumption.
  - set (ind' := match bc' with (i, _, _) :: _ => i | [] => ind end) in *.
    destruct (best_sym fuel ind' bc') as [es'|] eqn:E; [|discriminate].
    inversion H; subst es. clear H.
    assert (Hind : match map (inst_cmd u) bc' with (i, _, _) :: _ => i | [] => sq_val u ind end = sq_val u ind').
    { unfold ind'. destruct bc' as [|[[i mm] dd] r]; reflexivity. }
    rewrite Hind. rewrite (IH ind' bc' es' E). reflexivity.
  - destruct (best_sym fuel (fst pos, snd pos + stext_width (SText s)) bc') as [es'|] eqn:E; [|discriminate].
    inversion H; subst es. clear H.
    replace (sq_val u pos + text_width (DText s)) with (sq_val u (fst pos, snd pos + stext_width (SText s)))
      by (unfold sq_val; cbn; lia).
    rewrite (IH _ bc' es' E). reflexivity.
  - destruct (best_sym fuel (fst pos, snd pos + stext_width (STextW w s)) bc') as [es'|] eqn:E; [|discriminate].
    inversion H; subst es. clear H.
    replace (sq_val u pos + text_width (DTextW w s)) with (sq_val u (fst pos, snd pos + stext_width (STextW w s)))
      by (unfold sq_val; cbn; lia).
    rewrite (IH _ bc' es' E). reflexivity.
  - rewrite nest_ind_align.
    apply (IH pos ((pos, m, d) :: bc')); assumption.
Qed.

(* the statement for whole documents *)
Theorem render_wide_inst u (D : sdoc) es :
  render_sym_events D = Some es ->
  best_wide (S (2 * sdoc_size D)) 0 [(0, MBreak, inst u D)] = Some (map (inst_event u) es).
Proof.
  intros H. unfold render_sym_events in H.
  pose proof (best_wide_inst u _ _ _ _ H) as Hw. cbn in Hw. exact Hw.
Qed.

(* consequences: texts do not depend on the unit; a layout line with constant part 0 is indented by a whole
   multiple of the unit, the multiple being independent of the unit *)
Lemma inst_event_text u s : inst_event u (SEText s) = EText s.
Proof. reflexivity. Qed.

Lemma inst_event_newline u a : inst_event u (SENewline (a, 0)) = ENewline (a * u).
Proof. unfold inst_event, sq_val. cbn. f_equal. lia. Qed.

Lemma doc_size_inst u D : doc_size (inst u D) = sdoc_size D.
Proof. induction D; cbn; try reflexivity; try (rewrite IHD; reflexivity). all: rewrite IHD1, IHD2; reflexivity. Qed.

Theorem render_wide_events_inst u (D : sdoc) es :
  render_sym_events D = Some es ->
  render_wide_events (inst u D) = Some (map (inst_event u) es).
Proof.
  intros H. unfold render_wide_events, best_fuel. rewrite doc_size_inst.
  apply render_wide_inst; assumption.
Qed.

(* sym_of is sound: the two documents are the instances at 2 and 3 *)
Theorem sym_of_sound : forall d2 d3 D, sym_of d2 d3 = Some D -> inst 2 D = d2 /\ inst 3 D = d3.
Proof.
  induction d2; intros d3 D H; destruct d3; cbn [sym_of] in H; try discriminate.
  - inversion H; subst. auto.
  - destruct (sym_of d2_1 d3_1) as [a|] eqn:E1; [|discriminate].
    destruct (sym_of d2_2 d3_2) as [b|] eqn:E2; [|discriminate].
    inversion H; subst. apply IHd2_1 in E1. apply IHd2_2 in E2. destruct E1, E2. cbn. split; congruence.
  - destruct (sym_of d2 d3) as [x|] eqn:E; [|discriminate]. inversion H; subst.
    apply IHd2 in E. destruct E. cbn. split; congruence.
  - destruct (sym_of d2_1 d3_1) as [a|] eqn:E1; [|discriminate].
    destruct (sym_of d2_2 d3_2) as [b|] eqn:E2; [|discriminate].
    inversion H; subst. apply IHd2_1 in E1. apply IHd2_2 in E2. destruct E1, E2. cbn. split; congruence.
  - destruct ((0 <=? k)%Z && (k <=? k0)%Z) eqn:Ek; [|discriminate].
    apply andb_prop in Ek. destruct Ek as [Ek1 Ek2]. apply Z.leb_le in Ek1, Ek2.
    destruct (2 * Z.to_N (k0 - k) <=? Z.to_N k) eqn:El; [|discriminate]. apply N.leb_le in El.
    destruct (sym_of d2 d3) as [x|] eqn:E; [|discriminate]. inversion H; subst.
    apply IHd2 in E. destruct E as [E2 E3]. cbn [inst]. rewrite E2, E3.
    set (a := Z.to_N (k0 - k)) in *.
    assert (Ha : Z.of_N a = (k0 - k)%Z) by (unfold a; apply Z2N.id; lia).
    assert (Hk : Z.of_N (Z.to_N k) = k) by (apply Z2N.id; lia).
    split; f_equal.
    + replace (a * 2 + (Z.to_N k - 2 * a)) with (Z.to_N k) by lia. exact Hk.
    + replace (a * 3 + (Z.to_N k - 2 * a)) with (Z.to_N k + a) by lia. rewrite N2Z.inj_add, Hk, Ha. lia.
  - inversion H; subst. auto.
  - destruct (str_eqb s s0) eqn:E; [|discriminate]. apply str_eqb_eq in E. inversion H; subst. auto.
  - destruct ((w =? w0) && str_eqb s s0) eqn:E; [|discriminate]. apply andb_prop in E. destruct E as [E1 E2].
    apply N.eqb_eq in E1. apply str_eqb_eq in E2. inversion H; subst. auto.
  - destruct (sym_of d2 d3) as [x|] eqn:E; [|discriminate]. inversion H; subst.
    apply IHd2 in E. destruct E. cbn. split; congruence.
Qed.
