(* MarkupProofs.v — structure of the document built by convert_markup_impl (C08 core): the source's
   lines in order, interior blanks as exactly one U+0020 atom, line ends as mandatory line breaks. *)
From TV Require Import Conv Render RenderProofs SeqProofs MathProofs.
From Coq Require Import Lia.

Section MarkupProofs.
  Variable swidth : str -> N.
  Variable cfg : config.

  Inductive markup_child : bundle -> list atom -> Prop :=
  | mk_space b : kind_eqb (bk b) KSpace = true -> markup_child b [AText [SP]]
  | mk_text b x : kind_eqb (bk b) KSpace = false -> kind_eqb (bk b) KText = true ->
                  (x = [] \/ x = [AText (into_text (bt b))]) -> markup_child b x
  | mk_expr b c x : kind_eqb (bk b) KSpace = false -> kind_eqb (bk b) KText = false -> is_expr (bt b) = true ->
                    child_atoms b (RExprEmb c) x -> markup_child b x
  | mk_comment b d x : is_comment_b b = true -> comment swidth (bt b) = Ok d -> seqs d x -> markup_child b x
  | mk_other b x : kind_eqb (bk b) KSpace = false -> kind_eqb (bk b) KText = false -> is_expr (bt b) = false ->
                   is_comment_b b = false -> (x = [] \/ x = [AText (tx b)]) -> markup_child b x.

  Definition node_step (c : ctx) (mixed : bool) :=
    (fun (d : doc) (node : bundle) =>
       x <- (if kind_eqb (bk node) KSpace then ret space
             else if kind_eqb (bk node) KText then ret (convert_verbatim swidth (bt node))
             else if is_expr (bt node) then call node (RExprEmb (if mixed then suppress_breaks c else c))
             else if is_comment_b node then convert_comment swidth node
             else ret (convert_trivia swidth (bt node))) ;;
       ret (append d x)).

  Lemma node_fold_atoms c mixed : forall nodes d0 n0 d n',
    foldM (node_step c mixed) nodes d0 n0 = Ok (d, n') ->
    forall x, seqs d x ->
    exists x0 xs, seqs d0 x0 /\ Forall2 markup_child nodes xs /\ x = x0 ++ concat xs.
  Proof.
    induction nodes as [|k ks IH]; intros d0 n0 d n' H x Hx.
    - cbn in H. inversion H; subst. exists x, []. cbn. rewrite app_nil_r. auto.
    - cbn [foldM] in H. unfold bind in H at 1.
      destruct (node_step c mixed d0 k n0) as [[d1 n1]|] eqn:E; [|discriminate].
      destruct (IH d1 n1 d n' H x Hx) as (x1 & xs & H1 & HF & ->).
      unfold node_step in E. unfold bind in E.
      destruct (kind_eqb (bk k) KSpace) eqn:Es.
      + cbn in E. inversion E; subst.
        apply seqs_append in H1. destruct H1 as (xa & xb & -> & Ha & Hb).
        apply seqs_space in Hb. subst.
        exists xa, ([AText [SP]] :: xs). split; [assumption|]. split.
        * constructor; [apply mk_space; assumption|assumption].
        * cbn. rewrite <- app_assoc. reflexivity.
      + destruct (kind_eqb (bk k) KText) eqn:Et.
        * cbn in E. inversion E; subst.
          apply seqs_append in H1. destruct H1 as (xa & xb & -> & Ha & Hb).
          apply seqs_text in Hb.
          exists xa, (xb :: xs). split; [assumption|]. split.
          -- constructor; [|assumption]. apply mk_text; try assumption.
             destruct Hb as [[_ Hb]|Hb]; [left|right]; assumption.
          -- cbn. rewrite <- app_assoc. reflexivity.
        * destruct (is_expr (bt k)) eqn:Ee.
          -- destruct (call k _ n0) as [[dk nk]|] eqn:Ec; [|discriminate].
             cbn in E. inversion E; subst.
             apply seqs_append in H1. destruct H1 as (xa & xb & -> & Ha & Hb).
             exists xa, (xb :: xs). split; [assumption|]. split.
             ++ constructor; [|assumption]. eapply mk_expr; try assumption.
                do 3 eexists. split; eassumption.
             ++ cbn. rewrite <- app_assoc. reflexivity.
          -- destruct (is_comment_b k) eqn:Ecm.
             ++ unfold convert_comment, lift in E.
                destruct (comment swidth (bt k)) as [dc|] eqn:Ecc; [|discriminate].
                cbn in E. inversion E; subst.
                apply seqs_append in H1. destruct H1 as (xa & xb & -> & Ha & Hb).
                exists xa, (xb :: xs). split; [assumption|]. split.
                ** constructor; [|assumption]. eapply mk_comment; eassumption.
                ** cbn. rewrite <- app_assoc. reflexivity.
             ++ cbn in E. inversion E; subst.
                apply seqs_append in H1. destruct H1 as (xa & xb & -> & Ha & Hb).
                apply seqs_text in Hb.
                exists xa, (xb :: xs). split; [assumption|]. split.
                ** constructor; [|assumption]. apply mk_other; try assumption.
                   destruct Hb as [[_ Hb]|Hb]; [left|right]; assumption.
                ** cbn. rewrite <- app_assoc. reflexivity.
  Qed.

  (* one source line: its nodes in order, then exactly `breaks` mandatory line breaks *)
  Definition line_atoms (ln : markup_line) (xl : list atom) : Prop :=
    exists xs, Forall2 markup_child (ml_nodes ln) xs /\
               xl = concat xs ++ repeat ALine (N.to_nat (ml_breaks ln)).

  Definition line_step (c : ctx) :=
    (fun (d : doc) (ln : markup_line) =>
       d1 <- foldM (node_step c (ml_mixed ln)) (ml_nodes ln) d ;;
       ret (if 0 <? ml_breaks ln then append d1 (repeat_n hardline (ml_breaks ln)) else d1)).

  Lemma line_fold_atoms c : forall lines d0 n0 d n',
    foldM (line_step c) lines d0 n0 = Ok (d, n') ->
    forall x, seqs d x ->
    exists x0 xls, seqs d0 x0 /\ Forall2 line_atoms lines xls /\ x = x0 ++ concat xls.
  Proof.
    induction lines as [|ln lns IH]; intros d0 n0 d n' H x Hx.
    - cbn in H. inversion H; subst. exists x, []. cbn. rewrite app_nil_r. auto.
    - cbn [foldM] in H. unfold bind in H at 1.
      destruct (line_step c d0 ln n0) as [[d1 n1]|] eqn:E; [|discriminate].
      destruct (IH d1 n1 d n' H x Hx) as (x1 & xls & H1 & HF & ->).
      unfold line_step in E. unfold bind in E.
      destruct (foldM (node_step c (ml_mixed ln)) (ml_nodes ln) d0 n0) as [[d2 n2]|] eqn:E2; [|discriminate].
      cbn in E. inversion E; subst. clear E.
      destruct (0 <? ml_breaks ln) eqn:Eb.
      + apply seqs_append in H1. destruct H1 as (xa & xb & -> & Ha & Hb).
        apply seqs_repeat_hardline in Hb. subst.
        destruct (node_fold_atoms _ _ _ _ _ _ _ E2 xa Ha) as (x0 & xs & H0 & HN & ->).
        exists x0, ((concat xs ++ repeat ALine (N.to_nat (ml_breaks ln))) :: xls).
        split; [assumption|]. split.
        * constructor; [|assumption]. exists xs. auto.
        * cbn. rewrite <- !app_assoc. reflexivity.
      + destruct (node_fold_atoms _ _ _ _ _ _ _ E2 x1 H1) as (x0 & xs & H0 & HN & ->).
        apply N.ltb_ge in Eb. assert (Hz : ml_breaks ln = 0) by lia.
        exists x0, ((concat xs ++ repeat ALine (N.to_nat (ml_breaks ln))) :: xls).
        split; [assumption|]. split.
        * constructor; [|assumption]. exists xs. auto.
        * cbn. rewrite Hz. cbn. rewrite app_nil_r, <- app_assoc. reflexivity.
  Qed.

  Definition ws_only (x : list atom) : Prop := Forall ws_atom x.
  Lemma ws_nil : ws_only []. Proof. constructor. Qed.
  Lemma ws_line : ws_only [ALine]. Proof. constructor; [left; reflexivity|constructor]. Qed.
  Lemma ws_sp : ws_only [AText [SP]]. Proof. constructor; [right; reflexivity|constructor]. Qed.

  (* convert_markup_impl: apart from blanks / line breaks at the two outer edges, the document of a piece
     of markup is its source lines in order. *)
  Theorem convert_markup_atoms t kids c sc n d n' x :
    is_only_one_and kids (fun b => kind_eqb (bk b) KSpace) = false ->
    convert_markup_impl swidth t kids c sc n = Ok (d, n') ->
    seqs d x ->
    exists xstart xlines xend,
      x = xstart ++ concat xlines ++ xend /\ ws_only xstart /\ ws_only xend /\
      Forall2 line_atoms (mr_lines (collect_markup_repr kids)) xlines.
  Proof.
    intros Hone H Hx. unfold convert_markup_impl in H. rewrite Hone in H.
    unfold bind at 1 in H. unfold bump in H. unfold bind at 1 in H.
    match type of H with
    | context [foldM ?f ?ls DNil ?m] =>
        change f with (line_step (with_mode c LMarkup)) in H;
        destruct (foldM (line_step (with_mode c LMarkup)) ls DNil m) as [[db nb]|] eqn:E; [|discriminate]
    end.
    cbn [ret] in H. inversion H; subst. clear H.
    apply seqs_enclose in Hx. destruct Hx as (xa & xd & xb & -> & Ha & Hd & Hb).
    destruct (line_fold_atoms _ _ _ _ _ _ E xd Hd) as (x0 & xls & H0 & HF & ->).
    apply seqs_nil_inv in H0. subst. cbn [app].
    exists xa, xls, xb. split; [reflexivity|].
    assert (Hdelim : forall bnd y,
      seqs (if scope_eqb sc ScDocument || scope_eqb sc ScItem
            then (if boundary_eqb bnd BBreak then hardline else DNil)
            else match bnd with
                 | BNil => DNil
                 | BNilOrBreak =>
                     if scope_eqb sc ScItem ||
                        (negb (negb (boundary_eqb (mr_start (collect_markup_repr kids)) BNil) &&
                               negb (boundary_eqb (mr_end (collect_markup_repr kids)) BNil)) &&
                         negb (a_multiline (attrs_of t))) || c_supp (with_mode c LMarkup)
                     then DNil else line_
                 | BSpaceOrBreak | BWeakSpaceOrBreak =>
                     if (negb (boundary_eqb (mr_start (collect_markup_repr kids)) BNil) &&
                         negb (boundary_eqb (mr_end (collect_markup_repr kids)) BNil) &&
                         negb (c_supp (with_mode c LMarkup))) || a_multiline (attrs_of t) then line
                     else if scope_eqb sc ScItem then DNil else space
                 | BBreak | BWeakBreak => hardline
                 end) y -> ws_only y).
    { intros bnd y Hy.
      assert (Hl : forall z, seqs line z -> ws_only z)
        by (intros z Hz; apply seqs_line in Hz; destruct Hz; subst; [apply ws_line|apply ws_sp]).
      assert (Hl_ : forall z, seqs line_ z -> ws_only z)
        by (intros z Hz; apply seqs_line_ in Hz; destruct Hz; subst; [apply ws_line|apply ws_nil]).
      assert (Hh : forall z, seqs hardline z -> ws_only z)
        by (intros z Hz; apply seqs_hardline in Hz; subst; apply ws_line).
      assert (Hn : forall z, seqs DNil z -> ws_only z)
        by (intros z Hz; apply seqs_nil_inv in Hz; subst; apply ws_nil).
      assert (Hs : forall z, seqs space z -> ws_only z)
        by (intros z Hz; apply seqs_space in Hz; subst; apply ws_sp).
      destruct (scope_eqb sc ScDocument || scope_eqb sc ScItem).
      - destruct (boundary_eqb bnd BBreak); auto.
      - destruct bnd; auto;
          repeat match type of Hy with seqs (if ?b then _ else _) _ => destruct b end; auto. }
    split; [eapply Hdelim; exact Ha|]. split; [eapply Hdelim; exact Hb|]. exact HF.
  Qed.
End MarkupProofs.

(* ---------------------------------------------------------------------------------------------
   collect_markup_repr: the nodes of the lines, in order, are the children of the Markup node with
   only whitespace tokens (Space / Parbreak) taken out; a blank that stays inside a line holds no
   line break. *)
Section Repr.
  Definition is_ws_kid (b : bundle) : bool := kin (bk b) [KSpace; KParbreak].

  Inductive sub_ws : list bundle -> list bundle -> Prop :=
  | sw_nil : sub_ws [] []
  | sw_keep x l k : sub_ws l k -> sub_ws (x :: l) (x :: k)
  | sw_drop x l k : is_ws_kid x = true -> sub_ws l k -> sub_ws l (x :: k).

  Lemma sub_ws_refl l : sub_ws l l.
  Proof. induction l; constructor; assumption. Qed.

  Lemma sub_ws_app l1 k1 l2 k2 : sub_ws l1 k1 -> sub_ws l2 k2 -> sub_ws (l1 ++ l2) (k1 ++ k2).
  Proof. induction 1; intros H2; cbn; [assumption|apply sw_keep; auto|apply sw_drop; auto]. Qed.

  Lemma sub_ws_trans l m k : sub_ws l m -> sub_ws m k -> sub_ws l k.
  Proof.
    intros H1 H2. revert l H1. induction H2; intros l' H1.
    - assumption.
    - inversion H1; subst; [apply sw_keep; auto|apply sw_drop; auto].
    - apply sw_drop; auto.
  Qed.

  Lemma sub_ws_drop_all sp : forallb is_ws_kid sp = true -> sub_ws [] sp.
  Proof.
    induction sp as [|x sp IH]; cbn; intros H; [constructor|].
    apply andb_prop in H. destruct H. apply sw_drop; auto.
  Qed.

  Definition all_nodes (lines : list markup_line) : list bundle := flat_map ml_nodes lines.

  Lemma all_nodes_app a b : all_nodes (a ++ b) = all_nodes a ++ all_nodes b.
  Proof. unfold all_nodes. apply flat_map_app. Qed.

  Definition kept_spaces_ok (nodes : list bundle) : Prop :=
    Forall (fun b => kind_eqb (bk b) KSpace = true -> has_lb (tx b) = false) nodes.

  Lemma repr_step_inv st node pre :
    let '(lines, cur, _) := st in
    sub_ws (all_nodes lines ++ ml_nodes cur) pre /\ kept_spaces_ok (all_nodes lines ++ ml_nodes cur) ->
    let '(lines', cur', _) := repr_step st node in
    sub_ws (all_nodes lines' ++ ml_nodes cur') (pre ++ [node]) /\
    kept_spaces_ok (all_nodes lines' ++ ml_nodes cur').
  Proof.
    destruct st as [[lines cur] sb]. intros [Hs Hk].
    assert (Hdrop : is_ws_kid node = true ->
                    sub_ws (all_nodes lines ++ ml_nodes cur) (pre ++ [node])).
    { intros Hw. rewrite <- (app_nil_r (all_nodes lines ++ ml_nodes cur)).
      apply sub_ws_app; [assumption|]. apply sw_drop; [assumption|constructor]. }
    unfold repr_step.
    destruct (kind_eqb (bk node) KParbreak) eqn:Ep.
    { rewrite all_nodes_app. cbn [all_nodes flat_map ml_nodes ml_empty app]. rewrite !app_nil_r.
      split; [apply Hdrop; unfold is_ws_kid, kin; cbn; rewrite Ep; apply orb_true_r|assumption]. }
    destruct (kind_eqb (bk node) KSpace) eqn:Es; cbn [andb].
    - assert (Hw : is_ws_kid node = true) by (unfold is_ws_kid, kin; cbn; rewrite Es; reflexivity).
      destruct (ml_nodes cur) as [|c0 cs] eqn:Ec.
      + rewrite Ec. split; [apply Hdrop; assumption|assumption].
      + destruct (has_lb (tx node)) eqn:El.
        * rewrite all_nodes_app. cbn [all_nodes flat_map ml_nodes ml_empty app]. rewrite !app_nil_r.
          split; [apply Hdrop; assumption|assumption].
        * cbn [ml_nodes]. rewrite app_assoc. split.
          -- apply sub_ws_app; [assumption|apply sub_ws_refl].
          -- unfold kept_spaces_ok in *. apply Forall_app. split; [assumption|].
             constructor; [intros _; assumption|constructor].
    - cbn [ml_nodes]. rewrite app_assoc. split.
      + apply sub_ws_app; [assumption|apply sub_ws_refl].
      + unfold kept_spaces_ok in *. apply Forall_app. split; [assumption|].
        constructor; [intros Hsp; rewrite Hsp in Es; discriminate|constructor].
  Qed.

  Lemma repr_fold_inv : forall kids st pre,
    (let '(lines, cur, _) := st in
     sub_ws (all_nodes lines ++ ml_nodes cur) pre /\ kept_spaces_ok (all_nodes lines ++ ml_nodes cur)) ->
    let '(lines', cur', _) := fold_left repr_step kids st in
    sub_ws (all_nodes lines' ++ ml_nodes cur') (pre ++ kids) /\
    kept_spaces_ok (all_nodes lines' ++ ml_nodes cur').
  Proof.
    induction kids as [|k ks IH]; intros st pre H.
    - cbn. rewrite app_nil_r. destruct st as [[l c] b]. exact H.
    - cbn [fold_left]. pose proof (repr_step_inv st k pre) as Hs.
      destruct st as [[l c] b]. specialize (Hs H).
      specialize (IH (repr_step (l, c, b) k) (pre ++ [k])).
      destruct (repr_step (l, c, b) k) as [[l1 c1] b1]. specialize (IH Hs).
      rewrite <- app_assoc in IH. exact IH.
  Qed.

  (* removing the trailing blanks of the last line *)
  Lemma strip_trailing_spaces_spec : forall rn eb rn' eb',
    strip_trailing_spaces rn eb = (rn', eb') ->
    exists sp, rn = sp ++ rn' /\ forallb is_ws_kid sp = true.
  Proof.
    induction rn as [|n r IH]; intros eb rn' eb' H; cbn in H.
    - inversion H; subst. exists []. auto.
    - destruct (kind_eqb (bk n) KSpace) eqn:Es.
      + apply IH in H. destruct H as (sp & -> & Hsp). exists (n :: sp). split; [reflexivity|].
        cbn. rewrite Hsp. unfold is_ws_kid, kin. cbn. rewrite Es. reflexivity.
      + inversion H; subst. exists []. auto.
  Qed.

  Theorem repr_lines_are_source_lines kids :
    sub_ws (all_nodes (mr_lines (collect_markup_repr kids))) kids /\
    kept_spaces_ok (all_nodes (mr_lines (collect_markup_repr kids))).
  Proof.
    unfold collect_markup_repr.
    pose proof (repr_fold_inv kids ([], ml_empty, BNil) []) as Hf.
    cbn [all_nodes flat_map ml_nodes ml_empty app] in Hf.
    destruct (fold_left repr_step kids ([], ml_empty, BNil)) as [[lines0 cur] sb] eqn:Ef.
    specialize (Hf (conj sw_nil (Forall_nil _))). destruct Hf as [Hs Hk].
    set (lines1 := match ml_nodes cur with [] => lines0 | _ => lines0 ++ [cur] end).
    assert (H1 : all_nodes lines1 = all_nodes lines0 ++ ml_nodes cur).
    { unfold lines1. destruct (ml_nodes cur) eqn:Ec.
      - rewrite app_nil_r. reflexivity.
      - rewrite all_nodes_app. cbn. rewrite app_nil_r, Ec. reflexivity. }
    rewrite <- H1 in Hs, Hk. clearbody lines1. clear H1 Ef.
    destruct (rev lines1) as [|last r] eqn:Er.
    - cbn [mr_lines]. assert (lines1 = []) by (apply (f_equal (@rev _)) in Er; rewrite rev_involutive in Er; exact Er).
      subst. split; assumption.
    - assert (El : lines1 = rev r ++ [last]).
      { apply (f_equal (@rev _)) in Er. rewrite rev_involutive in Er. exact Er. }
      destruct (if 0 <? ml_breaks last then (ml_breaks last - 1, BBreak) else (ml_breaks last, BNil)) as [breaks eb0].
      destruct (strip_trailing_spaces (rev (ml_nodes last)) eb0) as [rn eb1] eqn:Est.
      cbn [mr_lines].
      destruct (strip_trailing_spaces_spec _ _ _ _ Est) as (sp & Hrev & Hsp).
      assert (Hn : ml_nodes last = rev rn ++ rev sp).
      { apply (f_equal (@rev _)) in Hrev. rewrite rev_involutive, rev_app_distr in Hrev. exact Hrev. }
      subst lines1. rewrite all_nodes_app in Hs, Hk. cbn [all_nodes flat_map] in Hs, Hk.
      rewrite app_nil_r, Hn in Hs, Hk.
      rewrite all_nodes_app. cbn [all_nodes flat_map ml_nodes]. rewrite app_nil_r.
      split.
      + eapply sub_ws_trans; [|exact Hs].
        rewrite app_assoc. rewrite <- (app_nil_r (flat_map ml_nodes (rev r) ++ rev rn)) at 1.
        apply sub_ws_app; [apply sub_ws_refl|].
        apply sub_ws_drop_all. rewrite forallb_forall in *. intros x Hx. apply Hsp. apply in_rev. exact Hx.
      + unfold kept_spaces_ok in *. rewrite app_assoc in Hk. apply Forall_app in Hk. tauto.
  Qed.
End Repr.
