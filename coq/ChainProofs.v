(* ChainProofs.v — C01/C06: the chain stylist's collecting loop (dot chains, binary chains) keeps what it is handed:
   the items of the built chain carry, in order, the documents the loop obtained -- operators, right-hand sides,
   comments, and the fallback conversions of the non-operand nodes (glued to the preceding body). *)
From TV Require Import Render RenderProofs SeqProofs Layout Comment Conv SafeProofs ListProofs.
From Coq Require Import Lia.

Section ChainCollect.
  Variable swidth : str -> N.
  Notation carries := (carries sty0).
  Notation noise := (noise sty0).

  (* what one step of the loop does to the item list *)
  Inductive cpush :=
  | PItem (it : chain_item)        (* append an item *)
  | PGlue (fb : doc)               (* glue to the last body, or append as a body *)
  | PNone.

  Definition apply_cpush (items : list chain_item) (p : cpush) : list chain_item :=
    match p with
    | PItem it => items ++ [it]
    | PGlue fb =>
        match rev items with
        | CBody body :: r => rev r ++ [CBody (append body fb)]
        | _ => items ++ [CBody fb]
        end
    | PNone => items
    end.

  Definition cpush_docs (p : cpush) : list doc :=
    match p with PItem it => chain_item_docs it | PGlue fb => [fb] | PNone => [] end.

  Definition ccollected (items : list chain_item) (pushed : list doc) : Prop :=
    exists groups, Forall2 carries (flat_map chain_item_docs items) groups /\ pushed = concat groups.

  Lemma Forall2_single_items ds : Forall2 carries ds (map (fun d => [d]) ds).
  Proof. induction ds; cbn; constructor; [apply ca_item|assumption]. Qed.
  Lemma concat_single (ds : list doc) : concat (map (fun d => [d]) ds) = ds.
  Proof. induction ds as [|d ds IH]; cbn; [reflexivity|]. rewrite IH. reflexivity. Qed.

  Lemma ccollected_apply items p pushed :
    ccollected items pushed -> ccollected (apply_cpush items p) (pushed ++ cpush_docs p).
  Proof.
    intros (groups & HF & ->). destruct p as [it|fb|]; cbn [apply_cpush cpush_docs].
    - exists (groups ++ map (fun d => [d]) (chain_item_docs it)). split.
      + rewrite flat_map_app. cbn [flat_map]. rewrite app_nil_r. apply Forall2_app; [exact HF|apply Forall2_single_items].
      + rewrite concat_app, concat_single. reflexivity.
    - assert (Hdef : ccollected (items ++ [CBody fb]) (concat groups ++ [fb])).
      { exists (groups ++ [[fb]]). split.
        - rewrite flat_map_app. cbn [flat_map chain_item_docs app].
          apply Forall2_app; [exact HF|constructor; [apply ca_item|constructor]].
        - rewrite concat_app. cbn. reflexivity. }
      destruct (rev items) as [|it0 r] eqn:Er; [exact Hdef|].
      destruct it0 as [body|d0|d0|d0|]; try exact Hdef.
      assert (Hi : items = rev r ++ [CBody body]).
      { apply (f_equal (@rev chain_item)) in Er. rewrite rev_involutive in Er. exact Er. }
      rewrite Hi, flat_map_app in HF. cbn [flat_map chain_item_docs] in HF. rewrite app_nil_r in HF.
      apply Forall2_app_inv_l in HF. destruct HF as (g1 & g2 & H1 & H2 & ->).
      inversion H2 as [|b gb tl gtl Hb Htl]; subst. inversion Htl; subst.
      exists (g1 ++ [gb ++ [fb]]). split.
      + rewrite flat_map_app. cbn [flat_map chain_item_docs]. rewrite app_nil_r.
        apply Forall2_app; [exact H1|constructor; [apply ca_app; [exact Hb|apply ca_item]|constructor]].
      + rewrite !concat_app. cbn. rewrite !app_nil_r, <- app_assoc. reflexivity.
    - exists groups. rewrite app_nil_r. auto.
  Qed.

  Theorem cpushes_collect : forall ps items pushed,
    ccollected items pushed -> ccollected (fold_left apply_cpush ps items) (pushed ++ flat_map cpush_docs ps).
  Proof.
    induction ps as [|p ps IH]; intros items pushed H; cbn [fold_left flat_map].
    - rewrite app_nil_r. exact H.
    - rewrite app_assoc. apply IH, ccollected_apply, H.
  Qed.

  (* ---- the loop performs pushes: one per child of an operand node, one per other node ---- *)
  Definition inner_push_for {S : Type} (opc : S -> bundle -> S * option doc) (rhs : ctx -> bundle -> M (option doc))
      (x : bundle) (p : cpush) : Prop :=
    (exists s op, snd (opc s x) = Some op /\ p = PItem (COp op)) \/
    (exists d att, comment swidth (bt x) = Ok d /\ p = PItem (if att : bool then CAttached d else CComment d)) \/
    p = PItem CLinebreak \/ p = PNone \/
    (exists c n r n', rhs c x n = Ok (Some r, n') /\ p = PItem (CBody r)).

  Lemma inner_step_push {S : Type} c (opc : S -> bundle -> S * option doc) rhs (st : chain * bool * bool * S) x n st' n' :
    chain_inner_step swidth c opc rhs st x n = Ok (st', n') ->
    exists p, inner_push_for opc rhs x p /\ ch_items (fst (fst (fst st'))) = apply_cpush (ch_items (fst (fst (fst st)))) p.
  Proof.
    destruct st as [[[ch ca] so] s]. cbn [fst]. unfold chain_inner_step. intros H.
    destruct (opc s x) as [s1 oc] eqn:Eo. destruct oc as [op|].
    - inversion H; subst. exists (PItem (COp op)). split; [left; exists s, op; rewrite Eo; auto|reflexivity].
    - destruct (is_comment_b x).
      { unfold bind, convert_comment, lift in H. destruct (comment swidth (bt x)) as [d|] eqn:Ec; [|discriminate].
        cbn in H. inversion H; subst. exists (PItem (if ca then CAttached d else CComment d)).
        split; [right; left; exists d, ca; auto|reflexivity]. }
      destruct (kind_eqb (bk x) KSpace).
      { destruct (has_lb (tx x)); inversion H; subst; [|exists PNone; split; [right; right; right; left; reflexivity|reflexivity]].
        destruct (chain_last_is_comment (ch_items ch)).
        - exists (PItem CLinebreak). split; [right; right; left; reflexivity|reflexivity].
        - exists PNone. split; [right; right; right; left; reflexivity|reflexivity]. }
      destruct so.
      + unfold bind in H. destruct (rhs c x n) as [[o n1]|] eqn:Er; [|discriminate].
        destruct o as [r|]; inversion H; subst.
        * exists (PItem (CBody r)). split; [right; right; right; right; exists c, n, r, n'; auto|reflexivity].
        * exists PNone. split; [right; right; right; left; reflexivity|reflexivity].
      + inversion H; subst. exists PNone. split; [right; right; right; left; reflexivity|reflexivity].
  Qed.

  Lemma inner_loop_pushes {S : Type} c (opc : S -> bundle -> S * option doc) rhs : forall kids (st : chain * bool * bool * S) n st' n',
    foldM (chain_inner_step swidth c opc rhs) kids st n = Ok (st', n') ->
    exists ps, Forall2 (inner_push_for opc rhs) kids ps /\
               ch_items (fst (fst (fst st'))) = fold_left apply_cpush ps (ch_items (fst (fst (fst st)))).
  Proof.
    induction kids as [|x kids IH]; intros st n st' n' H.
    - cbn in H. inversion H; subst. exists []. split; [constructor|reflexivity].
    - cbn [foldM] in H. unfold bind at 1 in H.
      destruct (chain_inner_step swidth c opc rhs st x n) as [[st1 n1]|] eqn:Es; [|discriminate].
      apply inner_step_push in Es. destruct Es as (p & Hp & E1).
      apply IH in H. destruct H as (ps & Hps & E2).
      exists (p :: ps). split; [constructor; assumption|]. cbn [fold_left]. rewrite E2, E1. reflexivity.
  Qed.

  (* per node of the resolved chain: the pushes of its children (an operand node), or one glue (any other node) *)
  Definition outer_push_for {S : Type} (pred : bundle -> bool) (opc : S -> bundle -> S * option doc) rhs
      (fb : ctx -> bundle -> M (option doc)) (node : bundle) (ps : list cpush) : Prop :=
    if pred node then Forall2 (inner_push_for opc rhs) (bkids node) ps
    else (exists c n d n', fb c node n = Ok (Some d, n') /\ ps = [PGlue d]) \/ ps = [].

  Lemma outer_step_pushes {S : Type} c pred (opc : S -> bundle -> S * option doc) rhs fb (st : chain * bool * S) node n st' n' :
    chain_outer_step swidth c pred opc rhs fb st node n = Ok (st', n') ->
    exists ps, outer_push_for pred opc rhs fb node ps /\
               ch_items (fst (fst st')) = fold_left apply_cpush ps (ch_items (fst (fst st))).
  Proof.
    destruct st as [[ch ca] s]. cbn [fst]. unfold chain_outer_step, outer_push_for. intros H.
    destruct (pred node).
    - unfold bind in H.
      match type of H with match ?m n with _ => _ end = _ => destruct (m n) as [[[[[ch1 ca1] so1] s1] n1]|] eqn:Ei; [|discriminate] end.
      cbn in H. inversion H; subst. apply inner_loop_pushes in Ei. cbn [fst ch_items] in Ei.
      destruct Ei as (ps & Hps & E). exists ps. split; [exact Hps|exact E].
    - unfold bind in H. destruct (fb c node n) as [[o n1]|] eqn:Ef; [|discriminate].
      destruct o as [d|].
      + exists [PGlue d]. split; [left; exists c, n, d, n1; auto|].
        cbn [fold_left apply_cpush]. destruct (rev (ch_items ch)) as [|[body| | | |] r]; inversion H; reflexivity.
      + inversion H; subst. exists []. split; [right; reflexivity|reflexivity].
  Qed.

  Theorem chain_process_collects {S : Type} c nodes (s0 : S) pred opc rhs fb n ch n' :
    chain_process swidth c nodes s0 pred opc rhs fb n = Ok (ch, n') ->
    exists pss, Forall2 (outer_push_for pred opc rhs fb) nodes pss /\
                ccollected (ch_items ch) (flat_map cpush_docs (concat pss)).
  Proof.
    unfold chain_process. intros H. unfold bind at 1 in H.
    match type of H with match ?m n with _ => _ end = _ => destruct (m n) as [[[[ch1 ca1] s1] n1]|] eqn:Ef; [|discriminate] end.
    cbn in H. inversion H; subst. clear H.
    assert (Hgen : forall nodes (st : chain * bool * S) n st' n',
              foldM (chain_outer_step swidth c pred opc rhs fb) nodes st n = Ok (st', n') ->
              exists pss, Forall2 (outer_push_for pred opc rhs fb) nodes pss /\
                          ch_items (fst (fst st')) = fold_left apply_cpush (concat pss) (ch_items (fst (fst st)))).
    { clear. induction nodes as [|node nodes IH]; intros st n st' n' H.
      - cbn in H. inversion H; subst. exists []. split; [constructor|reflexivity].
      - cbn [foldM] in H. unfold bind at 1 in H.
        destruct (chain_outer_step swidth c pred opc rhs fb st node n) as [[st1 n1]|] eqn:Es; [|discriminate].
        apply outer_step_pushes in Es. destruct Es as (ps & Hps & E1).
        apply IH in H. destruct H as (pss & Hpss & E2).
        exists (ps :: pss). split; [constructor; assumption|].
        cbn [concat]. rewrite fold_left_app, <- E1. exact E2. }
    apply Hgen in Ef. destruct Ef as (pss & Hpss & E). cbn [fst chain_new ch_items] in E.
    exists pss. split; [exact Hpss|]. rewrite E.
    apply (cpushes_collect (concat pss) [] []). exists []. split; [constructor|reflexivity].
  Qed.
End ChainCollect.

(* builder and printer together: the atoms of a chain's document are the atoms of what the loop obtained, in order *)
Theorem chain_conserves swidth tab {S : Type} c nodes (s0 : S) pred opc rhs fb n ch n' csty d x :
  chain_process swidth c nodes s0 pred opc rhs fb n = Ok (ch, n') ->
  chain_print_doc swidth tab ch csty = Ok d -> seqs d x ->
  exists pss xs, Forall2 (outer_push_for swidth pred opc rhs fb) nodes pss /\
                 Forall2 seqs (flat_map cpush_docs (concat pss)) xs /\ kept sty0 x = kept sty0 (concat xs).
Proof.
  intros Hp Hd Hx.
  pose proof (chain_process_attached_ok swidth c nodes s0 pred opc rhs fb n ch n' Hp) as Hok.
  destruct (chain_process_collects swidth c nodes s0 pred opc rhs fb n ch n' Hp) as (pss & Hpss & (groups & HF & E)).
  destruct (chain_print_conserves swidth tab ch csty d x Hok Hd Hx) as (xs & Hxs & Ex).
  destruct (refine_groups sty0 _ _ HF xs Hxs) as (xs' & Hxs' & Er).
  exists pss, xs'. rewrite E. split; [exact Hpss|split; [exact Hxs'|]]. rewrite Ex. exact Er.
Qed.
