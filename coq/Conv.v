(* Conv.v — the converters of crates/typstyle-core/src/pretty/*.rs (CST -> Doc), function by
   function and with the Rust names.

   Recursion structure: `build t` computes, by structural recursion on the tree, a *bundle* for
   every node: the node, its converter `self : req -> M doc` (one request constructor per Rust
   entry point that can be invoked on the node from outside), and the bundles of its children.
   A converter only ever calls the `self` of bundles below it, so the model is total by
   construction (no fuel).  M is the counter/panic monad of Mon.v. *)
From TV Require Export Comment Ast Attr Config Ext.
From TV.gen Require Export Tables.

Inductive lmode := LMarkup | LCode | LCodeCont | LMath.
Record ctx := mk_ctx { c_mode : lmode; c_supp : bool }.
Definition ctx_default : ctx := mk_ctx LMarkup false.
Definition with_mode (c : ctx) (m : lmode) : ctx := mk_ctx m (c_supp c).
Definition with_mode_if (c : ctx) (m : lmode) (b : bool) : ctx := if b then with_mode c m else c.
Definition suppress_breaks (c : ctx) : ctx := mk_ctx (c_mode c) true.
Definition is_markup_mode (m : lmode) := match m with LMarkup => true | _ => false end.
Definition is_code_mode (m : lmode) := match m with LCode | LCodeCont => true | _ => false end.
Definition is_code_cont (m : lmode) := match m with LCodeCont => true | _ => false end.
Definition is_math_mode (m : lmode) := match m with LMath => true | _ => false end.

Inductive scope := ScDocument | ScContentBlock | ScStrong | ScItem.
Definition scope_eqb (a b : scope) : bool :=
  match a, b with
  | ScDocument, ScDocument | ScContentBlock, ScContentBlock | ScStrong, ScStrong | ScItem, ScItem => true
  | _, _ => false
  end.

(* what convert_func_call_args learns from the call node about table/grid handling *)
Inductive table_info := NotTable | TableNoCols | TableCols (n : N).

Inductive req :=
| RExpr (c : ctx)                         (* convert_expr *)
| RPattern (c : ctx)                      (* convert_pattern *)
| RMarkup (c : ctx) (s : scope)           (* convert_markup_impl *)
| RMath (c : ctx)                         (* convert_math *)
| RContentBlock (c : ctx)                 (* convert_content_block *)
| RExprEmb (c : ctx)                      (* convert_embedded_expr: a child of Markup or Math *)
| RParenthesized (c : ctx) (emb : bool)   (* convert_parenthesized *)
| RNamed (c : ctx)
| RKeyed (c : ctx)
| RSpread (c : ctx)
| RParams (c : ctx) (is_unnamed : bool)
| RArgs (c : ctx)                         (* convert_args *)
| RParenArgs (c : ctx)                    (* convert_parenthesized_args *)
| RFuncArgs (c : ctx) (ti : table_info)   (* convert_func_call_args *)
| RImportItemPath (c : ctx)
| RImportItemRenamed (c : ctx).

Inductive bundle := Bundle (t : tree) (self : req -> M doc) (kids : list bundle).
Definition bt (b : bundle) : tree := match b with Bundle t _ _ => t end.
Definition bself (b : bundle) : req -> M doc := match b with Bundle _ s _ => s end.
Definition bkids (b : bundle) : list bundle := match b with Bundle _ _ k => k end.
Definition bk (b : bundle) : kind := kind_of (bt b).
Definition call (b : bundle) (r : req) : M doc := bself b r.

Definition lift {A} (r : res A) : M A :=
  fun n => match r with Ok a => Ok (a, n) | Panic s => Panic s end.

Definition kin (k : kind) (l : list kind) : bool := existsb (kind_eqb k) l.
Definition str_in (s : str) (l : list str) : bool := existsb (str_eqb s) l.

Definition is_only_one_and {A} (l : list A) (f : A -> bool) : bool :=
  match l with [x] => f x | _ => false end.

Definition chain_width (c : config) : N :=
  chain_width_of CHAIN_WIDTH_RATIO_NUM CHAIN_WIDTH_RATIO_DEN (max_width c).

Section Conv.
  Variable swidth : str -> N.
  Variable cfg : config.
  Notation text := (text swidth).
  Notation tab := (tab_spaces cfg).
  Notation ztab := (Z.of_N (tab_spaces cfg)).

  Definition tx (b : bundle) : str := text_of (bt b).
  Definition is_comment_b (b : bundle) : bool := is_comment_node (bt b).
  Definition has_comment_children_b (b : bundle) : bool := existsb is_comment_b (bkids b).

  Definition convert_comment (b : bundle) : M doc := lift (comment swidth (bt b)).
  Definition convert_verbatim (t : tree) : doc := text (into_text t).
  Definition convert_trivia (t : tree) : doc := text (text_of t).

  Definition check_disabled (t : tree) (k : M doc) : M doc :=
    if a_disabled (attrs_of t) then ret (convert_verbatim t) else k.

  Definition get_fold_style (c : ctx) (t : tree) : fold_style :=
    if c_supp c then (if a_multiline (attrs_of t) then Fit else Always)
    else if a_flavor (attrs_of t) then Never else Fit.

  (* text.rs *)
  Definition convert_space_text (s : str) : doc := if has_lb s then hardline else space.
  Definition convert_parbreak (t : tree) : doc := repeat_n hardline (count_lb (text_of t)).

  (* ---------- convert_flow_like_iter (code_flow.rs) ---------- *)
  Definition flow_like_iter {S : Type} (c : ctx) (children : list bundle) (s0 : S)
      (producer : S -> ctx -> bundle -> M (S * option flow_item)) : M doc :=
    r <- foldM (fun (st : flow * bool * bool * S) (child : bundle) =>
          let '(fl, peek_lc, peek_hash, s) := st in
          let k := bk child in
          if is_keyword k && negb (kin k [KNone; KAuto]) then
            ret (flow_push_doc fl (text (tx child)) true true, false, false, s)
          else if is_comment_b child then
            d <- convert_comment child ;;
            ret (flow_push_comment fl d (kind_eqb k KBlockComment), kind_eqb k KLineComment, false, s)
          else if peek_lc && kind_eqb k KSpace && has_lb (tx child) then
            ret (flow_enter_new_line (flow_push_doc fl hardline false false), false, false, s)
          else if kind_eqb k KHash then
            ret (flow_push_doc fl (text [35]) true false, false, true, s)
          else
            let c' := with_mode_if c LCode peek_hash in
            r <- producer s c' child ;;
            let '(s', it) := r in
            ret (match it with
                 | Some i => flow_push_doc fl (fi_doc i) (fi_before i) (fi_after i)
                 | None => fl
                 end, false, false, s'))
        children (flow_new, false, false, s0) ;;
    let '(fl, _, _, _) := r in
    ret (f_doc fl).

  (* stateless producer *)
  Definition flow_like (c : ctx) (children : list bundle)
      (producer : ctx -> bundle -> M (option flow_item)) : M doc :=
    flow_like_iter c children tt (fun _ c' b => it <- producer c' b ;; ret (tt, it)).

  (* ---------- ListStylist::process_* (layout/list.rs) ---------- *)
  Definition lst_process_trivia (l : lst) (node : bundle) : M lst :=
    match bk node with
    | KLineComment | KBlockComment =>
        d <- convert_comment node ;;
        let is_line := kind_eqb (bk node) KLineComment in
        ret (mk_lst (l_can_attach l) (l_free l ++ [d]) (l_peek_hash l) (l_items l) (l_real l) true
                    (l_has_line_comment l || is_line) (if is_line then Never else l_fold l)
                    (l_no_front l) (l_no_detach l) (l_keep l))
    | KComma => ret (fst (try_attach_comments l))
    | KSpace =>
        let n := count_lb (tx node) in
        if 0 <? n then
          let l1 := set_can_attach (attach_or_detach_comments l) false in
          match l_keep l1 with
          | Some nl =>
              if (2 <=? n) && negb (match l_items l1 with [] => true | _ => false end)
              then ret (set_items l1 (l_items l1 ++ [ILinebreak (N.min (n - 1) nl)]))
              else ret l1
          | None => ret l1
          end
        else ret l
    | KHash => ret (set_peek_hash l true)
    | _ => ret l
    end.

  Definition lst_process (l : lst) (c : ctx) (nodes : list bundle)
      (checker : ctx -> bundle -> M (option doc)) : M lst :=
    l' <- foldM (fun (l : lst) (node : bundle) =>
            let c' := with_mode_if c LCode (l_peek_hash l) in
            o <- checker c' node ;;
            match o with
            | Some body => ret (set_peek_hash (lst_add_item swidth l body) false)
            | None => lst_process_trivia (set_peek_hash l false) node
            end) nodes l ;;
    ret (lst_windup l').

  Definition lst_doc (l : lst) (sty : list_style) : doc := lst_print_doc swidth tab l sty.

  (* ---------- ChainStylist::process (layout/chain.rs); nodes innermost first ---------- *)
  Definition chain_last_is_comment (items : list chain_item) : bool :=
    match rev items with
    | CAttached _ :: _ | CComment _ :: _ => true
    | _ => false
    end.

  (* the loop over the children of one operand node *)
  Definition chain_inner_step {S : Type} (c : ctx) (op_conv : S -> bundle -> S * option doc)
      (rhs_conv : ctx -> bundle -> M (option doc)) (st2 : chain * bool * bool * S) (child : bundle)
      : M (chain * bool * bool * S) :=
    let '(ch, can_attach, seen_op, s) := st2 in
    let '(s, oc) := op_conv s child in
    match oc with
    | Some op => ret (mk_chain (ch_items ch ++ [COp op]) (ch_op_num ch) (ch_has_comment ch), can_attach, true, s)
    | None =>
        if is_comment_b child then
          d <- convert_comment child ;;
          ret (mk_chain (ch_items ch ++ [if can_attach then CAttached d else CComment d])
                        (ch_op_num ch) true, can_attach, seen_op, s)
        else if kind_eqb (bk child) KSpace then
          if has_lb (tx child) then
            let ch' := if chain_last_is_comment (ch_items ch)
                       then mk_chain (ch_items ch ++ [CLinebreak]) (ch_op_num ch) (ch_has_comment ch)
                       else ch in
            ret (ch', false, seen_op, s)
          else ret (ch, can_attach, seen_op, s)
        else if seen_op then
          o <- rhs_conv c child ;;
          match o with
          | Some rhs => ret (mk_chain (ch_items ch ++ [CBody rhs]) (ch_op_num ch) (ch_has_comment ch), true, seen_op, s)
          | None => ret (ch, can_attach, seen_op, s)
          end
        else ret (ch, can_attach, seen_op, s)
    end.

  (* one node of the resolved chain: an operand node contributes its operator and right-hand side,
     any other node is converted by the fallback and glued to the last body *)
  Definition chain_outer_step {S : Type} (c : ctx)
      (operand_pred : bundle -> bool) (op_conv : S -> bundle -> S * option doc)
      (rhs_conv : ctx -> bundle -> M (option doc))
      (fallback : ctx -> bundle -> M (option doc)) (st : chain * bool * S) (node : bundle) : M (chain * bool * S) :=
    let '(ch, can_attach, s) := st in
    if operand_pred node then
      let ch0 := mk_chain (ch_items ch) (ch_op_num ch + 1) (ch_has_comment ch) in
      r <- foldM (chain_inner_step c op_conv rhs_conv) (bkids node) (ch0, can_attach, false, s) ;;
      let '(ch1, can_attach1, _, s1) := r in
      ret (ch1, can_attach1, s1)
    else
      o <- fallback c node ;;
      match o with
      | Some fb =>
          match rev (ch_items ch) with
          | CBody body :: r =>
              ret (mk_chain (rev r ++ [CBody (append body fb)]) (ch_op_num ch) (ch_has_comment ch), can_attach, s)
          | _ => ret (mk_chain (ch_items ch ++ [CBody fb]) (ch_op_num ch) (ch_has_comment ch), can_attach, s)
          end
      | None => ret (ch, can_attach, s)
      end.

  Definition chain_process {S : Type} (c : ctx) (nodes : list bundle) (s0 : S)
      (operand_pred : bundle -> bool) (op_conv : S -> bundle -> S * option doc)
      (rhs_conv : ctx -> bundle -> M (option doc))
      (fallback : ctx -> bundle -> M (option doc)) : M chain :=
    r <- foldM (chain_outer_step c operand_pred op_conv rhs_conv fallback) nodes (chain_new, false, s0) ;;
    ret (fst (fst r)).

  Definition chain_doc (ch : chain) (sty : chain_style) : M doc := lift (chain_print_doc swidth tab ch sty).

  (* iterate_deep_nodes: outermost first. `depth` bounds the walk by the height of the tree. *)
  Fixpoint resolve_chain (next : bundle -> option bundle) (depth : nat) (b : bundle) : list bundle :=
    match depth with
    | O => [b]
    | S d => match next b with
             | Some b' => b :: resolve_chain next d b'
             | None => [b]
             end
    end.

  Definition first_kid (p : tree -> bool) (b : bundle) : option bundle :=
    find (fun k => p (bt k)) (bkids b).
  Definition last_kid (p : tree -> bool) (b : bundle) : option bundle :=
    find (fun k => p (bt k)) (rev (bkids b)).

  Definition dot_chain_next (b : bundle) : option bundle :=
    match bk b with
    | KFieldAccess | KFuncCall => first_kid is_expr b   (* target() / callee() *)
    | _ => None
    end.
  Definition resolve_dot_chain (b : bundle) : list bundle :=
    resolve_chain dot_chain_next (tree_height (bt b)) b.

  Definition binary_chain_next (prec : N) (b : bundle) : option bundle :=
    if kind_eqb (bk b) KBinary && (binop_precedence (binary_op (bt b)) =? prec)
    then first_kid is_expr b else None.
  Definition resolve_binary_chain (b : bundle) : list bundle :=
    resolve_chain (binary_chain_next (binop_precedence (binary_op (bt b)))) (tree_height (bt b)) b.

  (* ---------- PlainStylist::process_iterable (layout/plain.rs) ---------- *)
  Definition plain_process (c : ctx) (nodes : list bundle)
      (conv : ctx -> bundle -> M (option doc)) : M (list plain_item * bool) :=
    let nl := blank_lines_upper_bound cfg in
    r <- foldM (fun (st : list plain_item * bool) (child : bundle) =>
          let '(items, ml) := st in
          match bk child with
          | KComma => ret (items ++ [PComma], ml)
          | KSpace =>
              let n := count_lb (tx child) in
              if 0 <? n then
                match items with
                | [] => ret (items, true)
                | _ => ret (items ++ [PLinebreak (N.min n (nl + 1))], true)
                end
              else ret (items, ml)
          | KLineComment => d <- convert_comment child ;; ret (items ++ [PLineComment d], true)
          | KBlockComment => d <- convert_comment child ;; ret (items ++ [PBlockComment d], ml)
          | _ =>
              o <- conv c child ;;
              match o with
              | Some d => ret (items ++ [PItem d], ml)
              | None => ret (items, ml)
              end
          end) nodes ([], false) ;;
    let '(items, ml) := r in
    ret (rev (pop_plain_linebreaks_rev (rev items)), ml).

  (* ---------- parened_expr.rs ---------- *)
  Definition optional_paren (body : doc) (op cl : str) : doc :=
    let open := flat_alt (append (text op) hardline) DNil in
    let close := flat_alt (append hardline (text cl)) DNil in
    group (append (nest ztab (append open body)) close).

  Definition parenthesize_if_necessary (c : ctx) (body : ctx -> M doc) : M doc :=
    if is_code_cont (c_mode c) then body c
    else d <- body (with_mode c LCodeCont) ;; ret (optional_paren d [40] [41]).

  (* util.rs has_free_line_comment: a line comment outside of any nested parentheses, brackets or braces *)
  Fixpoint has_free_line_comment (t : tree) : bool :=
    match t with
    | Leaf _ _ _ => false
    | Inner _ cs _ =>
        existsb (fun c =>
                   match kind_of c with
                   | KLineComment => true
                   | KParenthesized | KArray | KDict | KDestructuring | KArgs | KParams | KCodeBlock | KContentBlock => false
                   | _ => has_free_line_comment c
                   end) cs
    end.

  Definition is_paren_needed (t : tree) : bool := negb (kin (kind_of t) PAREN_NOT_NEEDED).

  Definition is_chainable_binary (t : tree) : bool :=
    binop_precedence BAssign <? binop_precedence (binary_op t).

  Definition convert_expr_with_optional_paren (c : ctx) (e : bundle) (use_braces : bool) : M doc :=
    if c_supp c || negb (is_paren_needed (bt e)) then call e (RExpr c)
    else
      let '(m, op, cl) := if use_braces then (LCode, [123], [125]) else (LCodeCont, [40], [41]) in
      d <- call e (RExpr (with_mode c m)) ;;
      ret (optional_paren d op cl).

  (* convert_arg / items (code_misc.rs, func_call.rs) *)
  Definition convert_arg (c : ctx) (b : bundle) : M doc :=
    match bk b with
    | KNamed => call b (RNamed c)
    | KSpread => call b (RSpread c)
    | _ => call b (RExpr c)
    end.
  Definition convert_array_item (c : ctx) (b : bundle) : M doc :=
    match bk b with KSpread => call b (RSpread c) | _ => call b (RExpr c) end.
  Definition convert_dict_item (c : ctx) (b : bundle) : M doc :=
    match bk b with
    | KNamed => call b (RNamed c)
    | KKeyed => call b (RKeyed c)
    | _ => call b (RSpread c)
    end.
  Definition convert_param (c : ctx) (b : bundle) : M doc :=
    match bk b with
    | KNamed => call b (RNamed c)
    | KSpread => call b (RSpread c)
    | _ => call b (RPattern c)
    end.

  Definition opt_conv (p : tree -> bool) (f : ctx -> bundle -> M doc) : ctx -> bundle -> M (option doc) :=
    fun c b => if p (bt b) then d <- f c b ;; ret (Some d) else ret None.

  (* ---------- markup.rs ---------- *)
  Inductive boundary := BNil | BNilOrBreak | BSpaceOrBreak | BBreak | BWeakSpaceOrBreak | BWeakBreak.
  Definition boundary_eqb (a b : boundary) : bool :=
    match a, b with
    | BNil, BNil | BNilOrBreak, BNilOrBreak | BSpaceOrBreak, BSpaceOrBreak | BBreak, BBreak
    | BWeakSpaceOrBreak, BWeakSpaceOrBreak | BWeakBreak, BWeakBreak => true
    | _, _ => false
    end.
  Definition boundary_from_space (s : str) : boundary := if has_lb s then BBreak else BSpaceOrBreak.
  Definition strip_space (b : boundary) : boundary :=
    match b with BSpaceOrBreak => BNilOrBreak | _ => b end.

  Record markup_line := mk_ml { ml_nodes : list bundle; ml_breaks : N; ml_mixed : bool }.
  Definition ml_empty : markup_line := mk_ml [] 0 false.
  Record markup_repr := mk_mr { mr_lines : list markup_line; mr_start : boundary; mr_end : boundary }.

  Definition is_block_elem (b : bundle) : bool := kin (bk b) BLOCK_ELEM_KINDS.

  (* pop trailing Space nodes of the last line, updating end_bound *)
  Fixpoint strip_trailing_spaces (rev_nodes : list bundle) (eb : boundary) : list bundle * boundary :=
    match rev_nodes with
    | n :: r =>
        if kind_eqb (bk n) KSpace then strip_trailing_spaces r (boundary_from_space (tx n))
        else (rev_nodes, if is_block_elem n then strip_space eb else eb)
    | [] => ([], eb)
    end.

  Definition bound_through_comments (nodes : list bundle) (first_non_comment : option bundle) : option boundary :=
    match first_non_comment with
    | Some it =>
        if is_block_elem it then Some BNilOrBreak
        else if kind_eqb (bk it) KSpace then Some BWeakSpaceOrBreak
        else None
    | None => match nodes with [] => None | _ => Some BWeakBreak end
    end.

  (* the loop body of collect_markup_repr *)
  Definition repr_step (st : list markup_line * markup_line * boundary) (node : bundle) :=
    let '(lines, cur, sb) := st in
    let k := bk node in
    if kind_eqb k KParbreak then
      (lines ++ [mk_ml (ml_nodes cur) (count_lb (tx node)) (ml_mixed cur)], ml_empty, sb)
    else if kind_eqb k KSpace && (match ml_nodes cur with [] => true | _ => false end) then
      (lines, cur, boundary_from_space (tx node))
    else if kind_eqb k KSpace && has_lb (tx node) then
      (lines ++ [mk_ml (ml_nodes cur) 1 (ml_mixed cur)], ml_empty, sb)
    else
      let mixed := ml_mixed cur || kin k MIXED_TEXT_KINDS in
      let sb' := if (match ml_nodes cur with [] => true | _ => false end) && is_block_elem node
                 then strip_space sb else sb in
      (lines, mk_ml (ml_nodes cur ++ [node]) (ml_breaks cur) mixed, sb').

  Definition collect_markup_repr (children : list bundle) : markup_repr :=
    let '(lines0, cur, sb) := fold_left repr_step children ([], ml_empty, BNil) in
    let lines1 := match ml_nodes cur with [] => lines0 | _ => lines0 ++ [cur] end in
    (* Remove trailing spaces *)
    let '(lines2, eb) :=
      match rev lines1 with
      | last :: r =>
          let '(breaks, eb0) := if 0 <? ml_breaks last then (ml_breaks last - 1, BBreak) else (ml_breaks last, BNil) in
          let '(rn, eb1) := strip_trailing_spaces (rev (ml_nodes last)) eb0 in
          (rev r ++ [mk_ml (rev rn) breaks (ml_mixed last)], eb1)
      | [] => ([], BNil)
      end in
    (* Check boundary through comments *)
    let sb' :=
      if boundary_eqb sb BNil then
        match lines2 with
        | fl :: _ =>
            match bound_through_comments (ml_nodes fl) (find (fun b => negb (is_comment_b b)) (ml_nodes fl)) with
            | Some x => x | None => sb
            end
        | [] => sb
        end
      else sb in
    let eb' :=
      if boundary_eqb eb BNil then
        match rev lines2 with
        | ll :: _ =>
            match bound_through_comments (ml_nodes ll) (find (fun b => negb (is_comment_b b)) (rev (ml_nodes ll))) with
            | Some x => x | None => eb
            end
        | [] => eb
        end
      else eb in
    mk_mr lines2 sb' eb'.

  Definition convert_markup_impl (t : tree) (kids : list bundle) (c : ctx) (sc : scope) : M doc :=
    bump ;;;
    let c := with_mode c LMarkup in
    if is_only_one_and kids (fun b => kind_eqb (bk b) KSpace) then ret space
    else
      let repr := collect_markup_repr kids in
      d <- foldM (fun (d : doc) (ln : markup_line) =>
             d1 <- foldM (fun (d : doc) (node : bundle) =>
                    x <- (if kind_eqb (bk node) KSpace then ret space
                          else if kind_eqb (bk node) KText then ret (convert_verbatim (bt node))
                          else if is_expr (bt node) then
                            call node (RExprEmb (if ml_mixed ln then suppress_breaks c else c))
                          else if is_comment_b node then convert_comment node
                          else ret (convert_trivia (bt node))) ;;
                    ret (append d x)) (ml_nodes ln) d ;;
             ret (if 0 <? ml_breaks ln then append d1 (repeat_n hardline (ml_breaks ln)) else d1))
           (mr_lines repr) DNil ;;
      let has_line_break := a_multiline (attrs_of t) in
      let is_symmetric := negb (boundary_eqb (mr_start repr) BNil) && negb (boundary_eqb (mr_end repr) BNil) in
      let get_delim (b : boundary) : doc :=
        if scope_eqb sc ScDocument || scope_eqb sc ScItem then
          (if boundary_eqb b BBreak then hardline else DNil)
        else
          match b with
          | BNil => DNil
          | BNilOrBreak =>
              if scope_eqb sc ScItem || (negb is_symmetric && negb has_line_break) || c_supp c
              then DNil else line_
          | BSpaceOrBreak | BWeakSpaceOrBreak =>
              if (is_symmetric && negb (c_supp c)) || has_line_break then line
              else if scope_eqb sc ScItem then DNil
              else space
          | BBreak | BWeakBreak => hardline
          end in
      ret (enclose (get_delim (mr_start repr)) (get_delim (mr_end repr)) d).

  (* the Markup child of a content block / strong / emph (body(), with its placeholder default) *)
  Definition call_markup_body (parent_kids : list bundle) (c : ctx) (sc : scope) : M doc :=
    match find (fun b => kind_eqb (bk b) KMarkup) parent_kids with
    | Some m => call m (RMarkup c sc)
    | None => bump ;;; ret DNil          (* Markup::default(): an empty markup *)
    end.

  Definition convert_content_block (kids : list bundle) (c : ctx) : M doc :=
    d <- call_markup_body kids c ScContentBlock ;;
    ret (enclose (text [91]) (text [93]) (group (nest ztab d))).

  Definition convert_strong (kids : list bundle) (c : ctx) : M doc :=
    d <- call_markup_body kids c ScStrong ;; ret (enclose (text [42]) (text [42]) d).
  Definition convert_emph (kids : list bundle) (c : ctx) : M doc :=
    d <- call_markup_body kids c ScStrong ;; ret (enclose (text [95]) (text [95]) d).

  Definition convert_raw (t : tree) (kids : list bundle) : doc :=
    if negb (raw_block t) && (1 <? raw_line_count t) then convert_verbatim t
    else
      fold_left (fun d child =>
        match bk child with
        | KRawDelim | KRawLang => append d (convert_trivia (bt child))
        | KText => append d (convert_verbatim (bt child))
        | KRawTrimmed => append d (if has_lb (tx child) then hardline else space)
        | _ => d
        end) kids DNil.

  Definition convert_ref (t : tree) (kids : list bundle) (c : ctx) : M doc :=
    let d := append (text [64]) (text (ref_target t)) in
    match find (fun b => kind_eqb (bk b) KContentBlock) (rev kids) with
    | Some s => x <- call s (RContentBlock c) ;; ret (append d x)
    | None => ret d
    end.

  Definition convert_heading (kids : list bundle) (c : ctx) : M doc :=
    flow_like c kids (fun c child =>
      if kind_eqb (bk child) KHeadingMarker then ret (fi_spaced (text (tx child)))
      else if kind_eqb (bk child) KMarkup then d <- call child (RMarkup c ScItem) ;; ret (fi_spaced d)
      else ret fi_none).

  Definition convert_list_item_like (kids : list bundle) (c : ctx) : M doc :=
    d <- flow_like c kids (fun c child =>
      match bk child with
      | KListMarker | KEnumMarker | KTermMarker => ret (fi_spaced (text (tx child)))
      | KColon => ret (fi_tight_spaced (text (tx child)))
      | KParbreak => ret (fi_tight (repeat_n hardline (count_lb (tx child))))
      | k =>
          if kind_eqb k KSpace && has_lb (tx child) then ret (fi_tight hardline)
          else if kind_eqb k KMarkup && negb (match bkids child with [] => true | _ => false end) then
            d <- call child (RMarkup c ScItem) ;; ret (fi_spaced d)
          else ret fi_none
      end) ;;
    ret (nest ztab d).

  (* ---------- math.rs ---------- *)
  Definition convert_math (t : tree) (kids : list bundle) (c : ctx) : M doc :=
    bump ;;;
    check_disabled t (
      let c := suppress_breaks c in
      r <- foldM (fun (st : doc * bool) (node : bundle) =>
            let '(d, at_hash) := st in
            if is_expr (bt node) then
              x <- call node (RExprEmb (with_mode_if c LCode at_hash)) ;; ret (append d x, false)
            else if kind_eqb (bk node) KSpace then ret (append d (convert_space_text (tx node)), false)
            else if kind_eqb (bk node) KHash then ret (append d (text [35]), true)
            else ret (append d (convert_trivia (bt node)), false))
          kids (DNil, false) ;;
      ret (fst r)).

  Definition split_last {A} (l : list A) : option (list A * A) :=
    match rev l with x :: r => Some (rev r, x) | [] => None end.

  Definition convert_math_delimited (kids : list bundle) (c : ctx) : M doc :=
    match kids with
    | [] | [_] => panic SMathDelimitedSlice
    | _ :: rest =>
        let inner0 := removelast rest in
        let '(open_space, inner1) :=
          match inner0 with
          | first :: r =>
              if kind_eqb (bk first) KSpace then (convert_space_text (tx first), r) else (DNil, inner0)
          | [] => (DNil, inner0)
          end in
        let '(close_space, inner2) :=
          match split_last inner1 with
          | Some (r, last) =>
              if kind_eqb (bk last) KSpace then (convert_space_text (tx last), r) else (DNil, inner1)
          | None => (DNil, inner1)
          end in
        body <- flow_like c inner2 (fun c node =>
                  if kind_eqb (bk node) KMath then d <- call node (RMath c) ;; ret (fi_tight d)
                  else if kind_eqb (bk node) KSpace then
                    ret (fi_tight (if has_lb (tx node) then line else space))
                  else ret fi_none) ;;
        open <- match find (fun b => is_expr (bt b)) kids with
                | Some o => call o (RExpr c)
                | None => bump ;;; ret (text [110; 111; 110; 101])
                end ;;
        close <- match find (fun b => is_expr (bt b)) (rev kids) with
                 | Some o => call o (RExpr c)
                 | None => bump ;;; ret (text [110; 111; 110; 101])
                 end ;;
        ret (enclose open close (append (nest ztab (append open_space body)) close_space))
    end.

  (* convert_math_operand: the flow switches to code mode for the expression directly after a hash; that one is
     embedded code *)
  Definition math_operand_req (c : ctx) : req := if is_code_mode (c_mode c) then RExprEmb c else RExpr c.

  Definition convert_math_attach_like (kids : list bundle) (c : ctx) : M doc :=
    flow_like c kids (fun c node =>
      if is_expr (bt node) then d <- call node (math_operand_req c) ;; ret (fi_tight d)
      else if kind_eqb (bk node) KSpace then ret fi_none
      else ret (fi_tight (convert_trivia (bt node)))).

  Definition convert_math_frac (kids : list bundle) (c : ctx) : M doc :=
    flow_like c kids (fun c node =>
      if is_expr (bt node) then d <- call node (math_operand_req c) ;; ret (fi_spaced d)
      else if kind_eqb (bk node) KSemicolon then ret (fi_tight_spaced (convert_trivia (bt node)))
      else if negb (kind_eqb (bk node) KSpace) then ret (fi_spaced (convert_trivia (bt node)))
      else ret fi_none).

  Definition convert_math_primes (t : tree) : doc :=
    text (repeat 39 (N.to_nat (math_primes_count t))).

  Definition convert_equation (t : tree) (kids : list bundle) (c : ctx) : M doc :=
    let c := with_mode c LMath in
    let is_block := equation_block t in
    let trailing_ok :=
      match nth_back 1 kids, nth_back 2 kids with
      | Some a, Some b => kind_eqb (bk a) KSpace && kind_eqb (bk b) KMath
      | _, _ => false
      end in
    let convert_math_padded (c : ctx) (child : bundle) : M (option doc) :=
      if kind_eqb (bk child) KMath && negb (match bkids child with [] => true | _ => false end) then
        let last_expr_is_linebreak :=
          match find (fun b => is_expr (bt b) || kind_eqb (bk b) KSpace) (rev (bkids child)) with
          | Some e => kind_eqb (bk e) KLinebreak
          | None => false
          end in
        body <- call child (RMath c) ;;
        ret (Some (if negb is_block && (last_expr_is_linebreak && trailing_ok) then append body space else body))
      else ret None in
    let fs := if negb is_block || c_supp c then Always
              else if a_multiline (attrs_of t) then Never else Fit in
    l <- lst_process (lst_with_fold_style lst_new fs) c kids convert_math_padded ;;
    ret (lst_doc l (mk_ls [] [36] [36] (negb is_block) is_block false false false false false false)).

  (* ---------- code_flow.rs ---------- *)
  Definition convert_named (kids : list bundle) (c : ctx) : M doc :=
    flow_like_iter c kids false (fun seen c child =>
      if kind_eqb (bk child) KColon then ret (seen, fi_tight_spaced (text [58]))
      else if is_expr (bt child) then d <- call child (RExpr c) ;; ret (true, fi_spaced_before d seen)
      else if is_pattern (bt child) then d <- call child (RPattern c) ;; ret (seen, fi_spaced d)
      else ret (seen, fi_none)).

  Definition convert_keyed (kids : list bundle) (c : ctx) : M doc :=
    flow_like_iter c kids false (fun seen c child =>
      if kind_eqb (bk child) KColon then ret (seen, fi_tight_spaced (text [58]))
      else if is_expr (bt child) then d <- call child (RExpr c) ;; ret (true, fi_spaced_before d seen)
      else ret (seen, fi_none)).

  Definition convert_spread (kids : list bundle) (c : ctx) : M doc :=
    flow_like c kids (fun c child =>
      if kind_eqb (bk child) KDots then ret (fi_spaced_tight (text [46; 46]))
      else if is_expr (bt child) then d <- call child (RExpr c) ;; ret (fi_tight_spaced d)
      else ret fi_none).

  Definition convert_unary (t : tree) (kids : list bundle) (c : ctx) : M doc :=
    let is_op_keyword := match unary_op t with UNot => true | _ => false end in
    flow_like c kids (fun c child =>
      match unop_from_kind (bk child) with
      | Some _ => ret (fi_spaced_tight (text (tx child)))
      | None =>
          if is_expr (bt child) then
            d <- call child (RExpr c) ;;
            ret (if is_op_keyword then fi_spaced d else fi_tight_spaced d)
          else ret fi_none
      end).

  Definition expr_flow (kids : list bundle) (c : ctx) : M doc :=
    flow_like c kids (fun c child =>
      if is_expr (bt child) then d <- call child (RExpr c) ;; ret (fi_spaced d) else ret fi_none).

  Definition convert_binary_chain (self : bundle) (c : ctx) : M doc :=
    let prec := binop_precedence (binary_op (bt self)) in
    ch <- chain_process c (rev (resolve_binary_chain self)) false
            (fun node => kind_eqb (bk node) KBinary && (binop_precedence (binary_op (bt node)) =? prec))
            (fun (seen_not : bool) child =>
               if kind_eqb (bk child) KNot then (true, None)
               else if kind_eqb (bk child) KIn && seen_not then (false, Some (text (binop_as_str BNotIn)))
               else (match binop_from_kind (bk child) with
                     | Some o => (seen_not, Some (text (binop_as_str o)))
                     | None => (seen_not, None)
                     end))
            (opt_conv is_expr (fun c b => call b (RExpr c)))
            (opt_conv is_expr (fun c b => call b (RExpr c))) ;;
    chain_doc ch (mk_cs false true).

  Definition convert_binary (self : bundle) (c : ctx) : M doc :=
    if negb (c_supp c) && is_chainable_binary (bt self) then
      parenthesize_if_necessary c (fun c => convert_binary_chain self c)
    else
      flow_like c (bkids self) (fun c child =>
        match binop_from_kind (bk child) with
        | Some _ => ret (fi_spaced (text (tx child)))
        | None => if is_expr (bt child) then d <- call child (RExpr c) ;; ret (fi_spaced d) else ret fi_none
        end).

  Inductive closure_la := LaName | LaParams | LaBody.
  Definition convert_closure (t : tree) (kids : list bundle) (c : ctx) : M doc :=
    let is_named := match closure_name t with Some _ => true | None => false end in
    flow_like_iter c kids (if is_named then LaName else LaParams) (fun la c child =>
      if kind_eqb (bk child) KEq then ret (la, fi_spaced (text [61]))
      else if kind_eqb (bk child) KArrow then ret (la, fi_spaced (text [61; 62]))
      else
        match la with
        | LaName =>
            if kind_eqb (bk child) KIdent then ret (LaParams, fi_tight (convert_trivia (bt child)))
            else ret (la, fi_none)
        | LaParams =>
            if kind_eqb (bk child) KParams then
              d <- call child (RParams c (negb is_named)) ;; ret (LaBody, fi_tight_spaced d)
            else ret (la, fi_none)
        | LaBody =>
            if is_expr (bt child) then
              let use_braces := negb (has_free_line_comment (bt child)) &&
                                (if kind_eqb (bk child) KBinary then negb (is_chainable_binary (bt child)) else true) in
              d <- convert_expr_with_optional_paren c child use_braces ;;
              ret (la, fi_spaced d)
            else ret (la, fi_none)
        end).

  Definition convert_let_binding (kids : list bundle) (c : ctx) : M doc :=
    flow_like c kids (fun c child =>
      if kind_eqb (bk child) KEq then ret (fi_spaced (text [61]))
      else if is_pattern (bt child) then d <- call child (RPattern c) ;; ret (fi_spaced d)
      else ret fi_none).

  Definition convert_destruct_assignment (kids : list bundle) (c : ctx) : M doc :=
    flow_like c kids (fun c child =>
      if kind_eqb (bk child) KEq then ret (fi_spaced (text [61]))
      else if is_pattern (bt child) then d <- call child (RPattern c) ;; ret (fi_spaced d)
      else if is_expr (bt child) then d <- call child (RExpr c) ;; ret (fi_spaced d)
      else ret fi_none).

  Inductive for_la := LaPattern | LaIterable | LaForBody.
  Definition convert_for_loop (kids : list bundle) (c : ctx) : M doc :=
    flow_like_iter c kids LaPattern (fun la c child =>
      match la with
      | LaPattern =>
          if is_pattern (bt child) then d <- call child (RPattern c) ;; ret (LaIterable, fi_spaced d)
          else ret (la, fi_none)
      | LaIterable =>
          if is_expr (bt child) then
            d <- convert_expr_with_optional_paren c child false ;; ret (LaForBody, fi_spaced d)
          else ret (la, fi_none)
      | LaForBody =>
          if is_expr (bt child) then d <- call child (RExpr c) ;; ret (la, fi_spaced d)
          else ret (la, fi_none)
      end).

  Definition convert_set_rule (kids : list bundle) (c : ctx) : M doc :=
    flow_like c kids (fun c child =>
      if is_expr (bt child) then d <- call child (RExpr c) ;; ret (fi_spaced d)
      else if kind_eqb (bk child) KArgs then d <- call child (RArgs c) ;; ret (fi_tight_spaced d)
      else ret fi_none).

  Definition convert_show_rule (kids : list bundle) (c : ctx) : M doc :=
    flow_like c kids (fun c child =>
      if kind_eqb (bk child) KColon then ret (fi_tight_spaced (text [58]))
      else if is_expr (bt child) then d <- call child (RExpr c) ;; ret (fi_spaced d)
      else ret fi_none).

  (* ---------- code_list.rs ---------- *)
  Definition convert_code_block (t : tree) (kids : list bundle) (c : ctx) : M doc :=
    let body := find (fun b => kind_eqb (bk b) KCode) kids in
    if match body with Some b => a_disabled (attrs_of (bt b)) | None => false end then ret (convert_verbatim t)
    else
      let c := with_mode c LCode in
      let nodes := flat_map (fun b => if kind_eqb (bk b) KCode then bkids b else [b]) kids in
      let expr_count := match body with
                        | Some b => length (filter (fun k => is_expr (bt k)) (bkids b))
                        | None => 0%nat
                        end in
      let can_fold := Nat.leb expr_count 1 && negb (existsb is_comment_b kids) in
      let l0 := lst_keep_linebreak
                  (lst_with_fold_style (lst_disallow_front_comment lst_new)
                     (if can_fold then get_fold_style c t else Never))
                  (blank_lines_upper_bound cfg) in
      l <- lst_process l0 c nodes (opt_conv is_expr (fun c b => call b (RExpr c))) ;;
      ret (lst_doc l (mk_ls [] [123] [125] false true false false false false false false)).

  Definition convert_parenthesized_impl (t : tree) (kids : list bundle) (c : ctx) (emb : bool) : M doc :=
    let e := parenthesized_expr t in
    (* a number or keyword directly after a hash in markup or math keeps its parentheses *)
    let ends_with_dot := match rev (text_of e) with c :: _ => c =? 46 | [] => false end in
    let can_omit := ((is_literal e && negb (emb && negb (kind_eqb (kind_of e) KStr)) && negb ends_with_dot)
                     || kin (kind_of e) CAN_OMIT_KINDS)
                    && negb (existsb is_comment_b kids) in
    l <- lst_process (lst_with_fold_style lst_new (get_fold_style c t)) c kids
           (opt_conv is_pattern (fun c b => call b (RPattern c))) ;;
    ret (lst_doc l (mk_ls [] [40] [41] false false false false false can_omit false false)).

  Definition convert_parenthesized (t : tree) (kids : list bundle) (c : ctx) (emb : bool) : M doc :=
    let c := with_mode c LCodeCont in
    match find (fun b => is_pattern (bt b)) kids with
    | Some p =>
        if kind_eqb (bk p) KParenthesized && negb (existsb is_comment_b kids)
        then call p (RParenthesized c emb)
        else convert_parenthesized_impl t kids c emb
    | None => convert_parenthesized_impl t kids c emb
    end.

  Definition convert_array (t : tree) (kids : list bundle) (c : ctx) : M doc :=
    let is_explicit := match kids with b :: _ => kind_eqb (bk b) KLeftParen | [] => false end in
    let c := if is_explicit then with_mode c LCodeCont else c in
    let ends_with_comma := negb is_explicit &&
                           match rev kids with b :: _ => kind_eqb (bk b) KComma | [] => false end in
    l <- lst_process (lst_with_fold_style lst_new (get_fold_style c t)) c kids
           (opt_conv is_array_item convert_array_item) ;;
    ret (lst_doc l (mk_ls [44] (if is_explicit then [40] else []) (if is_explicit then [41] else [])
                          (negb is_explicit) false is_explicit ends_with_comma false false false (negb is_explicit))).

  Definition convert_dict (t : tree) (kids : list bundle) (c : ctx) : M doc :=
    let c := with_mode c LCodeCont in
    let all_spread := forallb (fun b => kind_eqb (bk b) KSpread) (filter (fun b => is_dict_item (bt b)) kids) in
    l <- lst_process (lst_with_fold_style lst_new (get_fold_style c t)) c kids
           (opt_conv is_dict_item convert_dict_item) ;;
    ret (lst_doc l (mk_ls [44] (if all_spread then [40; 58] else [40]) [41] false false false false false false false false)).

  Definition convert_destructuring (t : tree) (kids : list bundle) (c : ctx) : M doc :=
    let c := with_mode c LCodeCont in
    let only_one_pattern :=
      is_only_one_and (filter (fun b => is_destructuring_item (bt b)) kids)
                      (fun b => negb (kin (bk b) [KNamed; KSpread])) in
    l <- lst_process (lst_with_fold_style lst_new (get_fold_style c t)) c kids
           (opt_conv is_destructuring_item convert_param) ;;
    ret (lst_doc (lst_always_fold_if l only_one_pattern)
                 (mk_ls [44] [40] [41] false false only_one_pattern false false false false false)).

  Definition convert_params (t : tree) (kids : list bundle) (c : ctx) (is_unnamed : bool) : M doc :=
    let c := with_mode c LCodeCont in
    let is_single_simple :=
      is_unnamed && negb (existsb is_comment_b kids) &&
      is_only_one_and (filter (fun b => is_param (bt b)) kids)
                      (fun b => kind_eqb (bk b) KUnderscore ||
                                (is_expr (bt b) && negb (kind_eqb (bk b) KParenthesized))) in
    l <- lst_process (lst_with_fold_style lst_new (get_fold_style c t)) c kids
           (opt_conv is_param convert_param) ;;
    ret (lst_doc (lst_always_fold_if l is_single_simple)
                 (mk_ls [44] [40] [41] false false false false is_single_simple false false false)).

  (* ---------- func_call.rs, table.rs (requests to the Args node) ---------- *)
  Definition has_parenthesized_args (kids : list bundle) : bool :=
    match kids with b :: _ => kind_eqb (bk b) KLeftParen | [] => false end.

  Fixpoint take_until_rparen (l : list bundle) : list bundle :=
    match l with
    | b :: r => if kind_eqb (bk b) KRightParen then [] else b :: take_until_rparen r
    | [] => []
    end.
  Fixpoint skip_until (k : kind) (l : list bundle) : list bundle :=
    match l with
    | b :: r => if kind_eqb (bk b) k then l else skip_until k r
    | [] => []
    end.

  Definition convert_parenthesized_args (t : tree) (kids : list bundle) (c : ctx) : M doc :=
    let c := with_mode c LCodeCont in
    let children := take_until_rparen kids in
    let args := filter (fun b => is_arg (bt b)) children in
    let fs0 := get_fold_style c t in
    let fs :=
      if negb (c_supp c) then
        match args with
        | [a] =>
            match bk a with
            | KNamed => Fit
            | k =>
                let inner := match k with
                             | KSpread => match first_kid is_expr a with Some e => bk e | None => KNone end
                             | _ => k
                             end in
                if kin inner SINGLE_ARG_FIT_KINDS then Fit else Always
            end
        | _ => fs0
        end
      else fs0 in
    l <- lst_process (lst_with_fold_style (lst_keep_linebreak lst_new (blank_lines_upper_bound cfg)) fs)
           c children (opt_conv is_arg convert_arg) ;;
    ret (lst_doc l ls_default).

  Definition convert_parenthesized_args_as_list (kids : list bundle) (c : ctx) : M doc :=
    let c := with_mode c LCodeCont in
    r <- plain_process c (take_until_rparen (skip_until KLeftParen kids)) (opt_conv is_arg convert_arg) ;;
    let '(items, ml) := r in
    ret (enclose (text [40]) (text [41]) (nest ztab (plain_print_doc swidth items ml))).

  Definition convert_additional_args (kids : list bundle) (c : ctx) (has_paren : bool) : M doc :=
    let rest := skip_until (if has_paren then KRightParen else KContentBlock) kids in
    foldM (fun d b => x <- call b (RContentBlock c) ;; ret (append d x))
          (filter (fun b => kind_eqb (bk b) KContentBlock) rest) DNil.

  Definition convert_args (t : tree) (kids : list bundle) (c : ctx) : M doc :=
    let hp := has_parenthesized_args kids in
    p <- (if hp then convert_parenthesized_args t kids c else ret DNil) ;;
    a <- convert_additional_args kids c hp ;;
    ret (append p a).

  (* the node's text ends with `#expr`, directly or inside its last child (at any depth) *)
  Fixpoint ends_with_hashed (t : tree) : bool :=
    match t with
    | Leaf _ _ _ => false
    | Inner _ cs _ =>
        (fix go (prev : option tree) (l : list tree) : bool :=
           match l with
           | [] => false
           | e :: r =>
               match r with
               | [] => (is_expr e && match prev with Some h => is_kind KHash h | None => false end)
                       || ends_with_hashed e
               | _ => go (Some e) r
               end
           end) None cs
    end.
  Definition is_ends_with_hashed_expr (arg : bundle) : bool := ends_with_hashed (bt arg).

  Fixpoint position {A} (p : A -> bool) (l : list A) (i : nat) : option nat :=
    match l with
    | [] => None
    | x :: r => if p x then Some i else position p r (S i)
    end.

  Definition convert_args_in_math (t : tree) (kids : list bundle) (c : ctx) : M doc :=
    let len := length kids in
    let i := match position (fun b => negb (kin (bk b) [KLeftParen; KSpace])) kids 0 with
             | Some i => i | None => 0%nat end in
    let j := match position (fun b => negb (kin (bk b) [KRightParen; KSpace])) (rev kids) 0 with
             | Some r => (len - 1 - r)%nat | None => (len - 1)%nat end in
    (* children[i..=j]; an empty argument list (`( )`) gives i > j: empty slice *)
    let children := if Nat.ltb j i then [] else firstn (j + 1 - i) (skipn i kids) in
    inner <- flow_like_iter c children false (fun peek c child =>
               match bk child with
               | KComma => ret (false, fi_tight_spaced (text [44]))
               | KSemicolon => ret (false, Some (mk_fi (text [59]) peek true))
               | KSpace => ret (peek, if has_lb (tx child) then fi_tight hardline else fi_none)
               | _ =>
                   if is_arg (bt child) then
                     d <- convert_arg c child ;;
                     ret (is_ends_with_hashed_expr child, fi_spaced d)
                   else ret (false, fi_none)
               end) ;;
    if a_multiline (attrs_of t) then
      ret (enclose (text [40]) (text [41]) (group (append (nest ztab (append line_ inner)) line_)))
    else ret (enclose (text [40]) (text [41]) inner).

  Definition callee_text_of_call (b : bundle) : str :=
    match first_kid is_expr b with Some cal => into_text (bt cal) | None => [] end.

  Definition convert_table (kids : list bundle) (c : ctx) (columns : N) : M doc :=
    let c := with_mode c LCodeCont in
    d0 <- foldM (fun d b => x <- call b (RNamed c) ;; ret (append d (append (append x (text [44])) hardline)))
            (filter (fun b => kind_eqb (bk b) KNamed) (filter (fun b => is_arg (bt b)) kids)) hardline ;;
    let pos_args := filter (fun b => is_arg (bt b) && negb (kin (bk b) [KNamed; KSpread])) (take_until_rparen kids) in
    (* rows *)
    let step (st : list (list bundle) * list bundle) (arg : bundle) :=
      let '(table, row) := st in
      let row1 := row ++ [arg] in
      let '(table1, row2) := if N.of_nat (length row1) =? columns then (table ++ [row1], []) else (table, row1) in
      if kind_eqb (bk arg) KFuncCall && str_in (callee_text_of_call arg) HEADER_FOOTER
      then (table1 ++ [row2], []) else (table1, row2) in
    let '(table0, lastrow) := fold_left step pos_args ([], []) in
    let table := match lastrow with [] => table0 | _ => table0 ++ [lastrow] end in
    let nrows := length table in
    r <- foldM (fun (st : doc * nat) (row : list bundle) =>
          let '(d, ri) := st in
          let row_has_succ := negb (Nat.eqb (S ri) nrows) in
          let ncells := length row in
          rr <- foldM (fun (st2 : doc * nat) (cell : bundle) =>
                 let '(rd, ci) := st2 in
                 x <- convert_arg c cell ;;
                 let cell_has_succ := negb (Nat.eqb (S ci) ncells) in
                 ret (append (append (append rd x) (text [44]))
                             (if cell_has_succ then line else if row_has_succ then line_ else DNil), S ci))
               row (DNil, 0%nat) ;;
          ret (append d (append (group (fst rr)) (if row_has_succ then hardline else DNil)), S ri))
        table (d0, 0%nat) ;;
    ret (enclose (text [40]) (text [41]) (append (nest ztab (fst r)) hardline)).

  Definition convert_func_call_args (t : tree) (kids : list bundle) (c : ctx) (ti : table_info) : M doc :=
    if is_math_mode (c_mode c) then convert_args_in_math t kids c
    else
      let hp := has_parenthesized_args kids in
      d <- match ti with
           | TableCols n => convert_table kids c n
           | TableNoCols => if hp then convert_parenthesized_args_as_list kids c else ret DNil
           | NotTable => if hp then convert_parenthesized_args t kids c else ret DNil
           end ;;
      a <- convert_additional_args kids c hp ;;
      ret (append d a).

  (* table.rs predicates, computed at the FuncCall node *)
  Definition indent_func_name (call : bundle) : option str :=
    match first_kid is_expr call with
    | Some cal => if kind_eqb (bk cal) KIdent then Some (text_of (bt cal)) else None
    | None => None
    end.
  Definition is_table (call : bundle) : bool :=
    match indent_func_name call with Some n => str_in n TABLE_FUNCS | None => false end.

  Definition is_formatable (args : bundle) : bool :=
    negb (existsb is_comment_b (bkids args)) &&
    let pargs := filter (fun b => is_arg (bt b)) (take_until_rparen (skip_until KLeftParen (bkids args))) in
    let step (st : bool * bool) (b : bundle) :=   (* (ok, seen_pos) *)
      let '(ok, seen) := st in
      match bk b with
      | KNamed => (ok && negb seen, seen)
      | KSpread => (false, seen)
      | _ => (ok && negb (kind_eqb (bk b) KFuncCall && str_in (callee_text_of_call b) BLACK_LIST), true)
      end in
    let '(ok, seen) := fold_left step pargs (true, false) in
    ok && seen.

  Definition get_table_columns (args : bundle) : option N :=
    let step (acc : option N) (b : bundle) :=
      match acc with
      | Some _ => acc
      | None =>
          if kind_eqb (bk b) KNamed && str_eqb (text_of (named_name (bt b))) COLUMNS_NAME then
            match last_kid is_expr b with
            | Some e =>
                if kind_eqb (bk e) KInt then Some (int_get (text_of (bt e)))
                else if kind_eqb (bk e) KArray then
                  Some (N.of_nat (length (filter (fun x => is_array_item (bt x)) (bkids e))))
                else None
            | None => None
            end
          else None
      end in
    fold_left step (filter (fun b => is_arg (bt b)) (bkids args)) None.

  Definition table_info_of (call : bundle) (args : bundle) : table_info :=
    if is_table call then
      if is_formatable args then
        match get_table_columns args with Some n => TableCols n | None => TableNoCols end
      else TableNoCols
    else NotTable.

  (* ---------- code_chain.rs ---------- *)
  Definition args_of_call (b : bundle) : option bundle := last_kid (is_kind KArgs) b.

  Definition convert_dot_chain (self : bundle) (c : ctx) : M doc :=
    ch <- chain_process c (rev (resolve_dot_chain self)) tt
            (fun node => kind_eqb (bk node) KFieldAccess)
            (fun s child => (s, if kind_eqb (bk child) KDot then Some (text [46]) else None))
            (fun _ child => if kind_eqb (bk child) KIdent then ret (Some (convert_trivia (bt child))) else ret None)
            (fun c node =>
               if kind_eqb (bk node) KFuncCall then
                 match args_of_call node with
                 | Some a => d <- call a (RArgs c) ;; ret (Some d)
                 | None => ret (Some DNil)
                 end
               else if is_expr (bt node) then d <- call node (RExpr c) ;; ret (Some d)
               else ret None) ;;
    chain_doc ch (mk_cs true false).

  Definition field_of (b : bundle) : tree := field_access_field (bt b).

  Definition try_convert_dot_chain_plain (c : ctx) (chain_outer_first : list bundle) : M (option doc) :=
    let chain := rev chain_outer_first in     (* innermost first *)
    match chain, rev chain with
    | inner :: _, outer :: _ =>
        if kind_eqb (bk outer) KFuncCall && kind_eqb (bk inner) KIdent then
          let est := fold_left (fun n b => if kind_eqb (bk b) KFieldAccess
                                           then n + byte_len (text_of (field_of b)) + 1 else n)
                               (tl chain) (byte_len (tx inner)) in
          if chain_width cfg <=? est then ret None
          else
            let d := fold_left (fun d b => if kind_eqb (bk b) KFieldAccess
                                           then append d (append (text [46]) (convert_trivia (field_of b))) else d)
                               chain (convert_trivia (bt inner)) in
            match args_of_call outer with
            | Some a => x <- call a (RArgs c) ;; ret (Some (append d x))
            | None => ret (Some d)
            end
        else ret None
    | _, _ => ret None
    end.

  Definition try_convert_dot_chain (self : bundle) (c : ctx) : M (option doc) :=
    if c_supp c then ret None
    else
      let chain := resolve_dot_chain self in
      let dot_num := length (filter (fun b => kind_eqb (bk b) KFieldAccess) chain) in
      let call_num := length (filter (fun b => kind_eqb (bk b) KFuncCall) chain) in
      let has_comment := existsb has_comment_children_b chain in
      o <- (if Nat.ltb 1 dot_num && Nat.eqb call_num 1 && negb has_comment
            then try_convert_dot_chain_plain c chain else ret None) ;;
      match o with
      | Some d => ret (Some d)
      | None =>
          if is_markup_mode (c_mode c) && Nat.ltb 1 dot_num && Nat.ltb 0 call_num then
            d <- parenthesize_if_necessary c (fun c => convert_dot_chain self c) ;; ret (Some d)
          else if is_code_mode (c_mode c) then d <- convert_dot_chain self c ;; ret (Some d)
          else ret None
      end.

  Definition convert_field_access (self : bundle) (c : ctx) : M doc :=
    o <- try_convert_dot_chain self c ;;
    match o with
    | Some d => ret d
    | None =>
        if has_comment_children_b self then
          flow_like c (bkids self) (fun c child =>
            if kind_eqb (bk child) KDot then ret (fi_tight (text [46]))
            else if is_expr (bt child) then d <- call child (RExpr c) ;; ret (fi_tight d)
            else ret fi_none)
        else
        tgt <- match first_kid is_expr self with
               | Some tg => call tg (RExpr c)
               | None => bump ;;; ret (text [110; 111; 110; 101])
               end ;;
        ret (append (append tgt (text [46])) (convert_trivia (field_of self)))
    end.

  Definition convert_func_call_plain (self : bundle) (c : ctx) : M doc :=
    cal <- match first_kid is_expr self with
           | Some cl => call cl (RExpr c)
           | None => bump ;;; ret (text [110; 111; 110; 101])
           end ;;
    a <- match args_of_call self with
         | Some a => call a (RFuncArgs c (table_info_of self a))
         | None => if is_math_mode (c_mode c) then panic SBadRequest else ret DNil
         end ;;
    ret (append cal a).

  Definition convert_func_call (self : bundle) (c : ctx) : M doc :=
    o <- (match first_kid is_expr self with
          | Some cal => if kind_eqb (bk cal) KFieldAccess then try_convert_dot_chain self c else ret None
          | None => ret None
          end) ;;
    match o with
    | Some d => ret d
    | None => convert_func_call_plain self c
    end.

  (* ---------- import.rs ---------- *)
  Definition convert_import_item_path (kids : list bundle) (c : ctx) : M doc :=
    flow_like c kids (fun _ child =>
      if kind_eqb (bk child) KDot then ret (fi_tight (text [46]))
      else if kind_eqb (bk child) KIdent then ret (fi_tight (convert_trivia (bt child)))
      else ret fi_none).

  Definition convert_import_item_renamed (kids : list bundle) (c : ctx) : M doc :=
    flow_like c kids (fun c child =>
      if kind_eqb (bk child) KImportItemPath then d <- call child (RImportItemPath c) ;; ret (fi_spaced d)
      else if kind_eqb (bk child) KIdent then ret (fi_spaced (convert_trivia (bt child)))
      else ret fi_none).

  (* check_import_name_duplication: true = no duplicates *)
  Definition import_bound_name (b : bundle) : option str :=
    match bk b with
    | KImportItemPath | KRenamedImportItem => Some (last_ident_text (bt b))
    | _ => None
    end.
  Fixpoint no_dup_names (l : list bundle) (seen : list str) : bool :=
    match l with
    | [] => true
    | b :: r =>
        match import_bound_name b with
        | Some n => if str_in n seen then false else no_dup_names r (n :: seen)
        | None => no_dup_names r seen
        end
    end.

  (* stable insertion sort by into_text (sort_by_key is stable) *)
  Fixpoint insert_sorted (b : bundle) (l : list bundle) : list bundle :=
    match l with
    | [] => [b]
    | x :: r => if str_leb (into_text (bt x)) (into_text (bt b)) then x :: insert_sorted b r else b :: l
    end.
  Definition sort_nodes (l : list bundle) : list bundle := fold_left (fun acc b => insert_sorted b acc) l [].

  (* the order in which the item nodes are handed to the list stylist *)
  Definition import_items_order (nodes : list bundle) : list bundle :=
    if reorder_import_items cfg && forallb (fun b => negb (contains_comment (bt b))) nodes && no_dup_names nodes []
    then sort_nodes nodes else nodes.

  (* a comment among the import's other children (may_reorder = false) pins the order too *)
  Definition import_items_final (may_reorder : bool) (nodes : list bundle) : list bundle :=
    if may_reorder then import_items_order nodes else nodes.

  Definition convert_import_items (fs : fold_style) (c : ctx) (nodes : list bundle) (may_reorder : bool) : M doc :=
    let nodes' := import_items_final may_reorder nodes in
    l <- lst_process (lst_with_fold_style lst_new fs) c nodes' (fun c child =>
           match bk child with
           | KRenamedImportItem => d <- call child (RImportItemRenamed c) ;; ret (Some d)
           | KImportItemPath => d <- call child (RImportItemPath c) ;; ret (Some d)
           | _ => ret None
           end) ;;
    ret (lst_doc l (mk_ls [44] [40] [41] false false false false false true true false)).

  Definition convert_import (fs : fold_style) (kids : list bundle) (c : ctx) : M doc :=
    let divider := match position (fun b => kin (bk b) [KLeftParen; KImportItems]) kids 0 with
                   | Some i => i | None => length kids end in
    let items_part := skipn divider kids in
    let prefix_part :=
      match divider with
      | S d' => match nth_error kids d' with
                | Some b => if kind_eqb (bk b) KSpace then firstn d' kids else firstn divider kids
                | None => firstn divider kids
                end
      | O => []
      end in
    prefix_doc <- flow_like c prefix_part (fun c child =>
                    match bk child with
                    | KColon => ret (fi_tight_spaced (text [58]))
                    | KStar => ret (fi_spaced (text [42]))
                    | KIdent => ret (fi_spaced (convert_trivia (bt child)))
                    | _ => if is_expr (bt child) then d <- call child (RExpr c) ;; ret (fi_spaced d) else ret fi_none
                    end) ;;
    match items_part with
    | [] => ret prefix_doc
    | _ =>
        let nodes := flat_map (fun b => if kind_eqb (bk b) KImportItems then bkids b else [b]) items_part in
        match nodes with
        | [] => ret prefix_doc
        | _ =>
            d <- convert_import_items fs c nodes (negb (existsb is_comment_b prefix_part)) ;;
            (* a line comment that ends the prefix keeps its line to itself *)
            let ends_with_line_comment :=
              match find (fun b => negb (kind_eqb (bk b) KSpace)) (rev prefix_part) with
              | Some b => kind_eqb (bk b) KLineComment
              | None => false
              end in
            ret (append (append prefix_doc (if ends_with_line_comment then hardline else space)) d)
        end
    end.

  (* ---------- mod.rs: convert_expr / convert_pattern dispatch ---------- *)
  Definition convert_expr_impl (self : bundle) (c : ctx) : M doc :=
    let t := bt self in
    let kids := bkids self in
    match kind_of t with
    | KText => ret (convert_verbatim t)
    | KLinebreak | KEscape | KShorthand | KSmartQuote | KLink | KLabel
    | KMathText | KMathIdent | KMathAlignPoint | KMathShorthand
    | KIdent | KBool | KInt | KFloat | KNumeric | KStr => ret (convert_trivia t)
    | KParbreak => ret (convert_parbreak t)
    | KStrong => convert_strong kids c
    | KEmph => convert_emph kids c
    | KRaw => ret (convert_raw t kids)
    | KRef => convert_ref t kids c
    | KHeading => convert_heading kids c
    | KListItem | KEnumItem | KTermItem => convert_list_item_like kids c
    | KEquation => convert_equation t kids c
    | KMath => convert_math t kids c
    | KMathDelimited => convert_math_delimited kids c
    | KMathAttach | KMathRoot => convert_math_attach_like kids c
    | KMathPrimes => ret (convert_math_primes t)
    | KMathFrac => convert_math_frac kids c
    | KNone => ret (text [110; 111; 110; 101])
    | KAuto => ret (text [97; 117; 116; 111])
    | KCodeBlock => convert_code_block t kids c
    | KContentBlock => convert_content_block kids c
    | KParenthesized => convert_parenthesized t kids c false
    | KArray => convert_array t kids c
    | KDict => convert_dict t kids c
    | KUnary => convert_unary t kids c
    | KBinary => convert_binary self c
    | KFieldAccess => convert_field_access self c
    | KFuncCall => convert_func_call self c
    | KClosure => convert_closure t kids c
    | KLetBinding => convert_let_binding kids c
    | KDestructAssignment => convert_destruct_assignment kids c
    | KSetRule => convert_set_rule kids c
    | KShowRule => convert_show_rule kids c
    | KContextual | KConditional | KWhileLoop | KFuncReturn | KModuleInclude => expr_flow kids c
    | KForLoop => convert_for_loop kids c
    | KModuleImport => convert_import (get_fold_style c t) kids c
    | KLoopBreak => ret (text [98; 114; 101; 97; 107])
    | KLoopContinue => ret (text [99; 111; 110; 116; 105; 110; 117; 101])
    | _ => panic SBadRequest       (* not an Expr kind: cast() would have failed *)
    end.

  Definition convert_expr (self : bundle) (c : ctx) : M doc :=
    bump ;;; check_disabled (bt self) (convert_expr_impl self c).

  Definition convert_pattern (self : bundle) (c : ctx) : M doc :=
    bump ;;;
    check_disabled (bt self) (
      match bk self with
      | KUnderscore => ret (text [95])
      | KDestructuring => convert_destructuring (bt self) (bkids self) c
      | KParenthesized => convert_parenthesized (bt self) (bkids self) c false
      | _ => convert_expr self c
      end).

  (* convert_embedded_expr: the expression that is a child of Markup or Math *)
  Definition convert_embedded_expr (self : bundle) (c : ctx) : M doc :=
    if kind_eqb (bk self) KParenthesized then
      bump ;;; check_disabled (bt self) (convert_parenthesized (bt self) (bkids self) c true)
    else convert_expr self c.

  Definition step (t : tree) (kids : list bundle) (r : req) : M doc :=
    let self := Bundle t (fun _ => panic SBadRequest) kids in
    match r with
    | RExpr c => convert_expr self c
    | RPattern c => convert_pattern self c
    | RMarkup c s => convert_markup_impl t kids c s
    | RMath c => convert_math t kids c
    | RContentBlock c => convert_content_block kids c
    | RExprEmb c => convert_embedded_expr self c
    | RParenthesized c emb => convert_parenthesized t kids c emb
    | RNamed c => convert_named kids c
    | RKeyed c => convert_keyed kids c
    | RSpread c => convert_spread kids c
    | RParams c u => convert_params t kids c u
    | RArgs c => convert_args t kids c
    | RParenArgs c => convert_parenthesized_args t kids c
    | RFuncArgs c ti => convert_func_call_args t kids c ti
    | RImportItemPath c => convert_import_item_path kids c
    | RImportItemRenamed c => convert_import_item_renamed kids c
    end.

  Fixpoint build (t : tree) : bundle :=
    match t with
    | Leaf _ _ _ => Bundle t (step t []) []
    | Inner _ cs _ => let kids := map build cs in Bundle t (step t kids) kids
    end.

  (* PrettyPrinter::convert_markup / convert_expr / convert_pattern on an annotated tree *)
  Definition convert_markup_root (t : tree) (c : ctx) : M doc := call (build t) (RMarkup c ScDocument).
End Conv.
