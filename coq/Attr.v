(* Attr.v — the two attribute passes of attr.rs (AttrStore::new): compute_no_format and
   compute_multiline. `annotate t` returns t with every node's flags filled in. *)
From TV Require Export Ast Ext.

(* "@typstyle off": generated from attr.rs *)
Definition typstyle_off : str := TYPSTYLE_OFF.

Definition set_disabled (t : tree) : tree :=
  match t with
  | Leaf k s a => Leaf k s (mk_attrs true (a_comment a) (a_multiline a) (a_flavor a))
  | Inner k cs a => Inner k cs (mk_attrs true (a_comment a) (a_multiline a) (a_flavor a))
  end.

Definition set_commented (b : bool) (t : tree) : tree :=
  if b then
    match t with
    | Leaf k s a => Leaf k s (mk_attrs (a_disabled a) true (a_multiline a) (a_flavor a))
    | Inner k cs a => Inner k cs (mk_attrs (a_disabled a) true (a_multiline a) (a_flavor a))
    end
  else t.

(* The children loop of compute_no_format_impl, as a function of the recursive call `rec`
   (used to state lemmas; `no_format` below carries the same loop as a local fix). *)
Definition skips_directive (c : tree) : bool :=
  match kind_of c with KSpace | KParbreak | KHash => true | _ => false end.

Fixpoint no_format_children (rec : tree -> tree) (cs : list tree) (disable_next commented : bool) : list tree * bool :=
  match cs with
  | [] => ([], commented)
  | c :: rest =>
      if is_comment_node c then
        if contains typstyle_off (text_of c) then
          let (r, cm) := no_format_children rec rest true true in (set_disabled c :: r, cm)
        else
          let (r, cm) := no_format_children rec rest disable_next true in (c :: r, cm)
      else if disable_next && negb (skips_directive c) then
        let (r, cm) := no_format_children rec rest false commented in (set_disabled c :: r, cm)
      else
        let (r, cm) := no_format_children rec rest disable_next commented in (rec c :: r, cm)
  end.

(* compute_no_format_impl: marks; does not descend into a disabled node *)
Fixpoint no_format (t : tree) : tree :=
  match t with
  | Leaf _ _ _ => t
  | Inner k cs a =>
      let fix go (cs : list tree) (disable_next commented : bool) : list tree * bool :=
        match cs with
        | [] => ([], commented)
        | c :: rest =>
            if is_comment_node c then
              if contains typstyle_off (text_of c) then
                let (r, cm) := go rest true true in (set_disabled c :: r, cm)
              else
                let (r, cm) := go rest disable_next true in (c :: r, cm)
            else if disable_next && negb (skips_directive c) then
              let (r, cm) := go rest false commented in (set_disabled c :: r, cm)
            else
              let (r, cm) := go rest disable_next commented in (no_format c :: r, cm)
        end in
      let (cs', commented) := go cs false false in
      set_commented commented (Inner k cs' a)
  end.

Definition set_multiline (ml fl : bool) (t : tree) : tree :=
  match t with
  | Leaf k s a => Leaf k s (mk_attrs (a_disabled a) (a_comment a) (a_multiline a || ml) (a_flavor a || fl))
  | Inner k cs a => Inner k cs (mk_attrs (a_disabled a) (a_comment a) (a_multiline a || ml) (a_flavor a || fl))
  end.

(* compute_multiline_impl: returns the annotated node and its is_multiline *)
Fixpoint multiline (t : tree) : tree * bool :=
  match t with
  | Leaf _ _ _ => (t, false)
  | Inner k cs a =>
      let fix go (cs : list tree) (seen_space : bool) : list tree * bool * bool :=
        (* returns children, is_multiline, flavor *)
        match cs with
        | [] => ([], false, false)
        | c :: rest =>
            let (c', mlc) := multiline c in
            if is_kind KSpace c then
              let lb := has_lb (text_of c) in
              let '(r, ml, fl) := go rest true in
              (c' :: r, lb || mlc || ml, (lb && negb seen_space) || fl)
            else if is_kind KBlockComment c then
              let '(r, ml, fl) := go rest seen_space in
              (c' :: r, has_lb (text_of c) || mlc || ml, fl)
            else
              let '(r, ml, fl) := go rest seen_space in
              (c' :: r, mlc || ml, fl)
        end in
      let '(cs', ml, fl) := go cs false in
      (set_multiline ml fl (Inner k cs' a), ml)
  end.

Definition annotate (t : tree) : tree := fst (multiline (no_format t)).

(* flags in pre-order, for the K1 correspondence *)
Fixpoint flags (t : tree) : list attrs :=
  attrs_of t :: match t with Leaf _ _ _ => [] | Inner _ cs _ => flat_map flags cs end.
