(* Doc.v — the `pretty` 0.12.4 document type as typstyle uses it, with the builder's
   normalising smart constructors (DocBuilder::append/nest/group/text, enclose, concat,
   intersperse, align/hang) so that the model builds the very tree the implementation builds. *)
From Coq Require Export ZArith.
From TV Require Export Str.

Inductive doc : Type :=
| DNil
| DAppend (a b : doc)
| DGroup (d : doc)
| DFlatAlt (brk flat : doc)
| DNest (k : Z) (d : doc)
| DHardline
| DText (s : str)            (* ASCII text: width = number of bytes *)
| DTextW (w : N) (s : str)   (* RenderLen w (text s): non-ASCII text with its display width *)
| DAlign (d : doc).          (* Column(|col| Nesting(|nest| d.nest(col - nest))) *)

Definition is_nil (d : doc) : bool := match d with DNil => true | _ => false end.

Section Builder.
  (* Display width oracle for non-ASCII text (unicode-width 0.1.14), see DESIGN.md §2.2. *)
  Variable swidth : str -> N.

  Definition text (s : str) : doc :=
    match s with
    | [] => DNil
    | _ => if is_ascii s then DText s else DTextW (swidth s) s
    end.

  Definition append (a b : doc) : doc :=
    match a, b with
    | DNil, _ => b
    | _, DNil => a
    | _, _ => DAppend a b
    end.

  Definition group (d : doc) : doc :=
    match d with
    | DGroup _ | DText _ | DNil => d
    | _ => DGroup d
    end.

  Definition nest (k : Z) (d : doc) : doc :=
    match d with
    | DNil => d
    | _ => if Z.eqb k 0 then d else DNest k d
    end.

  Definition flat_alt (b f : doc) : doc := DFlatAlt b f.
  Definition hardline : doc := DHardline.
  Definition space : doc := DText [SP].
  Definition line : doc := DFlatAlt DHardline space.
  Definition line_ : doc := DFlatAlt DHardline DNil.
  Definition align (d : doc) : doc := DAlign d.
  Definition hang (k : Z) (d : doc) : doc := align (nest k d).
  Definition enclose (a b d : doc) : doc := append (append a d) b.
  Definition concat_docs (ds : list doc) : doc := fold_left append ds DNil.
  Definition intersperse (ds : list doc) (sep : doc) : doc :=
    match ds with
    | [] => DNil
    | d :: rest => fold_left (fun acc x => append (append acc sep) x) rest (append DNil d)
    end.
  Fixpoint repeat_n_aux (d : doc) (n : nat) (acc : doc) : doc :=
    match n with O => acc | S n' => repeat_n_aux d n' (append acc d) end.
  Definition repeat_n (d : doc) (n : N) : doc := repeat_n_aux d (N.to_nat n) DNil.
End Builder.

Fixpoint doc_size (d : doc) : nat :=
  match d with
  | DNil | DHardline | DText _ | DTextW _ _ => 1
  | DAppend a b => S (doc_size a + doc_size b)
  | DGroup x => S (doc_size x)
  | DFlatAlt a b => S (doc_size a + doc_size b)
  | DNest _ x => S (doc_size x)
  | DAlign x => S (S (doc_size x))
  end.

Fixpoint doc_eqb (a b : doc) : bool :=
  match a, b with
  | DNil, DNil => true
  | DAppend a1 a2, DAppend b1 b2 => doc_eqb a1 b1 && doc_eqb a2 b2
  | DGroup x, DGroup y => doc_eqb x y
  | DFlatAlt a1 a2, DFlatAlt b1 b2 => doc_eqb a1 b1 && doc_eqb a2 b2
  | DNest k x, DNest j y => Z.eqb k j && doc_eqb x y
  | DHardline, DHardline => true
  | DText s, DText t => str_eqb s t
  | DTextW w s, DTextW v t => N.eqb w v && str_eqb s t
  | DAlign x, DAlign y => doc_eqb x y
  | _, _ => false
  end.
