(* Config.v — typstyle_core::Config (crates/typstyle-core/src/config.rs). The field list is
   re-checked against the Rust struct by tools/gen_cli.py on every run. *)
From TV Require Export Str.

Record config := {
  tab_spaces : N;
  max_width : N;
  blank_lines_upper_bound : N;
  reorder_import_items : bool;
}.

Record style_args := {
  sa_column : N;
  sa_tab_width : N;
  sa_reorder_import_items : bool;
}.

Definition with_width (c : config) (w : N) : config :=
  {| tab_spaces := tab_spaces c; max_width := w;
     blank_lines_upper_bound := blank_lines_upper_bound c;
     reorder_import_items := reorder_import_items c |}.

(* Config::chain_width: (self.max_width as f32 * CHAIN_WIDTH_RATIO) as usize, in binary32.
   round24 m: round the integer m to 24 significant bits, ties to even (value kept as an integer). *)
Definition round24 (m : N) : N :=
  let bits := N.size m in
  if bits <=? 24 then m
  else
    let s := bits - 24 in
    let q := N.shiftr m s in
    let r := m - N.shiftl q s in
    let half := N.shiftl 1 (s - 1) in
    let q' := if (half <? r) || ((half =? r) && N.odd q) then q + 1 else q in
    N.shiftl q' s.

(* nearest binary32 to num/den, as mantissa/2^k with 2^23 <= mantissa < 2^24 (for 0 < num/den < 2^24) *)
Fixpoint f32_of_ratio_aux (fuel : nat) (num den k : N) : N * N :=
  match fuel with
  | O => (0, 0)
  | S f =>
      let scaled := N.shiftl num k in
      let q := scaled / den in
      if 8388608 <=? q then
        (* q has >= 24 bits: round scaled/den to nearest, ties to even *)
        let r := scaled - q * den in
        let q' := if (den <? 2 * r) || ((den =? 2 * r) && N.odd q) then q + 1 else q in
        (q', k)
      else f32_of_ratio_aux f num den (k + 1)
  end.
Definition f32_of_ratio (num den : N) : N * N := f32_of_ratio_aux 64 num den 0.

Definition chain_width_of (num den : N) (max_width : N) : N :=
  let '(mant, k) := f32_of_ratio num den in
  let w := round24 max_width in            (* max_width as f32 *)
  let p := round24 (w * mant) in            (* product, exact then rounded; scaled by 2^k *)
  N.shiftr p k.                              (* as usize: truncation *)
