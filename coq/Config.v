(* Config.v — typstyle_core::Config (crates/typstyle-core/src/config.rs). The field list is
   re-checked against the Rust struct by tools/gen_cli.py on every run. *)
From TV Require Export Str.

Record config := {
  tab_spaces : N;
  max_width : N;
  blank_lines_upper_bound : N;
  reorder_import_items : bool;
}.

Record style_args := {
  sa_column : N;
  sa_tab_width : N;
  sa_reorder_import_items : bool;
}.

Definition with_width (c : config) (w : N) : config :=
  {| tab_spaces := tab_spaces c; max_width := w;
     blank_lines_upper_bound := blank_lines_upper_bound c;
     reorder_import_items := reorder_import_items c |}.
