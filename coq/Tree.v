(* Tree.v — the concrete syntax tree as typstyle sees it through typst_syntax::SyntaxNode:
   kind, text (leaves), children (inner nodes). Lossless: concatenating leaf texts gives the source. *)
From TV Require Export Str.
From TV.gen Require Export Kind.

Inductive tree : Type :=
| Leaf (k : kind) (text : str)
| Inner (k : kind) (children : list tree).

Definition kind_of (t : tree) : kind := match t with Leaf k _ => k | Inner k _ => k end.
Definition text_of (t : tree) : str := match t with Leaf _ s => s | Inner _ _ => [] end.
Definition children (t : tree) : list tree := match t with Leaf _ _ => [] | Inner _ cs => cs end.

Definition is_kind (k : kind) (t : tree) : bool := kind_eqb (kind_of t) k.

(* SyntaxNode::into_text *)
Fixpoint into_text (t : tree) : str :=
  match t with
  | Leaf _ s => s
  | Inner _ cs => concat (map into_text cs)
  end.

(* SyntaxNode::erroneous *)
Fixpoint erroneous (t : tree) : bool :=
  match t with
  | Leaf k _ => kind_eqb k KError
  | Inner k cs => kind_eqb k KError || existsb erroneous cs
  end.

Fixpoint tree_size (t : tree) : nat :=
  match t with
  | Leaf _ _ => 1
  | Inner _ cs => S (fold_right (fun c n => tree_size c + n)%nat 0%nat cs)
  end.

Fixpoint tree_height (t : tree) : nat :=
  match t with
  | Leaf _ _ => 1
  | Inner _ cs => S (fold_right (fun c n => Nat.max (tree_height c) n) 0%nat cs)
  end.

Definition byte_size (t : tree) : N := byte_len (into_text t).

Definition is_comment_node (t : tree) : bool :=
  match kind_of t with KLineComment | KBlockComment => true | _ => false end.

Definition has_comment_children (t : tree) : bool := existsb is_comment_node (children t).

(* A well-founded induction principle for trees with nested lists. *)
Section TreeInd.
  Variable P : tree -> Prop.
  Hypothesis Hleaf : forall k s, P (Leaf k s).
  Hypothesis Hinner : forall k cs, Forall P cs -> P (Inner k cs).
  Fixpoint tree_ind' (t : tree) : P t :=
    match t with
    | Leaf k s => Hleaf k s
    | Inner k cs =>
        Hinner k cs ((fix go (l : list tree) : Forall P l :=
                        match l with
                        | [] => Forall_nil P
                        | c :: l' => Forall_cons c (tree_ind' c) (go l')
                        end) cs)
    end.
End TreeInd.
