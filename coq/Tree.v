(* Tree.v — the concrete syntax tree as typstyle sees it through typst_syntax::SyntaxNode:
   kind, text (leaves), children (inner nodes). Lossless: concatenating leaf texts gives the source. *)
From TV Require Export Str.
From TV.gen Require Export Kind.

(* The four per-node flags of attr.rs (AttrStore). The Rust code keys them by Span, i.e. by node
   identity; here every node carries its own flags. A freshly parsed tree has no_attrs everywhere;
   Attr.annotate fills them in. *)
Record attrs := mk_attrs {
  a_disabled : bool;    (* is_format_disabled *)
  a_comment : bool;     (* has_comment: some DIRECT child is a comment *)
  a_multiline : bool;   (* is_multiline: a Space/BlockComment with LF somewhere below *)
  a_flavor : bool;      (* is_multiline_flavor: the first Space child has a LF *)
}.
Definition no_attrs : attrs := mk_attrs false false false false.

Inductive tree : Type :=
| Leaf (k : kind) (text : str) (a : attrs)
| Inner (k : kind) (children : list tree) (a : attrs).

Definition kind_of (t : tree) : kind := match t with Leaf k _ _ => k | Inner k _ _ => k end.
Definition text_of (t : tree) : str := match t with Leaf _ s _ => s | Inner _ _ _ => [] end.
Definition children (t : tree) : list tree := match t with Leaf _ _ _ => [] | Inner _ cs _ => cs end.
Definition attrs_of (t : tree) : attrs := match t with Leaf _ _ a => a | Inner _ _ a => a end.

Definition is_kind (k : kind) (t : tree) : bool := kind_eqb (kind_of t) k.

(* SyntaxNode::into_text *)
Fixpoint into_text (t : tree) : str :=
  match t with
  | Leaf _ s _ => s
  | Inner _ cs _ => concat (map into_text cs)
  end.

(* SyntaxNode::erroneous *)
Fixpoint erroneous (t : tree) : bool :=
  match t with
  | Leaf k _ _ => kind_eqb k KError
  | Inner k cs _ => kind_eqb k KError || existsb erroneous cs
  end.

Fixpoint tree_size (t : tree) : nat :=
  match t with
  | Leaf _ _ _ => 1%nat
  | Inner _ cs _ => S (fold_right (fun c n => tree_size c + n)%nat 0%nat cs)
  end.

Fixpoint tree_height (t : tree) : nat :=
  match t with
  | Leaf _ _ _ => 1%nat
  | Inner _ cs _ => S (fold_right (fun c n => Nat.max (tree_height c) n) 0%nat cs)
  end.

Definition byte_size (t : tree) : N := byte_len (into_text t).

Definition is_comment_node (t : tree) : bool :=
  match kind_of t with KLineComment | KBlockComment => true | _ => false end.

Definition has_comment_children (t : tree) : bool := existsb is_comment_node (children t).

(* import.rs contains_comment: the node is a comment or has one anywhere below it *)
Fixpoint contains_comment (t : tree) : bool :=
  is_comment_node t ||
  match t with
  | Leaf _ _ _ => false
  | Inner _ cs _ => existsb contains_comment cs
  end.

(* A well-founded induction principle for trees with nested lists. *)
Section TreeInd.
  Variable P : tree -> Prop.
  Hypothesis Hleaf : forall k s a, P (Leaf k s a).
  Hypothesis Hinner : forall k cs a, Forall P cs -> P (Inner k cs a).
  Fixpoint tree_ind' (t : tree) : P t :=
    match t with
    | Leaf k s a => Hleaf k s a
    | Inner k cs a =>
        Hinner k cs a ((fix go (l : list tree) : Forall P l :=
                        match l with
                        | [] => Forall_nil P
                        | c :: l' => Forall_cons c (tree_ind' c) (go l')
                        end) cs)
    end.
End TreeInd.
