(* Partial.v — partial.rs (format_source_range) and the helpers of utils.rs it uses, over the source
   text (list of scalar values with UTF-8 byte offsets) and its lossless tree. *)
From TV Require Export Format.

(* s[..off] / s[off..]: None when `off` is not on a char boundary or lies beyond the end (Rust panics) *)
Fixpoint split_at_byte (s : str) (off : N) : option (str * str) :=
  if off =? 0 then Some ([], s)
  else match s with
       | [] => None
       | c :: r =>
           if off <? utf8_len c then None
           else match split_at_byte r (off - utf8_len c) with
                | Some (a, b) => Some (c :: a, b)
                | None => None
                end
       end.

(* s[a..b] *)
Definition slice (s : str) (a b : N) : option str :=
  if b <? a then None
  else match split_at_byte s a with
       | Some (_, rest) => match split_at_byte rest (b - a) with Some (x, _) => Some x | None => None end
       | None => None
       end.

(* utils::trim_range *)
Definition trim_range (s : str) (a b : N) : res (N * N) :=
  match slice s a b with
  | None => Panic STrimRange
  | Some x =>
      let e := a + byte_len (trim_end x) in
      match slice s a e with
      | None => Panic STrimRange
      | Some y => Ok (e - byte_len (trim_start y), e)
      end
  end.

(* utils::count_spaces_after_last_newline(s, i): s[..i].rfind('\n') *)
Fixpoint after_last_lf (pre : str) (acc : option str) : option str :=
  match pre with
  | [] => acc
  | c :: r => if c =? LF then after_last_lf r (Some r) else after_last_lf r acc
  end.
Definition count_spaces_after_last_newline (s : str) (i : N) : res N :=
  match split_at_byte s i with
  | None => Panic STrimRange
  | Some (pre, _) =>
      (* the line holding `i` starts after the last LF before it, or at the beginning of the text *)
      let tail := match after_last_lf pre None with Some tail => tail | None => pre end in
      Ok (N.of_nat (length (take_while (fun c => c =? SP) tail)))
  end.

(* does anything but blanks precede position i on its line? *)
Definition shares_line (s : str) (i : N) : bool :=
  match split_at_byte s i with
  | None => false
  | Some (pre, _) =>
      let tail := match after_last_lf pre None with Some tail => tail | None => pre end in
      negb (forallb (fun c => c =? SP) tail)
  end.

(* get_node_cover_range_impl: first node in post-order that covers [rs, re) and is a Markup, Expr or Pattern *)
Definition mode_of_kind (k : kind) (m : lmode) : lmode :=
  match k with KMarkup => LMarkup | KCodeBlock => LCode | KEquation => LMath | _ => m end.
(* a Parbreak casts to Expr but is never the node to format: the blanks after its last line feed are the
   indentation of what follows *)
Definition coverable (t : tree) : bool :=
  negb (kind_eqb (kind_of t) KParbreak) && (kind_eqb (kind_of t) KMarkup || is_expr t || is_pattern t).
(* only the document's own markup is laid out by itself; an inner markup body goes through the element around it *)
Definition coverable_at (parent : option kind) (t : tree) : bool :=
  coverable t && (negb (kind_eqb (kind_of t) KMarkup) || match parent with None => true | Some _ => false end).

(* the result also carries the kind of the node's parent (None for the root); the mode travels with the flag
   "some strict ancestor is a Math node" (everything below a Math node is laid out with breaks suppressed).
   In math, the child after a Hash is code (convert_math). *)
Definition cmode : Type := lmode * bool.
Fixpoint cover (t : tree) (off : N) (mb : cmode) (parent : option kind) (rs re : N) : option (tree * N * cmode * option kind) :=
  let m' := mode_of_kind (kind_of t) (fst mb) in
  let self := if (off <=? rs) && (re <=? off + byte_size t) && coverable_at parent t then Some (t, off, (m', snd mb), parent) else None in
  match t with
  | Leaf _ _ _ => self
  | Inner k cs _ =>
      let bm' := snd mb || kind_eqb k KMath in
      let fix go (cs : list tree) (o : N) (after_hash : bool) : option (tree * N * cmode * option kind) :=
        match cs with
        | [] => None
        | c :: rest =>
            match cover c o ((if after_hash && is_math_mode m' then LCode else m'), bm') (Some k) rs re with
            | Some r => Some r
            | None => go rest (o + byte_size c) (kind_eqb (kind_of c) KHash)
            end
        end in
      match go cs off false with
      | Some r => Some r
      | None => self
      end
  end.

(* the node a range request would hand to the converters, if any *)
Definition range_node (t : tree) (a b : N) : option tree :=
  let s := into_text t in
  let len := byte_len s in
  match trim_range s (N.min a len) (N.min b len) with
  | Ok (rs, re) =>
      match cover t 0 (LMarkup, false) None rs (N.min re len) with
      | Some (node, _, _, _) => Some node
      | None => None
      end
  | Panic _ => None
  end.

Inductive rres :=
| ROk (rs re : N) (out : str)
| RErr
| RPanic (s : site)
| RFuel.

Section Partial.
  Variable swidth : str -> N.

  Definition format_range (cfg : config) (t : tree) (a b : N) : rres :=
    let s := into_text t in
    let len := byte_len s in
    match trim_range s (N.min a len) (N.min b len) with
    | Panic p => RPanic p
    | Ok (rs, re) =>
        match cover t 0 (LMarkup, false) None rs (N.min re len) with
        | None => RErr
        | Some (node, off, (mode, below_math), parent) =>
            if erroneous node then RErr
            else
              (* everything below a Math node is laid out with breaks suppressed (convert_math) *)
              let c := mk_ctx mode below_math in
              let bundle := build swidth cfg (annotate node) in
              let m :=
                if kind_eqb (kind_of node) KMarkup then call bundle (RMarkup c ScDocument)
                else if is_expr node then
                  (* a child of Markup or Math is converted as the markup and math loops do; so is the hashed operand
                     of an attachment, fraction or root (the cover search reports code mode exactly after a hash) *)
                  match parent with
                  | Some KMarkup | Some KMath => call bundle (RExprEmb c)
                  | Some KMathAttach | Some KMathFrac | Some KMathRoot =>
                      if is_code_mode mode then call bundle (RExprEmb c) else call bundle (RExpr c)
                  | _ => call bundle (RExpr c)
                  end
                else call bundle (RPattern c) in
              match run_m m with
              | Panic p => RPanic p
              | Ok (d, _) =>
                  match count_spaces_after_last_newline s off with
                  | Panic p => RPanic p
                  | Ok indent0 =>
                      let in_item := kind_eqb (kind_of node) KMarkup && shares_line s off &&
                                     match parent with
                                     | Some KListItem | Some KEnumItem | Some KTermItem => true
                                     | _ => false
                                     end in
                      let indent := if in_item then indent0 + tab_spaces cfg else indent0 in
                      match render (max_width cfg) (nest (Z.of_N indent) d) with
                      | Some out => ROk off (off + byte_size node) out
                      | None => RFuel
                      end
                  end
              end
        end
    end.
End Partial.
