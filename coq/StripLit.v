(* StripLit.v — C10/C07: what strip_trailing_whitespace leaves alone.  A piece of the rendered text none of whose line
   feeds is preceded (inside the piece) by a White_Space character, and which does not end with one, occurs
   unchanged in the post-processed output.  (The converse, a blank before a line feed inside a literal is lost, is
   C10_refuted / known finding F4.) *)
From TV Require Import Str Post PostProofs.
From Coq Require Import Lia Wf_nat Arith.

(* strip as a function of the LF-separated pieces *)
Definition strip2 (s : str) : str :=
  let ps := split_lf s in
  concat (map (fun l => trim_end l ++ [LF]) (removelast ps))
  ++ match last ps [] with [] => [] | l => trim_end l ++ [LF] end.

Lemma rev_drop_ws_cr r : drop_while is_ws (CR :: r) = drop_while is_ws r.
Proof. reflexivity. Qed.

Lemma trim_end_strip_cr l : trim_end (strip_suffix_cr l) = trim_end l.
Proof.
  unfold strip_suffix_cr, trim_end. rewrite !frev_rev.
  remember (rev l) as rl eqn:E. destruct rl as [|c r]; [rewrite <- E; reflexivity|].
  destruct (c =? CR) eqn:Ec.
  - apply N.eqb_eq in Ec. subst c. rewrite frev_rev, rev_involutive. reflexivity.
  - rewrite <- E. reflexivity.
Qed.

Lemma strip_strip2 s : s <> [] -> strip s = strip2 s.
Proof.
  intros Hs. destruct s as [|c s]; [congruence|]. unfold strip, strip2, lines.
  set (ps := split_lf (c :: s)).
  rewrite map_app, concat_app. f_equal.
  - rewrite map_map. f_equal. apply map_ext. intros l. rewrite trim_end_strip_cr. reflexivity.
  - destruct (last ps []); cbn; [reflexivity|]. rewrite app_nil_r. reflexivity.
Qed.

Lemma split_lf_no_lf_single l : no_lf l -> split_lf l = [l].
Proof.
  induction l as [|c l IH]; intros H; cbn; [reflexivity|].
  inversion H as [|? ? Hc Hl]; subst. rewrite Hc, (IH Hl). reflexivity.
Qed.

Lemma strip2_line l s : no_lf l -> strip2 (l ++ LF :: s) = trim_end l ++ LF :: strip2 s.
Proof.
  intros H. unfold strip2. rewrite (split_lf_app_lf l s H).
  pose proof (split_lf_nonempty s) as Hne.
  destruct (split_lf s) as [|p ps] eqn:E; [congruence|].
  cbn [removelast map concat last]. rewrite <- !app_assoc. reflexivity.
Qed.

Lemma strip2_last l : no_lf l -> strip2 l = match l with [] => [] | _ => trim_end l ++ [LF] end.
Proof.
  intros H. unfold strip2. rewrite (split_lf_no_lf_single l H). cbn. destruct l; reflexivity.
Qed.

Lemma lf_split s : no_lf s \/ exists l s', no_lf l /\ s = l ++ LF :: s'.
Proof.
  induction s as [|c s IH]; [left; constructor|].
  destruct (c =? LF) eqn:E.
  - right. apply N.eqb_eq in E. subst c. exists [], s. split; [constructor|reflexivity].
  - destruct IH as [H|(l & s' & Hl & ->)].
    + left. constructor; assumption.
    + right. exists (c :: l), s'. split; [constructor; assumption|reflexivity].
Qed.

Lemma drop_while_app_stop p a b : drop_while p a <> [] -> drop_while p (a ++ b) = drop_while p a ++ b.
Proof.
  induction a as [|c a IH]; cbn; [congruence|]. destruct (p c); [exact IH|reflexivity].
Qed.
Lemma drop_while_app_all p a b : drop_while p a = [] -> drop_while p (a ++ b) = drop_while p b.
Proof.
  induction a as [|c a IH]; cbn; [reflexivity|]. destruct (p c); [exact IH|discriminate].
Qed.

(* a non-empty text that does not end with a blank shields everything before it *)
Lemma trim_end_app_nonws x q :
  x <> [] -> is_ws (last x 0) = false -> trim_end (x ++ q) = x ++ trim_end q.
Proof.
  intros Hx Hl. unfold trim_end. rewrite !frev_rev, rev_app_distr.
  assert (Hd : drop_while is_ws (rev x) = rev x).
  { rewrite last_rev_head in Hl. destruct (rev x) as [|c r] eqn:E.
    - apply (f_equal (@rev N)) in E. rewrite rev_involutive in E. cbn in E. contradiction.
    - cbn in Hl |- *. rewrite Hl. reflexivity. }
  destruct (drop_while is_ws (rev q)) as [|c r] eqn:E.
  - rewrite (drop_while_app_all _ _ _ E), Hd, rev_involutive. cbn. rewrite app_nil_r. reflexivity.
  - rewrite drop_while_app_stop by (rewrite E; discriminate). rewrite E, rev_app_distr, rev_involutive. reflexivity.
Qed.

(* ---- the general statement: every line end inside v loses its blanks, nothing else of v changes ---- *)

(* v with the White_Space before each of its line feeds removed (the text after the last line feed is kept) *)
Fixpoint trim_line_ends_aux (cur : str) (v : str) : str :=
  match v with
  | [] => frev cur
  | c :: r => if c =? LF then trim_end (frev cur) ++ LF :: trim_line_ends_aux [] r
              else trim_line_ends_aux (c :: cur) r
  end.
Definition trim_line_ends (v : str) : str := trim_line_ends_aux [] v.

Lemma tle_aux_no_lf cur l : no_lf l -> trim_line_ends_aux cur l = frev cur ++ l.
Proof.
  revert cur. induction l as [|c l IH]; intros cur H; cbn [trim_line_ends_aux].
  - rewrite app_nil_r. reflexivity.
  - inversion H as [|? ? Hc Hl]; subst. rewrite Hc, (IH _ Hl). rewrite !frev_rev. cbn [rev]. rewrite <- app_assoc. reflexivity.
Qed.

Lemma tle_aux_line cur l r : no_lf l ->
  trim_line_ends_aux cur (l ++ LF :: r) = trim_end (frev cur ++ l) ++ LF :: trim_line_ends r.
Proof.
  revert cur. induction l as [|c l IH]; intros cur H; cbn [app trim_line_ends_aux].
  - rewrite N.eqb_refl, app_nil_r. reflexivity.
  - inversion H as [|? ? Hc Hl]; subst. rewrite Hc, (IH _ Hl). rewrite !frev_rev. cbn [rev]. rewrite <- app_assoc. reflexivity.
Qed.

Lemma tle_no_lf l : no_lf l -> trim_line_ends l = l.
Proof. intros H. unfold trim_line_ends. rewrite (tle_aux_no_lf [] l H). reflexivity. Qed.
Lemma tle_line l r : no_lf l -> trim_line_ends (l ++ LF :: r) = trim_end l ++ LF :: trim_line_ends r.
Proof. intros H. unfold trim_line_ends at 1. rewrite (tle_aux_line [] l r H). reflexivity. Qed.

Lemma trim_end_nil_iff_all_ws l : trim_end l = [] <-> drop_while is_ws (rev l) = [].
Proof.
  unfold trim_end. rewrite !frev_rev. split; intros H.
  - apply (f_equal (@rev N)) in H. rewrite rev_involutive in H. exact H.
  - rewrite H. reflexivity.
Qed.

(* trimming a line that ends with l: either l is all blanks and the trim continues into p, or p is untouched *)
Lemma trim_end_app p l :
  trim_end (p ++ l) = match trim_end l with [] => trim_end p | t => p ++ t end.
Proof.
  unfold trim_end. rewrite !frev_rev, rev_app_distr.
  destruct (drop_while is_ws (rev l)) as [|c r] eqn:E.
  - rewrite (drop_while_app_all _ _ _ E). cbn [rev]. reflexivity.
  - rewrite drop_while_app_stop by (rewrite E; discriminate). rewrite E, rev_app_distr, rev_involutive.
    destruct (rev (c :: r)) eqn:Er; [|reflexivity].
    apply (f_equal (@rev N)) in Er. rewrite rev_involutive in Er. discriminate.
Qed.

Definition ends_solid (v : str) : Prop := v <> [] /\ is_ws (last v 0) = false.

Lemma ends_solid_tail l v : ends_solid (l ++ LF :: v) -> ends_solid v.
Proof.
  intros [_ H]. rewrite last_app_nonnil in H by discriminate.
  destruct v as [|c v]; [cbn in H; discriminate|]. split; [discriminate|exact H].
Qed.

(* behind a prefix p that holds no line feed: the output continues with a trimmed p (a suffix of blanks may go
   when v starts a line end) and then with v, line ends trimmed *)
Lemma strip2_keeps_from_line : forall (n : nat) v, (length v <= n)%nat -> ends_solid v ->
  forall p post, no_lf p ->
  exists p' post', strip2 (p ++ v ++ post) = p' ++ trim_line_ends v ++ post' /\ (p = [] -> p' = []).
Proof.
  induction n as [|n IH]; intros v Hn He p post Hp.
  - destruct v; [destruct He as [He _]; congruence|cbn in Hn; lia].
  - destruct (lf_split v) as [Hv|(l & v' & Hl & ->)].
    + (* v holds no line feed: its line ends inside post *)
      destruct He as [Hne Hlast]. rewrite (tle_no_lf v Hv).
      assert (Hpv : p ++ v <> []) by (destruct p; [cbn; exact Hne|discriminate]).
      assert (Hlpv : is_ws (last (p ++ v) 0) = false) by (rewrite last_app_nonnil by exact Hne; exact Hlast).
      destruct (lf_split post) as [Hq|(q & post2 & Hq & ->)].
      * exists p, (trim_end post ++ [LF]). split; [|auto].
        rewrite app_assoc, strip2_last.
        -- destruct ((p ++ v) ++ post) eqn:E; [destruct (p ++ v); [congruence|discriminate]|].
           rewrite <- E, (trim_end_app_nonws (p ++ v) post Hpv Hlpv), <- !app_assoc. reflexivity.
        -- unfold no_lf in *. rewrite !Forall_app. auto.
      * exists p, (trim_end q ++ LF :: strip2 post2). split; [|auto].
        replace (p ++ v ++ q ++ LF :: post2) with (((p ++ v) ++ q) ++ LF :: post2) by (rewrite <- !app_assoc; reflexivity).
        rewrite strip2_line by (unfold no_lf in *; rewrite !Forall_app; auto).
        rewrite (trim_end_app_nonws (p ++ v) q Hpv Hlpv), <- !app_assoc. reflexivity.
    + (* v = l ++ LF :: v' *)
      pose proof (ends_solid_tail _ _ He) as He'.
      assert (Hn' : (length v' <= n)%nat) by (rewrite app_length in Hn; cbn in Hn; lia).
      destruct (IH v' Hn' He' [] post ltac:(constructor)) as (p0 & post' & E & Hp0).
      rewrite (Hp0 eq_refl) in E. cbn [app] in E.
      rewrite (tle_line l v' Hl).
      replace (p ++ (l ++ LF :: v') ++ post) with ((p ++ l) ++ LF :: (v' ++ post)) by (rewrite <- !app_assoc; reflexivity).
      rewrite strip2_line by (unfold no_lf in *; rewrite Forall_app; auto). rewrite E.
      rewrite (trim_end_app p l).
      destruct (trim_end l) as [|c t] eqn:Et.
      * exists (trim_end p), post'. split; [cbn [app]; reflexivity|]. intros ->. reflexivity.
      * exists p, post'. split; [rewrite <- !app_assoc; reflexivity|auto].
Qed.

Theorem strip_keeps_trimmed : forall pre v post, ends_solid v ->
  exists pre' post', strip (pre ++ v ++ post) = pre' ++ trim_line_ends v ++ post'.
Proof.
  intros pre v post He.
  rewrite strip_strip2 by (destruct He as [He _]; destruct pre; [destruct v; [congruence|discriminate]|discriminate]).
  remember (length pre) as n eqn:Hn. revert pre Hn.
  induction n as [n IH] using lt_wf_ind. intros pre Hn.
  destruct (lf_split pre) as [Hp|(l & p' & Hl & ->)].
  - destruct (strip2_keeps_from_line (length v) v (le_n _) He pre post Hp) as (p0 & post' & E & _).
    exists p0, post'. exact E.
  - destruct (IH (length p')) with (pre := p') as (pre' & post' & E); [subst n; rewrite app_length; cbn; lia|reflexivity|].
    exists (trim_end l ++ LF :: pre'), post'.
    rewrite <- app_assoc. cbn [app]. rewrite strip2_line by exact Hl. rewrite E, <- app_assoc. reflexivity.
Qed.

(* ---- the special case of a text that has no blank before any of its line feeds: it survives unchanged ---- *)
Definition clean (v : str) : Prop :=
  forall a b, v = a ++ LF :: b -> a = [] \/ is_ws (last a 0) = false.

Lemma clean_tail l v : clean (l ++ LF :: v) -> clean v.
Proof.
  intros H a b E. destruct (H (l ++ LF :: a) b) as [H0|H0].
  - rewrite E, <- app_assoc. reflexivity.
  - destruct l; discriminate.
  - right. rewrite last_app_nonnil in H0 by discriminate.
    destruct a as [|c a]; [cbn in H0; discriminate|]. exact H0.
Qed.

Lemma clean_trim_line_ends : forall (n : nat) v, (length v <= n)%nat -> clean v -> trim_line_ends v = v.
Proof.
  induction n as [|n IH]; intros v Hn Hc.
  - destruct v; [reflexivity|cbn in Hn; lia].
  - destruct (lf_split v) as [Hv|(l & v' & Hl & ->)]; [apply tle_no_lf; exact Hv|].
    rewrite (tle_line l v' Hl), (IH v'); [|rewrite app_length in Hn; cbn in Hn; lia|apply (clean_tail _ _ Hc)].
    destruct (Hc l v' eq_refl) as [->|H0]; [reflexivity|].
    destruct l as [|c l0]; [reflexivity|].
    pose proof (trim_end_app_nonws (c :: l0) [] ltac:(discriminate) H0) as Hx.
    rewrite app_nil_r in Hx. rewrite Hx. unfold trim_end. cbn. rewrite app_nil_r. reflexivity.
Qed.

Theorem strip_keeps_clean : forall pre v post, clean v -> ends_solid v ->
  exists pre' post', strip (pre ++ v ++ post) = pre' ++ v ++ post'.
Proof.
  intros pre v post Hc He. destruct (strip_keeps_trimmed pre v post He) as (pre' & post' & E).
  rewrite (clean_trim_line_ends (length v) v (le_n _) Hc) in E. eauto.
Qed.

(* a decidable form of `clean`, for examples and for the harness *)
Fixpoint clean_aux (prev : option N) (v : str) : bool :=
  match v with
  | [] => true
  | c :: r =>
      (if c =? LF then match prev with Some p => negb (is_ws p) | None => true end else true)
      && clean_aux (Some c) r
  end.
Definition clean_b (v : str) : bool := clean_aux None v.

Lemma clean_aux_spec : forall v prev, clean_aux prev v = true ->
  forall a b, v = a ++ LF :: b ->
    match a with
    | [] => match prev with Some p => is_ws p = false | None => True end
    | _ => is_ws (last a 0) = false
    end.
Proof.
  induction v as [|c v IH]; intros prev H a b E; [destruct a; discriminate|].
  cbn [clean_aux] in H. apply andb_prop in H. destruct H as [H1 H2].
  destruct a as [|x a].
  - cbn in E. inversion E; subst. rewrite N.eqb_refl in H1. destruct prev as [p|]; [|exact I].
    destruct (is_ws p); [discriminate|reflexivity].
  - cbn in E. inversion E; subst. specialize (IH (Some x) H2 a b eq_refl).
    destruct a as [|y a]; [exact IH|]. exact IH.
Qed.

Lemma clean_b_spec v : clean_b v = true -> clean v.
Proof.
  intros H a b E. pose proof (clean_aux_spec v None H a b E) as Hs.
  destruct a; [left; reflexivity|right; exact Hs].
Qed.
