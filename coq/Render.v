(* Render.v — pretty 0.12.4 `best`/`fitting` (render.rs) as a stack machine on explicit fuel.
   Output is a list of events; `render` flattens them to the string. See DESIGN.md Appendix A. *)
From TV Require Export Doc.

Inductive mode := MBreak | MFlat.
Definition cmd : Type := (N * mode * doc)%type.

Inductive event :=
| EText (s : str)
| ENewline (indent : N).

(* usize saturating arithmetic is modelled without the saturation bound (documented):
   add for k >= 0, truncated subtraction for k < 0. *)
Definition nest_ind (ind : N) (k : Z) : N :=
  if (0 <=? k)%Z then ind + Z.to_N k else ind - Z.to_N (- k).

Definition text_width (d : doc) : N :=
  match d with
  | DText s => byte_len s
  | DTextW w _ => w
  | _ => 0
  end.

(* fitting: scan `cur` (documents of the group, in the current scan mode), then the remaining
   break-stack entries, all in Break mode whatever mode they were pushed with. *)
Fixpoint fitting (fuel : nat) (width pos ind : N) (m : mode) (cur : list doc) (bc : list cmd) : option bool :=
  match fuel with
  | O => None
  | S fuel' =>
      match cur with
      | [] =>
          match bc with
          | [] => Some true
          | (_, _, d) :: bc' => fitting fuel' width pos ind MBreak [d] bc'
          end
      | d :: cur' =>
          match d with
          | DNil => fitting fuel' width pos ind m cur' bc
          | DAppend a b => fitting fuel' width pos ind m (a :: b :: cur') bc
          | DHardline => Some (match m with MBreak => true | MFlat => false end)
          | DText _ | DTextW _ _ =>
              let pos' := pos + text_width d in
              if width <? pos' then Some false else fitting fuel' width pos' ind m cur' bc
          | DFlatAlt b f => fitting fuel' width pos ind m ((match m with MBreak => b | MFlat => f end) :: cur') bc
          | DNest _ x | DGroup x | DAlign x => fitting fuel' width pos ind m (x :: cur') bc
          end
      end
  end.

Definition stack_size (bc : list cmd) : nat :=
  fold_right (fun (c : cmd) n => (doc_size (snd c) + n)%nat) 0%nat bc.

(* `best` keeps fuel >= 2 * stack_size + 1, which is more than `fitting` can use
   (it needs at most doc_size x + stack_size bc + length bc + 2 steps), so the
   remaining fuel of `best` is handed to `fitting` instead of computing a bound. *)

Fixpoint best (fuel : nat) (width pos : N) (bc : list cmd) : option (list event) :=
  match fuel with
  | O => None
  | S fuel' =>
      match bc with
      | [] => Some []
      | (ind, m, d) :: bc' =>
          match d with
          | DNil => best fuel' width pos bc'
          | DAppend a b => best fuel' width pos ((ind, m, a) :: (ind, m, b) :: bc')
          | DFlatAlt b f => best fuel' width pos ((ind, m, match m with MBreak => b | MFlat => f end) :: bc')
          | DGroup x =>
              match m with
              | MFlat => best fuel' width pos ((ind, MFlat, x) :: bc')
              | MBreak =>
                  match fitting fuel' width pos ind MFlat [x] bc' with
                  | None => None
                  | Some true => best fuel' width pos ((ind, MFlat, x) :: bc')
                  | Some false => best fuel' width pos ((ind, MBreak, x) :: bc')
                  end
              end
          | DNest k x => best fuel' width pos ((nest_ind ind k, m, x) :: bc')
          | DHardline =>
              let ind' := match bc' with (i, _, _) :: _ => i | [] => ind end in
              match best fuel' width ind' bc' with
              | None => None
              | Some es => Some (ENewline ind' :: es)
              end
          | DText s | DTextW _ s =>
              match best fuel' width (pos + text_width d) bc' with
              | None => None
              | Some es => Some (EText s :: es)
              end
          | DAlign x =>
              (* nest(col - nest) through the builder: elided when 0 or x = Nil; both cases render alike *)
              best fuel' width pos ((nest_ind ind (Z.of_N pos - Z.of_N ind), m, x) :: bc')
          end
      end
  end.

Definition best_fuel (d : doc) : nat := S (2 * doc_size d).

Fixpoint repeat_sp (n : nat) (acc : str) : str :=
  match n with O => acc | S n' => repeat_sp n' (SP :: acc) end.

Fixpoint flatten_events (es : list event) : str :=
  match es with
  | [] => []
  | EText s :: es' => s ++ flatten_events es'
  | ENewline n :: es' => LF :: repeat_sp (N.to_nat n) (flatten_events es')
  end.

(* Doc::pretty(width).to_string() *)
Definition render_events (width : N) (d : doc) : option (list event) :=
  best (best_fuel d) width 0 [(0, MBreak, d)].

Definition render (width : N) (d : doc) : option str :=
  match render_events width d with
  | Some es => Some (flatten_events es)
  | None => None
  end.
