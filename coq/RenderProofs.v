(* RenderProofs.v — theorems about the renderer model (Render.v):
   R1  the fuel handed to `best` is always sufficient: `render w d` is never None;
   R2  the text atoms the renderer emits are, in order, the atoms of the document under some
       resolution of its FlatAlt choices, for every width. *)
From TV Require Import Render.
From Coq Require Import Lia Arith.

Lemma doc_size_pos d : (1 <= doc_size d)%nat.
Proof. destruct d; cbn; lia. Qed.

(* ---------------------------------------------------------------- R1: fuel *)

Fixpoint list_size (ds : list doc) : nat :=
  match ds with [] => 0%nat | d :: r => (doc_size d + list_size r)%nat end.
Fixpoint bc_measure (bc : list cmd) : nat :=
  match bc with
  | [] => 0%nat
  | c :: bc' => (S (doc_size (snd c)) + bc_measure bc')%nat
  end.
Definition fit_measure (cur : list doc) (bc : list cmd) : nat := (list_size cur + bc_measure bc)%nat.

Lemma fitting_total : forall fuel width pos ind m cur bc,
  (fit_measure cur bc < fuel)%nat -> fitting fuel width pos ind m cur bc <> None.
Proof.
  induction fuel as [|fuel IH]; intros width pos ind m cur bc H; [lia|].
  cbn [fitting].
  destruct cur as [|d cur'].
  - destruct bc as [|[[i mm] d] bc']; [discriminate|].
    apply IH. unfold fit_measure in *. cbn [list_size bc_measure snd] in *. lia.
  - unfold fit_measure in H. cbn [list_size] in H.
    destruct d; cbn [doc_size] in H.
    + apply IH. unfold fit_measure; cbn [list_size doc_size]; lia.
    + apply IH. unfold fit_measure; cbn [list_size doc_size]; lia.
    + apply IH. unfold fit_measure; cbn [list_size doc_size]; lia.
    + destruct m; apply IH; unfold fit_measure; cbn [list_size doc_size]; lia.
    + apply IH. unfold fit_measure; cbn [list_size doc_size]; lia.
    + destruct m; discriminate.
    + destruct (width <? pos + text_width (DText s)); [discriminate|].
      apply IH. unfold fit_measure; cbn [list_size doc_size]; lia.
    + destruct (width <? pos + text_width (DTextW w s)); [discriminate|].
      apply IH. unfold fit_measure; cbn [list_size doc_size]; lia.
    + apply IH. unfold fit_measure; cbn [list_size doc_size]; lia.
Qed.

Lemma fit_measure_bound x bc : (fit_measure [x] bc <= doc_size x + 2 * stack_size bc)%nat.
Proof.
  unfold fit_measure. cbn [list_size].
  induction bc as [|c bc IH]; [cbn; lia|].
  pose proof (doc_size_pos (snd c)). unfold stack_size in *. cbn [bc_measure fold_right] in *. lia.
Qed.

Lemma best_total : forall fuel width pos bc,
  (2 * stack_size bc < fuel)%nat -> best fuel width pos bc <> None.
Proof.
  induction fuel as [|fuel IH]; intros width pos bc H; [lia|].
  cbn [best].
  destruct bc as [|[[ind m] d] bc']; [discriminate|].
  unfold stack_size in H. cbn [fold_right snd] in H. fold (stack_size bc') in H.
  destruct d; cbn [doc_size] in H.
  - apply IH. lia.
  - apply IH. unfold stack_size. cbn. fold (stack_size bc'). lia.
  - destruct m.
    + destruct (fitting fuel width pos ind MFlat [d] bc') as [b|] eqn:E.
      * destruct b; apply IH; unfold stack_size; cbn; fold (stack_size bc'); lia.
      * exfalso. revert E. apply fitting_total.
        pose proof (fit_measure_bound d bc'). lia.
    + apply IH. unfold stack_size. cbn. fold (stack_size bc'). lia.
  - apply IH. unfold stack_size. cbn. fold (stack_size bc'). destruct m; lia.
  - apply IH. unfold stack_size. cbn. fold (stack_size bc'). lia.
  - destruct (best fuel width _ bc') eqn:E; [discriminate|].
    exfalso. revert E. apply IH. lia.
  - destruct (best fuel width (pos + text_width (DText s)) bc') eqn:E; [discriminate|].
    exfalso. revert E. apply IH. lia.
  - destruct (best fuel width (pos + text_width (DTextW w s)) bc') eqn:E; [discriminate|].
    exfalso. revert E. apply IH. lia.
  - apply IH. unfold stack_size. cbn. fold (stack_size bc'). lia.
Qed.

Theorem render_total : forall width d, exists s, render width d = Some s.
Proof.
  intros width d. unfold render, render_events.
  destruct (best (best_fuel d) width 0 [(0, MBreak, d)]) eqn:E.
  - eexists; reflexivity.
  - exfalso. revert E. apply best_total. unfold best_fuel, stack_size. cbn. lia.
Qed.

(* ---------------------------------------------------------------- R2: atoms *)

(* The possible atom sequences of a document: each FlatAlt contributes one of its branches. *)
Inductive atom := AText (s : str) | ALine.

Inductive seqs : doc -> list atom -> Prop :=
| sq_nil : seqs DNil []
| sq_app a b x y : seqs a x -> seqs b y -> seqs (DAppend a b) (x ++ y)
| sq_group d x : seqs d x -> seqs (DGroup d) x
| sq_alt_l b f x : seqs b x -> seqs (DFlatAlt b f) x
| sq_alt_r b f x : seqs f x -> seqs (DFlatAlt b f) x
| sq_nest k d x : seqs d x -> seqs (DNest k d) x
| sq_hard : seqs DHardline [ALine]
| sq_text s : seqs (DText s) [AText s]
| sq_textw w s : seqs (DTextW w s) [AText s]
| sq_align d x : seqs d x -> seqs (DAlign d) x.

Inductive stack_seqs : list cmd -> list atom -> Prop :=
| ss_nil : stack_seqs [] []
| ss_cons i m d bc x y : seqs d x -> stack_seqs bc y -> stack_seqs ((i, m, d) :: bc) (x ++ y).

Definition atom_of_event (e : event) : atom :=
  match e with EText s => AText s | ENewline _ => ALine end.

Lemma ss_inv i m d bc z :
  stack_seqs ((i, m, d) :: bc) z -> exists x y, z = x ++ y /\ seqs d x /\ stack_seqs bc y.
Proof. intros H. inversion H; subst. eauto. Qed.

Lemma ss_replace i m d i' m' d' bc z :
  (forall x, seqs d' x -> seqs d x) -> stack_seqs ((i', m', d') :: bc) z -> stack_seqs ((i, m, d) :: bc) z.
Proof.
  intros Hd H. apply ss_inv in H. destruct H as (x & y & -> & Hx & Hy).
  constructor; auto.
Qed.

Lemma best_atoms : forall fuel width pos bc es,
  best fuel width pos bc = Some es -> stack_seqs bc (map atom_of_event es).
Proof.
  induction fuel as [|fuel IH]; intros width pos bc es H; [discriminate|].
  cbn [best] in H.
  destruct bc as [|[[ind m] d] bc'].
  - inversion H; subst. constructor.
  - destruct d.
    + apply IH in H. change (map atom_of_event es) with ([] ++ map atom_of_event es).
      constructor; [apply sq_nil|exact H].
    + apply IH in H. apply ss_inv in H. destruct H as (x & y & E & Hx & Hr).
      apply ss_inv in Hr. destruct Hr as (x2 & y2 & -> & Hx2 & Hr2).
      rewrite E, app_assoc. constructor; [apply sq_app; assumption|assumption].
    + assert (Hg : forall i' m', stack_seqs ((i', m', d) :: bc') (map atom_of_event es) ->
                                 stack_seqs ((ind, m, DGroup d) :: bc') (map atom_of_event es)).
      { intros i' m'. apply ss_replace. intros x Hx. apply sq_group. exact Hx. }
      destruct m.
      * destruct (fitting fuel width pos ind MFlat [d] bc') as [[|]|]; try discriminate;
          apply IH in H; eapply Hg; exact H.
      * apply IH in H. eapply Hg; exact H.
    + apply IH in H. eapply ss_replace; [|exact H].
      intros x Hx. destruct m; [apply sq_alt_l|apply sq_alt_r]; exact Hx.
    + apply IH in H. eapply ss_replace; [|exact H]. intros x Hx. apply sq_nest. exact Hx.
    + destruct (best fuel width _ bc') eqn:E; [|discriminate].
      inversion H; subst. apply IH in E. cbn [map atom_of_event].
      change (ALine :: map atom_of_event l) with ([ALine] ++ map atom_of_event l).
      constructor; [apply sq_hard|assumption].
    + destruct (best fuel width (pos + text_width (DText s)) bc') eqn:E; [|discriminate].
      inversion H; subst. apply IH in E. cbn [map atom_of_event].
      change (AText s :: map atom_of_event l) with ([AText s] ++ map atom_of_event l).
      constructor; [apply sq_text|assumption].
    + destruct (best fuel width (pos + text_width (DTextW w s)) bc') eqn:E; [|discriminate].
      inversion H; subst. apply IH in E. cbn [map atom_of_event].
      change (AText s :: map atom_of_event l) with ([AText s] ++ map atom_of_event l).
      constructor; [apply sq_textw|assumption].
    + apply IH in H. eapply ss_replace; [|exact H]. intros x Hx. apply sq_align. exact Hx.
Qed.

Theorem render_atoms : forall width d es,
  render_events width d = Some es -> seqs d (map atom_of_event es).
Proof.
  intros width d es H. apply best_atoms in H.
  apply ss_inv in H. destruct H as (x & y & E & Hx & Hr). inversion Hr; subst.
  rewrite E, app_nil_r. assumption.
Qed.

(* The rendered string is the concatenation of the emitted atoms, each newline being LF followed
   by blanks only. *)
Fixpoint atoms_text (es : list event) : str :=
  match es with
  | [] => []
  | EText s :: r => s ++ atoms_text r
  | ENewline n :: r => LF :: repeat SP (N.to_nat n) ++ atoms_text r
  end.

Lemma repeat_sp_spec n acc : repeat_sp n acc = repeat SP n ++ acc.
Proof.
  revert acc; induction n as [|n IH]; intros acc; cbn; [reflexivity|].
  rewrite IH. change (SP :: acc) with ([SP] ++ acc). rewrite app_assoc.
  f_equal. clear. induction n; cbn; [reflexivity|]. f_equal. assumption.
Qed.

Theorem flatten_events_spec es : flatten_events es = atoms_text es.
Proof.
  induction es as [|[s|n] es IH]; cbn; [reflexivity| |].
  - f_equal. assumption.
  - rewrite repeat_sp_spec. f_equal. f_equal. assumption.
Qed.

(* ---------------------------------------------------------------- R3: mode-aware layouts *)

(* does the flat resolution of a document contain a mandatory line break? *)
Fixpoint flat_has_line (d : doc) : bool :=
  match d with
  | DNil | DText _ | DTextW _ _ => false
  | DHardline => true
  | DAppend a b => flat_has_line a || flat_has_line b
  | DGroup x | DNest _ x | DAlign x => flat_has_line x
  | DFlatAlt _ f => flat_has_line f
  end.

Lemma fitting_true_no_line : forall fuel width pos ind cur bc,
  fitting fuel width pos ind MFlat cur bc = Some true -> existsb flat_has_line cur = false.
Proof.
  induction fuel as [|fuel IH]; intros width pos ind cur bc H; [discriminate|].
  cbn [fitting] in H.
  destruct cur as [|d cur']; [reflexivity|].
  destruct d; cbn [existsb flat_has_line].
  - apply IH in H. exact H.
  - apply IH in H. cbn [existsb] in H. rewrite orb_assoc in H. exact H.
  - apply IH in H. exact H.
  - apply IH in H. exact H.
  - apply IH in H. exact H.
  - discriminate.
  - destruct (width <? pos + text_width (DText s)); [discriminate|]. apply IH in H. exact H.
  - destruct (width <? pos + text_width (DTextW w s)); [discriminate|]. apply IH in H. exact H.
  - apply IH in H. exact H.
Qed.

(* The layouts the renderer can produce: a group is either broken, or flat — and then its flat
   resolution holds no mandatory line break; FlatAlt follows the mode. *)
Inductive lay : mode -> doc -> list atom -> Prop :=
| l_nil m : lay m DNil []
| l_app m a b x y : lay m a x -> lay m b y -> lay m (DAppend a b) (x ++ y)
| l_group_flat d x : flat_has_line d = false -> lay MFlat d x -> lay MBreak (DGroup d) x
| l_group_break d x : lay MBreak d x -> lay MBreak (DGroup d) x
| l_group_inflat d x : lay MFlat d x -> lay MFlat (DGroup d) x
| l_alt_break b f x : lay MBreak b x -> lay MBreak (DFlatAlt b f) x
| l_alt_flat b f x : lay MFlat f x -> lay MFlat (DFlatAlt b f) x
| l_nest m k d x : lay m d x -> lay m (DNest k d) x
| l_hard m : lay m DHardline [ALine]
| l_text m s : lay m (DText s) [AText s]
| l_textw m w s : lay m (DTextW w s) [AText s]
| l_align m d x : lay m d x -> lay m (DAlign d) x.

Inductive stack_lay : list cmd -> list atom -> Prop :=
| sl_nil : stack_lay [] []
| sl_cons i m d bc x y : lay m d x -> stack_lay bc y -> stack_lay ((i, m, d) :: bc) (x ++ y).

Lemma sl_inv i m d bc z :
  stack_lay ((i, m, d) :: bc) z -> exists x y, z = x ++ y /\ lay m d x /\ stack_lay bc y.
Proof. intros H. inversion H; subst. eauto. Qed.

Lemma sl_replace i m d i' m' d' bc z :
  (forall x, lay m' d' x -> lay m d x) -> stack_lay ((i', m', d') :: bc) z -> stack_lay ((i, m, d) :: bc) z.
Proof.
  intros Hd H. apply sl_inv in H. destruct H as (x & y & -> & Hx & Hy). constructor; auto.
Qed.

Lemma best_lay : forall fuel width pos bc es,
  best fuel width pos bc = Some es -> stack_lay bc (map atom_of_event es).
Proof.
  induction fuel as [|fuel IH]; intros width pos bc es H; [discriminate|].
  cbn [best] in H.
  destruct bc as [|[[ind m] d] bc'].
  - inversion H; subst. constructor.
  - destruct d.
    + apply IH in H. change (map atom_of_event es) with ([] ++ map atom_of_event es).
      constructor; [apply l_nil|exact H].
    + apply IH in H. apply sl_inv in H. destruct H as (x & y & E & Hx & Hr).
      apply sl_inv in Hr. destruct Hr as (x2 & y2 & -> & Hx2 & Hr2).
      rewrite E, app_assoc. constructor; [apply l_app; assumption|assumption].
    + destruct m.
      * destruct (fitting fuel width pos ind MFlat [d] bc') as [[|]|] eqn:Ef; try discriminate.
        -- apply fitting_true_no_line in Ef. cbn in Ef. rewrite orb_false_r in Ef.
           apply IH in H. eapply sl_replace; [|exact H]. intros x Hx. apply l_group_flat; assumption.
        -- apply IH in H. eapply sl_replace; [|exact H]. intros x Hx. apply l_group_break; assumption.
      * apply IH in H. eapply sl_replace; [|exact H]. intros x Hx. apply l_group_inflat; assumption.
    + apply IH in H. eapply sl_replace; [|exact H].
      intros x Hx. destruct m; [apply l_alt_break|apply l_alt_flat]; exact Hx.
    + apply IH in H. eapply sl_replace; [|exact H]. intros x Hx. apply l_nest. exact Hx.
    + destruct (best fuel width _ bc') eqn:E; [|discriminate].
      inversion H; subst. apply IH in E. cbn [map atom_of_event].
      change (ALine :: map atom_of_event l) with ([ALine] ++ map atom_of_event l).
      constructor; [apply l_hard|assumption].
    + destruct (best fuel width (pos + text_width (DText s)) bc') eqn:E; [|discriminate].
      inversion H; subst. apply IH in E. cbn [map atom_of_event].
      change (AText s :: map atom_of_event l) with ([AText s] ++ map atom_of_event l).
      constructor; [apply l_text|assumption].
    + destruct (best fuel width (pos + text_width (DTextW w s)) bc') eqn:E; [|discriminate].
      inversion H; subst. apply IH in E. cbn [map atom_of_event].
      change (AText s :: map atom_of_event l) with ([AText s] ++ map atom_of_event l).
      constructor; [apply l_textw|assumption].
    + apply IH in H. eapply sl_replace; [|exact H]. intros x Hx. apply l_align. exact Hx.
Qed.

Theorem render_lay : forall width d es,
  render_events width d = Some es -> lay MBreak d (map atom_of_event es).
Proof.
  intros width d es H. apply best_lay in H.
  apply sl_inv in H. destruct H as (x & y & E & Hx & Hr). inversion Hr; subst.
  rewrite E, app_nil_r. assumption.
Qed.

(* a flat layout of a document without flat line breaks stays on one line *)
Lemma lay_flat_one_line : forall d x, lay MFlat d x -> flat_has_line d = false -> ~ In ALine x.
Proof.
  intros d x H. remember MFlat as m eqn:Em. induction H; intros Hf; cbn [flat_has_line] in Hf; subst; try discriminate.
  - intros [].
  - apply orb_false_elim in Hf. destruct Hf. intros Hi. apply in_app_or in Hi. destruct Hi; [apply IHlay1|apply IHlay2]; auto.
  - auto.
  - auto.
  - auto.
  - intros [H0|[]]. discriminate.
  - intros [H0|[]]. discriminate.
  - auto.
Qed.
