(* RangeTotal.v — C13/C05: range formatting of a schema-conforming tree answers with text or the refusal;
   neither a Panic site nor the renderer's fuel limit is reachable for a request on char boundaries. *)
From TV Require Import Conv Format Partial PartialProofs Render RenderProofs SafeProofs CostBound SafeBound AttrShape SchemaShape.
From Coq Require Import Lia.

Lemma swfc_subtree t off n o : subtree_at t off n o -> swfc t = true -> swfc n = true.
Proof.
  induction 1 as [t off|k cs a off pre c post n o Hcs Hsub IH]; intros Hw; [exact Hw|].
  apply IH. cbn [swfc] in Hw. apply andb_prop in Hw. destruct Hw as [_ Hc].
  rewrite forallb_forall in Hc. apply Hc. subst cs. apply in_or_app. right. left. reflexivity.
Qed.

Section RangeTotal.
  Variable swidth : str -> N.

  Theorem format_range_total cfg t a b :
    let s := into_text t in
    let len := byte_len s in
    (on_boundary s a \/ len <= a) -> (on_boundary s b \/ len <= b) -> a <= b ->
    (forall node, range_node t a b = Some node -> erroneous node = false -> swfc node = true) ->
    format_range swidth cfg t a b = RErr \/ exists r1 r2 out, format_range swidth cfg t a b = ROk r1 r2 out.
  Proof.
    intros s len Ha Hb Hle Hw.
    destruct (range_arithmetic_total t a b Ha Hb Hle) as (x & rs & re & _ & Ht & _).
    subst s len. unfold format_range. cbv zeta. rewrite Ht.
    destruct (cover t 0 (LMarkup, false) None rs (N.min re (byte_len (into_text t)))) as [[[[node off] [m bm]] p]|] eqn:Ec; [|left; reflexivity].
    destruct (erroneous node) eqn:Eerr; [left; reflexivity|]. right.
    destruct (cover_sound _ _ _ _ _ _ _ _ _ _ Ec) as (_ & _ & Hcov & Hsub).
    assert (Hwn : swfc node = true).
    { apply Hw; [|exact Eerr]. unfold range_node. cbv zeta. rewrite Ht, Ec. reflexivity. }
    rewrite <- swfc_annotate in Hwn.
    set (bundle := build swidth cfg (annotate node)).
    set (cx := mk_ctx m bm).
    assert (Hm : exists d cnt,
               run_m (if kind_eqb (kind_of node) KMarkup then call bundle (RMarkup cx ScDocument)
                      else if is_expr node then
                        match p with
                        | Some KMarkup | Some KMath => call bundle (RExprEmb cx)
                        | Some KMathAttach | Some KMathFrac | Some KMathRoot =>
                            if is_code_mode m then call bundle (RExprEmb cx) else call bundle (RExpr cx)
                        | _ => call bundle (RExpr cx)
                        end
                      else call bundle (RPattern cx)) = Ok (d, cnt)).
    { unfold run_m, bundle.
      destruct (kind_eqb (kind_of node) KMarkup) eqn:Ek.
      - destruct (conversions_total swidth cfg (annotate node) (RMarkup cx ScDocument) 0 Hwn I) as (d & n' & E & _). eauto.
      - destruct (is_expr node) eqn:Ee.
        + assert (Hr : is_expr (bt (build swidth cfg (annotate node))) = true).
          { rewrite bt_build. unfold is_expr in *. rewrite kind_of_annotate. exact Ee. }
          assert (H1 : exists d cnt, call (build swidth cfg (annotate node)) (RExpr cx) 0 = Ok (d, cnt)).
          { destruct (conversions_total swidth cfg (annotate node) (RExpr cx) 0 Hwn Hr) as (d & n' & E & _). eauto. }
          assert (H2 : exists d cnt, call (build swidth cfg (annotate node)) (RExprEmb cx) 0 = Ok (d, cnt)).
          { destruct (conversions_total swidth cfg (annotate node) (RExprEmb cx) 0 Hwn Hr) as (d & n' & E & _). eauto. }
          destruct p as [pk|]; [|exact H1]. destruct pk; first [exact H1|exact H2|destruct (is_code_mode m); [exact H2|exact H1]].
        + assert (Hr : sreq_ok (build swidth cfg (annotate node)) (RPattern cx)).
          { cbn [sreq_ok]. rewrite bt_build. unfold is_pattern. rewrite kind_of_annotate.
            unfold coverable in Hcov. apply andb_prop in Hcov. destruct Hcov as [_ Hcov].
            rewrite Ek, Ee in Hcov. cbn [orb] in Hcov. exact Hcov. }
          destruct (conversions_total swidth cfg (annotate node) _ 0 Hwn Hr) as (d & n' & E & _). eauto. }
    destruct Hm as (d & cnt & ->).
    destruct (indent_lookup_total t node off Hsub) as (k & Hk). rewrite Hk.
    match goal with |- context [render ?w ?dd] => destruct (render_total w dd) as (out & ->) end.
    eauto.
  Qed.
End RangeTotal.

(* in particular when the whole tree conforms *)
Lemma range_node_subtree t a b node : range_node t a b = Some node -> exists o, subtree_at t 0 node o.
Proof.
  unfold range_node. cbv zeta.
  destruct (trim_range _ _ _) as [[rs re]|]; [|discriminate].
  destruct (cover t 0 (LMarkup, false) None rs _) as [[[[n off] m] p]|] eqn:Ec; [|discriminate].
  intros H. inversion H; subst. destruct (cover_sound _ _ _ _ _ _ _ _ _ _ Ec) as (_ & _ & _ & Hsub). eauto.
Qed.

Corollary format_range_total_whole swidth cfg t a b :
  let s := into_text t in
  let len := byte_len s in
  (on_boundary s a \/ len <= a) -> (on_boundary s b \/ len <= b) -> a <= b ->
  swfc t = true ->
  format_range swidth cfg t a b = RErr \/ exists r1 r2 out, format_range swidth cfg t a b = ROk r1 r2 out.
Proof.
  intros s len Ha Hb Hle Hw. apply format_range_total; try assumption.
  intros node Hn _. destruct (range_node_subtree _ _ _ _ Hn) as (o & Hsub). apply (swfc_subtree _ _ _ _ Hsub Hw).
Qed.
