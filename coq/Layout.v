(* Layout.v — the four layout "stylists" of pretty/layout/{flow,list,chain,plain}.rs as pure
   state records and document builders. Field and function names follow the Rust code. *)
From TV Require Export Doc Mon.

Inductive fold_style := Fit | Never | Always.
Definition fold_style_eqb (a b : fold_style) : bool :=
  match a, b with Fit, Fit | Never, Never | Always, Always => true | _, _ => false end.

Section Layout.
  Variable swidth : str -> N.
  Notation text := (text swidth).
  Variable tab : N.                       (* config.tab_spaces *)

  Definition app_opt (d : doc) (o : option doc) : doc :=
    match o with Some x => append d x | None => d end.
  Definition ztab : Z := Z.of_N tab.

  (* ---------------- layout/flow.rs ---------------- *)
  Record flow := mk_flow { f_doc : doc; f_space_after : bool; f_line_start : bool }.
  Definition flow_new : flow := mk_flow DNil false true.

  Definition flow_push_doc (f : flow) (d : doc) (space_before space_after : bool) : flow :=
    let d0 := if space_before && f_space_after f then append (f_doc f) space else f_doc f in
    mk_flow (append d0 d) space_after false.

  Definition flow_push_comment (f : flow) (d : doc) (is_block : bool) : flow :=
    if is_block then flow_push_doc f d true true
    else
      let f' := if negb (f_line_start f) then mk_flow (f_doc f) true (f_line_start f) else f in
      flow_push_doc f' d true false.

  Definition flow_enter_new_line (f : flow) : flow := mk_flow (f_doc f) (f_space_after f) true.

  Record flow_item := mk_fi { fi_doc : doc; fi_before : bool; fi_after : bool }.
  Definition fi_spaced d := Some (mk_fi d true true).
  Definition fi_spaced_before d a := Some (mk_fi d true a).
  Definition fi_tight_spaced d := Some (mk_fi d false true).
  Definition fi_spaced_tight d := Some (mk_fi d true false).
  Definition fi_tight d := Some (mk_fi d false false).
  Definition fi_none : option flow_item := None.

  (* ---------------- layout/list.rs ---------------- *)
  Inductive item :=
  | IComment (d : doc)
  | ICommented (body : doc) (after : option doc)
  | ILinebreak (n : N).

  Record lst := mk_lst {
    l_can_attach : bool;
    l_free : list doc;            (* free_comments, in order *)
    l_peek_hash : bool;
    l_items : list item;          (* in order *)
    l_real : N;                   (* real_item_count *)
    l_has_comment : bool;
    l_has_line_comment : bool;
    l_fold : fold_style;
    l_no_front : bool;            (* disallow_front_comment *)
    l_no_detach : bool;           (* disallow_comment_detach *)
    l_keep : option N;            (* keep_linebreak *)
  }.

  Definition lst_new : lst := mk_lst false [] false [] 0 false false Fit false false None.

  Definition set_items (l : lst) (its : list item) : lst :=
    mk_lst (l_can_attach l) (l_free l) (l_peek_hash l) its (l_real l) (l_has_comment l)
           (l_has_line_comment l) (l_fold l) (l_no_front l) (l_no_detach l) (l_keep l).
  Definition set_free (l : lst) (fr : list doc) : lst :=
    mk_lst (l_can_attach l) fr (l_peek_hash l) (l_items l) (l_real l) (l_has_comment l)
           (l_has_line_comment l) (l_fold l) (l_no_front l) (l_no_detach l) (l_keep l).
  Definition set_can_attach (l : lst) (b : bool) : lst :=
    mk_lst b (l_free l) (l_peek_hash l) (l_items l) (l_real l) (l_has_comment l)
           (l_has_line_comment l) (l_fold l) (l_no_front l) (l_no_detach l) (l_keep l).
  Definition set_peek_hash (l : lst) (b : bool) : lst :=
    mk_lst (l_can_attach l) (l_free l) b (l_items l) (l_real l) (l_has_comment l)
           (l_has_line_comment l) (l_fold l) (l_no_front l) (l_no_detach l) (l_keep l).
  Definition set_fold (l : lst) (f : fold_style) : lst :=
    mk_lst (l_can_attach l) (l_free l) (l_peek_hash l) (l_items l) (l_real l) (l_has_comment l)
           (l_has_line_comment l) f (l_no_front l) (l_no_detach l) (l_keep l).

  Definition lst_keep_linebreak (l : lst) (n : N) : lst :=
    mk_lst (l_can_attach l) (l_free l) (l_peek_hash l) (l_items l) (l_real l) (l_has_comment l)
           (l_has_line_comment l) (l_fold l) (l_no_front l) (l_no_detach l) (Some n).
  Definition lst_disallow_front_comment (l : lst) : lst :=
    mk_lst (l_can_attach l) (l_free l) (l_peek_hash l) (l_items l) (l_real l) (l_has_comment l)
           (l_has_line_comment l) (l_fold l) true (l_no_detach l) (l_keep l).
  Definition lst_with_fold_style (l : lst) (f : fold_style) : lst :=
    mk_lst (l_can_attach l) (l_free l) (l_peek_hash l) (l_items l) (l_real l) (l_has_comment l)
           (l_has_line_comment l) f (l_no_front l)
           (if fold_style_eqb f Always then true else l_no_detach l) (l_keep l).
  Definition lst_always_fold_if (l : lst) (pred : bool) : lst :=
    if negb (l_has_comment l) && pred then set_fold l Always else l.

  Definition detach_comments (l : lst) : lst :=
    set_free (set_items l (l_items l ++ map IComment (l_free l))) [].

  (* try_attach_comments: returns the new state and whether it attached *)
  Definition try_attach_comments (l : lst) : lst * bool :=
    if l_can_attach l && negb (match l_free l with [] => true | _ => false end) then
      match rev (l_items l) with
      | ICommented body after :: rest_rev =>
          let added := append space (intersperse (l_free l) space) in
          let after' := match after with Some c => Some (append c added) | None => Some added end in
          (set_free (set_items l (rev rest_rev ++ [ICommented body after'])) [], true)
      | _ => (l, false)
      end
    else (l, false).

  Definition attach_or_detach_comments (l : lst) : lst :=
    let (l', ok) := try_attach_comments l in
    if ok then l' else detach_comments l'.

  Definition lst_add_item (l : lst) (item_body : doc) : lst :=
    let l1 := mk_lst (l_can_attach l) (l_free l) (l_peek_hash l) (l_items l) (l_real l + 1) (l_has_comment l)
                     (l_has_line_comment l) (l_fold l) (l_no_front l) (l_no_detach l) (l_keep l) in
    let '(l2, before) :=
      if l_no_front l1 then (detach_comments l1, DNil)
      else match l_free l1 with
           | [] => (l1, DNil)
           | fr =>
               let sep := if l_no_detach l1 then space else line in
               let d := append (intersperse fr sep) sep in
               (set_free l1 [], if l_no_detach l1 then d else group d)
           end in
    let hash := if l_peek_hash l2 then text [35] else DNil in
    set_can_attach
      (set_items l2 (l_items l2 ++ [ICommented (append (append before hash) item_body) None]))
      true.

  Fixpoint pop_linebreaks_rev (r : list item) : list item :=
    match r with
    | ILinebreak _ :: r' => pop_linebreaks_rev r'
    | _ => r
    end.

  Definition lst_windup (l : lst) : lst :=
    let l1 := attach_or_detach_comments l in
    set_items l1 (rev (pop_linebreaks_rev (rev (l_items l1)))).

  Record list_style := mk_ls {
    ls_sep : str;
    ls_open : str;
    ls_close : str;
    ls_tight_delim : bool;
    ls_add_delim_space : bool;
    ls_trailing_single : bool;
    ls_trailing_always : bool;
    ls_omit_single : bool;
    ls_omit_flat : bool;
    ls_omit_empty : bool;
    ls_no_indent : bool;
  }.
  Definition ls_default : list_style := mk_ls [44] [40] [41] false false false false false false false false.

  Definition is_last_idx {A} (i : nat) (l : list A) : bool := Nat.eqb (S i) (length l).

  (* the three loops of print_doc, as folds carrying (inner, index, seen_real_items) *)
  Definition print_never (sty : list_style) (sep : doc) (items : list item) : doc :=
    let count := length items in
    let step (acc : doc * nat) (it : item) : doc * nat :=
      let '(inner, i) := acc in
      let is_last := Nat.eqb (S i) count in
      let inner' :=
        match it with
        | IComment c => append inner (append c hardline)
        | ICommented body after =>
            let x := append inner (app_opt (append body sep) after) in
            if negb (ls_tight_delim sty) || negb is_last then append x hardline else x
        | ILinebreak n => append inner (repeat_n hardline n)
        end in
      (inner', S i) in
    fst (fold_left step items (if ls_tight_delim sty then DNil else hardline, 0%nat)).

  Definition print_always (sty : list_style) (sep : doc) (real : N) (is_single : bool) (items : list item) : doc :=
    let count := length items in
    let step (acc : doc * nat * N) (it : item) : doc * nat * N :=
      let '(inner, i, seen) := acc in
      let is_last := Nat.eqb (S i) count in
      match it with
      | IComment c =>
          (append inner (if is_last && ls_tight_delim sty then c else append c space), S i, seen)
      | ICommented body after =>
          let seen' := seen + 1 in
          let is_last_real := seen' =? real in
          let x := append inner (app_opt body after) in
          let x' :=
            if negb is_last_real then append x (append sep space)
            else if ls_trailing_always sty || (is_single && ls_trailing_single sty) then append x sep
            else x in
          (x', S i, seen')
      | ILinebreak _ => (inner, S i, seen)
      end in
    fst (fst (fold_left step items (DNil, 0%nat, 0))).

  Definition print_fit (sty : list_style) (sep : doc) (real : N) (is_single : bool) (items : list item) : doc :=
    let count := length items in
    let step (acc : doc * nat * N) (it : item) : doc * nat * N :=
      let '(inner, i, seen) := acc in
      let is_last := Nat.eqb (S i) count in
      match it with
      | IComment c =>
          (append inner (if is_last && ls_tight_delim sty then c else append c hardline), S i, seen)
      | ICommented body after =>
          let seen' := seen + 1 in
          let is_last_real := seen' =? real in
          let want_sep := negb is_last_real || ls_trailing_always sty || (is_single && ls_trailing_single sty) in
          let follow :=
            match after with
            | Some a =>
                let follow_break := append sep a in
                let follow_flat := if want_sep then append a sep else a in
                flat_alt follow_break follow_flat
            | None =>
                if is_last_real && ls_tight_delim sty then DNil
                else if want_sep then sep
                else flat_alt sep DNil
            end in
          let ln := if negb is_last_real then line else if ls_tight_delim sty then DNil else line_ in
          (append inner (append (append body follow) ln), S i, seen')
      | ILinebreak n => (append inner (repeat_n line n), S i, seen)
      end in
    fst (fst (fold_left step items (if ls_tight_delim sty then DNil else line_, 0%nat, 0))).

  Definition lst_print_doc (l : lst) (sty : list_style) : doc :=
    let op := text (ls_open sty) in
    let cl := text (ls_close sty) in
    match l_items l with
    | [] =>
        if ls_omit_empty sty then DNil
        else if ls_add_delim_space sty then append (append op space) cl
        else append op cl
    | items =>
        let is_single := l_real l =? 1 in
        let sep := text (ls_sep sty) in
        let fs := if l_has_line_comment l then Never else l_fold l in
        match fs with
        | Never =>
            let inner := print_never sty sep items in
            let inner := if negb (ls_no_indent sty) then nest ztab inner else inner in
            enclose op cl inner
        | Always =>
            let inner := group (print_always sty sep (l_real l) is_single items) in
            if (is_single && ls_omit_single sty) || ls_omit_flat sty then inner
            else if ls_add_delim_space sty then enclose op cl (enclose space space inner)
            else enclose op cl inner
        | Fit =>
            let inner := print_fit sty sep (l_real l) is_single items in
            let inner := if negb (ls_no_indent sty) then nest ztab inner else inner in
            if is_single && ls_omit_single sty then group inner
            else if ls_omit_flat sty then
              group (enclose (flat_alt op DNil) (flat_alt cl DNil) inner)
            else if ls_add_delim_space sty then
              group (enclose (flat_alt op (append op space)) (flat_alt cl (append space cl)) inner)
            else enclose op cl (group inner)
        end
    end.

  (* ---------------- layout/chain.rs ---------------- *)
  Inductive chain_item :=
  | CBody (d : doc)
  | COp (d : doc)
  | CComment (d : doc)
  | CAttached (d : doc)
  | CLinebreak.

  Record chain := mk_chain { ch_items : list chain_item; ch_op_num : N; ch_has_comment : bool }.
  Definition chain_new : chain := mk_chain [] 0 false.

  Record chain_style := mk_cs { cs_no_break_single : bool; cs_space_around_op : bool }.

  (* `*last += d` on the last element of docs *)
  Definition add_to_last (docs : list doc) (d : doc) : list doc :=
    match rev docs with
    | last :: r => rev r ++ [append last d]
    | [] => []
    end.

  Definition chain_print_doc (c : chain) (sty : chain_style) : res doc :=
    let op_sep := if cs_space_around_op sty then line else line_ in
    let use_simple := (ch_op_num c =? 1) && cs_no_break_single sty && negb (ch_has_comment c) in
    let step (acc : list doc * bool * bool * bool) (it : chain_item) :=
      let '(docs, has_break, leading, space_after) := acc in
      match it with
      | CBody body =>
          ((if leading then docs ++ [body] else add_to_last docs body), has_break, false, true)
      | COp op =>
          let docs1 := if negb ((has_break && leading) || use_simple) then docs ++ [op_sep] else docs in
          let docs2 := docs1 ++ [if cs_space_around_op sty then append op (text [32]) else op] in
          (docs2, false, false, false)
      | CComment cmt =>
          ((if leading then docs ++ [cmt]
            else add_to_last docs (if space_after then append space cmt else cmt)), has_break, false, true)
      | CAttached cmt =>
          (add_to_last docs (if space_after then append space cmt else cmt), has_break, leading, space_after)
      | CLinebreak => (docs ++ [hardline], true, true, space_after)
      end in
    let '(docs, _, _, _) := fold_left step (ch_items c) ([], false, true, true) in
    match docs with
    | [] => Panic SChainRemove0
    | first :: follow =>
        let follow_docs := concat_docs follow in
        Ok (if use_simple then group (append first follow_docs)
            else group (append first (nest ztab follow_docs)))
    end.

  (* ---------------- layout/plain.rs ---------------- *)
  Inductive plain_item :=
  | PItem (d : doc)
  | PComma
  | PLinebreak (n : N)
  | PLineComment (d : doc)
  | PBlockComment (d : doc).

  Fixpoint pop_plain_linebreaks_rev (r : list plain_item) : list plain_item :=
    match r with
    | PLinebreak _ :: r' => pop_plain_linebreaks_rev r'
    | _ => r
    end.

  Definition plain_print_doc (items : list plain_item) (is_multiline : bool) : doc :=
    let step (f : flow) (it : plain_item) : flow :=
      match it with
      | PItem body => flow_push_doc f body true true
      | PComma => flow_push_doc f (text [44]) false true
      | PLinebreak n => flow_push_doc f (repeat_n hardline n) false false
      | PLineComment c => flow_push_doc f c true false
      | PBlockComment c => flow_push_doc f c true true
      end in
    let d := f_doc (fold_left step items flow_new) in
    if is_multiline then enclose hardline hardline d else d.
End Layout.
