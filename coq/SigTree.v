(* SigTree.v — the signature of a syntax tree (the concatenation of its leaves' signatures) and the per-case
   certificate `sig_check`: the document carries exactly the tree's signature along every layout. *)
From TV Require Import Tree Ast Doc Sig.

(* A Space or Parbreak token is layout whatever characters it is made of (U+2028, U+0085, U+3000 ... are blanks for the
   lexer and multi-byte for the byte-level `sig`): it contributes nothing to the signature of the tree. *)
Definition blank_kind (k : kind) : bool := match k with KSpace | KParbreak => true | _ => false end.
Fixpoint tsig (t : tree) : str :=
  match t with
  | Leaf k s _ => if blank_kind k then [] else sig s
  | Inner _ cs _ => concat (map tsig cs)
  end.
(* every blank token below t is made of ASCII blanks: then the byte-level signature of t's text is tsig t *)
Fixpoint ascii_blanks (t : tree) : bool :=
  match t with
  | Leaf k s _ => if blank_kind k then match sig s with [] => true | _ => false end else true
  | Inner _ cs _ => forallb ascii_blanks cs
  end.
(* the nodes whose source text can be handed to the printer as one piece: a node protected by `@typstyle off`, the
   parent of one (a code block whose body is protected), a raw element *)
Definition verbatim_risk (t : tree) : bool :=
  a_disabled (attrs_of t) ||
  match t with
  | Leaf _ _ _ => false
  | Inner k cs _ => kind_eqb k KRaw || existsb (fun c => a_disabled (attrs_of c)) cs
  end.
Definition verbatim_ok (t : tree) : bool := negb (verbatim_risk t) || ascii_blanks t.

Definition sig_check (t : tree) (d : doc) : bool := wsig d && str_eqb (dsig d) (tsig t).

Lemma sig_check_spec t d : sig_check t d = true -> wsig d = true /\ dsig d = tsig t.
Proof.
  unfold sig_check. intros H. apply andb_prop in H. destruct H as [H1 H2].
  split; [exact H1|apply str_eqb_eq; exact H2].
Qed.

(* The scope of the signature certificate (and of the conservation theorem being built on it): where a node's source
   text may be printed as one piece (verbatim_risk) the blank tokens inside it are ASCII blanks (the byte-level
   signature of the printed text would keep the bytes of U+2028, U+0085, U+3000 ...), a comment's own re-alignment
   keeps its signature (it strips leading blanks of continuation lines, which may be exotic too), and no comment stands
   between `not` and `in` (the two tokens are emitted as the one operator `not in`, after such a comment). *)
From TV Require Import Comment.

Definition comment_sig_ok (t : tree) : bool :=
  match comment (fun _ => 0%N) t with
  | Ok d => wsig d && str_eqb (dsig d) (sig (text_of t))
  | Panic _ => true
  end.

Fixpoint not_in_ok (cs : list tree) (pending_not : bool) : bool :=
  match cs with
  | [] => true
  | c :: r =>
      match kind_of c with
      | KNot => not_in_ok r true
      | KLineComment | KBlockComment => negb pending_not && not_in_ok r pending_not
      | KSpace => not_in_ok r pending_not
      | _ => not_in_ok r false
      end
  end.

Fixpoint sig_scope (t : tree) : bool :=
  match t with
  | Leaf k s _ =>
      match k with
      | KRawTrimmed => match sig s with [] => true | _ => false end
      | KLineComment | KBlockComment => comment_sig_ok t
      | _ => true
      end && verbatim_ok t
  | Inner k cs _ =>
      (match k with KBinary => not_in_ok cs false | _ => true end) && forallb sig_scope cs && verbatim_ok t
  end.
