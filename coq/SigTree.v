(* SigTree.v — the signature of a syntax tree (the concatenation of its leaves' signatures) and the per-case
   certificate `sig_check`: the document carries exactly the tree's signature along every layout. *)
From TV Require Import Tree Ast Doc Sig.

Fixpoint tsig (t : tree) : str :=
  match t with
  | Leaf _ s _ => sig s
  | Inner _ cs _ => concat (map tsig cs)
  end.

Definition sig_check (t : tree) (d : doc) : bool := wsig d && str_eqb (dsig d) (tsig t).

Lemma sig_check_spec t d : sig_check t d = true -> wsig d = true /\ dsig d = tsig t.
Proof.
  unfold sig_check. intros H. apply andb_prop in H. destruct H as [H1 H2].
  split; [exact H1|apply str_eqb_eq; exact H2].
Qed.

(* The scope of the signature certificate (and of the conservation theorem being built on it): blanks are
   ASCII blanks (a Space or Parbreak leaf holding U+2028, U+0085, U+3000 ... has bytes the byte-level signature keeps
   while the formatter replaces the token by a break), a comment's own re-alignment keeps its signature (it strips
   leading blanks of continuation lines, which may be exotic too), and no comment stands between `not` and `in`
   (the two tokens are emitted as the one operator `not in`, after such a comment). *)
From TV Require Import Comment.

Definition comment_sig_ok (t : tree) : bool :=
  match comment (fun _ => 0%N) t with
  | Ok d => wsig d && str_eqb (dsig d) (sig (text_of t))
  | Panic _ => true
  end.

Fixpoint not_in_ok (cs : list tree) (pending_not : bool) : bool :=
  match cs with
  | [] => true
  | c :: r =>
      match kind_of c with
      | KNot => not_in_ok r true
      | KLineComment | KBlockComment => negb pending_not && not_in_ok r pending_not
      | KSpace => not_in_ok r pending_not
      | _ => not_in_ok r false
      end
  end.

Fixpoint sig_scope (t : tree) : bool :=
  match t with
  | Leaf k s _ =>
      match k with
      | KSpace | KParbreak | KRawTrimmed => match sig s with [] => true | _ => false end
      | KLineComment | KBlockComment => comment_sig_ok t
      | _ => true
      end
  | Inner k cs _ =>
      (match k with KBinary => not_in_ok cs false | _ => true end) && forallb sig_scope cs
  end.
