(* ConvProofs.v — lemmas about the converter model (Comment.v, Layout.v, Conv.v, Format.v). *)
From TV Require Import Conv Format Render RenderProofs.
From Coq Require Import Lia.

Section ConvProofs.
  Variable swidth : str -> N.

  (* comment.rs: get_follow_leading(text).unwrap() is only reached for Plain style, which needs a
     follow line that does not start with '*': so it never fails. *)
  Lemma block_comment_no_panic (t : str) : exists d, block_comment swidth t = Ok d.
  Proof.
    unfold block_comment.
    destruct (lines t) as [|l0 ls] eqn:El; [eexists; reflexivity|].
    unfold get_comment_style. rewrite El. cbn [tl].
    destruct (forallb _ ls) eqn:Ef; [eexists; reflexivity|].
    unfold align_multiline, get_follow_leading. rewrite El. cbn [tl].
    destruct ls as [|l1 ls']; [cbn in Ef; discriminate|].
    eexists; reflexivity.
  Qed.

  Lemma comment_no_panic (t : tree) :
    is_comment_node t = true -> exists d, comment swidth t = Ok d.
  Proof.
    unfold is_comment_node, comment. destruct (kind_of t); try discriminate; intros _.
    - eexists; reflexivity.
    - apply block_comment_no_panic.
  Qed.

  (* lib.rs: the gate *)
  Lemma format_err_iff_erroneous cfg t : format_source swidth cfg t = FErr <-> erroneous t = true.
  Proof.
    unfold format_source. destruct (erroneous t); [tauto|].
    split; [|discriminate].
    destruct (convert_root swidth cfg t) as [[d n]|s]; [|discriminate].
    destruct (render (max_width cfg) d); discriminate.
  Qed.

  Lemma format_never_out_of_fuel cfg t : format_source swidth cfg t <> FFuel.
  Proof.
    unfold format_source. destruct (erroneous t); [discriminate|].
    destruct (convert_root swidth cfg t) as [[d n]|s]; [|discriminate].
    destruct (render_total (max_width cfg) d) as [s ->]. discriminate.
  Qed.

  Lemma format_wellformed_total cfg t :
    erroneous t = false ->
    (exists out n, format_source swidth cfg t = FOk out n) \/ (exists s, format_source swidth cfg t = FPanic s).
  Proof.
    intros He. unfold format_source. rewrite He.
    destruct (convert_root swidth cfg t) as [[d n]|s]; [|right; eauto].
    destruct (render_total (max_width cfg) d) as [s ->]. left; eauto.
  Qed.

  Lemma format_with_width_on_error content t w :
    erroneous t = true -> format_with_width_tree swidth content t w = FOk content 0.
  Proof.
    intros He. unfold format_with_width_tree.
    destruct (format_err_iff_erroneous (CliGen.format_with_width_config w) t) as [_ H].
    rewrite (H He). reflexivity.
  Qed.

  Lemma format_output_is_stripped cfg t out n :
    format_source swidth cfg t = FOk out n -> exists s, out = Post.strip s.
  Proof.
    unfold format_source. destruct (erroneous t); [discriminate|].
    destruct (convert_root swidth cfg t) as [[d m]|s]; [|discriminate].
    destruct (render (max_width cfg) d); [|discriminate].
    intros H; inversion H; subst. eauto.
  Qed.

  (* ---------- the four entry points honour the disabled mark (C07) ---------- *)
  Lemma convert_expr_disabled cfg self c n :
    a_disabled (attrs_of (bt self)) = true ->
    convert_expr swidth cfg self c n = Ok (text swidth (into_text (bt self)), n + 1).
  Proof. intros H. unfold convert_expr, check_disabled, bind, bump. rewrite H. reflexivity. Qed.

  Lemma convert_pattern_disabled cfg self c n :
    a_disabled (attrs_of (bt self)) = true ->
    convert_pattern swidth cfg self c n = Ok (text swidth (into_text (bt self)), n + 1).
  Proof. intros H. unfold convert_pattern, check_disabled, bind, bump. rewrite H. reflexivity. Qed.

  Lemma convert_code_block_disabled cfg t kids c n body :
    find (fun b => kind_eqb (bk b) KCode) kids = Some body ->
    a_disabled (attrs_of (bt body)) = true ->
    convert_code_block swidth cfg t kids c n = Ok (text swidth (into_text t), n).
  Proof. intros Hf Hd. unfold convert_code_block. rewrite Hf, Hd. reflexivity. Qed.

  (* ---------- leaves that carry literal content are emitted from their own text (C10) ---------- *)
  Definition literal_kind (k : kind) : bool :=
    match k with
    | KStr | KInt | KFloat | KNumeric | KBool | KIdent | KMathIdent | KLabel | KLink | KEscape | KShorthand
    | KMathText | KMathShorthand | KSmartQuote | KLinebreak | KMathAlignPoint | KText => true
    | _ => false
    end.

  Lemma convert_literal_leaf cfg k s a c n :
    literal_kind k = true ->
    convert_expr swidth cfg (build swidth cfg (Leaf k s a)) c n = Ok (text swidth s, n + 1).
  Proof.
    intros Hk. unfold convert_expr, check_disabled, bind, bump. cbn [build bt attrs_of].
    destruct (a_disabled a).
    - cbn. unfold convert_verbatim. cbn. reflexivity.
    - destruct k; try discriminate; reflexivity.
  Qed.

  (* every accepted output is the stripped rendering of the converter's document, and the atoms the
     renderer emitted are atoms of that document, in document order, whatever the width *)
  Lemma format_output_atoms cfg t out n :
    format_source swidth cfg t = FOk out n ->
    exists d es, convert_root swidth cfg t = Ok (d, n) /\
                 render_events (max_width cfg) d = Some es /\
                 out = Post.strip (flatten_events es) /\
                 seqs d (map atom_of_event es) /\ lay MBreak d (map atom_of_event es).
  Proof.
    unfold format_source. destruct (erroneous t); [discriminate|].
    destruct (convert_root swidth cfg t) as [[d m]|s]; [|discriminate].
    unfold render. destruct (render_events (max_width cfg) d) as [es|] eqn:E; [|discriminate].
    intros H; inversion H; subst. exists d, es. repeat split; auto.
    - apply (render_atoms _ _ _ E).
    - apply (render_lay _ _ _ E).
  Qed.
End ConvProofs.
