(* ConvProofs.v — lemmas about the converter model (Comment.v, Layout.v, Conv.v, Format.v). *)
From TV Require Import Conv Format Render RenderProofs.
From Coq Require Import Lia.

Section ConvProofs.
  Variable swidth : str -> N.

  (* comment.rs: get_follow_leading(text).unwrap() is only reached for Plain style, which needs a
     follow line that does not start with '*': so it never fails. *)
  Lemma block_comment_no_panic (t : str) : exists d, block_comment swidth t = Ok d.
  Proof.
    unfold block_comment.
    destruct (lines t) as [|l0 ls] eqn:El; [eexists; reflexivity|].
    unfold get_comment_style. rewrite El. cbn [tl].
    destruct (forallb _ ls) eqn:Ef; [eexists; reflexivity|].
    unfold align_multiline, get_follow_leading. rewrite El. cbn [tl].
    destruct ls as [|l1 ls']; [cbn in Ef; discriminate|].
    eexists; reflexivity.
  Qed.

  Lemma comment_no_panic (t : tree) :
    is_comment_node t = true -> exists d, comment swidth t = Ok d.
  Proof.
    unfold is_comment_node, comment. destruct (kind_of t); try discriminate; intros _.
    - eexists; reflexivity.
    - apply block_comment_no_panic.
  Qed.

  (* lib.rs: the gate *)
  Lemma format_err_iff_erroneous cfg t : format_source swidth cfg t = FErr <-> erroneous t = true.
  Proof.
    unfold format_source. destruct (erroneous t); [tauto|].
    split; [|discriminate].
    destruct (convert_root swidth cfg t) as [[d n]|s]; [|discriminate].
    destruct (render (max_width cfg) d); discriminate.
  Qed.

  Lemma format_never_out_of_fuel cfg t : format_source swidth cfg t <> FFuel.
  Proof.
    unfold format_source. destruct (erroneous t); [discriminate|].
    destruct (convert_root swidth cfg t) as [[d n]|s]; [|discriminate].
    destruct (render_total (max_width cfg) d) as [s ->]. discriminate.
  Qed.

  Lemma format_wellformed_total cfg t :
    erroneous t = false ->
    (exists out n, format_source swidth cfg t = FOk out n) \/ (exists s, format_source swidth cfg t = FPanic s).
  Proof.
    intros He. unfold format_source. rewrite He.
    destruct (convert_root swidth cfg t) as [[d n]|s]; [|right; eauto].
    destruct (render_total (max_width cfg) d) as [s ->]. left; eauto.
  Qed.

  Lemma format_with_width_on_error content t w :
    erroneous t = true -> format_with_width_tree swidth content t w = FOk content 0.
  Proof.
    intros He. unfold format_with_width_tree.
    destruct (format_err_iff_erroneous (CliGen.format_with_width_config w) t) as [_ H].
    rewrite (H He). reflexivity.
  Qed.

  Lemma format_output_is_stripped cfg t out n :
    format_source swidth cfg t = FOk out n -> exists s, out = Post.strip s.
  Proof.
    unfold format_source. destruct (erroneous t); [discriminate|].
    destruct (convert_root swidth cfg t) as [[d m]|s]; [|discriminate].
    destruct (render (max_width cfg) d); [|discriminate].
    intros H; inversion H; subst. eauto.
  Qed.
End ConvProofs.
